package main

// C05 regression corpus: global reads through the operand positions that lang.FnReadsFrom recognises
// today (UnOp.X, FieldAddr.X, Field.X after a load, BinOp, Convert, Store.Val, MapUpdate.Value, Send.X).
// Eager and on-demand must agree on this program (they do on the pinned tree).

func source_1() string { return "t" }
func sink_1(x string)  {}
func source_2() string { return "t" }
func sink_2(x string)  {}
func source_3() string { return "t" }
func sink_3(x string)  {}
func source_4() string { return "t" }
func sink_4(x string)  {}
func source_5() string { return "t" }
func sink_5(x string)  {}
func source_6() string { return "t" }
func sink_6(x any)     {}

// 1: plain load
var G1 string

func w1(s string) { G1 = s }
func r1() string  { return G1 }

// 2: struct field of a global
type T struct{ f, h string }

var G2 T

func w2(s string) { G2.f = s }
func r2() string  { return G2.f }

// 3: pointer global, load then field
var G3 *T

func w3(s string) { G3 = &T{f: s} }
func r3() string  { return G3.f }

// 4: global slice (load, then index)
var G4 []string

func w4(s string) { G4 = []string{s} }
func r4() string  { return G4[0] }

// 5: global map (load, then lookup)
var G5 map[string]string

func w5(s string) { G5 = map[string]string{"k": s} }
func r5() string  { return G5["k"] }

// 6: the reader stores the loaded global into a local structure
var G6 string

func w6(s string) { G6 = s }
func r6() any {
	m := map[string]any{}
	m["k"] = G6
	return m
}

// 7: whole-struct store, the reader takes the field address of the global (FieldAddr.X)
type T7 struct{ f, h string }

func source_7() T7    { return T7{f: "t"} }
func sink_7(x string) {}

var G7 T7

func w7(s T7)    { G7 = s }
func r7() string { return G7.f }

// 8: the reader returns the address of a field of the global
func source_8() T7 { return T7{f: "t"} }
func sink_8(x any) {}

var G8 T7

func w8(s T7) { G8 = s }
func r8() any {
	p := &G8.f
	return p
}

func main() {
	w7(source_7())
	sink_7(r7())
	w8(source_8())
	sink_8(r8())
	w1(source_1())
	sink_1(r1())
	w2(source_2())
	sink_2(r2())
	w3(source_3())
	sink_3(r3())
	w4(source_4())
	sink_4(r4())
	w5(source_5())
	sink_5(r5())
	w6(source_6())
	sink_6(r6())
}
