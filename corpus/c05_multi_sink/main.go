package main

// C05 regression corpus: ONE source reaching five sinks (and a second source reaching two more).
// With max-alarms = k the result must have at most k pairs, be a subset of the unlimited result and be non-empty.

func source_1() string { return "t" }
func source_2() string { return "t" }
func sink_1(x string)  {}
func sink_2(x string)  {}
func sink_3(x string)  {}
func sink_4(x string)  {}
func sink_5(x string)  {}
func sink_6(x string)  {}
func sink_7(x string)  {}

func id(s string) string { return s }

func main() {
	x := source_1()
	sink_1(x)
	sink_2(id(x))
	y := x + "a"
	sink_3(y)
	sink_4(id(id(y)))
	sink_5(x)
	z := source_2()
	sink_6(z)
	sink_7(id(z))
}
