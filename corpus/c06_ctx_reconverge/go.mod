module vprog

go 1.22
