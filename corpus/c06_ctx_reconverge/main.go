package main

// C06 regression corpus: two call chains from a source re-converge on a shared call site three levels up
// (main -> dispatch -> {viaA, viaB} -> fetch -> source_1()). The source is an entry point in BOTH calling
// contexts; only the viaA context reaches sink_1 and only the viaB context reaches sink_2. If the contexts of
// an entry point were de-duplicated on the outermost call node, which one survives would depend on map
// iteration order and one of the two flows would come and go between runs.

func source_1() string { return "t" }
func sink_1(x string)  {}
func sink_2(x string)  {}

func fetch() string { return source_1() }
func viaA() string  { return fetch() }
func viaB() string  { return fetch() }

func dispatch(k int) {
	a := viaA()
	b := viaB()
	if k > 0 {
		sink_1(a)
	} else {
		sink_2(b)
	}
}

func main() { dispatch(len("x")) }
