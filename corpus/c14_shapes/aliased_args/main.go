package main

// Regression shape (red-team round 2, C14-r2-m2; already caught by the twoholders scenarios): a call-site context in
// which a leaked object is reachable through two arguments; the callee accesses it through the second path.

import "sync"

type Item struct {
	val int
}

type Holder struct {
	item *Item
}

func reader(it *Item, out *int, wg *sync.WaitGroup) {
	*out = it.val
	wg.Done()
}

func refresh(h *Holder, it *Item) {
	if h.item != it {
		return
	}
	it.val = 0
}

func main() {
	var wg sync.WaitGroup
	wg.Add(1)
	it := &Item{val: 3}
	h := &Holder{item: it}
	res := 0
	go reader(it, &res, &wg)
	refresh(h, it)
	wg.Wait()
}
