package main

// Regression shape (red-team round 2, C14-r2-m1): a callee loads an object from a pointer parameter and leaks only
// the ADDRESS OF ONE FIELD of it to a goroutine; the caller then writes that field. The callee's summary must keep the
// Leaked field subnode of the Escaped load node (simplifySummary's subnode guard).

import "sync"

type Stats struct {
	hits  int
	bytes int
}

type Conn struct {
	id    int
	stats *Stats
}

func bump(counter *int, wg *sync.WaitGroup) {
	*counter = *counter + 1
	wg.Done()
}

func monitor(c *Conn, wg *sync.WaitGroup) {
	s := c.stats
	go bump(&s.hits, wg)
}

func main() {
	var wg sync.WaitGroup
	wg.Add(1)
	c := &Conn{id: 1, stats: &Stats{}}
	monitor(c, &wg)
	c.stats.hits = 10
	wg.Wait()
}
