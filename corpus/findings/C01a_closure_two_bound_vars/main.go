package main

// C01a (C01, C06): the visitor's `seen` key of a closure node ignores Status.TracingInfo (which bound
// variable is being traced into the closure). When two variables captured by the same closure are
// tainted by the same source in the same context, the closure node is visited for the first one only;
// the second visit (same key, different bound-variable index) is pruned, so the free variable of the
// second capture is never tainted inside the closure. Predicted from the Lean model (the decidable
// EntryBeforeExit hypothesis fails on closures with two bound variables), then confirmed:
// native run prints "tainted1" and "tainted2"; `argot taint` reports exactly one of the two sinks
// (which one varies between runs / configurations).

func source() string { return "tainted" }
func sink(x string)  { println(x) }

func main() {
	x := source()
	a := x + "1"
	b := x + "2"
	f := func() {
		sink(a)
		sink(b)
	}
	f()
}
