package main

// C01b (C01): with `field-sensitive: true` the visitor's access-path matching (addNext) only ever
// FILTERS by prefix; a path that was entered and left again (here: the element of the slice that packs
// the variadic arguments, read back by xs[len(xs)-1]) stays in the visitor node's AccessPaths, and the
// next edge that carries a relative path (the store into field f) no longer matches: the candidate is
// dropped and the flow is lost. Field-insensitive runs report it.
// Native run prints the tainted string; `argot taint` with field-sensitive: true reports no flow.

func source() string { return "tainted" }
func sink(x any)     { println(x.(S).f) }

func last(xs ...string) string { return xs[len(xs)-1] }

type S struct {
	c0 string
	c1 string
	f  string
}

func main() {
	v := source()
	w := last("k", v)
	s := S{f: w}
	sink(s)
}
