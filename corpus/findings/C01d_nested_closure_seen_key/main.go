package main

// C01d (C01): a generated program (µGo, thorough tier, seed 1, case 73) on which the DEFAULT
// configuration misses a flow: a closure returning a closure that returns the tainted string, passed
// by pointer through a variadic and an identity helper, then called twice. Same defect class as
// F14 / C01a: the `seen` key of the visitor ignores Prev / Status.TracingInfo. On the dumped linked
// graph the Lean model reports EntryBeforeExit=false, and the same traversal with the full key
// (theorem ideal_complete) DOES report the sink. Native run prints "tainted".

func source() string { return "tainted" }
func sink(x string)  { println(x) }

var g string

func wr(x string) { g = x }

func last(xs ...*func() func() string) *func() func() string { return xs[len(xs)-1] }

func id(a string, x *func() func() string) *func() func() string { return x }

func mk() func() func() string {
	v1 := source()
	wr(v1)
	v3 := g
	v5 := func() string { return v3 }
	v6 := func() func() string { return v5 }
	return v6
}

func main() {
	v7 := mk()
	v9 := &v7
	v11 := last(new(func() func() string), v9)
	v13 := id("k", v11)
	v14 := *v13
	v15 := v14()
	v16 := v15()
	sink(v16)
}
