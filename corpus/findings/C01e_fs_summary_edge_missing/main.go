package main

// C01e (C01, C08 layer): with `field-sensitive: true` this generated program (µGo, thorough tier, seed 1,
// case 77) loses the flow; field-insensitive runs report it. On the dumped linked graph the model run
// has LassoFree, EntryBeforeExit and no access-path cut, so by theorem taint_sound_of_flags the
// traversal explored EVERY valid path of the graph: the path is missing from the field-sensitive
// summary graph itself (intra-procedural layer: struct holding a closure, copied through a phi,
// stored in and loaded from a map in the callee, field read, call). Native run prints "tainted".

func source() string { return "tainted" }
func sink(x string)  { println(x) }

var W int

func cond(k int) bool { return (W>>uint(k))&1 == 0 }

type S struct {
	h  func() string
	c1 string
	c2 string
}

func main() {
	v1 := source()
	v2 := func() string { return v1 }
	v4 := S{h: v2}
	var v5 S
	if cond(0) {
		v5 = v4
	} else {
		v5 = S{h: func() string { return "k" }}
	}
	f(v5, "k")
}

func f(v7 S, a string) {
	v8 := map[string]S{}
	v8["k"] = v7
	v9 := v8["k"]
	v10 := v9.h
	v11 := v10()
	sink(v11)
}
