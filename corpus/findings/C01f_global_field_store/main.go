package main

// C01f (C01, C08 layer): a STORE into a field of a global struct (or an element of a global array) that
// is read in another function is missed in every configuration (eager / on-demand, field sensitivity on /
// off): the intra-procedural pass creates a global write node only for a store whose address is the
// global itself, not for a store through FieldAddr / IndexAddr of the global. Whole-struct stores
// (`cfg = tmp`) are reported. Found when the generator was extended to global struct fields.
// Native run prints "tainted" twice; `argot taint` reports no flow.

func source() string { return "tainted" }
func sink(x string)  { println(x) }

var cfg struct{ a, Name string }
var arr [2]string

func use()  { sink(cfg.Name) }
func use2() { sink(arr[1]) }

func main() {
	cfg.Name = source()
	arr[1] = source()
	use()
	use2()
}
