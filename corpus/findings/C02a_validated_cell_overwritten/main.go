package main

import "os"

func source() string         { return "tainted" }
func sink(s string)          { println(s) }
func validate(s string) bool { return len(s) < 100 }

type box struct{ f string }

// A: the validated memory cell is overwritten with source data between the check and the sink
func caseA() {
	p := new(string)
	*p = "harmless"
	x := source()
	if !validate(*p) {
		return
	}
	*p = x
	sink(*p)
}

// B: a struct is validated, then its field is overwritten
func caseB() {
	b := &box{f: "harmless"}
	x := source()
	if !validate(b.f) {
		return
	}
	b.f = x
	sink(b.f)
}

// C: control: same as A without the validator
func caseC() {
	p := new(string)
	*p = "harmless"
	x := source()
	if len(os.Args) > 5 {
		return
	}
	*p = x
	sink(*p)
}

func main() {
	caseA()
	caseB()
	caseC()
}
