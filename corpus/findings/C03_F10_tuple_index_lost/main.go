// F10: the in-edge map keeps ONE EdgeInfo per source node, so when two components of the same
// tuple call flow to one node the tuple index of the first edge is lost; the backward traversal
// then filters the other return value (addNext "tuple sensitivity") and never reaches its origin.
// Native run prints both markers at sink 1; `argot backtrace` reports only one of src1 / src2.
package main

func sink(id int, x string)            { println("K", id, x) }
func src1() string                     { return "#1#" }
func src2() string                     { return "#2#" }
func two(a, b string) (string, string) { return a, b }

func main() {
	a := src1()
	b := src2()
	p, q := two(a, b)
	sink(1, p+q)
}
