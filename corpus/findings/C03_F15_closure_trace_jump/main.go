// F15: the FreeVarNode case of the backward visitor uses the closure on top of ClosureTrace
// without checking that it is a closure of the free variable's own function. Backwards from
// sink(1, x): bound var x of A -> free var x in A's body (ClosureTrace=[A]) -> g() -> B() ->
// free var z in B's body, reached from inside with [A] still on top: the traversal jumps to bound
// variable #0 of A. The reported trace contains the step  freevar z (B) -> boundvar x (A), which
// is neither an in-edge nor an inter-procedural link: not a connected sequence of dataflow steps.
package main

func sink(id int, x string) { println("K", id, x) }
func src1() string          { return "#1#" }

func g() string {
	z := src1()
	B := func() string { return z }
	return B()
}

func main() {
	x := "a"
	A := func() { x = g() }
	A()
	sink(1, x)
}
