// F15 (second shape): the backtrace point sits in a method reached through two method values
// (two MakeClosure sites of the same wrapper (*S).show$bound). Backwards from sink(1, s.f) the
// traversal enters the wrapper's free variable from one closure (ClosureTrace=[that closure]),
// comes back to the parameter of show, goes to the wrapper again and, from inside, uses the closure
// still on top of ClosureTrace although the other MakeClosure site is meant: the reported traces
// contain steps  freevar s (wrapper) -> bound variable of the OTHER closure's site reached with the
// wrong context, i.e. consecutive nodes that are neither an in-edge nor an inter-procedural link.
package main

func sink(id int, x string) { println("K", id, x) }
func src1() string          { return "#1#" }
func src2() string          { return "#2#" }

type S struct{ f string }

func (s *S) show() { sink(1, s.f) }

func main() {
	s1 := &S{f: src1()}
	s2 := &S{f: src2()}
	f1 := s1.show
	f2 := s2.show
	f1()
	f2()
}
