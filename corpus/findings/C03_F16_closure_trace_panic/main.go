// F16: same defect as F15 with two captured variables in B: the index of B's second free
// variable is out of range for A's bound variables and backtrace.Analyze panics with
// "no bound variable matching free variable in main$1 at position 1" — no trace is reported for
// any backtrace point of the program, while src1 and src2 reach sink 1 natively.
package main

func sink(id int, x string) { println("K", id, x) }
func src1() string          { return "#1#" }
func src2() string          { return "#2#" }

func g() string {
	z := src1()
	w := src2()
	B := func() string { return w + z }
	return B()
}

func main() {
	x := "a"
	A := func() { x = g() }
	A()
	sink(1, x)
}
