// F17: the `seen` key of a call node ignores which tuple component the traversal came for
// (prevEdgeInfos of the previous argument): the call `two(..)` is expanded once, for the index
// of whichever argument reached it first; the second argument finds the key already seen and is
// reported as a trace end. One of src1 / src2 (which one depends on map iteration order) is in
// no trace although both reach sink 1 natively.
package main

func sink(id int, x string)            { println("K", id, x) }
func src1() string                     { return "#1#" }
func src2() string                     { return "#2#" }
func id(x string) string               { return x }
func two(a, b string) (string, string) { return a, b }

func main() {
	p, q := two(src1(), src2())
	u := id(p)
	v := id(q)
	sink(1, u+v)
}
