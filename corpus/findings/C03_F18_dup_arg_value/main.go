// F18: summary-graph construction finds the argument node of a call by SSA value
// (CallNode.FindArg), so when the same value is passed at two positions only the FIRST argument
// node gets the incoming edge. Backwards from sink(1, v2): two.return.0 <- parameter q <- @arg 1,
// which has no in-edge: the trace ends there and src1 is in no trace (natively "#1#" reaches sink 1).
package main

func sink(id int, x string)            { println("K", id, x) }
func src1() string                     { return "#1#" }
func two(p, q string) (string, string) { return q, p }

func main() {
	v1 := src1()
	v2, _ := two(v1, v1)
	sink(1, v2)
}
