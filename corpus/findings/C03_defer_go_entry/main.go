// Known gap (DESIGN C03/C04): a deferred or `go` call to a backtrace point is not an entry point
// (scanEntryPoints tests callSite.Value(), which is nil for *ssa.Defer / *ssa.Go). The deferred
// sink(1, ·) receives "#1#" natively; no trace is reported for it. sink 2 (plain call) is analysed.
package main

func sink(id int, x string) { println("K", id, x) }
func src1() string          { return "#1#" }
func src2() string          { return "#2#" }

func f() {
	defer sink(1, src1())
	sink(2, src2())
}

func main() {
	f()
}
