module vmod

go 1.22
