package lib

type Getter interface{ Get() string }
type Putter interface{ Put(s string) }

type G struct{}

func (g *G) Get() string { return "g" }

type P struct{}

func (p *P) Put(s string) { println(s) }

func Fetch() string { return "fetched" }

func Store(s string) { println(s) }

type Rec struct{ Secret string }
