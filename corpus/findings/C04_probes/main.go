package main

import "vmod/lib"

var sel int

func source() string  { return "tainted" }
func source2() string { return "tainted2" }
func other() string   { return "clean" }
func never() string   { return "never called" }
func sink(s string)   { println(s) }
func sink2(s string)  { println(s) }
func sinkA(s string)  { println(s) }
func other2(s string) { println(len(s)) }

type T struct{ Secret, Out string }

func (t *T) Src() string  { return "m" }
func (t *T) Snk(s string) { println(s) }

type L struct{}

func (l *L) Get() string  { return "l" }
func (l *L) Put(s string) { println(s) }

// PutAll is not a method of lib.Putter.
func (l *L) PutAll(s string) { println(s, s) }

func getter() lib.Getter {
	if sel > 0 {
		return &lib.G{}
	}
	return &L{}
}

func putter() lib.Putter {
	if sel > 0 {
		return &lib.P{}
	}
	return &L{}
}

// ---- sources by call form (the data returned by the call reaches sink)

func a1() {
	x := source()
	sink(x)
}

func a2() {
	t := &T{}
	x := t.Src()
	sink(x)
}

func a3() {
	g := getter()
	x := g.Get()
	sink(x)
}

func a4() {
	f := source
	if sel > 1 {
		f = other
	}
	x := f()
	sink(x)
}

func a5() {
	t := &T{}
	m := t.Src
	x := m()
	sink(x)
}

func a6() {
	t := &T{}
	x := (*T).Src(t)
	sink(x)
}

func a7() {
	func() {
		x := source()
		sink(x)
	}()
}

func a8() {
	x := lib.Fetch()
	sink(x)
}

func a9() {
	g := getter()
	m := g.Get
	x := m()
	sink(x)
}

// ---- sinks / backtrace points by call form and call kind (data from source reaches the call)

func b1() {
	x := source2()
	sink2(x)
}

func b2() {
	x := source2()
	go sink2(x)
}

func b3() {
	x := source2()
	defer sink2(x)
}

func b4() {
	x := source2()
	t := &T{}
	t.Snk(x)
}

func b5() {
	x := source2()
	p := putter()
	p.Put(x)
}

func b6() {
	x := source2()
	f := sink2
	if sel > 1 {
		f = other2
	}
	f(x)
}

func b7() {
	x := source2()
	t := &T{}
	m := t.Snk
	m(x)
}

func b8() {
	x := source2()
	(*T).Snk(&T{}, x)
}

func b9() {
	x := source2()
	func() {
		sink2(x)
	}()
}

func b10() {
	x := source2()
	p := putter()
	defer p.Put(x)
}

func b11() {
	x := source2()
	lib.Store(x)
}

func b12() {
	x := source2()
	l := &L{}
	l.Put(x)
}

func b13() {
	x := source2()
	l := &L{}
	l.PutAll(x)
}

// ---- locations

func e1() {
	r := &lib.Rec{Secret: "s"}
	x := r.Secret
	sink(x)
}

func e3() {
	t := &T{Secret: "s"}
	x := t.Secret
	sink(x)
}

func main() {
	a1()
	a2()
	a3()
	a4()
	a5()
	a6()
	a7()
	a8()
	a9()
	b1()
	b2()
	b3()
	b4()
	b5()
	b6()
	b7()
	b8()
	b9()
	b10()
	b11()
	b12()
	b13()
	e1()
	e3()
	_ = never
	_ = sinkA
}
