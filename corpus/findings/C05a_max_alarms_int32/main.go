package main

import "fmt"

func source() string { return "tainted" }
func sink(x any)     { fmt.Println(x) }

func main() {
	x := source()
	sink(x)
}
