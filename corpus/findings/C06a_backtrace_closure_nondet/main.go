package main

func source_31() string { return "@S31@" }
func sink_31(x []byte)  {}

func case_31() {
	v1 := source_31()
	v2 := []byte(v1)
	defer c31_f3(v2)
}

func c31_f3(v4 []byte) {
	var v5 []byte
	v6 := func() { v5 = v4 }
	v6()
	sink_31(v5)
}

func main() { case_31() }
