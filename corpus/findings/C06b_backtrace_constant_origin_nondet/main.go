package main

// ---- case 29: map-wrap descend call-id multi-ret ascend call-id
func source_29() string { return "@S29@" }

func c29_h5(a string, x map[string]string) map[string]string { return x }

func c29_h7(x map[string]string) (map[string]string, string) { return x, "k" }

func c29_h10(a string, x map[string]string) map[string]string { return x }

func case_29() {
	v1 := source_29()
	v2 := map[string]string{}
	v2["k"] = v1
	v9 := c29_f3("k", v2)
	v11 := c29_h10("k", v9)
	sink_29(v11)
}

func c29_f3(a string, v4 map[string]string) map[string]string {
	v6 := c29_h5("k", v4)
	v8, _ := c29_h7(v6)
	return v8
}


func sink_29(x map[string]string) {}

func main() { case_29() }
