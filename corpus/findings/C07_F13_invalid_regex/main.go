package main

// F13 (C04/C07): run with badregex.yaml — the sink pattern `sink(` is not a valid regular expression.
// config.Load prints a warning and keeps a nil *regexp.Regexp; the first match dereferences it
// (config.(*CodeIdentifier).equalOnNonEmptyFields) inside a worker goroutine and `argot taint` dies with a Go
// panic instead of returning an error. Any well-typed program will do.

func source() string { return "tainted" }
func sink(s string)   { println(s) }

func f1(s string) string { return rec1(s, 2) }
func rec1(s string, n int) string {
	if n <= 0 {
		return s
	}
	return rec1(s+"r", n-1) + rec1(s, n-2)
}

func main() {
	x0 := source()
	x1 := f1(x0)
	sink(x1)
}
