package main

// C07a (C07): an interface method call in a program that contains no implementation of any interface.
// ResolveCallee finds no callee in the pointer call graph, ImplementationsByType is empty, returns an error, and
// (*SummaryGraph).addCallInstr panics "critical information missing in analysis" inside a worker goroutine of the
// intra-procedural pass: `argot taint` and `argot backtrace` die with a Go panic instead of returning.
// The program is well typed and runs (prints nothing).

func source() string { return "tainted" }
func sink(s string)   { println(s) }

func main() {
	var x any = source()
	if v, ok := x.(interface{ Str() string }); ok {
		sink(v.Str())
	}
}
