module c07p

go 1.23
