package main

// C07b (C07): range-over-func (Go 1.23). The loop body becomes a synthetic closure whose free variables are
// reached with a closure trace that belongs to another closure (`seq$1`): taint.(*Visitor).Visit panics
// "no bound variable matching free variable in c07p.seq$1 at position 1" (dataflow_visitor.go, FreeVarNode case).
// go.mod must say `go 1.23`. (The interface value only makes sure that the program has an interface
// implementation, otherwise finding C07a fires first.)

func source() string { return "tainted" }
func sink(s string)   { println(s) }

type T struct{}

func (T) Str() string { return "" }

type I interface{ Str() string }

func seq(s string) func(yield func(int, string) bool) {
	return func(yield func(int, string) bool) {
		for i := 0; i < 3; i++ {
			if !yield(i, s) {
				return
			}
		}
	}
}

func main() {
	var i I = T{}
	out := i.Str()
	for _, x := range seq(source()) {
		out += x
	}
	sink(out)
}
