package main

// C07c (C07): nested closures that write a captured variable, reached through a function value and a map of
// function values. The taint visitor arrives at a free variable from inside its closure with a closure trace
// but WITHOUT a call trace and evaluates `cur.Trace.Parent` on a nil *NodeTree (dataflow_visitor.go:533):
// nil pointer dereference, `argot taint` dies under every configuration (default, escape, on-demand,
// field-sensitive). Reduced automatically (line granularity) from a generated program.
func source() string { return "tainted" }
func sink(s string)   { println(s) }
var glob1 func(string) string
var tbl1 = map[string]func(string) string{"id": func(s string) string { return s }}
type holder1 struct{ fn func(string) func(string) string }
func f1(s string) string {
	var fs []func() string
	for i := 0; i < 3; i++ {
		fs = append(fs, func() string { return s + string(rune('a'+i)) })
	}
	acc := ""
	add := func(x string) func(string) func() string {
		return func(y string) func() string {
			return func() string { acc += x + y; return acc }
		}
	}
	glob1 = func(x string) string { return add(x)(s)() }
	h := holder1{fn: func(a string) func(string) string { return func(b string) string { return a + b + glob1(a) } }}
	tbl1["h"] = h.fn(s)
	out := ""
	for _, f := range fs {
		out += f()
	}
	cnt := 0
	counter := func() int { cnt++; return cnt }
	_ = counter() + counter()
	return out + tbl1["id"](acc)
}
func main() {
	x0 := source()
	x1 := f1(x0)
	fv1 := f1
	sink(fv1(x0))
	sink(x1)
}
