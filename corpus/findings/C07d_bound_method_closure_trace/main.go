package main

// C07d (C07): a slice holding two bound-method closures and an ordinary closure with two free variables, all
// called through one call site. The backtrace visitor reaches the free variable #1 of the ordinary closure
// while the closure trace on top belongs to `(getter).Get$bound` (one bound variable) and panics
// "no bound variable matching free variable in (c07p.getter).Get$bound at position 1" (backtrace.go, FreeVarNode
// case): `argot backtrace` dies instead of returning. `argot taint` returns normally on this program.

func source() string { return "tainted" }
func sink(s string)   { println(s) }

type mv struct{ s string }

func (m mv) Get() string   { return m.s }
func (m *mv) Set(s string) { m.s = s }

type getter interface{ Get() string }

func apply(f func() string) string { return f() }

func main() {
	m := &mv{}
	m.Set(source())
	var g getter = m
	iexpr := getter.Get
	fs := []func() string{m.Get, g.Get, func() string { return iexpr(g) }}
	out := ""
	for _, f := range fs {
		out += apply(f)
	}
	sink(out)
}
