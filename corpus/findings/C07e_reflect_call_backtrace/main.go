package main

// C07e (C07): a call through reflect.Value.Call on the path back from a backtrace point.
// backtrace.(*Visitor).visit panics "node's callee summary is nil: (SA)call: (reflect.Value).Call(...)"
// (backtrace.go, CallNode case): `argot backtrace` dies instead of returning. `argot taint` returns normally.

import "reflect"

func source() string { return "tainted" }
func sink(s string)   { println(s) }

type S struct{}

func (S) Up(s string) string { return s + "u" }

func main() {
	m := reflect.ValueOf(S{}).MethodByName("Up")
	out := m.Call([]reflect.Value{reflect.ValueOf(source())})
	sink(out[0].String())
}
