package main

// C07f = C01c (found and reduced by the C01 check; same input, kept here so that the C07 check runs it first):
// C01c (C01, C07): with `field-sensitive: true` the traversal does not terminate on this program.
// VisitorNode.Key() contains the AccessPaths list; addNext appends one output path per matching
// (input path, current path) pair without de-duplication, so along a cycle of edges that carry
// relative paths (here: the named result written by a deferred closure, captured again by a second
// closure) the list grows at every round, the key is always new, the `seen` test never fires, and the
// visitor allocates until the machine runs out of memory (observed: > 15 min CPU, 20 GB).
// Predicted while trying to prove termination of the Lean model (the key set is only finite on
// field-insensitive graphs), then hit by the generator (seed 2) and reduced.
// Native run prints "tainted"; field-insensitive runs report the flow; `argot taint` with
// field-sensitive: true never returns.

func source() string { return "tainted" }
func sink(x []byte)  { println(string(x)) }

func h(x []byte) (r []byte) {
	defer func() { r = x }()
	return []byte("k")
}

func main() {
	a := source()
	b := []byte(a)
	c := h(b)
	f := func() []byte { return c }
	d := f()
	sink(d)
}
