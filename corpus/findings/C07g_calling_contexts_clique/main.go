package main

// C07g (C07): run with nolimit.yaml (`max-entrypoint-context-size: -1`; any value that is large compared with the
// default 5 behaves the same). dataflow.GetAllCallingContexts enumerates every calling context made of pairwise
// DISTINCT CALL NODES (isRecursive compares call nodes, not functions) of the source call; in a clique of six
// mutually recursive functions (30 call nodes) that is every edge-distinct trail of K6 ending in `main`:
// `argot taint` does not return within 100 s and its memory grows steadily (477 MB after 100 s).
// The Lean model (theorem ctx_terminates) bounds the enumeration by a(n) = Σ n!/(n-k)! and evaluates to 23 dequeued
// stacks for three functions, 2415 for four, more than 10^6 for five. With the default limit the same program is
// analysed in well under a second.

func source() string { return "tainted" }
func sink(s string)   { println(s) }

func c0(s string, n int) string {
	if n <= 0 {
		return s + source()
	}
	return c1(s, n-1) + c2(s, n-1) + c3(s, n-1) + c4(s, n-1) + c5(s, n-1)
}

func c1(s string, n int) string {
	if n <= 0 {
		return s + source()
	}
	return c0(s, n-1) + c2(s, n-1) + c3(s, n-1) + c4(s, n-1) + c5(s, n-1)
}

func c2(s string, n int) string {
	if n <= 0 {
		return s + source()
	}
	return c0(s, n-1) + c1(s, n-1) + c3(s, n-1) + c4(s, n-1) + c5(s, n-1)
}

func c3(s string, n int) string {
	if n <= 0 {
		return s + source()
	}
	return c0(s, n-1) + c1(s, n-1) + c2(s, n-1) + c4(s, n-1) + c5(s, n-1)
}

func c4(s string, n int) string {
	if n <= 0 {
		return s + source()
	}
	return c0(s, n-1) + c1(s, n-1) + c2(s, n-1) + c3(s, n-1) + c5(s, n-1)
}

func c5(s string, n int) string {
	if n <= 0 {
		return s + source()
	}
	return c0(s, n-1) + c1(s, n-1) + c2(s, n-1) + c3(s, n-1) + c4(s, n-1)
}

func main() {
	sink(c0("a", 3))
}
