package main

// C07h (C07): `argot backtrace` (backtrace point: sink) does not return within 400 s on this 44-line program
// (88 SSA instructions; one CPU busy all the time). Bound-method closures (`m.Get`, `g.Get`, `m.Chain(..).Get`) and
// an ordinary closure are called through one call site, and f1 itself is reached through a function value, a
// goroutine and directly. Up to commit 7ab5f0c the same input ended quickly with the panic of finding C07d
// ("no bound variable matching free variable in (getter).Get$bound"); since that repair the visitor follows the
// free variables without closure context to every make-closure site and the number of (node, trace) keys
// explodes. A variant of the program without the `go fv1(x1)` / `fv1 := f1` lines finishes in 17 s.
// `argot taint` returns in well under a second.
// Commit 7ab5f0c was reverted (63e2416): on the current tree this input ends again with the panic of C07d; it is
// kept as a regression case for the blow-up.

func source() string { return "tainted" }
func sink(s string)   { println(s) }

type mv1 struct{ s string }

func (m mv1) Get() string           { return m.s }
func (m *mv1) Set(s string)         { m.s = s }
func (m *mv1) Chain(s string) *mv1  { m.s += s; return m }

type getter1 interface{ Get() string }

func apply1(f func() string) string { return f() }

func f1(s string) string {
	m := &mv1{}
	set := m.Set
	set(s)
	get := m.Get
	expr := mv1.Get
	pexpr := (*mv1).Set
	pexpr(m, expr(*m)+"e")
	var g getter1 = m
	ig := g.Get
	iexpr := getter1.Get
	fs := []func() string{get, ig, m.Chain("c").Chain(s).Get, func() string { return iexpr(g) }}
	out := ""
	for _, f := range fs {
		out += apply1(f)
	}
	defer m.Set("z")
	go m.Chain("x")
	return out
}

func main() {
	x0 := source()
	x1 := f1(x0)
	fv1 := f1
	go fv1(x1)
	sink(fv1(x0))
	sink(x1)
}
