package main

// C07i (C07): same program as C07e, analysed by `argot backtrace` with `summarize-on-demand: true` (ondemand.yaml).
// The visitor asks for the summary of the callee of `(reflect.Value).Call` on demand (backtrace.go:496 ->
// dataflow.BuildSummary -> RunIntraProcedural) and the process dies with a nil pointer dereference — at one of two
// places depending on the run (map iteration order): (*IntraAnalysisState).captureSyntheticNode
// (intra_procedural_monotone_analysis.go:138, `state.shouldTrack` is nil for summaries built on demand) or
// RunIntraProcedural (intra_procedural.go:91). Found by the thorough tier (std-importing programs x on-demand).

import "reflect"

func source() string { return "tainted" }
func sink(s string)   { println(s) }

type S struct{}

func (S) Up(s string) string { return s + "u" }

func main() {
	m := reflect.ValueOf(S{}).MethodByName("Up")
	out := m.Call([]reflect.Value{reflect.ValueOf(source())})
	sink(out[0].String())
}
