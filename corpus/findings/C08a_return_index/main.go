package main

// C08a (C08, C01): SummaryGraph.addReturnEdge guards with `tupleIndex > len(g.Returns)`, and g.Returns is
//       keyed by return INSTRUCTION: in a function with k return statements every edge into result
//       index > k is dropped (one return statement, three results: result #2 has no incoming edge).
// Native run prints the tainted string three times. At the pinned commit `argot taint` missed the first
// flow; repaired by f02a8b5 — kept as a regression case: every line marked `reported` must be reported.

func source() string { return "tainted" }
func sink(s string)  { println(s) }

func three(x string) (int, int, string) { return 0, 1, x }
func two(x string) (int, string)        { return 0, x }

func threeTwoReturns(x string, c bool) (int, int, string) {
	if c {
		return 1, 1, x
	}
	return 0, 1, x
}

func main() {
	_, _, s := three(source())
	sink(s) // reported (was missed: C08a, repaired by f02a8b5)
	_, t := two(source())
	sink(t) // reported
	_, _, u := threeTwoReturns(source(), len(t) > 0)
	sink(u) // reported
}
