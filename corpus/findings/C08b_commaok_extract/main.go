package main

// C08b (C08, C01): DoExtract filters marks by tuple index for every tuple that is not a
//       Next/Select/Lookup, i.e. also for the (value, ok) tuples of comma-ok type assertions and
//       receives. A mark of call result #k (k != 0) therefore never passes `extract #0` of such a
//       tuple: `_, e := f(); s, ok := e.(string); sink(s)` loses the flow.
// Native run prints the tainted string three times; `argot taint` reports only the `reported` line.

func source2() (int, any)          { return 0, "tainted" }
func source1() any                 { return "tainted" }
func sourceCh() (int, chan string) { c := make(chan string, 1); c <- "tainted"; return 0, c }
func sink(s string)                { println(s) }

func main() {
	_, e := source2()
	s, ok := e.(string)
	if ok {
		sink(s) // missed (C08b)
	}
	e1 := source1()
	s1, ok1 := e1.(string)
	if ok1 {
		sink(s1) // reported
	}
	_, c := sourceCh()
	s2, ok2 := <-c
	if ok2 {
		sink(s2) // missed (C08b)
	}
}
