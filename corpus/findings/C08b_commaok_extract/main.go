package main

// C08b (C08, C01): DoExtract filters marks by tuple index for every tuple that is not a
//       Next/Select/Lookup, i.e. also for the (value, ok) tuples of comma-ok type assertions and
//       receives. A mark of call result #k (k != 0) therefore never passes `extract #0` of such a
//       tuple: `_, e := f(); s, ok := e.(string); sink(s)` loses the flow.
// Native run prints the tainted string three times. At the pinned commit `argot taint` reported only the
// middle flow; repaired by 327a23f — kept as a regression case: every `reported` line must be reported.

func source2() (int, any)          { return 0, "tainted" }
func source1() any                 { return "tainted" }
func sourceCh() (int, chan string) { c := make(chan string, 1); c <- "tainted"; return 0, c }
func sink(s string)                { println(s) }

func main() {
	_, e := source2()
	s, ok := e.(string)
	if ok {
		sink(s) // reported (was missed: C08b, repaired by 327a23f)
	}
	e1 := source1()
	s1, ok1 := e1.(string)
	if ok1 {
		sink(s1) // reported
	}
	_, c := sourceCh()
	s2, ok2 := <-c
	if ok2 {
		sink(s2) // reported (was missed: C08b, repaired by 327a23f)
	}
}
