package main

// C08c (C08, C01; found independently by the C03 engineer as F18): SummaryGraph.addCallArgEdge locates
//       the argument node with CallNode.FindArg(value), which returns the FIRST argument node holding
//       that SSA value: when one value is passed at two positions of a call, the later position never
//       gets an incoming edge, so a callee that only propagates its second parameter loses the flow.
// Native run prints the tainted string three times. At the pinned commit the first flow was missed;
// repaired by e3a7fa7 — kept as a regression case: every `reported` line must be reported.

func source() string { return "tainted" }
func sink(s string)  { println(s) }

func second(p, q string) string { return q }
func first(p, q string) string  { return p }

func main() {
	x := source()
	sink(second(x, x)) // reported (was missed: C08c, repaired by e3a7fa7)
	sink(first(x, x)) // reported
	sink(second("a", x)) // reported
}
