package main

// Observation while checking "the recover block is never visited" (C08 item 3; belongs to C01, not C08):
// the function summaries of viaNormal / viaRecover / setInDefer all satisfy Intra.closed (the flows go
// through the named-result cell, i.e. through memory, and the pass already warns that `recover` makes
// the analysis unsound), but END TO END `argot taint` reports only the first of the three flows although
// the native run prints the tainted string three times. With `defer nop()` instead of the recovering
// closure, the flow through viaNormal is reported.

func source() string { return "tainted" }
func sink(s string)  { println(s) }

func viaRecover(x string) (r string) {
	defer func() { recover() }()
	r = x
	panic("boom")
}

func viaNormal(x string) (r string) {
	defer func() { recover() }()
	r = x
	return
}

func setInDefer() (r string) {
	defer func() {
		recover()
		r = source()
	}()
	panic("boom")
}

func main() {
	sink(viaRecover(source())) // reported
	sink(viaNormal(source()))  // missed (documented-unsound feature: recover)
	sink(setInDefer())         // missed (documented-unsound feature: recover)
}
