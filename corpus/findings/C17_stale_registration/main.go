// C17 — stale call-site registration ("... registered among that summary's call sites and vice versa").
//
// fmt.Sprintf has a predefined summary. Its SummaryGraph is first created from its body (NewSummaryGraph creates a
// CallNode for every call instruction: newPrinter(), (*pp).doPrintf, (*pp).free) and left unbuilt. In
// InterProceduralFlowGraph.BuildGraph STEP 3 the summaries are linked in map order:
//
//   - when fmt.Sprintf's own summary is visited BEFORE the summary of a caller of fmt.Sprintf, its call nodes are
//     linked (node.CalleeSummary = S) and registered (S.Callsites[site] = node) in the summaries of newPrinter,
//     doPrintf, free;
//   - when main (a caller) is visited, resolveCalleeSummary finds fmt.Sprintf unconstructed and pre-summarized and
//     calls PopulateGraphFromSummary, which resets  g.Callees = map[...]{}  ("clean callees for a predefined summary").
//
// The call nodes are no longer nodes of fmt.Sprintf's summary (Callees is empty, ForAllNodes does not enumerate them,
// NewPredefinedSummary documents "It will not include any call node"), but they stay registered in
// (*fmt.pp).doPrintf.Callsites etc.: the callee -> caller direction (Callsites) keeps a link whose caller -> callee
// direction (Callees) is gone. Backward steps from a parameter of doPrintf (backtrace.Visitor, GetAllCallingContexts,
// scanEntryPoints) reach the orphaned call node and its arguments; no forward traversal can reach them. Whether it
// happens depends on the map iteration order (about half of the pre-summarized functions with a body on each run).
//
// Observed by harness/cmd/c17 (oracle field orphanSite, evidence callsite_converse_violations): e.g.
//   fmt.Sprintf (pre-summarized) calls (*fmt.pp).doPrintf at (*pp).doPrintf(t0, format, a)
// Replay: go run -tags verif ./cmd/c17 (first corpus input), or argot taint on this file with any configuration and
// a dump of Summaries[(*fmt.pp).doPrintf].Callsites vs Summaries[fmt.Sprintf].Callees after BuildGraph.
// Proposed repair: fixes/C17_unregister_presummarized_callees.patch
package main

import "fmt"

func source_1() string { return "tainted" }
func sink_1(x string)  {}

func main() {
	s := fmt.Sprintf("%s", source_1())
	sink_1(s)
}
