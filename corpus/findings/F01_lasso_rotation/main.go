package main

// F1 (C01, C03): the lasso cut-off drops a flow that needs the same call site twice on the stack.
// Native run prints "tainted" at the sink on the third activation; `argot taint` reports no flow.

func source() string { return "tainted" }
func sink(s string)  { println(s) }

var depth = 0

func f(a, b, c string) {
	sink(c)
	depth++
	if depth < 5 {
		f(c, a, b)
	}
}

func main() {
	x := source()
	f(x, "b", "c")
}
