package main

// F2 (C01, C08): builtins are recognised by Value.Name(): a user function named like a builtin
//                (clear, close, delete, print, println, cap, recover, ...) loses its flow.
// F3 (C01, C08): min/max with a number of operands other than 2 are declared handled but not transferred.
// Native run prints the tainted string three times; at the pinned commit `argot taint` reported only the
// `real` flow. Repaired by a4d0e93 (F2) and 698a6c8 (F3) — kept as a regression case.

func source() string { return "tainted" }
func sink(s string)  { println(s) }

func clear(s string) string { return s }
func real(s string) string  { return s + "!" }

func main() {
	x := source()
	y := min(x, "zzz", "yyy")
	sink(y) // reported (was missed: F3, repaired by 698a6c8)
	z := clear(source())
	sink(z) // reported (was missed: F2, repaired by a4d0e93)
	w := real(source())
	sink(w) // reported
}
