package main

// F2 (C01, C08): builtins are recognised by Value.Name(): a user function named like a builtin
//                (clear, close, delete, print, println, cap, recover, ...) loses its flow.
// F3 (C01, C08): min/max with a number of operands other than 2 are declared handled but not transferred.
// Native run prints the tainted string three times; `argot taint` reports only the `real` flow.

func source() string { return "tainted" }
func sink(s string)  { println(s) }

func clear(s string) string { return s }
func real(s string) string  { return s + "!" }

func main() {
	x := source()
	y := min(x, "zzz", "yyy")
	sink(y) // missed (F3)
	z := clear(source())
	sink(z) // missed (F2)
	w := real(source())
	sink(w) // reported
}
