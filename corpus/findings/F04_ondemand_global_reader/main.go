package main

// F4 (C05): on-demand summarisation decides which functions to summarise at a global write node with
// lang.FnReadsFrom, a hand-written type switch over a few instruction kinds. `r2` reads the global G2
// through a call argument (`rd(&G2)`: the global is an operand of the Call instruction), which the
// switch does not recognise: with summarize-on-demand the flow source_2 -> sink_2 is lost, the eager
// analysis reports it. source_4 -> sink_4 (plain load of a global) is the control, reported in both modes.

func source_2() string { return "t" }
func sink_2(x string)  {}
func source_4() string { return "t" }
func sink_4(x string)  {}

var G2 string

func w2(s string)         { G2 = s }
func rd(p *string) string { return *p }
func r2() string          { return rd(&G2) }

var G4 string

func w4(s string) { G4 = s }
func r4() string  { return G4 }

func main() {
	w2(source_2())
	sink_2(r2())
	w4(source_4())
	sink_4(r4())
}
