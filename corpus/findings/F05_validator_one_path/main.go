package main

import "os"

// (this file: stand-alone replay for argot taint; case.go.txt is the form used by ./check C02)
// F5 (C02): validator conditions are collected along ONE path between two blocks.
// Run with six extra arguments: the bypass arm is taken and "tainted" reaches the sink;
// `argot taint` (validators: ^validate$) reports no flow.

func source() string         { return "tainted" }
func sink(s string)          { println(s) }
func validate(s string) bool { return len(s) > 100 }

func main() {
	x := source()
	if len(os.Args) > 5 {
		println("bypass")
	} else {
		if validate(x) {
			println("ok")
		} else {
			return
		}
	}
	sink(x)
}
