//go:build !gt

// Analysis variant: sinks are empty, main calls every case once.
package main

func sink_1(x []byte)                       {}
func sink_2(x map[string]string)            {}
func sink_3(x string)                       {}
func sink_4(x map[string]map[string]string) {}
func sink_5(x any)                          {}
func sink_6(x any)                          {}
func sink_7(x any)                          {}
func sink_8(x any)                          {}
func sink_9(x any)                          {}
func sink_10(x string)                      {}
func sink_11(x any)                         {}
func sink_12(x any)                         {}
func sink_13(x any)                         {}
func sink_14(x any)                         {}
func sink_15(x any)                         {}
func sink_16(x any)                         {}
func sink_17(x string)                      {}
func sink_18(x any)                         {}
func sink_19(x any)                         {}
func sink_20(x any)                         {}
func sink_21(x any)                         {}
func sink_22(x map[string]*[][]byte)        {}
func sink_23(x any)                         {}
func sink_24(x c24_S4)                      {}
func sink_25(x string)                      {}
func sink_26(x any)                         {}
func sink_27(x any)                         {}
func sink_28(x any)                         {}
func sink_29(x any)                         {}
func sink_30(x any)                         {}
func sink_31(x string)                      {}
func sink_32(x c32_S2)                      {}
func sink_33(x any)                         {}
func sink_34(x any)                         {}
func sink_35(x any)                         {}
func sink_36(x map[string][]byte)           {}
func sink_37(x map[string]string)           {}
func sink_38(x any)                         {}
func sink_39(x any)                         {}
func sink_40(x any)                         {}
func sink_41(x any)                         {}
func sink_42(x any)                         {}
func sink_43(x []byte)                      {}
func sink_44(x c44_S4)                      {}
func sink_45(x any)                         {}
func sink_46(x string)                      {}
func sink_47(x any)                         {}
func sink_48(x any)                         {}
func sink_49(x map[string]bool)             {}
func sink_50(x any)                         {}
func sink_51(x any)                         {}
func sink_52(x any)                         {}
func sink_53(x any)                         {}
func sink_54(x any)                         {}
func sink_55(x any)                         {}
func sink_56(x map[string]*[]byte)          {}
func sink_57(x any)                         {}
func sink_58(x string)                      {}
func sink_59(x any)                         {}
func sink_60(x string)                      {}

func main() {
	case_1()
	case_2()
	case_3()
	case_4()
	case_5()
	case_6()
	case_7()
	case_8()
	case_9()
	case_10()
	case_11()
	case_12()
	case_13()
	case_14()
	case_15()
	case_16()
	case_17()
	case_18()
	case_19()
	case_20()
	case_21()
	case_22()
	case_23()
	case_24()
	case_25()
	case_26()
	case_27()
	case_28()
	case_29()
	case_30()
	case_31()
	case_32()
	case_33()
	case_34()
	case_35()
	case_36()
	case_37()
	case_38()
	case_39()
	case_40()
	case_41()
	case_42()
	case_43()
	case_44()
	case_45()
	case_46()
	case_47()
	case_48()
	case_49()
	case_50()
	case_51()
	case_52()
	case_53()
	case_54()
	case_55()
	case_56()
	case_57()
	case_58()
	case_59()
	case_60()
}
