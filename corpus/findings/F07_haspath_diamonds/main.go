package main

// F7 (C07): lang.HasPathTo marks blocks visited on dequeue; a chain of n if/else diamonds costs 2^n.
// 26 diamonds: `argot taint` does not finish in 120 s.

func source() string { return "t" }
func sink(s string)  { println(s) }
func g(k int, s string) string {
	if k > 0 {
		s = s + "a"
	} else {
		s = s + "b"
	}
	if k > 1 {
		s = s + "a"
	} else {
		s = s + "b"
	}
	if k > 2 {
		s = s + "a"
	} else {
		s = s + "b"
	}
	if k > 3 {
		s = s + "a"
	} else {
		s = s + "b"
	}
	if k > 4 {
		s = s + "a"
	} else {
		s = s + "b"
	}
	if k > 5 {
		s = s + "a"
	} else {
		s = s + "b"
	}
	if k > 6 {
		s = s + "a"
	} else {
		s = s + "b"
	}
	if k > 7 {
		s = s + "a"
	} else {
		s = s + "b"
	}
	if k > 8 {
		s = s + "a"
	} else {
		s = s + "b"
	}
	if k > 9 {
		s = s + "a"
	} else {
		s = s + "b"
	}
	if k > 10 {
		s = s + "a"
	} else {
		s = s + "b"
	}
	if k > 11 {
		s = s + "a"
	} else {
		s = s + "b"
	}
	if k > 12 {
		s = s + "a"
	} else {
		s = s + "b"
	}
	if k > 13 {
		s = s + "a"
	} else {
		s = s + "b"
	}
	if k > 14 {
		s = s + "a"
	} else {
		s = s + "b"
	}
	if k > 15 {
		s = s + "a"
	} else {
		s = s + "b"
	}
	if k > 16 {
		s = s + "a"
	} else {
		s = s + "b"
	}
	if k > 17 {
		s = s + "a"
	} else {
		s = s + "b"
	}
	if k > 18 {
		s = s + "a"
	} else {
		s = s + "b"
	}
	if k > 19 {
		s = s + "a"
	} else {
		s = s + "b"
	}
	if k > 20 {
		s = s + "a"
	} else {
		s = s + "b"
	}
	if k > 21 {
		s = s + "a"
	} else {
		s = s + "b"
	}
	if k > 22 {
		s = s + "a"
	} else {
		s = s + "b"
	}
	if k > 23 {
		s = s + "a"
	} else {
		s = s + "b"
	}
	if k > 24 {
		s = s + "a"
	} else {
		s = s + "b"
	}
	if k > 25 {
		s = s + "a"
	} else {
		s = s + "b"
	}
	return s
}
func main() { sink(g(3, source())) }
