// F8 (C18), argument of a deferred call: `defer apply(callback)`.  callback is mentioned only as an
// argument of the Defer instruction; preTraversalVisitValuesInstruction visits `x.Call.Value` only, so
// callback (which executes: its entry is logged) is not in the `argot reachability` output.
package main

func apply(f func()) {
	println("E", 1)
	f()
}

func callback() {
	println("E", 2)
}

func main() {
	println("E", 3)
	defer apply(callback)
}
