// F8 (C18), argument of a go call: `go applyDone(callback, d)`.  callback is mentioned only as an argument of
// the Go instruction; only `x.Call.Value` is visited, so callback (which executes) is not reported.
package main

func applyDone(f func(), d chan bool) {
	println("E", 1)
	f()
	d <- true
}

func callback() {
	println("E", 2)
}

func main() {
	println("E", 3)
	d := make(chan bool)
	go applyDone(callback, d)
	<-d
}
