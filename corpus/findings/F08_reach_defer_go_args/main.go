package main

func viaDeferArg() { println("viaDeferArg ran") }
func viaGoArg()    { println("viaGoArg ran") }
func viaCallArg()  { println("viaCallArg ran") }

func run(f func()) { f() }

type Small interface{ A() }
type Big interface {
	A()
	B()
}
type T struct{}

func (T) A() { println("T.A ran") }
func (T) B() { println("T.B ran") }

func main() {
	defer run(viaDeferArg)
	done := make(chan bool)
	go func(f func()) { f(); done <- true }(viaGoArg)
	<-done
	run(viaCallArg)
	var s Small = T{}
	if b, ok := s.(Big); ok {
		b.B()
	}
}
