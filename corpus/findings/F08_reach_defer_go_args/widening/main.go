// F8 (C18), interface-to-interface widening: T is converted to Small (only method A is marked at the
// MakeInterface), then asserted to Big and B is invoked: (T).B executes and is not reported.
package main

type Small interface{ A() }

type Big interface {
	A()
	B()
}

type T struct{}

func (T) A() {
	println("E", 1)
}

func (T) B() {
	println("E", 2)
}

func main() {
	println("E", 3)
	var s Small = T{}
	s.A()
	s.(Big).B()
}
