// F9 (C19), invoke-mode launch: `go r.Run()` through an interface value.  The goroutine's entry function
// (R).Run has no recovering defer; a native run is terminated by its panic ("created by main.main");
// `argot maypanic` reports nothing for it (findGoFunctions: the `v.Call.IsInvoke()` branch is empty).
package main

type Runner interface{ Run() }

type R struct{}

func (R) Run() {
	panic("boom in R.Run")
}

func main() {
	var r Runner = R{}
	go r.Run()
	select {}
}
