package main

import "time"

type Runner interface{ Run() }
type R struct{}

func (R) Run() { panic("boom in R.Run") }

func worker() { panic("boom in worker") }

func named() { panic("boom in named") }

func main() {
	var r Runner = R{}
	f := worker
	if len(os_args()) > 5 {
		f = nil
	}
	go r.Run() // invoke-mode go
	go f()     // function-value go
	go named() // static go
	time.Sleep(10 * time.Millisecond)
}

func os_args() []string { return nil }
