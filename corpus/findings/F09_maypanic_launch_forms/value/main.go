// F9 (C19), function-value launch: `go f()` where f is not a function constant (here: loaded from a
// package-level variable).  The goroutine's entry function worker has no recovering defer; a native run
// is terminated by its panic ("created by main.main"); `argot maypanic` reports nothing for it
// (findGoFunctions handles only *ssa.Function and *ssa.MakeClosure call values).
package main

func worker() {
	panic("boom in worker")
}

var f = worker

func main() {
	go f()
	select {}
}
