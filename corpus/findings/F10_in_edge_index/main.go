package main

// F10 (C17, consequence for C03): the summary graph keeps, per destination node, ONE EdgeInfo per
// source node (`in map[GraphNode]EdgeInfo`, overwritten by addInEdge) while the out side keeps one
// EdgeInfo per tuple index (`out map[GraphNode][]EdgeInfo`). Here both results of two() flow to
// the single argument of sink_1: the call node of two() has the out entries (arg, index 0) and
// (arg, index 1); the argument node has the in entry (call node, index 1) only.
// Replay: ./check C17 quick (fixed corpus, first input), or dump AnalyzerState.FlowGraph after
// `argot taint` on this file with sources ^source_\d+$ and sinks ^sink_\d+$.

func source_1() string { return "tainted" }
func sink_1(x string)  {}

func two() (string, string) { return source_1(), "clean" }

func main() {
	a, b := two()
	sink_1(a + b)
}
