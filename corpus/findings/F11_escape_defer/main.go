package main

type T struct{ x int }

var global *T

func publish(p *T) {
	defer func() { global = p }()
}

func reader(done chan bool) {
	if global != nil {
		_ = global.x
	}
	done <- true
}

func main() {
	p := &T{}
	publish(p)
	done := make(chan bool)
	go reader(done)
	p.x = 1 // store through p: is it classified local?
	<-done
}
