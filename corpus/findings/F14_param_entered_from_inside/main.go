package main

// F14 (C01, C06): the visitor's `seen` key ignores how a node was entered, while the successors of a
// parameter node depend on cur.Prev. `param b` of f in context [f] is first reached from `param a`
// (inside f, because of `b.v = a`) and is not expanded; the later visit from the call site has the
// same key and is pruned, so sink(b.v) is never reached. Native run prints "tainted".
// Control: replace `b.v = a` by `_ = a` and the flow is reported.

func source() string     { return "tainted" }
func sink(s string)      { println(s) }
func id(s string) string { return s }

type S struct{ v string }

func f(a string, b *S) {
	sink(b.v)
	b.v = a
}

func main() {
	x := source()
	b := &S{}
	b.v = id(id(id(x)))
	f(x, b)
}
