// C14 (thread-local classification) — globals are invisible in call-site contexts.
//
// escapeCallsiteInfoImpl.Resolve (analysis/escape/dataflow_interface.go) builds the callee's
// context graph from the argument nodes only; computeInstructionLocality then uses that graph as the
// callee's *initial graph*, replacing the function's own initial graph, which is the only place where
// the edges "global variable -> global storage" (addGlobalObjectNodes) live. In every function that
// is analysed with a call-site context (every callee of main or of a goroutine entry function) a
// global variable therefore points to nothing: a store to it is a no-op for the graph (the stored
// object is not leaked) and every access through it is classified local.
//
// Here: `a` is called from main. `g = p` publishes p, the new goroutine writes p.x through g, and
// `p.x = 1` (line marked ACCESS) is classified local in the only context of `a`; `go run -race`
// reports the race on exactly that line. The same statements directly in main (arbitrary context)
// are classified non-local.
package main

type T struct{ x int }

var g *T

func writer(done chan bool) {
	q := g
	q.x = 2
	done <- true
}

func a() {
	p := &T{}
	done := make(chan bool)
	g = p
	go writer(done)
	p.x = 1 // ACCESS: classified local, races with writer
	<-done
}

func main() {
	a()
}
