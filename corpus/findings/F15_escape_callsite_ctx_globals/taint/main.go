// C13 (concurrency cannot hide a flow) — consequence of F15 (globals are invisible in call-site
// escape contexts): main stores source data through the package-level pointer `cap0` inside the
// callee `store0`; the goroutine loads through the same pointer and passes the value to the sink.
// Native run prints "OBS 0 0". With use-escape-analysis: true, taint.Analyze returns
// TaintFlows.Sinks = {} and TaintFlows.Escapes = {} and no error: the flow is hidden silently.
package main

type C struct {
	str  string
	ms   map[string]string
	ss   []string
	ch   chan string
	box  interface{}
	next *C
	bs   []byte
}

type Holder struct{ c *C }

var spinSink int

// scenario 0: dir=m2g,transport=captured,share=goarg,via=callee,sync=true
func source_0() string { return "@S0@" }
func sink_0(x string) {
	const m = "@S0@"
	for i := 0; i+len(m) <= len(x); i++ {
		if x[i:i+len(m)] == m {
			println("OBS", 0, 0)
			return
		}
	}
}

var cap0 *string

func store0(c *C, v string) {
	*cap0 = v
}
func put0(c *C) {
	v := source_0()
	store0(c, v)
}
func get0(c *C) {
	x := *cap0
	sink_0(x)
}
func other0(c *C, ready, done chan bool) {
	<-ready
	get0(c)
	done <- true
}
func scen0() {
	c := &C{ms: map[string]string{}, ss: make([]string, 2, 4), ch: make(chan string, 1), next: &C{}, bs: make([]byte, 8)}
	done := make(chan bool)
	var cell string
	cap0 = &cell
	ready := make(chan bool)
	go other0(c, ready, done)
	put0(c)
	ready <- true
	<-done
}

func main() {
	scen0()
}
