// C14 (thread-local classification) — calls of builtins that access memory are always "local".
//
// instructionLocality (analysis/escape/escape.go) returns nil ("local") for every *ssa.Call
// ("functions require special handling"); for a builtin there is no callee body in which the
// access could be classified instead, and the taint visitor's checkEscape skips call instructions
// as well. delete, len (of a map), append, copy and clear on memory that another goroutine writes
// are therefore classified thread-local; `go run -race` reports a race on each marked line.
package main

type T struct {
	m map[int]int
	s []int
}

func newT() *T { return &T{m: map[int]int{1: 1, 2: 2}, s: make([]int, 4, 8)} }

var sinkI int

func wmap(q *T, done chan bool)  { q.m[2] = 2; done <- true }
func wmap3(q *T, done chan bool) { q.m[3] = 2; done <- true }
func ws0(q *T, done chan bool)   { q.s[0] = 2; done <- true }
func ws1(q *T, done chan bool)   { q.s[1] = 2; done <- true }

func scenDelete() {
	p := newT()
	done := make(chan bool)
	go wmap(p, done)
	pm := p.m
	delete(pm, 1) // ACCESS delete
	<-done
}

func scenLen() {
	p := newT()
	done := make(chan bool)
	go wmap3(p, done)
	pm := p.m
	sinkI = len(pm) // ACCESS len
	<-done
}

func scenAppend() {
	p := newT()
	done := make(chan bool)
	go ws1(p, done)
	ps := p.s
	ps = append(ps[:1], 5) // ACCESS append
	_ = ps
	<-done
}

func scenCopy() {
	p := newT()
	done := make(chan bool)
	go ws0(p, done)
	ps := p.s
	src := []int{9, 9}
	copy(ps, src) // ACCESS copy
	<-done
}

func scenClear() {
	p := newT()
	done := make(chan bool)
	go wmap(p, done)
	pm := p.m
	clear(pm) // ACCESS clear
	<-done
}

func main() {
	scenDelete()
	scenLen()
	scenAppend()
	scenCopy()
	scenClear()
}
