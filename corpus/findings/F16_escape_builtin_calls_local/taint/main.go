// C13 (concurrency cannot hide a flow) — consequence of F16 (calls of builtins are never checked for
// escape): main shares `c` with a goroutine and then copies source data into the shared byte slice
// with the builtin `copy`; the goroutine converts the bytes to a string and passes it to the sink.
// Native run prints "OBS 0 0". With use-escape-analysis: true, taint.Analyze returns
// TaintFlows.Sinks = {} and TaintFlows.Escapes = {} and no error: the only instruction that moves the
// data into shared memory is a call, and checkEscape skips calls (Props/C13.lean noncall_necessary).
package main

type C struct {
	str  string
	ms   map[string]string
	ss   []string
	ch   chan string
	box  interface{}
	next *C
	bs   []byte
}

type Holder struct{ c *C }

var spinSink int

// scenario 0: dir=m2g,transport=copy,share=goarg,via=inline,sync=true
func source_0() string { return "@S0@" }
func sink_0(x string) {
	const m = "@S0@"
	for i := 0; i+len(m) <= len(x); i++ {
		if x[i:i+len(m)] == m {
			println("OBS", 0, 0)
			return
		}
	}
}
func get0(c *C) {
	x := string(c.bs)
	sink_0(x)
}
func other0(c *C, ready, done chan bool) {
	<-ready
	get0(c)
	done <- true
}
func scen0() {
	c := &C{ms: map[string]string{}, ss: make([]string, 2, 4), ch: make(chan string, 1), next: &C{}, bs: make([]byte, 8)}
	done := make(chan bool)
	ready := make(chan bool)
	go other0(c, ready, done)
	v := source_0()
	copy(c.bs, v)
	ready <- true
	<-done
}

func main() {
	scen0()
}
