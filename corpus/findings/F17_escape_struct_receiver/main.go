// C14 (thread-local classification) — struct-valued arguments get no call-site context.
//
// escapeCallsiteInfoImpl.Resolve maps an argument into the callee's context only when its type is
// nillable (`lang.IsNillableType(arg.Type())`); a struct passed by value (here the receiver
// `M{p}`) is skipped although its fields may hold pointers. In the callee the parameter then has no
// pointees at all (the function's own initial graph, which marks struct parameters Escaped, is
// replaced by the context graph), so everything reached through its fields is classified local.
//
// `p` is shared with a goroutine (go-call argument) and written there; `M{p}.do()` reads p.x through
// the receiver's field: classified local in the only context of `do`; `go run -race` reports the race.
package main

type T struct{ x int }

type M struct{ t *T }

var sinkI int

func (r M) do() {
	p := r.t
	sinkI = p.x // ACCESS: classified local, races with writer
}

func writer(q *T, done chan bool) {
	q.x = 2
	done <- true
}

func main() {
	p := &T{}
	done := make(chan bool)
	go writer(p, done)
	M{p}.do()
	<-done
}
