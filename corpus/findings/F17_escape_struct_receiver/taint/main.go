// C13 (concurrency cannot hide a flow) — consequence of F17 (struct-valued receiver gets no
// escape context) together with the taint analysis not following the store through the field of a
// by-value struct receiver: main stores source data through `W0{c}.store(v)`, a goroutine that
// received `c` as go-call argument reads `c.str` and passes it to the sink. Native run prints
// "OBS 0 0". With use-escape-analysis: true, taint.Analyze returns TaintFlows.Sinks = {} and
// TaintFlows.Escapes = {} (and a "missing escape for vprog.scen0 in context" error).
package main

type C struct {
	str  string
	ms   map[string]string
	ss   []string
	ch   chan string
	box  interface{}
	next *C
	bs   []byte
}

type Holder struct{ c *C }

var spinSink int

// scenario 0: dir=m2g,transport=field,share=goarg,via=method,sync=true
func source_0() string { return "@S0@" }
func sink_0(x string) {
	const m = "@S0@"
	for i := 0; i+len(m) <= len(x); i++ {
		if x[i:i+len(m)] == m {
			println("OBS", 0, 0)
			return
		}
	}
}

type W0 struct{ c *C }

func (r W0) store(v string) {
	c := r.c
	_ = c
	c.str = v
}
func put0(c *C) {
	v := source_0()
	W0{c}.store(v)
}
func get0(c *C) {
	x := c.str
	sink_0(x)
}
func other0(c *C, ready, done chan bool) {
	<-ready
	get0(c)
	done <- true
}
func scen0() {
	c := &C{ms: map[string]string{}, ss: make([]string, 2, 4), ch: make(chan string, 1), next: &C{}, bs: make([]byte, 8)}
	done := make(chan bool)
	ready := make(chan bool)
	go other0(c, ready, done)
	put0(c)
	ready <- true
	<-done
}

func main() {
	scen0()
}
