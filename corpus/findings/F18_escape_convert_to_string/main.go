// C14 (thread-local classification) — string(byteSlice) reads the slice's backing array but
// *ssa.Convert is classified local unconditionally ("conversions ... don't access memory",
// instructionLocality in analysis/escape/escape.go). The array is shared with a goroutine that
// writes it; `go run -race` reports the race on the conversion line.
package main

type T struct{ b []byte }

var sinkS string

func writer(q *T, done chan bool) {
	q.b[0] = 2
	done <- true
}

func main() {
	p := &T{b: make([]byte, 4)}
	done := make(chan bool)
	go writer(p, done)
	pb := p.b
	vs := string(pb) // ACCESS: classified local, races with writer
	<-done
	sinkS = vs
}
