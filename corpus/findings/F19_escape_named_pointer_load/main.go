// C14 (thread-local classification) — a load through a NAMED pointer type is not recognised as a
// load: instructionLocality tests `instrType.X.Type().(*types.Pointer)` (no Underlying()), so for
// `type PI *int` the dereference `*q0` falls into "arithmetic is local". The int is a field of an
// object shared with a goroutine that writes it; `go run -race` reports the race on the marked line.
package main

type T struct{ x int }

type PI *int

var sinkI int

func writer(q *T, done chan bool) {
	q.x = 2
	done <- true
}

func main() {
	p := &T{}
	done := make(chan bool)
	go writer(p, done)
	var q0 PI = PI(&p.x)
	v := *q0 // ACCESS: classified local, races with writer
	<-done
	sinkI = v
}
