// C14 (thread-local classification) — free variables of a closure that arrives as a parameter.
// `run` is a goroutine entry function (arbitrary context): its parameter f points to an unknown
// parameter node. For the call f() escapeCallsiteInfoImpl.Resolve maps every free variable of the
// possible callee to `FieldSubnode(thatNode, name)`, a fresh subnode without pointees: inside the
// closure body the captured pointer p points to nothing, and the store p.x = 1 is classified local
// in the only context of the closure. p is shared with `writer`; `go run -race` reports the race.
package main

type T struct{ x int }

func writer(q *T, done chan bool) {
	q.x = 2
	done <- true
}

func run(f func(), fin chan bool) {
	f()
	fin <- true
}

func main() {
	p := &T{}
	done := make(chan bool)
	fin := make(chan bool)
	go writer(p, done)
	go run(func() {
		p.x = 1 // ACCESS: classified local, races with writer
	}, fin)
	<-fin
	<-done
}
