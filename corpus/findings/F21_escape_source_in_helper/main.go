// C13 (concurrency cannot hide a flow) — source called inside a helper whose result is stored
// straight into memory shared with another goroutine: `v := getsrc_0()` (getsrc_0 calls source_0),
// `c.str = v` after `go other0(c, …)`; the goroutine reads c.str and passes it to the sink.
// Native run prints "OBS 0 0". With use-escape-analysis: true, taint.Analyze returns
// TaintFlows.Sinks = {} and TaintFlows.Escapes = {} and no error. (With the source call written
// directly in the scenario function the store is reported as an escape.)
package main

type C struct {
	str  string
	ms   map[string]string
	ss   []string
	ch   chan string
	box  interface{}
	next *C
	bs   []byte
}

type Holder struct{ c *C }

var spinSink int

// scenario 0: dir=m2g,transport=field,share=goarg,via=srchelper,sync=true
func source_0() string { return "@S0@" }
func sink_0(x string) {
	const m = "@S0@"
	for i := 0; i+len(m) <= len(x); i++ {
		if x[i:i+len(m)] == m {
			println("OBS", 0, 0)
			return
		}
	}
}
func getsrc_0() string {
	return source_0()
}
func get0(c *C) {
	x := c.str
	sink_0(x)
}
func other0(c *C, ready, done chan bool) {
	<-ready
	get0(c)
	done <- true
}
func scen0() {
	c := &C{ms: map[string]string{}, ss: make([]string, 2, 4), ch: make(chan string, 1), next: &C{}, bs: make([]byte, 8)}
	done := make(chan bool)
	ready := make(chan bool)
	go other0(c, ready, done)
	v := getsrc_0()
	c.str = v
	ready <- true
	<-done
}

func main() {
	scen0()
}
