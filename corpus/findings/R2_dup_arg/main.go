package main

// Regression shape, not a finding (red-team round 2, C01-m4; the repaired defect C08c / F18): the same SSA value at two
// argument positions of one call, only the LATER parameter reaches the result. Native run prints "tainted".

func source() string { return "tainted" }
func sink(x string)  { println(x) }

func second(a, b string) string { return b }

func main() {
	s := source()
	sink(second(s, s))
}
