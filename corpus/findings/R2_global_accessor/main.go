package main

// Regression shape, not a finding (red-team round 2, C01-m5 / C03-m5): ONE function writes and reads a package-level
// variable and is called at two sites; the value returned by the second call was stored through the first. The
// global write -> read jump must forget the writer's call stack (Trace: nil), otherwise the return is unwound to the
// writer's call site only. Native run prints "tainted"; the unchanged tree reports the flow.

func source() string { return "tainted" }
func sink(x string)  { println(x) }

var cur string

func swap(v string) string {
	old := cur
	cur = v
	return old
}

func main() {
	swap(source())
	x := swap("next")
	sink(x)
}
