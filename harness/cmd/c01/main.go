// Driver for C01: the REAL taint analysis (taint.Analyze, in-process) on generated µGo programs
// and on the recorded corpus, versus
//
//	(1) the Lean model `TaintVisit.run` (compiled oracle) on the dumped linked summary graph of the
//	    same run — correspondence M6, `real reported flows ⊇ model flows` (and the model's
//	    decidable hypotheses LassoFree / EntryBeforeExit evaluated per source), eager configurations;
//	(2) the marker ground truth (native execution over all branch valuations) — `real ⊇ ground
//	    truth` under the sweep {field-sensitive, summarize-on-demand, rewrites}.
package main

import (
	"bytes"
	"fmt"
	"os"
	"os/exec"
	"path/filepath"
	"sort"
	"strings"

	df "github.com/awslabs/ar-go-tools/analysis/dataflow"
	"golang.org/x/tools/go/ssa"
	"verif/harness/lib"
	"verif/harness/mugo"
	"verif/harness/taintrun"
)

const fuel = 400000

// features generated for field-sensitive configurations (see props/C01.json, assumptions)
const fsFeatures = mugo.DefaultFeatures

type modelRes struct {
	term, ebe, lassocut, pathcut bool
	visited                      int
	flows                        []int
	idealTerm                    bool
	ideal                        []int
}

func parseRes(line string) (id int, m modelRes, ok bool) {
	f := strings.Fields(line)
	if len(f) < 3 || f[0] != "res" {
		return
	}
	fmt.Sscan(f[1], &id)
	for _, kv := range f[2:] {
		p := strings.SplitN(kv, "=", 2)
		if len(p) != 2 {
			continue
		}
		switch p[0] {
		case "term":
			m.term = p[1] == "1"
		case "ebe":
			m.ebe = p[1] == "1"
		case "lassocut":
			m.lassocut = p[1] == "1"
		case "pathcut":
			m.pathcut = p[1] == "1"
		case "visited":
			fmt.Sscan(p[1], &m.visited)
		case "bad":
			if p[1] != "0" {
				return
			}
		case "flows", "ideal":
			if p[1] != "-" {
				for _, x := range strings.Split(p[1], ",") {
					var n int
					fmt.Sscan(x, &n)
					if p[0] == "flows" {
						m.flows = append(m.flows, n)
					} else {
						m.ideal = append(m.ideal, n)
					}
				}
			}
		case "idealterm":
			m.idealTerm = p[1] == "1"
		}
	}
	return id, m, true
}

type instrPair struct{ src, snk ssa.Instruction }

// modelCheck runs the oracle on the dumped graph of res and compares with the real flows.
// It returns per-entry model results (nil on failure) and the list of model pairs missing from
// the real result.
func modelCheck(rep *lib.Report, res *taintrun.Result, tag string) (*taintrun.GraphDump, []modelRes, []string) {
	d, err := taintrun.DumpGraph(res)
	if err != nil {
		rep.Fail("dump:"+tag, "cannot dump the linked summary graph (correspondence M6 cannot run): "+err.Error(), nil, true)
		return nil, nil, nil
	}
	for _, w := range d.Warnings {
		rep.Count("dump-warning")
		if len(rep.Notes) < 10 {
			rep.Notes = append(rep.Notes, tag+": "+w)
		}
	}
	in := strings.Join(append(append([]string{"reset"}, d.Lines...), d.RunLines(fuel)...), "\n") + "\n"
	out, err := lib.RunOracle("oracle_c01", []byte(in))
	if err != nil || len(out) != len(d.Entries) {
		rep.Fail("oracle:"+tag, fmt.Sprintf("oracle_c01 failed: %v (%d answers for %d entries)", err, len(out), len(d.Entries)), []byte(in), true)
		return d, nil, nil
	}
	real := map[instrPair]bool{}
	for snk, srcs := range res.Analysis.TaintFlows.Sinks {
		for src := range srcs {
			real[instrPair{src.Instr, snk.Instr}] = true
		}
	}
	ms := make([]modelRes, len(d.Entries))
	var missing []string
	modelPairs := map[instrPair]bool{}
	for i, line := range out {
		id, m, ok := parseRes(line)
		if !ok || id != i {
			rep.Fail("oracle:"+tag, "oracle_c01 rejected the dumped graph: "+line, []byte(in), true)
			return d, nil, nil
		}
		ms[i] = m
		if !m.ebe {
			// EntryBeforeExit fails in the model run: the reported set depends on the traversal
			// order (flows_order_independent needs the hypothesis); the real order (Go map
			// iteration) may legitimately report a different subset. Counted, not compared.
			rep.Count("M6:skipped-order-dependent-entry")
			for _, s := range m.flows {
				modelPairs[instrPair{d.Entries[i].Instr, df.Instr(d.Nodes[s])}] = true
			}
			continue
		}
		for _, s := range m.flows {
			p := instrPair{d.Entries[i].Instr, df.Instr(d.Nodes[s])}
			modelPairs[p] = true
			if !real[p] {
				missing = append(missing, fmt.Sprintf("entry node %d trace %v -> sink node %d (%s -> %s)", d.Entries[i].Node, d.Entries[i].Trace, s, d.Nodes[d.Entries[i].Node].String(), d.Nodes[s].String()))
			}
		}
	}
	extra := 0
	for p := range real {
		if !modelPairs[p] {
			extra++
		}
	}
	if extra > 0 {
		rep.Count("M6:real-has-pairs-the-model-lacks")
	} else {
		rep.Count("M6:real==model")
	}
	return d, ms, missing
}

// nativeShows runs a corpus program natively and reports whether `needle` appears on its output.
func nativeShows(dir, needle string) (bool, string) {
	cmd := exec.Command("go", "run", ".")
	cmd.Dir = dir
	cmd.Env = append(os.Environ(), "GOFLAGS=-mod=mod", "GOPROXY=off", "GOSUMDB=off", "GOTOOLCHAIN=local", "GOWORK=off")
	var out bytes.Buffer
	cmd.Stdout, cmd.Stderr = &out, &out
	err := cmd.Run()
	return err == nil && strings.Contains(out.String(), needle), out.String()
}

type corpusCase struct {
	id, dir string
	// expected (source line, sink line) pairs that a native run exhibits
	pairs [][2]int
	// hypothesis expected to be false in the model ("lasso", "ebe", "path", "")
	hyp string
	fs  bool // run with field-sensitive: true
}

var corpus = []corpusCase{
	{"F1", "F01_lasso_rotation", [][2]int{{20, 12}}, "lasso", false},
	{"F14", "F14_param_entered_from_inside", [][2]int{{21, 16}}, "ebe", false},
	{"F3", "F02_F03_builtins", [][2]int{{16, 18}}, "", false},
	{"F2", "F02_F03_builtins", [][2]int{{19, 20}}, "", false},
	{"C01a", "C01a_closure_two_bound_vars", [][2]int{{16, 20}, {16, 21}}, "ebe", false},
	{"C01b", "C01b_fs_access_path_cut", [][2]int{{22, 25}}, "path", true},
	{"C01c", "C01c_fs_nontermination", [][2]int{{23, 28}}, "hang", true},
	{"C01d", "C01d_nested_closure_seen_key", [][2]int{{22, 38}}, "ebe", false},
	{"C01e", "C01e_fs_summary_edge_missing", [][2]int{{24, 42}}, "", true},
	{"C01f", "C01f_global_field_store", [][2]int{{20, 16}, {21, 17}}, "", false},
	// regression shapes (not findings: the unchanged tree reports them; a miss is an ordinary VIOLATION)
	{"R2-global-accessor", "R2_global_accessor", [][2]int{{20, 22}}, "", false},
	{"R2-dup-arg", "R2_dup_arg", [][2]int{{12, 13}}, "", false},
}

func runCorpus(rep *lib.Report) {
	loaded := map[string]*taintrun.Loaded{}
	shows := map[string]bool{}
	for _, c := range corpus {
		src, err := os.ReadFile(filepath.Join(lib.Root(), "corpus/findings", c.dir, "main.go"))
		if err != nil {
			rep.Fail("corpus-missing:"+c.dir, "corpus input missing: "+err.Error(), nil, true)
			continue
		}
		lines := strings.Split(string(src), "\n")
		for _, p := range c.pairs {
			if p[0] > len(lines) || p[1] > len(lines) || !strings.Contains(lines[p[0]-1], "source(") || !strings.Contains(lines[p[1]-1], "sink(") {
				rep.Fail("corpus-lines:"+c.id, fmt.Sprintf("corpus table of the driver does not match %s/main.go (lines %d, %d)", c.dir, p[0], p[1]), src, true)
			}
		}
		l := loaded[c.dir]
		if l == nil {
			dir := lib.WorkDir("C01", "corpus_"+c.dir)
			lib.WriteProgram(dir, "vprog", map[string]string{"main.go": string(src)})
			l, err = taintrun.Load(dir, false)
			if err != nil {
				rep.Fail("corpus-load:"+c.dir, "corpus input does not load: "+err.Error(), src, true)
				continue
			}
			loaded[c.dir] = l
			shows[c.dir], _ = nativeShows(dir, "tainted")
		}
		if c.hyp == "hang" {
			// never run in-process: the analysis may not return
			rep.Case("corpus:" + c.id)
			rep.Count("corpus")
			if h := probeFieldSensitive(l.Dir); h != "" && shows[c.dir] {
				rep.Fail("corpus:"+c.id+":"+c.dir, "field-sensitive taint analysis does not terminate on corpus/findings/"+c.dir+"/main.go ("+h+"); the native run prints the tainted string", src, false)
			} else {
				rep.Notes = append(rep.Notes, "corpus "+c.id+": field-sensitive run terminates (finding no longer reproduces)")
			}
			continue
		}
		res := l.Analyze(taintrun.Options{SourceRe: "^source$", SinkRe: "^sink$", FieldSensitive: c.fs})
		if !res.OK() {
			rep.Fail("corpus-run:"+c.dir, "analysis did not complete on corpus input: "+res.Panic, src, true)
			continue
		}
		got := res.PairsByLine()
		_, ms, missing := modelCheck(rep, res, "corpus:"+c.id)
		for _, m := range missing {
			rep.Fail("m6:corpus:"+c.id, "model reports a flow the real visitor does not: "+m, src, true)
		}
		hypFalse := ""
		for _, m := range ms {
			if m.lassocut {
				hypFalse += " LassoFree=false"
			}
			if !m.ebe {
				hypFalse += " EntryBeforeExit=false"
			}
			if m.pathcut {
				hypFalse += " AccessPathCut=true"
			}
		}
		want := map[string]string{"lasso": "LassoFree=false", "ebe": "EntryBeforeExit=false", "path": "AccessPathCut=true"}[c.hyp]
		if want != "" && ms != nil && !strings.Contains(hypFalse, want) {
			rep.Fail("corpus-hyp:"+c.id, "the model no longer explains corpus finding "+c.id+": expected "+want+", got:"+hypFalse, src, true)
		}
		rep.Extra["corpus_"+c.id+"_model_hypotheses"] = strings.TrimSpace(hypFalse)
		for _, p := range c.pairs {
			rep.Case("corpus:" + c.id)
			rep.Count("corpus")
			if got[p] && strings.HasPrefix(c.id, "R2-") {
				rep.Count("regression-shape-reported")
				continue
			}
			if got[p] {
				rep.Notes = append(rep.Notes, fmt.Sprintf("corpus %s: flow line %d -> line %d is reported (finding no longer reproduces)", c.id, p[0], p[1]))
				continue
			}
			if !shows[c.dir] {
				rep.Notes = append(rep.Notes, fmt.Sprintf("corpus %s: native run does not show the tainted string; not reported", c.id))
				continue
			}
			rep.Fail("corpus:"+c.id+":"+c.dir, fmt.Sprintf("taint analysis misses the flow source line %d -> sink line %d of corpus/findings/%s/main.go that the native run exhibits (%s; model hypotheses:%s)", p[0], p[1], c.dir, c.id, hypFalse), src, false)
		}
	}
}

func caseKey(c *mugo.Case) string { return strings.Join(c.Steps, " ") }

func main() {
	if len(os.Args) == 3 && os.Args[1] == "-run" {
		runDir(os.Args[2])
		return
	}
	if len(os.Args) == 4 && os.Args[1] == "-probe" {
		b := 90.0
		fmt.Sscan(os.Args[3], &b)
		probeChild(os.Args[2], b)
		return
	}
	rep := lib.NewReport("C01")
	rep.Rule = "µGo cases (chains of data operations from source_i() to sink_i(x), harness/mugo) x configurations {field-sensitive, on-demand, rewrites}; distinct = distinct step-kind sequence; non-trivial = positive case observed by the native ground truth"
	runCorpus(rep)
	runRewrites(rep)

	r := lib.Rand("c01")
	nprog, ncases := 2, 40
	if lib.Thorough() {
		nprog, ncases = 24, 80
	}
	if lib.ProofBroken() {
		nprog *= 2
	}
	outside, inside := 0, 0
	for pi := 0; pi < nprog; pi++ {
		o := mugo.Options{Cases: ncases, MaxSteps: 6 + pi%5}
		p := mugo.Generate(r, o)
		dir := lib.WorkDir("C01", fmt.Sprintf("prog%d", pi))
		p.Write(dir)
		gt, err := mugo.GroundTruth(dir)
		if err != nil {
			rep.Fail("harness-gt", "generated program does not build / run natively: "+err.Error(), []byte(p.Files["main.go"]), true)
			continue
		}
		for _, c := range p.Cases {
			for _, s := range c.Steps {
				rep.Count("step:" + s)
			}
			rep.Count(fmt.Sprintf("positive=%v,observed=%v", c.Positive, gt[mugo.Pair{Source: c.ID, Sink: c.ID}]))
		}
		// hypotheses of the model run per (field-sensitive, case id): LassoFree, EntryBeforeExit, no access-path cut
		type hyps struct{ lassoFree, ebe, noPathCut, known, idealFindsSink bool }
		hyp := map[bool]map[int]hyps{false: {}, true: {}}
		var fs0got map[[2]int]bool // what the field-insensitive eager run reported
		var pairs []mugo.Pair
		for pr := range gt {
			pairs = append(pairs, pr)
		}
		sort.Slice(pairs, func(i, j int) bool { return pairs[i].Source < pairs[j].Source })
		fsHang := probeFieldSensitive(dir)
		if fsHang != "" {
			rep.Count("field-sensitive-hang")
			rep.Fail("hang:field-sensitive", "the field-sensitive taint analysis does not terminate on a generated program inside the fragment ("+fsHang+"); no flow is ever reported", []byte("// "+fsHang+"\n"+p.Files["main.go"]), false)
		}
		for _, rw := range []bool{false, true} {
			if rw && !lib.Thorough() && pi > 0 {
				continue // import-free programs: the rewrites cannot change anything; one program checks that
			}
			l, err := taintrun.Load(dir, rw)
			if err != nil {
				rep.Fail("harness-load", "generated program does not load: "+err.Error(), []byte(p.Files["main.go"]), true)
				continue
			}
			// eager configurations first: they provide the model hypotheses
			cfgs := taintrun.Sweep(taintrun.Options{})
			sort.SliceStable(cfgs, func(i, j int) bool { return !cfgs[i].OnDemand && cfgs[j].OnDemand })
			for _, cfg := range cfgs {
				if cfg.Rewrites != rw {
					continue
				}
				if rw && !lib.Thorough() && (cfg.OnDemand || cfg.FieldSensitive) {
					continue
				}
				if cfg.FieldSensitive && fsHang != "" {
					rep.Count("config-skipped-after-hang:" + cfg.Name())
					continue
				}
				tag := fmt.Sprintf("seed%d-prog%d-%s", lib.Seed(), pi, cfg.Name())
				res := l.Analyze(cfg)
				rep.Count("config:" + cfg.Name())
				if !res.OK() {
					rep.Fail("panic:"+cfg.Name()+":"+firstLine(res.Panic), "the taint analysis panicked on a generated program inside the fragment: "+firstLine(res.Panic), []byte(res.Panic+"\n\n"+p.Files["main.go"]), false)
					continue
				}
				got := res.IDPairs()
				if !cfg.FieldSensitive && !cfg.OnDemand && !rw {
					fs0got = got
				}
				// (1) model correspondence on eager configurations
				if !cfg.OnDemand && !rw {
					d, ms, missing := modelCheck(rep, res, tag)
					for _, m := range missing {
						rep.Fail("m6:"+cfg.Name(), "correspondence M6 broken: the model of the visitor reports a flow that the real visitor does not ("+m+"); theorems visits_closure / taint_sound_partial no longer describe the code", []byte(p.Files["main.go"]), true)
					}
					if d != nil && ms != nil {
						rep.Extra["graph_nodes_last"] = d.NNodes
						rep.Extra["graph_edges_last"] = d.NEdges
						rep.Extra["graph_edges_with_relpath_last_"+cfg.Name()] = d.NRelEdges
						for k, n := range d.Kinds {
							rep.Dist["node-kind:"+k] += n
						}
						for i, e := range d.Entries {
							id := 0
							if ci, ok := e.Instr.(ssa.CallInstruction); ok && ci.Common().StaticCallee() != nil {
								fmt.Sscanf(ci.Common().StaticCallee().Name(), "source_%d", &id)
							}
							h, seen := hyp[cfg.FieldSensitive][id]
							if !seen {
								h = hyps{true, true, true, true, false}
							}
							for _, sn := range ms[i].ideal {
								if ci, ok := df.Instr(d.Nodes[sn]).(ssa.CallInstruction); ok && ci.Common().StaticCallee() != nil &&
									ci.Common().StaticCallee().Name() == fmt.Sprintf("sink_%d", id) {
									h.idealFindsSink = true
								}
							}
							h.lassoFree = h.lassoFree && !ms[i].lassocut
							h.ebe = h.ebe && ms[i].ebe
							h.noPathCut = h.noPathCut && !ms[i].pathcut
							hyp[cfg.FieldSensitive][id] = h
							if !ms[i].term {
								rep.Fail("model-fuel:"+tag, "model run did not terminate within its fuel", nil, true)
							}
							rep.Count(fmt.Sprintf("model:%s:lassocut=%v,ebe=%v,pathcut=%v", cfg.Name()[:4], ms[i].lassocut, ms[i].ebe, ms[i].pathcut))
						}
					}
				}
				// (2) ground truth
				for _, pr := range pairs {
					c := p.CaseByID(pr.Source)
					rep.Case(caseKey(c))
					h := hyp[cfg.FieldSensitive][pr.Source]
					in := h.known && h.lassoFree && h.ebe && h.noPathCut
					if in {
						inside++
					} else {
						outside++
					}
					if got[[2]int{pr.Source, pr.Sink}] {
						continue
					}
					where := "inside the proved fragment (LassoFree, EntryBeforeExit, no access-path cut hold in the model run)"
					if !in {
						where = fmt.Sprintf("outside the proved fragment (model run: LassoFree=%v EntryBeforeExit=%v AccessPathCut=%v)", h.lassoFree, h.ebe, !h.noPathCut)
					}
					content := fmt.Sprintf("// configuration %s\n// %s\n// ground truth: native run observes marker of source_%d at sink_%d; the analysis reports no such flow\n// config file:\n%s\n%s\n%s",
						cfg.Name(), where, pr.Source, pr.Sink, commentOut(taintrun.ConfigYAML(cfg)), mugoPrelude, c.Src)
					key := "miss:" + cfg.Name() + ":" + caseKey(c)
					if h.known && !h.ebe && h.idealFindsSink {
						// the traversal with the full seen key (theorem ideal_complete) reports this sink on the
						// same dumped graph, the real key loses it: findings F14 / C01a, keyed by that shape
						key = "miss:seen-key-ignores-entry"
						rep.Count("known-shape:seen-key-ignores-entry")
					} else if cfg.FieldSensitive && in && fs0got[[2]int{pr.Source, pr.Sink}] {
						// the model run explored every valid path of the field-sensitive graph (all flags hold,
						// theorem taint_sound_of_flags) and the field-insensitive run reports the flow: the path
						// is missing from the field-sensitive summary graph itself (finding C01e, intra layer)
						key = "miss:field-sensitive:summary-graph-lacks-path"
						rep.Count("known-shape:field-sensitive-summary-graph-lacks-path")
					} else if cfg.FieldSensitive && h.known && !h.noPathCut {
						// one defect, many inputs: keyed by the shape the model exhibits (finding C01b)
						key = "miss:field-sensitive:access-path-cut"
						rep.Count("known-shape:field-sensitive-access-path-cut")
					}
					rep.Fail(key, fmt.Sprintf("taint analysis (%s) misses an explicit flow that a native run exhibits: source_%d -> sink_%d [%s]; %s", cfg.Name(), pr.Source, pr.Sink, caseKey(c), where), []byte(content), false)
				}
				if len(pairs) > 0 {
					c := p.CaseByID(pairs[(pi*7+len(rep.Samples))%len(pairs)].Source)
					rep.Sample(map[string]any{"config": cfg.Name(), "case": caseKey(c), "reported": got[[2]int{c.ID, c.ID}], "bits": c.Bits, "functions": c.Funcs})
				}
			}
		}
	}
	rep.Extra["gt_pairs_inside_proved_fragment"] = inside
	rep.Extra["outside_proved_domain"] = outside
	rep.Finish()
}

const mugoPrelude = "package main\n\nvar W int\n\nfunc cond(k int) bool { return (W>>uint(k))&1 == 1 }\n"

func commentOut(s string) string {
	return "//   " + strings.ReplaceAll(strings.TrimRight(s, "\n"), "\n", "\n//   ")
}

func firstLine(s string) string {
	if i := strings.IndexByte(s, '\n'); i >= 0 {
		s = s[:i]
	}
	if len(s) > 160 {
		s = s[:160]
	}
	return s
}

func runDir(dir string) {
	for _, rw := range []bool{false, true} {
		l, err := taintrun.Load(dir, rw)
		if err != nil {
			fmt.Println("load error", err)
			return
		}
		for _, o := range taintrun.Sweep(taintrun.Options{}) {
			if o.Rewrites != rw {
				continue
			}
			res := l.Analyze(o)
			fmt.Printf("%s: ok=%v err=%v flows=%v\n", o.Name(), res.OK(), res.Err, res.PairsByLine())
			if !res.OK() {
				fmt.Println(res.Panic)
			}
			if os.Getenv("C01_DUMP") != "" && res.OK() && !o.OnDemand && !rw {
				d, err := taintrun.DumpGraph(res)
				if err != nil {
					fmt.Println("dump error:", err)
					continue
				}
				for i, n := range d.Nodes {
					fmt.Printf("  # %d = %s\n", i, n.String())
				}
				runs := d.RunLines(fuel)
				for _, l := range d.RunLines(fuel) {
					runs = append(runs, strings.Replace(l[strings.Index(l[4:], " ")+5:], "", "explain ", 1))
				}
				in := strings.Join(append(append([]string{"reset"}, d.Lines...), runs...), "\n") + "\n"
				fmt.Print(in)
				out, err := lib.RunOracle("oracle_c01", []byte(in))
				fmt.Println(strings.Join(out, "\n"), err)
			}
		}
	}
}
