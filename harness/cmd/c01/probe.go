package main

import (
	"bytes"
	"fmt"
	"os"
	"os/exec"
	"strconv"
	"strings"
	"syscall"
	"time"

	"verif/harness/lib"
	"verif/harness/taintrun"
)

// The field-sensitive traversal does not always terminate (finding C01c: VisitorNode.Key contains
// the AccessPaths list, which grows along a cycle of edges with relative paths, so the `seen` test
// never fires). taint.Analyze runs in-process and cannot be interrupted, so every generated program
// is first probed in a child process that watches its own CPU time and memory and kills itself.

func cpuSeconds() float64 {
	var ru syscall.Rusage
	syscall.Getrusage(syscall.RUSAGE_SELF, &ru)
	return float64(ru.Utime.Sec+ru.Stime.Sec) + float64(ru.Utime.Usec+ru.Stime.Usec)/1e6
}

func rssMB() int {
	b, err := os.ReadFile("/proc/self/statm")
	if err != nil {
		return 0
	}
	f := strings.Fields(string(b))
	if len(f) < 2 {
		return 0
	}
	n, _ := strconv.Atoi(f[1])
	return n * os.Getpagesize() / (1 << 20)
}

// probeChild: `c01 -probe <dir> <cpu budget s>`; prints BEGIN/END lines per configuration and
// "HANG ..." + exit 3 when the budget of the current configuration is exceeded.
func probeChild(dir string, budget float64) {
	orig := os.Stdout
	start := cpuSeconds()
	cur := "load"
	go func() {
		for {
			time.Sleep(300 * time.Millisecond)
			if c, m := cpuSeconds()-start, rssMB(); c > budget || m > 6000 {
				fmt.Fprintf(orig, "HANG %s cpu=%.0fs rss=%dMB\n", cur, c, m)
				os.Exit(3)
			}
		}
	}()
	l, err := taintrun.Load(dir, false)
	if err != nil {
		fmt.Fprintln(orig, "LOADERR", err)
		os.Exit(4)
	}
	for _, od := range []bool{false, true} {
		o := taintrun.Options{FieldSensitive: true, OnDemand: od}
		cur = o.Name()
		start = cpuSeconds()
		fmt.Fprintln(orig, "BEGIN", cur)
		res := l.Analyze(o)
		fmt.Fprintf(orig, "END %s ok=%v cpu=%.1fs\n", cur, res.OK(), cpuSeconds()-start)
	}
}

// probeFieldSensitive returns "" when both field-sensitive configurations finish within the CPU
// budget in a child process, and a description of the hang otherwise.
func probeFieldSensitive(dir string) string {
	budget := 40.0
	if lib.Thorough() {
		budget = 120.0
	}
	cmd := exec.Command(os.Args[0], "-probe", dir, fmt.Sprint(budget))
	var out bytes.Buffer
	cmd.Stdout, cmd.Stderr = &out, &out
	done := make(chan error, 1)
	if err := cmd.Start(); err != nil {
		return ""
	}
	go func() { done <- cmd.Wait() }()
	select {
	case <-done:
	case <-time.After(3 * time.Hour): // the child polices itself by CPU time; this is only a backstop
		cmd.Process.Kill()
		return "probe child did not finish within 3 h wall"
	}
	for _, l := range strings.Split(out.String(), "\n") {
		if strings.HasPrefix(l, "HANG ") {
			return strings.TrimSpace(l)
		}
	}
	return ""
}
