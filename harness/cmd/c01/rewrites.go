package main

import (
	"fmt"

	"verif/harness/lib"
	"verif/harness/mugo"
	"verif/harness/taintrun"
)

// The only programs on which `ApplyRewrites` (internal/rewrite: sort.Slice / sort.SliceStable /
// sync.Once.Do callbacks made explicit) can change anything import the standard library. One fixed
// program with the three rewritten callees, same layout as harness/mugo programs (stub / gt
// variants), run under the full 2x2x2 sweep.
var rewriteProg = map[string]string{
	"main.go": `package main

import (
	"sort"
	"sync"
)

func source_1() string { return "@S1@" }
func source_2() string { return "@S2@" }
func source_3() string { return "@S3@" }

func case_1() {
	x := source_1()
	s := []string{"b", "a"}
	var out string
	sort.Slice(s, func(i, j int) bool {
		out = x
		return s[i] < s[j]
	})
	sink_1(out)
}

func case_2() {
	x := source_2()
	var once sync.Once
	var out string
	once.Do(func() { out = x })
	sink_2(out)
}

func case_3() {
	x := source_3()
	s := []string{"b", "a", "c"}
	out := []string{}
	sort.SliceStable(s, func(i, j int) bool {
		out = append(out, x)
		return s[i] < s[j]
	})
	sink_3(out)
}
`,
	"rt_stub.go": `//go:build !gt

package main

func sink_1(x string)   {}
func sink_2(x string)   {}
func sink_3(x []string) {}

func main() {
	case_1()
	case_2()
	case_3()
}
`,
	"rt_gt.go": `//go:build gt

package main

import "strings"

func obs(id int, s string) {
	for i := 1; i <= 3; i++ {
		if strings.Contains(s, "@S"+string(rune('0'+i))+"@") {
			println("OBS", i, id)
		}
	}
}

func sink_1(x string) { obs(1, x) }
func sink_2(x string) { obs(2, x) }
func sink_3(x []string) {
	for _, e := range x {
		obs(3, e)
	}
}

func main() {
	case_1()
	case_2()
	case_3()
	println("DONE")
}
`,
}

func runRewrites(rep *lib.Report) {
	dir := lib.WorkDir("C01", "rewrites")
	lib.WriteProgram(dir, mugo.Module, rewriteProg)
	gt, err := mugo.GroundTruth(dir)
	if err != nil {
		rep.Fail("harness-gt-rewrites", "rewrites program does not build / run natively: "+err.Error(), []byte(rewriteProg["main.go"]), true)
		return
	}
	for _, rw := range []bool{false, true} {
		l, err := taintrun.Load(dir, rw)
		if err != nil {
			rep.Fail("harness-load-rewrites", "rewrites program does not load: "+err.Error(), []byte(rewriteProg["main.go"]), true)
			return
		}
		for _, cfg := range taintrun.Sweep(taintrun.Options{}) {
			if cfg.Rewrites != rw {
				continue
			}
			res := l.Analyze(cfg)
			rep.Count("rewrites-config:" + cfg.Name())
			if !res.OK() {
				rep.Fail("panic-rewrites:"+cfg.Name(), "the taint analysis panicked on the rewrites program: "+firstLine(res.Panic), []byte(res.Panic), false)
				continue
			}
			got := res.IDPairs()
			for pr := range gt {
				rep.Case(fmt.Sprintf("rewrites:case%d", pr.Source))
				if !got[[2]int{pr.Source, pr.Sink}] {
					rep.Fail(fmt.Sprintf("miss-rewrites:%s:case%d", cfg.Name(), pr.Source),
						fmt.Sprintf("taint analysis (%s) misses the flow source_%d -> sink_%d through a sort.Slice / sync.Once.Do / sort.SliceStable callback that the native run exhibits", cfg.Name(), pr.Source, pr.Sink),
						[]byte("// configuration "+cfg.Name()+"\n"+rewriteProg["main.go"]), false)
				}
			}
		}
	}
}
