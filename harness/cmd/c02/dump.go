// Dumper: SSA function -> CFG lines + unfolded condition values for the C02 oracle.
// The dumper contains no decision logic of the analysed code: it records the shape of values
// (instruction kind, operands) and three type-level facts computed from go/types directly.
package main

import (
	"fmt"
	"go/token"
	"go/types"
	"strings"

	"github.com/awslabs/ar-go-tools/analysis/config"
	"github.com/awslabs/ar-go-tools/analysis/taint"
	"golang.org/x/tools/go/ssa"
)

type fdump struct {
	fn  *ssa.Function
	ts  *config.TaintSpec
	ids map[ssa.Value]int
	// condition value id -> the value
	conds map[int]ssa.Value
}

func newDump(fn *ssa.Function, ts *config.TaintSpec) *fdump {
	return &fdump{fn: fn, ts: ts, ids: map[ssa.Value]int{}, conds: map[int]ssa.Value{}}
}

func (d *fdump) id(v ssa.Value) int {
	if k, ok := d.ids[v]; ok {
		return k
	}
	k := len(d.ids) + 1
	d.ids[v] = k
	return k
}

func b01(b bool) string {
	if b {
		return "1"
	}
	return "0"
}

// isPredicateSig: last result is of basic kind bool or is the error type (independent of lang.IsPredicateFunctionType).
func isPredicateSig(t types.Type) bool {
	sig, ok := t.Underlying().(*types.Signature)
	if !ok || sig.Results().Len() == 0 {
		return false
	}
	last := sig.Results().At(sig.Results().Len() - 1).Type()
	if b, ok := last.Underlying().(*types.Basic); ok {
		return b.Kind() == types.Bool
	}
	if it, ok := last.Underlying().(*types.Interface); ok {
		return last.String() == "error" || (it.NumMethods() == 1 && it.ExplicitMethod(0).Name() == "Error")
	}
	return false
}

func isNilError(v ssa.Value) bool {
	c, ok := v.(*ssa.Const)
	return ok && c.IsNil() && c.Type().String() == "error"
}

// vexpr unfolds v along the operands that the modelled functions inspect. budget bounds the node count.
func (d *fdump) vexpr(v ssa.Value, budget *int) string {
	*budget--
	if *budget < 0 {
		return "leaf 0"
	}
	id := d.id(v)
	switch x := v.(type) {
	case *ssa.Call:
		var sigT types.Type
		if x.Call.IsInvoke() {
			sigT = x.Call.Method.Type()
		} else {
			sigT = x.Call.Value.Type()
		}
		isVal := taint.IsMatchingCodeIDWithCallee(d.ts.IsValidator, nil, x)
		var sb strings.Builder
		fmt.Fprintf(&sb, "call %d %s %s %d", id, b01(isPredicateSig(sigT)), b01(isVal), len(x.Call.Args))
		for _, a := range x.Call.Args {
			sb.WriteString(" " + d.vexpr(a, budget))
		}
		return sb.String()
	case *ssa.BinOp:
		if (x.Op == token.EQL || x.Op == token.NEQ) && x.X.Type().String() == "error" {
			if isNilError(x.X) {
				return fmt.Sprintf("nil %d %s %s", id, b01(x.Op == token.EQL), d.vexpr(x.Y, budget))
			}
			if isNilError(x.Y) {
				return fmt.Sprintf("nil %d %s %s", id, b01(x.Op == token.EQL), d.vexpr(x.X, budget))
			}
		}
		return fmt.Sprintf("bin %d", id)
	case *ssa.UnOp:
		switch x.Op {
		case token.NOT:
			return fmt.Sprintf("not %d %s", id, d.vexpr(x.X, budget))
		case token.MUL:
			return fmt.Sprintf("load %d %s", id, d.vexpr(x.X, budget))
		}
		return fmt.Sprintf("un %d", id)
	case *ssa.FieldAddr:
		return fmt.Sprintf("fa %d %s", id, d.vexpr(x.X, budget))
	case *ssa.Extract:
		last := false
		if tup, ok := x.Tuple.Type().(*types.Tuple); ok {
			last = x.Index == tup.Len()-1
		}
		return fmt.Sprintf("ext %d %s %s", id, b01(last), d.vexpr(x.Tuple, budget))
	case *ssa.MakeInterface:
		return fmt.Sprintf("mi %d %s", id, d.vexpr(x.X, budget))
	}
	return fmt.Sprintf("leaf %d", id)
}

// cfgLines returns the fn/blk/val records of the function; ok=false if a value was too large to unfold.
func (d *fdump) cfgLines(fid string) (string, bool) {
	var sb strings.Builder
	fmt.Fprintf(&sb, "fn %s\n", fid)
	ok := true
	var vals []string
	for _, b := range d.fn.Blocks {
		ss := "-"
		if len(b.Succs) > 0 {
			var ps []string
			for _, s := range b.Succs {
				ps = append(ps, fmt.Sprint(s.Index))
			}
			ss = strings.Join(ps, ",")
		}
		isIf, cid := false, 0
		if len(b.Instrs) > 0 {
			if i, is := b.Instrs[len(b.Instrs)-1].(*ssa.If); is {
				isIf = true
				cid = d.id(i.Cond)
				if _, seen := d.conds[cid]; !seen {
					d.conds[cid] = i.Cond
					budget := 400
					e := d.vexpr(i.Cond, &budget)
					if budget < 0 {
						ok = false
					}
					vals = append(vals, fmt.Sprintf("val %d %s\n", cid, e))
				}
			}
		}
		fmt.Fprintf(&sb, "blk %s %s %d\n", ss, b01(isIf), cid)
	}
	for _, v := range vals {
		sb.WriteString(v)
	}
	return sb.String(), ok
}

func instrIndex(i ssa.Instruction) int {
	for k, x := range i.Block().Instrs {
		if x == i {
			return k
		}
	}
	return -1
}
