// Case programs: M10 on their functions, the edge tie, V3, and the end-to-end comparison with the
// marker ground truth of the native run.
package main

import (
	"bytes"
	"fmt"
	"go/types"
	"os"
	"os/exec"
	"path/filepath"
	"regexp"
	"sort"
	"strconv"
	"strings"
	"time"

	"github.com/awslabs/ar-go-tools/analysis/config"
	df "github.com/awslabs/ar-go-tools/analysis/dataflow"
	"github.com/awslabs/ar-go-tools/analysis/taint"
	"golang.org/x/tools/go/ssa"
	"verif/harness/lib"
	"verif/harness/taintrun"
)

const (
	// two taint-tracking problems with disjoint source / sink / sanitizer / validator lists
	sourceReA    = `^source$`
	sinkReA      = `^sink(Any|Box|Ptr)?$`
	sanitizerReA = `^sanitize$`
	validatorReA = `^(validate|validate2|check|check2|check3|check4|Validate|norm|validateBox|validatePtr|validateAny)$`
	sourceReB    = `^sourceB$`
	sinkReB      = `^sinkB$`
	sanitizerReB = `^sanitizeB$`
	validatorReB = `^(validateB|validate2B|checkB|check2B|check3B|check4B|ValidateB|normB)$`
	f5Key       = "F5:validator-condition-not-on-every-path"
	c02aKey     = "C02a:validated-load-before-store"
)

// configYAML: the configuration file of a run (problem 0 = A, problem 1 = B).
func configYAML(onDemand bool) string {
	prob := func(src, snk, san, val string) string {
		return fmt.Sprintf("  - sources:\n      - method: %q\n    sinks:\n      - method: %q\n    sanitizers:\n      - method: %q\n    validators:\n      - method: %q\n", src, snk, san, val)
	}
	return fmt.Sprintf("options:\n  log-level: 1\n  field-sensitive: false\n  summarize-on-demand: %v\ntaint-tracking-problems:\n", onDemand) +
		prob(sourceReA, sinkReA, sanitizerReA, validatorReA) + prob(sourceReB, sinkReB, sanitizerReB, validatorReB)
}

// probOfCallee: 0 = a function of problem A, 1 = of problem B (by name suffix).
func probOfCallee(name string) int {
	if strings.HasSuffix(name, "B") {
		return 1
	}
	return 0
}

func goEnv() []string {
	return append(os.Environ(), "GOFLAGS=-mod=mod", "GOPROXY=off", "GOSUMDB=off", "GOTOOLCHAIN=local", "GOWORK=off")
}

// nativeGT builds and runs the program in dir; returns the unvalidated flows (case, source site,
// sink site) and the number of runs per case.
func nativeGT(dir string) (map[[3]int]bool, map[int]int, error) {
	bin := filepath.Join(dir, "gt.bin")
	cmd := exec.Command("go", "build", "-tags", "native", "-o", bin, ".")
	cmd.Dir, cmd.Env = dir, goEnv()
	if out, err := cmd.CombinedOutput(); err != nil {
		return nil, nil, fmt.Errorf("go build: %v\n%s", err, out)
	}
	run := exec.Command(bin)
	var errb bytes.Buffer
	run.Stderr = &errb
	if err := run.Run(); err != nil {
		return nil, nil, fmt.Errorf("native run: %v\n%s", err, tail(errb.String(), 2000))
	}
	os.Remove(bin)
	flows, runs := map[[3]int]bool{}, map[int]int{}
	for _, l := range strings.Split(errb.String(), "\n") {
		f := strings.Fields(l)
		if len(f) == 4 && f[0] == "F" {
			a, _ := strconv.Atoi(f[1])
			b, _ := strconv.Atoi(f[2])
			c, _ := strconv.Atoi(f[3])
			flows[[3]int{a, b, c}] = true
		} else if len(f) == 3 && f[0] == "R" {
			a, _ := strconv.Atoi(f[1])
			b, _ := strconv.Atoi(f[2])
			runs[a] = b
		}
	}
	return flows, runs, nil
}

func tail(s string, n int) string {
	if len(s) > n {
		return s[len(s)-n:]
	}
	return s
}

var (
	srcCallRe  = regexp.MustCompile(`sourceB?\((\d+)\)`)
	sinkCallRe = regexp.MustCompile(`sink(?:Any|Box|Ptr|B)?\((\d+),`)
)

// siteLines maps line numbers of main.go to the source / sink site on that line.
func siteLines(text string) (src, snk map[int]int) {
	src, snk = map[int]int{}, map[int]int{}
	for i, l := range strings.Split(text, "\n") {
		if m := srcCallRe.FindStringSubmatch(l); m != nil {
			k, _ := strconv.Atoi(m[1])
			src[i+1] = k
		}
		if m := sinkCallRe.FindStringSubmatch(l); m != nil {
			k, _ := strconv.Atoi(m[1])
			snk[i+1] = k
		}
	}
	return
}

type caseInfo struct {
	id        int
	src       string
	sites     map[int]bool
	nontriv   bool
	dropped   int // real edges dropped by a validator condition
	unjust    int // of those, F5-shaped: a genuine validator condition that is not on every path
	viaMem    int // of those, justified only through "same data" of two loads (C02a)
	unexpl    int // of those, not explained by the model at all (no condition of the edge is a validator check for it)
	// class of the dropped edge source-call(site) -> sink-call(site) argument: "J" justified by must-pass
	// on the destination value itself, "M" justified only through the memory rules of ValuesWithSameData
	// (C02a), "F5" validator condition not on every path, "U" unexplained
	edgeClass map[[2]int]string
	// sinks that have an F5-class dropped edge from a node that is not a source call (data that went
	// through another call first, e.g. x1, _ = norm(x0))
	indirectF5 map[int]bool
	gt, rept  map[[2]int]bool
	condKinds map[int]bool
	shape     bool // a shape case (views of the same data)
	helper    bool // the body runs in a callee hcaseN(x0, x2)
	prob      int  // taint problem of the case: 0 = A, 1 = B
}

func collectKinds(b []cstmt, into map[int]bool) {
	for _, s := range b {
		if s.Kind == kIf || s.Kind == kFor {
			into[s.C.Kind] = true
		}
		collectKinds(s.A, into)
		collectKinds(s.B, into)
	}
}

func hasKind(b []cstmt, k int) bool {
	for _, s := range b {
		if s.Kind == k || hasKind(s.A, k) || hasKind(s.B, k) {
			return true
		}
	}
	return false
}

// sourceInstrOf returns the instruction from which checkFlow searches for a mark carried by n
// (ok=false: node kind for which the driver does not reconstruct it).
func sourceInstrOf(n df.GraphNode, fn *ssa.Function, arg ssa.Value) (ins ssa.Instruction, noCond, ok bool) {
	switch x := n.(type) {
	case *df.CallNode:
		return x.CallSite(), false, true
	case *df.CallNodeArg:
		return x.ParentNode().CallSite(), false, true
	case *df.SyntheticNode:
		return x.Instr(), false, true
	case *df.ParamNode:
		if _, isParam := arg.(*ssa.Parameter); isParam || len(fn.Blocks) == 0 {
			return nil, true, true
		}
		return fn.Blocks[0].Instrs[0], false, true
	case *df.FreeVarNode:
		return nil, true, true
	}
	return nil, false, false
}

// siteOfCall returns the constant first argument of a call to a function whose name starts with
// `name` (source(k) / sink(k, x) / sinkAny(k, x) …), or -1.
func siteOfCall(ins ssa.Instruction, name string) int {
	k, _ := siteAndProbOfCall(ins, name)
	return k
}

func siteAndProbOfCall(ins ssa.Instruction, name string) (int, int) {
	c, ok := ins.(ssa.CallInstruction)
	if !ok || c.Common().StaticCallee() == nil || !strings.HasPrefix(c.Common().StaticCallee().Name(), name) || len(c.Common().Args) == 0 {
		return -1, -1
	}
	k, ok := c.Common().Args[0].(*ssa.Const)
	if !ok || k.Value == nil {
		return -1, -1
	}
	return int(k.Int64()), probOfCallee(c.Common().StaticCallee().Name())
}

func (ci *caseInfo) classify(prob int, e df.GraphNode, call ssa.CallInstruction, class string) {
	if ci == nil {
		return
	}
	// only edges into a sink of the problem under consideration matter for that problem
	if _, sp := siteAndProbOfCall(call, "sink"); sp != prob {
		return
	}
	if cn, ok := e.(*df.CallNode); ok {
		if _, p := siteAndProbOfCall(cn.CallSite(), "source"); p >= 0 && p != prob {
			return
		}
	}
	switch class {
	case "F5":
		ci.unjust++
	case "M":
		ci.viaMem++
	case "U":
		ci.unexpl++
	}
	s, t := -1, siteOfCall(call, "sink")
	if cn, ok := e.(*df.CallNode); ok {
		s = siteOfCall(cn.CallSite(), "source")
	}
	if s < 0 && t >= 0 && class == "F5" {
		// data that reached this node through another call / a parameter
		if ci.indirectF5 == nil {
			ci.indirectF5 = map[int]bool{}
		}
		ci.indirectF5[t] = true
	}
	if s >= 0 && t >= 0 {
		if ci.edgeClass == nil {
			ci.edgeClass = map[[2]int]string{}
		}
		k := [2]int{s, t}
		// the worst class wins: U > F5 > M > J
		rank := map[string]int{"": 0, "J": 1, "M": 2, "F5": 3, "U": 4}
		if rank[class] > rank[ci.edgeClass[k]] {
			ci.edgeClass[k] = class
		}
	}
}

var stopNodeMismatches int

// checkStopNodes: the traversal stops (sanitizer) only at nodes that belong to a call of a sanitizer:
// the call node itself or one of its argument nodes. Exact comparison of the real isSanitizer with
// that expectation on every node of the summary graph.
func checkStopNodes(rep *lib.Report, state *df.AnalyzerState, ts *config.TaintSpec, prob int, sg *df.SummaryGraph, src string) {
	sanName := []string{"sanitize", "sanitizeB"}[prob]
	if sg == nil {
		return
	}
	calleeName := func(n df.GraphNode) string {
		var c ssa.CallInstruction
		switch x := n.(type) {
		case *df.CallNode:
			c = x.CallSite()
		case *df.CallNodeArg:
			c = x.ParentNode().CallSite()
		default:
			return ""
		}
		if c == nil || c.Common().StaticCallee() == nil {
			return ""
		}
		return c.Common().StaticCallee().Name()
	}
	sg.ForAllNodes(func(n df.GraphNode) {
		want := calleeName(n) == sanName
		got := taint.VerifC02IsSanitizer(state, ts, n)
		rep.Case("")
		if want {
			rep.Count(fmt.Sprintf("stop:sanitizer-node-problem%d", prob))
		}
		if got != want {
			stopNodeMismatches++
			rep.Count("stop:MISMATCH")
			if stopNodeMismatches > 3 {
				return
			}
			rep.Fail(fmt.Sprintf("stop-node:p%d:", prob)+n.String(), fmt.Sprintf("taint problem %d: isSanitizer(%s)=%v but the node %s a call of one of THIS problem's sanitizers: the traversal stops at a node that data does not have to have been sanitised at (or goes on through a sanitizer)", prob, n.String(), got, map[bool]string{true: "belongs to", false: "does not belong to"}[want]),
				[]byte(fmt.Sprintf("function %s\n%s\nnode %s (%s)\nreal isSanitizer=%v expected=%v\n", sg.Parent.String(), src, n.String(), strings.TrimSpace(df.NodeKind(n)), got, want)), false)
		}
	})
}

// addEdgeQueries walks the real summary graph of d.fn.
func addEdgeQueries(bt *batch, rep *lib.Report, d *fdump, ts *config.TaintSpec, prob int, sg *df.SummaryGraph, hdr, src string, ci *caseInfo, m *mismatchReporter) {
	if sg == nil {
		return
	}
	fn := d.fn
	type edge struct {
		n    df.GraphNode
		dest *df.CallNodeArg
		info df.EdgeInfo
	}
	var edges []edge
	sg.ForAllNodes(func(n df.GraphNode) {
		for dest, infos := range n.Out() {
			for _, info := range infos {
				if a, ok := dest.(*df.CallNodeArg); ok && a.Graph() == sg {
					edges = append(edges, edge{n, a, info})
				} else if info.Cond != nil && len(info.Cond.Conditions) > 0 {
					rep.Count("edge:conditioned-to-" + strings.TrimSpace(df.NodeKind(dest)))
				}
			}
		}
	})
	sort.Slice(edges, func(i, j int) bool {
		a, b := edges[i], edges[j]
		if a.n.LongID() != b.n.LongID() {
			return a.n.LongID() < b.n.LongID()
		}
		if a.dest.LongID() != b.dest.LongID() {
			return a.dest.LongID() < b.dest.LongID()
		}
		return a.info.Index < b.info.Index
	})
	for k, e := range edges {
		call := e.dest.ParentNode().CallSite()
		arg := e.dest.Value()
		var realConds df.ConditionInfo
		if e.info.Cond != nil {
			realConds = *e.info.Cond
		}
		realDrop := false
		for _, c := range realConds.Conditions {
			if taint.VerifC02IsValidatorCondition(ts, c.Value, c.IsPositive) {
				realDrop = true
			}
		}
		if realDrop && ci != nil && ci.prob == prob {
			ci.dropped++
		}
		sIns, noCond, ok := sourceInstrOf(e.n, fn, arg)
		_, isDefer := call.(*ssa.Defer)
		isFuncVal := false
		if v, isVal := call.(ssa.Value); isVal {
			_, isFuncVal = v.Type().Underlying().(*types.Signature)
		}
		budget := 400
		ae := d.vexpr(arg, &budget)
		if !ok || isDefer || isFuncVal || budget < 0 || (sIns != nil && sIns.Parent() != fn) {
			rep.Count("edge:not-modelled-source-kind-" + strings.TrimSpace(df.NodeKind(e.n)))
			if realDrop {
				ci.classify(prob, e.n, call, "U") // cannot be related to the criterion
			}
			continue
		}
		if noCond {
			rep.Count("edge:param-or-freevar-no-path-search")
			if len(realConds.Conditions) > 0 {
				m.report(&query{text: "edge " + e.n.LongID(), want: showConds(d, realConds), ctx: "edge from a parameter/free variable to a parameter argument carries conditions", hdr: hdr}, "-")
			}
			continue
		}
		sb, si := sIns.Block().Index, instrIndex(sIns)
		db, di := call.Block().Index, instrIndex(call)
		tag := fmt.Sprintf("e%d", k)
		want := fmt.Sprintf("edge %s C %s D %s", tag, showConds(d, realConds), b01(realDrop))
		key := ""
		if len(realConds.Conditions) > 0 {
			key = "edge|" + cfgText(fn) + fmt.Sprintf("|%d.%d>%d.%d|%s", sb, si, db, di, showConds(d, realConds))
			rep.Count("edge:conditioned")
		} else {
			rep.Count("edge:unconditioned")
		}
		if realDrop {
			rep.Count("edge:dropped-by-validator")
		}
		rep.Case(key)
		e := e
		q := &query{text: fmt.Sprintf("edge %s %d %d %d %d %s", tag, sb, si, db, di, ae), hdr: hdr,
			ctx: fmt.Sprintf("function %s\n%s\nedge %s -> %s\nreal conditions: %s\n", fn.String(), src, e.n.String(), e.dest.String(), realConds.String())}
		q.on = func(got string) {
			if !strings.HasPrefix(got, want+" J ") {
				q.want = want + " J ? R ?"
				m.report(q, got)
				if realDrop {
					// the real edge does not carry what the model of the unchanged code predicts:
					// its drop is not an instance of the recorded finding
					rep.Count("V3:dropped-edge-differs-from-model")
					ci.classify(prob, e.n, call, "U")
				}
				return
			}
			if realDrop {
				// real conditions == model conditions: V3 = dropJustified on them
				if strings.HasSuffix(got, " J 1 R 1") {
					rep.Count("V3:dropped-edge-must-pass")
					ci.classify(prob, e.n, call, "J")
				} else if strings.HasSuffix(got, " J 1 R 0") {
					rep.Count("V3:dropped-edge-must-pass-only-via-memory-same-data(outside_proved_domain)")
					ci.classify(prob, e.n, call, "M")
				} else {
					rep.Count("V3:dropped-edge-NOT-must-pass(outside_proved_domain)")
					ci.classify(prob, e.n, call, "F5")
				}
			}
		}
		bt.ask(q)
	}
}

func runCases(rep *lib.Report) {
	r := lib.Rand("c02-cases")
	nCases, maxNodes, maxBits := 130, 9, 9
	if lib.Thorough() {
		nCases, maxNodes, maxBits = 1200, 14, 11
	}
	var cases []*caseInfo
	var text strings.Builder
	text.WriteString("package main\n")
	// case0, case1: the recorded inputs of the known findings (fixed corpus, evaluated first)
	corpusDirs := []string{"F05_validator_one_path", "C02a_validated_cell_overwritten"}
	for i, dname := range corpusDirs {
		if c0 := corpusCase(rep, dname, i); c0 != nil {
			cases = append(cases, c0)
			text.WriteString("\n" + c0.src)
		} else {
			src := fmt.Sprintf("func case%d() {}\n", i)
			cases = append(cases, &caseInfo{id: i, src: src, sites: map[int]bool{}, gt: map[[2]int]bool{}, rept: map[[2]int]bool{}, condKinds: map[int]bool{}})
			text.WriteString("\n" + src)
		}
	}
	site := 100
	for i := len(corpusDirs); i < len(corpusDirs)+nCases; i++ {
		g := &caseGen{r: r, nextSite: &site}
		before := site
		s0 := g.site()
		s2 := 0
		if r.Intn(3) == 0 {
			s2 = g.site()
		}
		body := g.body(2+r.Intn(maxNodes), false, 0)
		helper := r.Intn(5) == 0
		prob := 0
		if r.Intn(10) < 3 {
			prob = 1
		}
		src := forProblem(renderCase(fmt.Sprintf("case%d", i), s0, s2, body, helper), prob)
		ci := &caseInfo{id: i, src: src, sites: map[int]bool{}, gt: map[[2]int]bool{}, rept: map[[2]int]bool{}, condKinds: map[int]bool{}}
		for k := before + 1; k <= site; k++ {
			ci.sites[k] = true
		}
		collectKinds(body, ci.condKinds)
		delete(ci.condKinds, cOpaque)
		ci.nontriv = hasKind(body, kSink) && (len(ci.condKinds) > 0 || hasKind(body, kSanitize))
		ci.helper = helper
		ci.prob = prob
		cases = append(cases, ci)
		text.WriteString("\n" + src)
	}
	nBeforeSystematic := len(cases)
	// systematic cases: every condition form x {sink in the then-branch, guard, sink in the else-branch},
	// plus a few fixed sanitizer / pass-through shapes
	curProb := 0
	addCase := func(body []cstmt, s2 bool) {
		i := len(cases)
		g := &caseGen{r: r, nextSite: &site}
		before := site
		s0 := g.site()
		st2 := 0
		if s2 {
			st2 = g.site()
		}
		var fix func(b []cstmt)
		fix = func(b []cstmt) {
			for k := range b {
				if b[k].Kind == kSink || b[k].Kind == kSource {
					b[k].Site = g.site()
				}
				fix(b[k].A)
				fix(b[k].B)
			}
		}
		fix(body)
		src := forProblem(renderCase(fmt.Sprintf("case%d", i), s0, st2, body, false), curProb)
		ci := &caseInfo{id: i, src: src, sites: map[int]bool{}, gt: map[[2]int]bool{}, rept: map[[2]int]bool{}, condKinds: map[int]bool{}, nontriv: true, prob: curProb}
		for k := before + 1; k <= site; k++ {
			ci.sites[k] = true
		}
		collectKinds(body, ci.condKinds)
		delete(ci.condKinds, cOpaque)
		cases = append(cases, ci)
		text.WriteString("\n" + src)
	}
	snk := func(v int) cstmt { return cstmt{Kind: kSink, V: v} }
	nop := []cstmt{{Kind: kNop}}
	for k := 1; k < nCondKinds; k++ {
		c := cond{Kind: k, V: 0}
		curProb = k % 2 // alternate the two taint problems over the condition forms …
		if lib.Thorough() {
			curProb = 0
		}
		for rounds := 0; rounds < 2; rounds++ {
			addCase([]cstmt{{Kind: kIf, C: c, A: []cstmt{snk(0)}}}, false)
			addCase([]cstmt{{Kind: kIf, C: c, A: []cstmt{{Kind: kReturn}}}, snk(0)}, false)
			addCase([]cstmt{{Kind: kIf, C: c, A: nop, B: []cstmt{snk(0)}}}, false)
			// the sink is reached on both outcomes: forgotten return / join after if-else
			addCase([]cstmt{{Kind: kIf, C: c, A: nop}, snk(0)}, false)
			addCase([]cstmt{{Kind: kIf, C: c, A: nop, B: nop}, snk(0)}, false)
			if !lib.Thorough() {
				break
			}
			curProb = 1 // … and both problems for every form in the thorough tier
		}
	}
	// cross-problem shapes, in both directions: the other problem's sanitizer / validator must not suppress
	for _, pr := range []int{0, 1} {
		curProb = pr
		addCase([]cstmt{{Kind: kSanitizeOther, V: 1, W: 0}, snk(1)}, false)
		addCase([]cstmt{{Kind: kSanitizeOther, V: 0, W: 0}, {Kind: kIf, C: cond{cOpaque, 0}, A: []cstmt{snk(0)}}, snk(0)}, false)
		addCase([]cstmt{{Kind: kIf, C: cond{cOtherNotVal, 0}, A: []cstmt{{Kind: kReturn}}}, snk(0)}, false)
		addCase([]cstmt{{Kind: kIf, C: cond{cOtherErrNe, 0}, A: []cstmt{{Kind: kReturn}}}, snk(0)}, false)
		addCase([]cstmt{{Kind: kSanitize, V: 1, W: 0}, snk(1), snk(0)}, false)
		addCase([]cstmt{{Kind: kIf, C: cond{cNotVal, 0}, A: []cstmt{{Kind: kReturn}}}, snk(0)}, false)
	}
	curProb = 0
	addCase([]cstmt{{Kind: kNorm, V: 1, W: 0}, snk(1)}, false)
	addCase([]cstmt{{Kind: kNorm, V: 1, W: 0}, {Kind: kIf, C: cond{cNotVal, 1}, A: []cstmt{{Kind: kReturn}}}, snk(1), snk(0)}, false)
	addCase([]cstmt{{Kind: kSanitize, V: 1, W: 0}, snk(1), snk(0)}, false)
	addCase([]cstmt{{Kind: kIf, C: cond{cOpaque, 0}, A: []cstmt{{Kind: kSanitize, V: 0, W: 0}}}, snk(0)}, false)
	addCase([]cstmt{{Kind: kSanitize, V: 0, W: 0}, {Kind: kConcat, V: 0, W: 2}, snk(0)}, true)
	addCase([]cstmt{{Kind: kCopy, V: 1, W: 0}, {Kind: kConcat, V: 1, W: 2}, {Kind: kIf, C: cond{cNotVal, 0}, A: []cstmt{{Kind: kReturn}}}, snk(1), snk(0)}, true)
	addCase([]cstmt{{Kind: kFor, C: cond{cVal, 0}, A: []cstmt{snk(0)}}, snk(0)}, false)
	addCase([]cstmt{{Kind: kFor, C: cond{cOpaque, 0}, A: []cstmt{{Kind: kIf, C: cond{cNotVal, 0}, A: []cstmt{{Kind: kReturn}}}, snk(0)}}, snk(0)}, false)
	rep.Extra["systematic_cases"] = len(cases) - nBeforeSystematic

	// shape cases (same data through different SSA views)
	nShapes := 60
	if lib.Thorough() {
		nShapes = 500
	}
	for k := 0; k < nShapes; k++ {
		i := len(cases)
		before := site
		src, _ := renderShapeCase(r, fmt.Sprintf("case%d", i), func() int { site++; return site })
		ci := &caseInfo{id: i, src: src, sites: map[int]bool{}, gt: map[[2]int]bool{}, rept: map[[2]int]bool{}, condKinds: map[int]bool{}, nontriv: true, shape: true}
		for k := before + 1; k <= site; k++ {
			ci.sites[k] = true
		}
		cases = append(cases, ci)
		text.WriteString("\n" + src)
	}
	skel, skelSrcs := skeletonFunctions(rep)
	dir := lib.WorkDir(prop, "prog")
	nm, sm := renderMains(len(cases), maxBits)
	lib.WriteProgram(dir, "vcase", map[string]string{
		"main.go":           text.String(),
		"skel.go":           skel,
		"support_native.go": nativeSupport() + shapeNative + nm,
		"support_stub.go":   stubSupport() + shapeStub + sm,
	})
	runProgram(rep, dir, "vcase", text.String(), cases, skelSrcs)
}

// corpusCase reads a recorded input (a case function named case<id> with sites < 100).
func corpusCase(rep *lib.Report, dname string, id int) *caseInfo {
	src, err := os.ReadFile(filepath.Join(lib.Root(), "corpus", "findings", dname, "case.go.txt"))
	if err != nil {
		rep.Notes = append(rep.Notes, "corpus case file missing: "+err.Error())
		return nil
	}
	body := string(src)
	ci := &caseInfo{id: id, src: body, sites: map[int]bool{}, gt: map[[2]int]bool{}, rept: map[[2]int]bool{}, condKinds: map[int]bool{cVal: true}, nontriv: true}
	for _, m := range srcCallRe.FindAllStringSubmatch(body, -1) {
		k, _ := strconv.Atoi(m[1])
		ci.sites[k] = true
	}
	for _, m := range sinkCallRe.FindAllStringSubmatch(body, -1) {
		k, _ := strconv.Atoi(m[1])
		ci.sites[k] = true
	}
	return ci
}

// withDeadline runs f; ok=false if it did not return in time (f keeps running in its goroutine).
func withDeadline(d time.Duration, f func()) bool {
	done := make(chan struct{})
	go func() { defer close(done); f() }()
	select {
	case <-done:
		return true
	case <-time.After(d):
		return false
	}
}

// runProgram: ground truth, real analysis, correspondence and comparison for one program.
func runProgram(rep *lib.Report, dir, pkg, text string, cases []*caseInfo, skelSrcs map[string]string) {
	const name = "prog"
	tN := time.Now()
	gt, runs, err := nativeGT(dir)
	rep.Extra[name+"_native_build_and_run_seconds"] = time.Since(tN).Seconds()
	if err != nil {
		rep.Fail("harness-native-"+name, "generated case program does not build/run natively: "+err.Error(), nil, true)
		return
	}
	totalRuns := 0
	for _, n := range runs {
		totalRuns += n
	}
	rep.Extra[name+"_native_runs"] = totalRuns
	l, err := taintrun.Load(dir, false)
	if err != nil {
		rep.Fail("harness-load-"+name, "generated case program does not load: "+err.Error(), nil, true)
		return
	}
	var res *taintrun.Result
	if !withDeadline(20*time.Minute, func() { res = l.Analyze(taintrun.Options{YAML: configYAML(false)}) }) {
		rep.Fail("analysis-timeout", "the taint analysis of the generated case program did not finish within 20 minutes (program in "+dir+")", nil, true)
		rep.Finish()
		os.Exit(1)
	}
	if !res.OK() || res.Analysis.State == nil || len(res.Config.TaintTrackingProblems) != 2 {
		rep.Fail("harness-analyze-"+name, fmt.Sprintf("taint analysis did not complete: loadErr=%v panic=%s", res.LoadErr, tail(res.Panic, 1500)), nil, true)
		return
	}
	rep.Extra[name+"_analyze_seconds"] = res.AnalyzeSeconds
	rep.Extra[name+"_load_seconds"] = res.LoadSeconds
	tss := []*config.TaintSpec{&res.Config.TaintTrackingProblems[0], &res.Config.TaintTrackingProblems[1]}
	srcLine, snkLine := siteLines(text)
	siteCase := map[int]*caseInfo{}
	for _, ci := range cases {
		for s := range ci.sites {
			siteCase[s] = ci
		}
	}
	for _, f := range res.Flows {
		s, okS := srcLine[f.SrcLine]
		t, okT := snkLine[f.SinkLine]
		if !okS || !okT || f.SrcFile != "main.go" || f.SinkFile != "main.go" {
			rep.Count("e2e:reported-flow-outside-case-sites")
			continue
		}
		if ci := siteCase[t]; ci != nil {
			ci.rept[[2]int{s, t}] = true
		}
	}
	for k := range gt {
		if k[0] >= 0 && k[0] < len(cases) {
			cases[k[0]].gt[[2]int{k[1], k[2]}] = true
		}
	}
	// correspondence, first on the case / support functions (the end-to-end comparison needs their edge
	// classes), afterwards on the control-flow skeletons
	m := &mismatchReporter{rep: rep, perKey: map[string]int{}}
	caseByName := map[string]*caseInfo{}
	for _, ci := range cases {
		caseByName[fmt.Sprintf("case%d", ci.id)] = ci
		caseByName[fmt.Sprintf("hcase%d", ci.id)] = ci
	}
	rr := lib.Rand("c02-" + name + "-queries")
	nSkel := 0
	defer func() { rep.Extra["skeleton_functions"] = nSkel }()
	fns := pkgFunctions(res.Prog, pkg)
	summaries := res.Analysis.State.FlowGraph.Summaries
	bt := &batch{}
	for i, f := range fns {
		if _, isSkel := skelSrcs[f.Name()]; isSkel {
			continue
		}
		ci := caseByName[f.Name()]
		src := ""
		if ci != nil {
			src = ci.src
		}
		for prob, ts := range tss {
			d := newDump(f, ts)
			hdr, ok := d.cfgLines(fmt.Sprintf("%s%dp%d", name, i, prob))
			if !ok {
				rep.Count("fn:value-too-large-skipped")
				break
			}
			bt.header(hdr)
			if prob == 0 {
				addPathQueries(bt, rep, rr, d, hdr, src)
			}
			addValueQueries(bt, rep, rr, d, ts, prob, hdr, src)
			addEdgeQueries(bt, rep, d, ts, prob, summaries[f], hdr, src, ci, m)
			checkStopNodes(rep, res.Analysis.State, ts, prob, summaries[f], src)
		}
	}
	if pathSearchHung || !bt.run(rep, name, m.report) {
		return
	}
	// end-to-end comparison
	inDomain, outDomain, missesOut := 0, 0, 0
	for _, ci := range cases {
		key := ""
		if ci.nontriv {
			key = "case|" + ci.src
		}
		rep.Case(key)
		for k := range ci.condKinds {
			rep.Count(fmt.Sprintf("case:cond-kind-%02d", k))
		}
		if ci.shape {
			rep.Count("case:shape")
		}
		if ci.helper {
			rep.Count("case:body-in-callee")
		}
		if ci.dropped > 0 {
			rep.Count("case:has-validator-dropped-edge")
		}
		if len(ci.gt) > 0 {
			rep.Count("case:ground-truth-has-unvalidated-flow")
		}
		if len(ci.rept) > len(ci.gt) {
			rep.Count("case:reports-more-than-ground-truth(precision, not demanded)")
		}
		if ci.nontriv && (ci.id%37 == 3 || ci.id < 2) {
			rep.Sample(map[string]any{"case": ci.src, "ground_truth_unvalidated_flows": keys2(ci.gt), "reported": keys2(ci.rept),
				"validator_dropped_edges": ci.dropped, "dropped_not_on_every_path": ci.unjust, "dropped_via_memory_same_data": ci.viaMem,
				"edge_classes": fmt.Sprint(ci.edgeClass)})
		}
		dom := ci.unjust == 0 && ci.unexpl == 0 && ci.viaMem == 0
		if dom {
			inDomain++
		} else {
			outDomain++
		}
		var missed, missedF5, missedMem [][2]int
		for k := range ci.gt {
			if !ci.rept[k] {
				if cl, direct := ci.edgeClass[k]; cl == "F5" || (!direct && ci.indirectF5[k[1]]) {
					missedF5 = append(missedF5, k)
				} else if cl == "M" {
					missedMem = append(missedMem, k)
				} else {
					missed = append(missed, k)
				}
			}
		}
		if len(missed)+len(missedF5)+len(missedMem) == 0 {
			continue
		}
		less := func(l [][2]int) func(i, j int) bool {
			return func(i, j int) bool { return l[i][0]*100000+l[i][1] < l[j][0]*100000+l[j][1] }
		}
		sort.Slice(missed, less(missed))
		sort.Slice(missedF5, less(missedF5))
		sort.Slice(missedMem, less(missedMem))
		content := fmt.Sprintf("%s\nmissed (source site, sink site): %v\nmissed through an edge validated only via two loads of one pointer (C02a): %v\nmissed through an edge whose validator condition is not on every path (F5): %v\nground truth: %v\nreported: %v\nvalidator-dropped edges: %d (not on every path: %d, unexplained by the model: %d); classes %v\ntaint problem of this case: %d\nconfig (2 problems):\n%s\nsupport code: nativeSupport() / stubSupport() in harness/cmd/c02/gen.go (the whole program is in %s)\n",
			ci.src, missed, missedMem, missedF5, keys2(ci.gt), keys2(ci.rept), ci.dropped, ci.unjust, ci.unexpl, ci.edgeClass, ci.prob, configYAML(false), dir)
		if len(missed) > 0 {
			rep.Fail("e2e-miss:"+ci.src, fmt.Sprintf("a native execution delivers unvalidated, unsanitized source data to a sink (source site, sink site)=%v and the taint analysis does not report it; the flow is not explained by a validator condition that fails must-pass", missed[0]), []byte(content), false)
		}
		if len(missedMem) > 0 {
			missesOut++
			rep.Fail(c02aKey, "flow dropped because a validator accepted an earlier load of a memory cell that was overwritten with source data before the sink", []byte(content), false)
		}
		if len(missedF5) > 0 {
			missesOut++
			rep.Fail(f5Key, "flow dropped because of a validator condition taken from ONE path while another path by-passes the validator", []byte(content), false)
		}
	}
	// second configuration: on-demand summaries. The conditions of an edge are built by the same code
	// whenever the function is summarised, so every flow that the default configuration reports and the
	// ground truth confirms must be reported again.
	{
		var res2 *taintrun.Result
		if !withDeadline(20*time.Minute, func() { res2 = l.Analyze(taintrun.Options{YAML: configYAML(true)}) }) {
			rep.Fail("analysis-timeout-ondemand", "the taint analysis (summarize-on-demand) did not finish within 20 minutes", nil, true)
			rep.Finish()
			os.Exit(1)
		}
		if !res2.OK() {
			rep.Fail("harness-analyze-ondemand", fmt.Sprintf("taint analysis (summarize-on-demand) did not complete: loadErr=%v panic=%s", res2.LoadErr, tail(res2.Panic, 1500)), nil, true)
		} else {
			rept2 := map[[2]int]bool{}
			for _, f := range res2.Flows {
				s, okS := srcLine[f.SrcLine]
				t, okT := snkLine[f.SinkLine]
				if okS && okT && f.SrcFile == "main.go" && f.SinkFile == "main.go" {
					rept2[[2]int{s, t}] = true
				}
			}
			lost := 0
			for _, ci := range cases {
				for k := range ci.gt {
					if ci.rept[k] && !rept2[k] {
						lost++
						if lost <= 3 {
							rep.Fail("e2e-ondemand-miss:"+ci.src, fmt.Sprintf("with summarize-on-demand the analysis no longer reports the unvalidated flow (source site, sink site)=%v that the default configuration reports and a native execution exhibits", k), []byte(ci.src), false)
						}
					}
				}
			}
			rep.Extra["ondemand_flows"] = len(rept2)
			rep.Extra["ondemand_lost_flows"] = lost
			rep.Count("config:summarize-on-demand")
		}
	}
	// control-flow skeletons: path search and condition collection on many CFG shapes
	bs := &batch{}
	for i, f := range fns {
		src, isSkel := skelSrcs[f.Name()]
		if !isSkel || pathSearchHung {
			continue
		}
		d := newDump(f, tss[0])
		hdr, ok := d.cfgLines(fmt.Sprintf("skel%d", i))
		if !ok {
			continue
		}
		nSkel++
		bs.header(hdr)
		addPathQueries(bs, rep, rr, d, hdr, src)
		addEdgeQueries(bs, rep, d, tss[0], 0, summaries[f], hdr, src, nil, m)
	}
	if !pathSearchHung {
		bs.run(rep, "skel", m.report)
	}
	rep.Extra[name+"_mismatches"] = m.total
	rep.Extra[name+"_in_proved_domain"] = inDomain
	rep.Extra[name+"_outside_proved_domain"] = outDomain
	rep.Extra[name+"_outside_proved_domain_with_missed_flow"] = missesOut
}

func keys2(m map[[2]int]bool) [][2]int {
	var ks [][2]int
	for k := range m {
		ks = append(ks, k)
	}
	sort.Slice(ks, func(i, j int) bool { return ks[i][0]*100000+ks[i][1] < ks[j][0]*100000+ks[j][1] })
	return ks
}

