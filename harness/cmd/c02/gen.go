// Generator of C02 case functions: one tainted string (plus helpers) moving through a control-flow
// skeleton that contains validator checks in many syntactic forms, sanitizer calls and sinks.
// All branch outcomes (opaque conditions and validator verdicts) are bits of a decision stream,
// so the native run can enumerate every execution.
package main

import (
	"fmt"
	"math/rand"
	"regexp"
	"strings"
)

// statement kinds
const (
	kIf = iota
	kFor
	kForInf
	kSwitch
	kReturn
	kBreak
	kContinue
	kSink
	kSanitize // xv = sanitize(xw)
	kCopy     // xv = xw
	kConcat   // xv = xv + xw
	kSource   // xv = source(site)
	kClean    // xv = "c"
	kNop
	kNorm // xv, _ = norm(xw): the data goes THROUGH a validator (which returns its argument and a verdict)
	kSanitizeOther // xv = sanitize§(xw): the sanitizer of the OTHER taint problem (no effect on this problem's data)
)

// condition kinds (on variable V unless opaque)
const (
	cOpaque = iota
	cVal            // validate(x)
	cNotVal         // !validate(x)
	cErrEqInline    // check(x) == nil
	cErrNeInline    // check(x) != nil
	cNilEqErrInline // nil == check(x)
	cNilNeErrInline // nil != check(x)
	cErrNe          // e := check(x); e != nil
	cErrEq          // e := check(x); e == nil
	cTupErrNe       // _, e := check2(x); e != nil
	cTupErrEq       // _, e := check2(x); e == nil
	cTupOk          // _, ok := check3(x); ok
	cTupNotOk       // _, ok := check3(x); !ok
	cOkVar          // ok := validate(x); ok
	cNokVar         // nok := !validate(x); nok
	cNotNokVar      // nok := !validate(x); !nok
	cValAndOpaque   // validate(x) && c()
	cValOrOpaque    // validate(x) || c()
	cOpaqueAndVal   // c() && validate(x)
	cOpaqueOrVal    // c() || validate(x)
	cOther          // other(x): a predicate that is not a validator
	cTupFirstErr    // e0, _ := check4(x); e0 == nil   (not the last component)
	cVal2           // validate2(7, x)
	cNotErrNe       // !(check(x) != nil)
	cValConcat      // validate(x + "")  (validates other data)
	cIface          // vi.Validate(x) through an interface (invoke mode)
	cNormErrNe      // _, e := norm(x); e != nil
	cNormErrEq      // _, e := norm(x); e == nil
	cOtherVal       // validate§(x): a validator of the OTHER taint problem
	cOtherNotVal    // !validate§(x)
	cOtherErrNe     // check§(x) != nil
	cOtherErrEq     // check§(x) == nil
	nCondKinds
)

// kinds usable in a `for` header (no pre-statement)
var forConds = []int{cOpaque, cVal, cNotVal, cErrEqInline, cErrNeInline, cValAndOpaque, cOpaqueOrVal, cOther, cVal2, cOtherVal, cOpaque, cOpaque}

type cond struct {
	Kind int
	V    int
}

type cstmt struct {
	Kind int
	C    cond
	A, B []cstmt
	V, W int // variables
	Site int // source / sink site id
}

const nVars = 3

type caseGen struct {
	r        *rand.Rand
	nextSite *int
	tmp      int
}

func (g *caseGen) site() int { *g.nextSite++; return *g.nextSite }

func (g *caseGen) randCond(forHeader bool) cond {
	v := 0
	if g.r.Intn(5) == 0 {
		v = g.r.Intn(nVars)
	}
	if forHeader {
		return cond{forConds[g.r.Intn(len(forConds))], v}
	}
	if g.r.Intn(4) == 0 {
		return cond{cOpaque, v}
	}
	return cond{1 + g.r.Intn(nCondKinds-1), v}
}

func (g *caseGen) leaf(inLoop bool) cstmt {
	for {
		switch p := g.r.Intn(100); {
		case p < 34:
			v := 0
			if g.r.Intn(4) == 0 {
				v = g.r.Intn(nVars)
			}
			return cstmt{Kind: kSink, V: v, Site: g.site()}
		case p < 44:
			return cstmt{Kind: kReturn}
		case p < 50:
			if inLoop {
				return cstmt{Kind: kBreak}
			}
		case p < 56:
			if inLoop {
				return cstmt{Kind: kContinue}
			}
		case p < 64:
			return cstmt{Kind: kSanitize, V: g.r.Intn(nVars), W: g.r.Intn(nVars)}
		case p < 72:
			return cstmt{Kind: kCopy, V: g.r.Intn(nVars), W: g.r.Intn(nVars)}
		case p < 80:
			return cstmt{Kind: kConcat, V: g.r.Intn(nVars), W: g.r.Intn(nVars)}
		case p < 88:
			return cstmt{Kind: kSource, V: g.r.Intn(nVars), Site: g.site()}
		case p < 92:
			return cstmt{Kind: kClean, V: g.r.Intn(nVars)}
		case p < 95:
			return cstmt{Kind: kNorm, V: g.r.Intn(nVars), W: g.r.Intn(nVars)}
		case p < 98:
			return cstmt{Kind: kSanitizeOther, V: g.r.Intn(nVars), W: g.r.Intn(nVars)}
		default:
			return cstmt{Kind: kNop}
		}
	}
}

func size(b []cstmt) int {
	n := 0
	for _, s := range b {
		n += 1 + size(s.A) + size(s.B)
	}
	return n
}

func (g *caseGen) body(n int, inLoop bool, depth int) []cstmt {
	var out []cstmt
	for n > 0 {
		s := g.stmt(n, inLoop, depth)
		out = append(out, s)
		n -= 1 + size(s.A) + size(s.B)
		if s.Kind == kReturn || s.Kind == kBreak || s.Kind == kContinue {
			break // a terminator ends the body (rendered unconditionally)
		}
	}
	return out
}

func (g *caseGen) stmt(n int, inLoop bool, depth int) cstmt {
	if n <= 1 || depth > 3 || g.r.Intn(100) < 40 {
		return g.leaf(inLoop)
	}
	rest := n - 1
	switch p := g.r.Intn(100); {
	case p < 30: // if without else
		return cstmt{Kind: kIf, C: g.randCond(false), A: g.body(1+g.r.Intn(rest), inLoop, depth+1)}
	case p < 45: // guard: if <cond> { return }
		return cstmt{Kind: kIf, C: g.randCond(false), A: []cstmt{{Kind: kReturn}}}
	case p < 70:
		a := g.r.Intn(rest + 1)
		b := 0
		if rest-a > 0 {
			b = g.r.Intn(rest - a + 1)
		}
		return cstmt{Kind: kIf, C: g.randCond(false), A: g.body(a, inLoop, depth+1), B: g.body(b, inLoop, depth+1)}
	case p < 85:
		return cstmt{Kind: kFor, C: g.randCond(true), A: g.body(1+g.r.Intn(rest), true, depth+1)}
	case p < 92:
		return cstmt{Kind: kForInf, A: g.body(1+g.r.Intn(rest), true, depth+1)}
	default:
		a := g.r.Intn(rest + 1)
		b := 0
		if rest-a > 0 {
			b = g.r.Intn(rest - a + 1)
		}
		return cstmt{Kind: kSwitch, A: g.body(a, inLoop, depth+1), B: g.body(b, inLoop, depth+1)}
	}
}

// ---- rendering ----

type crender struct {
	sb  strings.Builder
	tmp int
}

func (r *crender) fresh(p string) string { r.tmp++; return fmt.Sprintf("%s%d", p, r.tmp) }

// condExpr returns (pre-statements, expression).
func (r *crender) condExpr(c cond) (string, string) {
	x := fmt.Sprintf("x%d", c.V)
	switch c.Kind {
	case cOpaque:
		return "", "c()"
	case cVal:
		return "", "validate(" + x + ")"
	case cNotVal:
		return "", "!validate(" + x + ")"
	case cErrEqInline:
		return "", "check(" + x + ") == nil"
	case cErrNeInline:
		return "", "check(" + x + ") != nil"
	case cNilEqErrInline:
		return "", "nil == check(" + x + ")"
	case cNilNeErrInline:
		return "", "nil != check(" + x + ")"
	case cErrNe:
		e := r.fresh("e")
		return e + " := check(" + x + ")", e + " != nil"
	case cErrEq:
		e := r.fresh("e")
		return e + " := check(" + x + ")", e + " == nil"
	case cTupErrNe:
		e := r.fresh("e")
		return "_, " + e + " := check2(" + x + ")", e + " != nil"
	case cTupErrEq:
		e := r.fresh("e")
		return "_, " + e + " := check2(" + x + ")", e + " == nil"
	case cTupOk:
		e := r.fresh("ok")
		return "_, " + e + " := check3(" + x + ")", e
	case cTupNotOk:
		e := r.fresh("ok")
		return "_, " + e + " := check3(" + x + ")", "!" + e
	case cOkVar:
		e := r.fresh("ok")
		return e + " := validate(" + x + ")", e
	case cNokVar:
		e := r.fresh("nok")
		return e + " := !validate(" + x + ")", e
	case cNotNokVar:
		e := r.fresh("nok")
		return e + " := !validate(" + x + ")", "!" + e
	case cValAndOpaque:
		return "", "validate(" + x + ") && c()"
	case cValOrOpaque:
		return "", "validate(" + x + ") || c()"
	case cOpaqueAndVal:
		return "", "c() && validate(" + x + ")"
	case cOpaqueOrVal:
		return "", "c() || validate(" + x + ")"
	case cOther:
		return "", "other(" + x + ")"
	case cTupFirstErr:
		e := r.fresh("e")
		return e + ", _ := check4(" + x + ")", e + " == nil"
	case cVal2:
		return "", "validate2(7, " + x + ")"
	case cNotErrNe:
		return "", "!(check(" + x + ") != nil)"
	case cValConcat:
		return "", "validate(" + x + " + \"\")"
	case cIface:
		return "", "vi.Validate(" + x + ")"
	case cNormErrNe:
		e := r.fresh("e")
		return "_, " + e + " := norm(" + x + ")", e + " != nil"
	case cNormErrEq:
		e := r.fresh("e")
		return "_, " + e + " := norm(" + x + ")", e + " == nil"
	case cOtherVal:
		return "", "validate§(" + x + ")"
	case cOtherNotVal:
		return "", "!validate§(" + x + ")"
	case cOtherErrNe:
		return "", "check§(" + x + ") != nil"
	case cOtherErrEq:
		return "", "check§(" + x + ") == nil"
	}
	panic("cond kind")
}

func (r *crender) body(b []cstmt, ind int) {
	tab := strings.Repeat("\t", ind)
	for _, s := range b {
		switch s.Kind {
		case kIf:
			pre, e := r.condExpr(s.C)
			if pre != "" {
				fmt.Fprintf(&r.sb, "%s%s\n", tab, pre)
			}
			fmt.Fprintf(&r.sb, "%sif %s {\n", tab, e)
			r.body(s.A, ind+1)
			if len(s.B) > 0 {
				fmt.Fprintf(&r.sb, "%s} else {\n", tab)
				r.body(s.B, ind+1)
			}
			fmt.Fprintf(&r.sb, "%s}\n", tab)
		case kFor:
			_, e := r.condExpr(s.C)
			fmt.Fprintf(&r.sb, "%sfor %s {\n", tab, e)
			r.body(s.A, ind+1)
			fmt.Fprintf(&r.sb, "%s}\n", tab)
		case kForInf:
			fmt.Fprintf(&r.sb, "%sfor {\n%s\ttick()\n", tab, tab)
			r.body(s.A, ind+1)
			fmt.Fprintf(&r.sb, "%s}\n", tab)
		case kSwitch:
			fmt.Fprintf(&r.sb, "%sswitch n() {\n%scase 0:\n", tab, tab)
			r.body(s.A, ind+1)
			fmt.Fprintf(&r.sb, "%scase 1:\n", tab)
			r.body(s.B, ind+1)
			fmt.Fprintf(&r.sb, "%s}\n", tab)
		case kReturn:
			fmt.Fprintf(&r.sb, "%sreturn\n", tab)
		case kBreak:
			fmt.Fprintf(&r.sb, "%sbreak\n", tab)
		case kContinue:
			fmt.Fprintf(&r.sb, "%scontinue\n", tab)
		case kSink:
			fmt.Fprintf(&r.sb, "%ssink(%d, x%d)\n", tab, s.Site, s.V)
		case kSanitize:
			fmt.Fprintf(&r.sb, "%sx%d = sanitize(x%d)\n", tab, s.V, s.W)
		case kCopy:
			if s.V != s.W {
				fmt.Fprintf(&r.sb, "%sx%d = x%d\n", tab, s.V, s.W)
			}
		case kConcat:
			fmt.Fprintf(&r.sb, "%sx%d = x%d + x%d\n%slim(x%d)\n", tab, s.V, s.V, s.W, tab, s.V)
		case kSource:
			fmt.Fprintf(&r.sb, "%sx%d = source(%d)\n", tab, s.V, s.Site)
		case kClean:
			fmt.Fprintf(&r.sb, "%sx%d = \"c\"\n", tab, s.V)
		case kNop:
			fmt.Fprintf(&r.sb, "%snop()\n", tab)
		case kNorm:
			fmt.Fprintf(&r.sb, "%sx%d, _ = norm(x%d)\n", tab, s.V, s.W)
		case kSanitizeOther:
			fmt.Fprintf(&r.sb, "%sx%d = sanitize§(x%d)\n", tab, s.V, s.W)
		}
	}
}

// renderCase prints `func caseN() { x0 := source(site0); x1 := "a"; x2 := source(site2)|"b"; body }`.
func renderCase(name string, site0, site2 int, body []cstmt, helper bool) string {
	r := &crender{}
	if helper {
		// the body runs in a callee that receives the tainted values as parameters
		fmt.Fprintf(&r.sb, "func %s() {\n\tx0 := source(%d)\n", name, site0)
		if site2 > 0 {
			fmt.Fprintf(&r.sb, "\tx2 := source(%d)\n", site2)
		} else {
			r.sb.WriteString("\tx2 := \"b\"\n")
		}
		fmt.Fprintf(&r.sb, "\th%s(x0, x2)\n}\n\nfunc h%s(x0, x2 string) {\n\tx1 := \"a\"\n", name, name)
	} else {
		fmt.Fprintf(&r.sb, "func %s() {\n\tx0 := source(%d)\n\tx1 := \"a\"\n", name, site0)
		if site2 > 0 {
			fmt.Fprintf(&r.sb, "\tx2 := source(%d)\n", site2)
		} else {
			r.sb.WriteString("\tx2 := \"b\"\n")
		}
	}
	r.body(body, 1)
	r.sb.WriteString("\tuse(x0, x1, x2)\n}\n")
	return r.sb.String()
}

// return / break / continue are rendered unconditionally and always end their body.

// prelude: the instrumented support code. Decisions come from `bits`; the run records, for every
// sink call, the markers of its argument that no validator accepted.
const nativeCommon = `//go:build native

package main

var (
	bits      []bool
	cursor    int
	steps     int
	serial    int
	validated map[string]bool
	flows     map[[3]int]bool
	curCase   int
)

type budget struct{}

func tick() {
	steps++
	if steps > 400 {
		panic(budget{})
	}
}

//go:noinline
func c() bool {
	tick()
	cursor++
	if cursor <= len(bits) {
		return bits[cursor-1]
	}
	return false
}

//go:noinline
func always() bool { return c() }

//go:noinline
func n() int {
	a, b := c(), c()
	k := 0
	if a {
		k++
	}
	if b {
		k += 2
	}
	return k
}

//go:noinline
func nop() {}

//go:noinline
func d(k int) {}

// lim stops a run whose strings grow without bound (repeated self-concatenation in a loop).
//
//go:noinline
func lim(s string) {
	if len(s) > 4000 {
		panic(budget{})
	}
}

//go:noinline
func use(a, b, d string) {}

func itoa(k int) string {
	if k == 0 {
		return "0"
	}
	s := ""
	for k > 0 {
		s = string(rune('0'+k%10)) + s
		k /= 10
	}
	return s
}

type errT struct{}

func (errT) Error() string { return "bad" }

//go:noinline
func other(s string) bool { return c() }

`

// nativeProblem: the support functions of taint problem A; problem B is derived from it by renaming
// (suffix B) and by using [site.serial] markers instead of <site.serial>, so that the functions of one
// problem neither see nor touch the data of the other.
const nativeProblem = `
// source returns a string that carries a fresh marker <site.serial>.
//
//go:noinline
func source(site int) string {
	tick()
	serial++
	return "<" + itoa(site) + "." + itoa(serial) + ">"
}

// markers lists the markers contained in s.
func markers(s string) []string {
	var out []string
	for i := 0; i < len(s); i++ {
		if s[i] == '<' {
			j := i
			for j < len(s) && s[j] != '>' {
				j++
			}
			if j < len(s) {
				out = append(out, s[i:j+1])
				i = j
			}
		}
	}
	return out
}

func siteOf(m string) int {
	k := 0
	for i := 1; i < len(m) && m[i] != '.'; i++ {
		k = k*10 + int(m[i]-'0')
	}
	return k
}

func accept(s string) {
	for _, m := range markers(s) {
		validated[m] = true
	}
}

//go:noinline
func sink(site int, s string) {
	tick()
	for _, m := range markers(s) {
		if !validated[m] {
			flows[[3]int{curCase, siteOf(m), site}] = true
		}
	}
}

// sanitize removes the markers of its own problem (and only those).
//
//go:noinline
func sanitize(s string) string {
	out := ""
	for i := 0; i < len(s); i++ {
		if s[i] == '<' {
			j := i
			for j < len(s) && s[j] != '>' {
				j++
			}
			if j < len(s) {
				i = j
				continue
			}
		}
		out += string(s[i])
	}
	return out + "c"
}

//go:noinline
func validate(s string) bool {
	if c() {
		accept(s)
		return true
	}
	return false
}

//go:noinline
func validate2(k int, s string) bool { return validate(s) }

//go:noinline
func check(s string) error {
	if validate(s) {
		return nil
	}
	return errT{}
}

//go:noinline
func check2(s string) (string, error) { return "i", check(s) }

//go:noinline
func check3(s string) (string, bool) { return "i", validate(s) }

// check4: the verdict is the last component; the first one is unrelated.
//
//go:noinline
func check4(s string) (error, bool) {
	var e error
	if c() {
		e = errT{}
	}
	return e, validate(s)
}

// norm: a validator that returns its argument together with the verdict.
//
//go:noinline
func norm(s string) (string, error) { return s, check(s) }

type validator interface{ Validate(s string) bool }

type realValidator struct{}

func (realValidator) Validate(s string) bool { return validate(s) }

var vi validator = realValidator{}

`

const nativeTail = `
// explore runs f under every decision stream (lazily: a stream is extended only where the run
// asked for more decisions), up to maxBits decisions per run.
func explore(id int, maxBits int, f func()) {
	curCase = id
	runs := 0
	stack := [][]bool{nil}
	for len(stack) > 0 && runs < 4096 {
		prefix := stack[len(stack)-1]
		stack = stack[:len(stack)-1]
		bits, cursor, steps = prefix, 0, 0
		validated = map[string]bool{}
		func() {
			defer func() {
				if r := recover(); r != nil {
					if _, ok := r.(budget); !ok {
						panic(r)
					}
				}
			}()
			f()
		}()
		runs++
		asked := cursor
		if asked > maxBits {
			asked = maxBits
		}
		for i := len(prefix); i < asked; i++ {
			p := make([]bool, i+1)
			copy(p, prefix)
			p[i] = true
			stack = append(stack, p)
		}
	}
	println("R", id, runs)
}
`

// stubSupport: what the analysis sees of the support functions (the bodies are irrelevant to the
// property: sources, sinks, sanitizers and validators are identified by name; the case functions
// are the same file in both builds).
const stubCommon = `//go:build !native

package main

var cnt int

//go:noinline
func tick() { cnt++ }

//go:noinline
func c() bool { cnt++; return cnt%3 == 0 }

//go:noinline
func always() bool { return c() }

//go:noinline
func n() int { cnt++; return cnt % 4 }

//go:noinline
func nop() {}

//go:noinline
func d(k int) {}

//go:noinline
func lim(s string) {}

//go:noinline
func use(a, b, d string) {}

type errT struct{}

func (errT) Error() string { return "bad" }

//go:noinline
func other(s string) bool { return c() }
`

const stubProblem = `
//go:noinline
func source(site int) string { return "s" }

//go:noinline
func sink(site int, s string) {}

//go:noinline
func sanitize(s string) string { return s + "c" }

//go:noinline
func validate(s string) bool { return c() }

//go:noinline
func validate2(k int, s string) bool { return c() }

//go:noinline
func check(s string) error {
	if c() {
		return nil
	}
	return errT{}
}

//go:noinline
func check2(s string) (string, error) { return "i", check(s) }

//go:noinline
func check3(s string) (string, bool) { return "i", c() }

//go:noinline
func check4(s string) (error, bool) { return check(s), c() }

//go:noinline
func norm(s string) (string, error) { return s, check(s) }

type validator interface{ Validate(s string) bool }

type realValidator struct{}

func (realValidator) Validate(s string) bool { return c() }

var vi validator = realValidator{}
`

var problemIdentRe = regexp.MustCompile(`\b(source|markers|siteOf|accept|sink|sanitize|validate2|validate|check2|check3|check4|check|norm|validator|realValidator|Validate|vi)\b`)

// forProblemB derives the support code of problem B from the code of problem A.
func forProblemB(code string) string {
	code = problemIdentRe.ReplaceAllString(code, "${1}B")
	r := strings.NewReplacer("'<'", "'['", "'>'", "']'", `"<"`, `"["`, `">"`, `"]"`)
	return r.Replace(code)
}

// nativeSupport / stubSupport: common part + problem A + problem B (+ the native explorer).
func nativeSupport() string { return nativeCommon + nativeProblem + forProblemB(nativeProblem) + nativeTail }
func stubSupport() string   { return stubCommon + stubProblem + forProblemB(stubProblem) }

var caseCallRe = regexp.MustCompile(`\b(source|sink|sanitize|validate2|validate|check2|check3|check4|check|norm)\(`)

// forProblem maps the text of a case function (written with the names of problem A, and with the
// placeholder suffix § on calls to functions of the OTHER problem) to problem 0 (A) or 1 (B).
func forProblem(text string, prob int) string {
	if prob == 1 {
		text = caseCallRe.ReplaceAllString(text, "${1}B(")
		text = strings.ReplaceAll(text, "vi.Validate(", "viB.ValidateB(")
		return strings.ReplaceAll(text, "§", "")
	}
	return strings.ReplaceAll(text, "§", "B")
}

// renderMains prints the two main functions: native (explore every case, print the flows) and stub
// (call every case once, so that everything is reachable for the analysis).
func renderMains(ncases int, maxBits int) (native, stub string) {
	var sb, st strings.Builder
	sb.WriteString("\nfunc main() {\n\tflows = map[[3]int]bool{}\n")
	st.WriteString("\nfunc main() {\n")
	for i := 0; i < ncases; i++ {
		fmt.Fprintf(&sb, "\texplore(%d, %d, case%d)\n", i, maxBits, i)
		fmt.Fprintf(&st, "\tcase%d()\n", i)
	}
	sb.WriteString("\tfor k := range flows {\n\t\tprintln(\"F\", k[0], k[1], k[2])\n\t}\n}\n")
	st.WriteString("}\n")
	return sb.String(), st.String()
}
