// M10: function-level correspondence between the real path/condition/polarity functions and the model.
package main

import (
	"fmt"
	"math/rand"
	"sort"
	"strings"
	"time"

	"github.com/awslabs/ar-go-tools/analysis/config"
	"github.com/awslabs/ar-go-tools/analysis/dataflow"
	"github.com/awslabs/ar-go-tools/analysis/lang"
	"github.com/awslabs/ar-go-tools/analysis/taint"
	"golang.org/x/tools/go/ssa"
	"verif/harness/lib"
)

func showConds(d *fdump, ci dataflow.ConditionInfo) string {
	if len(ci.Conditions) == 0 {
		return "-"
	}
	var ps []string
	for _, c := range ci.Conditions {
		s := "-"
		if c.IsPositive {
			s = "+"
		}
		ps = append(ps, s+fmt.Sprint(d.id(c.Value)))
	}
	return strings.Join(ps, ",")
}

// pathSearchHung is set when a call of the real path search exceeded its time budget.
var pathSearchHung bool

// realPathGuarded = realPath with a time budget (the modelled search ends within fuelBound pops:
// findPath_terminates; a rewrite that loses that bound can take exponential time).
func realPathGuarded(d *fdump, b, e *ssa.BasicBlock) (string, bool) {
	var out string
	done := make(chan struct{})
	go func() { defer close(done); out = realPath(d, b, e) }()
	select {
	case <-done:
		return out, true
	case <-time.After(20 * time.Second):
		return "", false
	}
}

// realPath runs the real search and formats its answer like the oracle does.
func realPath(d *fdump, b, e *ssa.BasicBlock) string {
	p := dataflow.FindPathBetweenBlocks(b, e)
	if p == nil {
		return fmt.Sprintf("path %d %d N", b.Index, e.Index)
	}
	var idx []string
	for _, x := range p {
		idx = append(idx, fmt.Sprint(x.Index))
	}
	return fmt.Sprintf("path %d %d F %s C %s", b.Index, e.Index, strings.Join(idx, ","), showConds(d, dataflow.SimplePathCondition(p)))
}

// independent ground truth for the path search: is e reachable from b by at least one edge?
func reachable1(b, e *ssa.BasicBlock) bool {
	seen := map[*ssa.BasicBlock]bool{}
	st := append([]*ssa.BasicBlock(nil), b.Succs...)
	for len(st) > 0 {
		x := st[len(st)-1]
		st = st[:len(st)-1]
		if seen[x] {
			continue
		}
		seen[x] = true
		if x == e {
			return true
		}
		st = append(st, x.Succs...)
	}
	return false
}

// checkRealPath: the property-level facts about one real answer (used when the model disagrees,
// to tell a harmless rewrite from a wrong path): found iff reachable; consecutive blocks are
// CFG edges (the duplicated last block is tolerated); every condition is a branch edge of the path.
func checkRealPath(b, e *ssa.BasicBlock) string {
	p := dataflow.FindPathBetweenBlocks(b, e)
	if (p != nil) != reachable1(b, e) {
		return fmt.Sprintf("found=%v but reachable=%v", p != nil, reachable1(b, e))
	}
	if p == nil {
		return ""
	}
	if p[0] != b || p[len(p)-1] != e {
		return "end points of the returned path are not (begin, end)"
	}
	for i := 0; i+1 < len(p); i++ {
		ok := false
		for _, s := range p[i].Succs {
			if s == p[i+1] {
				ok = true
			}
		}
		if !ok && !(i+2 == len(p) && p[i] == p[i+1]) {
			return fmt.Sprintf("blocks %d -> %d of the returned path are not a CFG edge", p[i].Index, p[i+1].Index)
		}
	}
	for _, c := range dataflow.SimplePathCondition(p).Conditions {
		ok := false
		for i := 0; i+1 < len(p); i++ {
			if ifi, is := lang.LastInstr(p[i]).(*ssa.If); is && ifi.Cond == c.Value {
				k := 1
				if c.IsPositive {
					k = 0
				}
				if p[i].Succs[k] == p[i+1] {
					ok = true
				}
			}
		}
		if !ok {
			return "a collected condition is not a branch edge of the returned path with that polarity"
		}
	}
	return ""
}

func cfgText(fn *ssa.Function) string {
	var ps []string
	for _, b := range fn.Blocks {
		var ss []string
		for _, s := range b.Succs {
			ss = append(ss, fmt.Sprint(s.Index))
		}
		k := "j"
		if len(b.Instrs) > 0 {
			if _, is := b.Instrs[len(b.Instrs)-1].(*ssa.If); is {
				k = "i"
			}
		}
		ps = append(ps, k+">"+strings.Join(ss, ","))
	}
	return strings.Join(ps, " ")
}

// addPathQueries asks for the path between block pairs of fn (all pairs up to 14 blocks).
func addPathQueries(bt *batch, rep *lib.Report, r *rand.Rand, d *fdump, hdr, src string) {
	fn := d.fn
	n := len(fn.Blocks)
	cfg := cfgText(fn)
	type pair struct{ b, e int }
	var pairs []pair
	if n <= 14 {
		for b := 0; b < n; b++ {
			for e := 0; e < n; e++ {
				pairs = append(pairs, pair{b, e})
			}
		}
	} else {
		for k := 0; k < 150; k++ {
			pairs = append(pairs, pair{r.Intn(n), r.Intn(n)})
		}
	}
	for _, p := range pairs {
		b, e := fn.Blocks[p.b], fn.Blocks[p.e]
		if pathSearchHung {
			return
		}
		want, finished := realPathGuarded(d, b, e)
		if !finished {
			pathSearchHung = true
			rep.Fail("path-timeout:"+cfg+fmt.Sprintf("|%d>%d", p.b, p.e), fmt.Sprintf("dataflow.FindPathBetweenBlocks did not return within 20 s on a %d-block function (the modelled search ends within fuelBound pops: theorem findPath_terminates no longer describes the code)", n),
				[]byte(fmt.Sprintf("function %s\n%s\ncfg: %s\nquery: path %d %d\noracle records:\n%s", fn.String(), src, cfg, p.b, p.e, hdr)), true)
			return
		}
		key := ""
		if strings.Contains(want, " C ") && !strings.HasSuffix(want, " C -") {
			key = cfg + "|" + want
		}
		rep.Case(key)
		if strings.HasSuffix(want, " N") {
			rep.Count("path:notfound")
		} else {
			rep.Count("path:found")
			if p.b == p.e {
				rep.Count("path:found-cycle-to-self")
			}
			if key != "" {
				rep.Count("path:with-conditions")
			}
		}
		if key != "" && len(rep.Samples) < 2 && n >= 6 && p.b == 0 && p.e == n-1 {
			rep.Sample(map[string]any{"function": fn.String(), "cfg": cfg, "query": fmt.Sprintf("path %d %d", p.b, p.e), "real_and_model_answer": want})
		}
		bt.ask(&query{text: fmt.Sprintf("path %d %d", p.b, p.e), want: want, hdr: hdr,
			ctxFn: func() string {
				return fmt.Sprintf("function %s\n%s\ncfg: %s\nproperty-level check of the real answer: %q\n", fn.String(), src, cfg, checkRealPath(b, e))
			}})
	}
	rep.Count(fmt.Sprintf("fn-blocks<=%d", bucket(n)))
}

func bucket(n int) int {
	for _, b := range []int{1, 2, 4, 8, 16, 32, 64} {
		if n <= b {
			return b
		}
	}
	return 1000
}

// callArgs lists the distinct argument values of the calls of fn (candidates for `val`).
func callArgs(fn *ssa.Function) []ssa.Value {
	seen := map[ssa.Value]bool{}
	var out []ssa.Value
	for _, b := range fn.Blocks {
		for _, i := range b.Instrs {
			if c, ok := i.(ssa.CallInstruction); ok {
				for _, a := range lang.GetArgs(c) {
					if !seen[a] {
						seen[a] = true
						out = append(out, a)
					}
				}
			}
		}
	}
	return out
}

// addValueQueries: isValidatorCondition on every If condition x polarity; IsPredicateTo on
// condition x call argument; ValuesWithSameData on argument pairs.
func addValueQueries(bt *batch, rep *lib.Report, r *rand.Rand, d *fdump, ts *config.TaintSpec, prob int, hdr, src string) {
	fn := d.fn
	var cids []int
	for cid := range d.conds {
		cids = append(cids, cid)
	}
	sort.Ints(cids)
	args := callArgs(fn)
	if len(args) > 24 {
		r.Shuffle(len(args), func(i, j int) { args[i], args[j] = args[j], args[i] })
		args = args[:24]
	}
	for _, cid := range cids {
		v := d.conds[cid]
		budget := 400
		e := d.vexpr(v, &budget)
		if budget < 0 {
			rep.Count("value:too-large-skipped")
			continue
		}
		for _, pol := range []bool{true, false} {
			real := taint.VerifC02IsValidatorCondition(ts, v, pol)
			rep.Case(fmt.Sprintf("vc|p%d|", prob) + shapeOf(e) + "|" + b01(pol))
			rep.Count("vc:" + b01(real))
			bt.ask(&query{text: fmt.Sprintf("vc %s %s", b01(pol), e), want: "vc " + b01(real), hdr: hdr,
				ctx: fmt.Sprintf("function %s\n%s\ncondition value: %s  polarity=%v  taint problem %d  real isValidatorCondition=%v\n", fn.String(), src, v.String(), pol, prob, real)})
		}
		for _, a := range args {
			if prob != 0 {
				break // IsPredicateTo does not depend on the taint problem
			}
			budget := 400
			ae := d.vexpr(a, &budget)
			if budget < 0 {
				continue
			}
			real := dataflow.Condition{IsPositive: true, Value: v}.IsPredicateTo(a)
			rep.Case("pred|" + shapeOf(e) + "|" + shapeOf(ae))
			rep.Count("pred:" + b01(real))
			bt.ask(&query{text: fmt.Sprintf("pred %d %s", cid, ae), want: "pred " + b01(real), hdr: hdr,
				ctx: fmt.Sprintf("function %s\n%s\ncondition value: %s  val: %s  real IsPredicateTo=%v\n", fn.String(), src, v.String(), a.String(), real)})
		}
	}
	// same data on pairs of argument values
	if prob != 0 {
		return
	}
	np := 0
	for _, a := range args {
		for _, b := range args {
			if np >= 80 {
				break
			}
			b1, b2 := 400, 400
			ea, eb := d.vexpr(a, &b1), d.vexpr(b, &b2)
			if b1 < 0 || b2 < 0 {
				continue
			}
			if shapeOf(ea) == "leaf" && shapeOf(eb) == "leaf" && a != b && r.Intn(4) != 0 {
				continue // leaf/leaf pairs are all alike
			}
			np++
			real := lang.ValuesWithSameData(a, b)
			rep.Case("same|" + shapeOf(ea) + "|" + shapeOf(eb) + "|" + b01(a == b))
			rep.Count("same:" + b01(real))
			bt.ask(&query{text: fmt.Sprintf("same %s | %s", ea, eb), want: "same " + b01(real), hdr: hdr,
				ctx: fmt.Sprintf("function %s\n%s\nv1: %s\nv2: %s\nreal ValuesWithSameData=%v\n", fn.String(), src, a.String(), b.String(), real)})
		}
	}
}

// shapeOf strips ids from an unfolded value: the constructor skeleton.
func shapeOf(e string) string {
	var out []string
	toks := strings.Fields(e)
	for i := 0; i < len(toks); i++ {
		switch toks[i] {
		case "call":
			out = append(out, "call"+toks[i+2]+toks[i+3]+"/"+toks[i+4])
			i += 4
		case "nil":
			out = append(out, "nil"+toks[i+2])
			i += 2
		case "ext":
			out = append(out, "ext"+toks[i+2])
			i += 2
		case "bin", "not", "load", "un", "fa", "mi", "leaf":
			out = append(out, toks[i])
			i++
		}
	}
	return strings.Join(out, ".")
}
