// Driver for C02 (sanitizers and validators only suppress flows that really pass through them).
//
//	M10  dataflow.FindPathBetweenBlocks / SimplePathCondition / Condition.IsPredicateTo /
//	     lang.ValuesWithSameData / taint.isValidatorCondition on the SSA of generated functions
//	     versus the Lean model (oracle_c02) on the dumped CFG and values — exact.
//	M10e every conditioned summary edge built by the real intra-procedural analysis versus the
//	     model's edgeConds (checkFlow + checkPathBetweenInstructions + AsPredicateTo) — exact.
//	V3   condMustPass (decidable, proved equivalent to "on every CFG path") evaluated on every real
//	     edge that the visitor drops because of a validator condition.
//	E2E  the real taint analysis on generated programs versus marker ground truth from native
//	     execution over all decision streams (branch outcomes and validator verdicts).
package main

import (
	"fmt"
	"os"
	"strings"
	"time"

	"verif/harness/lib"
)

const prop = "C02"

// batch accumulates oracle input and the expected answer of every query.
type batch struct {
	in strings.Builder
	qs []*query
}

type query struct {
	text string // the query line
	want string // expected answer ("" = handled by `on`)
	ctx  string // description for replay files
	ctxFn func() string // computed only when the answer is wrong
	hdr  string // the fn/blk/val records the query refers to
	on   func(got string)
}

func (b *batch) header(h string) { b.in.WriteString(h) }

func (b *batch) ask(q *query) {
	b.in.WriteString(q.text)
	b.in.WriteString("\n")
	b.qs = append(b.qs, q)
}

// run pipes the batch to the oracle; mismatch is called for every wrong answer.
func (b *batch) run(rep *lib.Report, name string, mismatch func(q *query, got string)) bool {
	dir := lib.Root() + "/.work/" + prop
	os.MkdirAll(dir, 0o755)
	os.WriteFile(dir+"/oracle_in_"+name+".txt", []byte(b.in.String()), 0o644)
	out, err := lib.RunOracle("oracle_c02", []byte(b.in.String()))
	if err != nil || len(out) != len(b.qs) {
		rep.Fail("oracle-run-"+name, fmt.Sprintf("oracle failed: %v (%d answers for %d queries)", err, len(out), len(b.qs)), nil, true)
		return false
	}
	for i, q := range b.qs {
		if q.on != nil {
			q.on(out[i])
		}
		if q.want != "" && out[i] != q.want {
			mismatch(q, out[i])
		}
	}
	return true
}

func main() {
	rep := lib.NewReport(prop)
	rep.Rule = "M10: generated functions (control-flow skeletons exhaustive up to a node bound and random beyond; case functions with validator checks in 27 syntactic forms, sanitizers, sinks, loops, switches) — every ordered block pair (sampled above 14 blocks), every If condition x polarity, condition x call-argument pairs; distinct = distinct (CFG text, query). E2E: one case = one generated function x ground truth over all decision streams; non-trivial = the function has a validator or sanitizer between a source and a sink"
	t0 := time.Now()
	lap := func(name string) {
		rep.Extra["wall_"+name+"_s"] = time.Since(t0).Seconds()
		t0 = time.Now()
	}
	runCases(rep)
	lap("all")
	rep.Finish()
}
