// Shape cases: the same data seen through different SSA views (register, interface box, struct value,
// pointer, field) on the validator side and on the sink side — exercises every rule of
// lang.ValuesWithSameData / isValuePredicateTo in the correspondence and in the end-to-end comparison.
package main

import (
	"fmt"
	"math/rand"
	"strings"
)

// a view of object o ("bb" built from x, "cc" built from y)
type view struct {
	expr string // Go expression
	typ  string // "str", "box", "ptr"
}

func viewsOf(o string) []view {
	reg := map[string]string{"bb": "x", "cc": "y"}[o]
	return []view{{reg, "str"}, {o + ".f", "str"}, {"*" + o, "box"}, {o, "ptr"}}
}

func validatorFor(r *rand.Rand, v view) string {
	switch v.typ {
	case "str":
		return []string{"validate(%s)", "validateAny(%s)", "check(%s) == nil"}[r.Intn(3)]
	case "box":
		return []string{"validateBox(%s)", "validateAny(%s)"}[r.Intn(2)]
	}
	return "validatePtr(%s)"
}

func sinkFor(r *rand.Rand, v view) string {
	switch v.typ {
	case "str":
		return []string{"sink(%d, %s)", "sinkAny(%d, %s)"}[r.Intn(2)]
	case "box":
		return []string{"sinkBox(%d, %s)", "sinkAny(%d, %s)"}[r.Intn(2)]
	}
	return "sinkPtr(%d, %s)"
}

// renderShapeCase: x, y sources; b, c boxes holding them; one validator check on a view of one
// object wrapped around / before a sink on a view of (mostly the same, sometimes the other) object.
func renderShapeCase(r *rand.Rand, name string, site func() int) (string, bool) {
	var sb strings.Builder
	fmt.Fprintf(&sb, "func %s() {\n\tx := source(%d)\n\ty := source(%d)\n\tbb := &box{f: x}\n\tcc := &box{f: y}\n", name, site(), site())
	vo, so := "bb", "bb"
	if r.Intn(4) == 0 {
		so = "cc"
	}
	vv := viewsOf(vo)[r.Intn(4)]
	sv := viewsOf(so)[r.Intn(4)]
	cond := fmt.Sprintf(validatorFor(r, vv), vv.expr)
	snk := fmt.Sprintf(sinkFor(r, sv), site(), sv.expr)
	wrapper := r.Intn(5)
	switch wrapper {
	case 0: // guard
		fmt.Fprintf(&sb, "\tif !(%s) {\n\t\treturn\n\t}\n\t%s\n", cond, snk)
	case 1: // nested
		fmt.Fprintf(&sb, "\tif %s {\n\t\t%s\n\t}\n", cond, snk)
	case 2: // sink on the rejected arm
		fmt.Fprintf(&sb, "\tif %s {\n\t\tnop()\n\t} else {\n\t\t%s\n\t}\n", cond, snk)
	case 3: // both arms reach the sink
		fmt.Fprintf(&sb, "\tif %s {\n\t\tnop()\n\t}\n\t%s\n", cond, snk)
	case 4: // loop guard
		fmt.Fprintf(&sb, "\tfor c() {\n\t\tif !(%s) {\n\t\t\treturn\n\t\t}\n\t\t%s\n\t}\n", cond, snk)
	}
	sb.WriteString("\tuseBoxes(bb, cc)\n}\n")
	return sb.String(), true
}

// support code of the shape cases (both builds).
const shapeNative = `
type box struct{ f string }

//go:noinline
func useBoxes(b, c *box) {}

//go:noinline
func validateBox(b box) bool { return validate(b.f) }

//go:noinline
func validatePtr(p *box) bool { return validate(p.f) }

//go:noinline
func validateAny(v any) bool {
	switch t := v.(type) {
	case string:
		return validate(t)
	case box:
		return validate(t.f)
	case *box:
		return validate(t.f)
	}
	return c()
}

//go:noinline
func sinkBox(site int, b box) { sink(site, b.f) }

//go:noinline
func sinkPtr(site int, p *box) { sink(site, p.f) }

//go:noinline
func sinkAny(site int, v any) {
	switch t := v.(type) {
	case string:
		sink(site, t)
	case box:
		sink(site, t.f)
	case *box:
		sink(site, t.f)
	}
}
`

const shapeStub = `
type box struct{ f string }

//go:noinline
func useBoxes(b, c *box) {}

//go:noinline
func validateBox(b box) bool { return c() }

//go:noinline
func validatePtr(p *box) bool { return c() }

//go:noinline
func validateAny(v any) bool { return c() }

//go:noinline
func sinkBox(site int, b box) {}

//go:noinline
func sinkPtr(site int, p *box) {}

//go:noinline
func sinkAny(site int, v any) {}
`
