// Control-flow skeletons (shared generator harness/gen/cfg.go): path search and condition collection
// on many CFG shapes.
package main

import (
	"fmt"
	"sort"
	"strings"

	"golang.org/x/tools/go/ssa"
	"golang.org/x/tools/go/ssa/ssautil"
	"verif/harness/gen"
	"verif/harness/lib"
)

// mismatchReporter turns oracle disagreements into VIOLATION lines (a few per kind).
type mismatchReporter struct {
	rep    *lib.Report
	perKey map[string]int
	total  int
}

func (m *mismatchReporter) report(q *query, got string) {
	m.total++
	if q.ctxFn != nil {
		q.ctx = q.ctxFn()
	}
	kind := strings.Fields(q.text)[0]
	m.perKey[kind]++
	if m.perKey[kind] > 3 {
		return
	}
	content := fmt.Sprintf("%s\nquery: %s\nreal : %s\nmodel: %s\noracle records:\n%s", q.ctx, q.text, q.want, got, q.hdr)
	propFail := ""
	if i := strings.Index(q.ctx, "property-level check of the real answer: \""); i >= 0 {
		rest := q.ctx[i+len("property-level check of the real answer: \""):]
		if j := strings.Index(rest, "\""); j > 0 {
			propFail = rest[:j]
		}
	}
	if propFail != "" {
		m.rep.Fail("path-real:"+q.text+":"+q.want, "real FindPathBetweenBlocks/SimplePathCondition answer is not a CFG path with its branch conditions: "+propFail, []byte(content), false)
		return
	}
	what := map[string]string{
		"path": "correspondence Cfg.findPath/pathConds vs dataflow.FindPathBetweenBlocks/SimplePathCondition broken (theorems findPath_is_path / pathConds_on_path no longer describe the code); the real answer is still a genuine path with its branch conditions",
		"vc":   "correspondence isValidatorCond vs taint.isValidatorCondition broken (theorem polarity_correct no longer describes the code)",
		"pred": "correspondence isPredTo vs dataflow.Condition.IsPredicateTo broken",
		"same": "correspondence sameData vs lang.ValuesWithSameData broken",
		"edge": "correspondence edgeConds vs the conditions attached by the real intra-procedural analysis broken",
	}[kind]
	m.rep.Fail("m10-"+kind+":"+q.text+":"+q.want, what, []byte(content), true)
}

func pkgFunctions(prog *ssa.Program, path string) []*ssa.Function {
	var fns []*ssa.Function
	for f := range ssautil.AllFunctions(prog) {
		if f.Pkg != nil && f.Pkg.Pkg.Path() == path && f.Blocks != nil {
			fns = append(fns, f)
		}
	}
	sort.Slice(fns, func(i, j int) bool { return fns[i].String() < fns[j].String() })
	return fns
}

// skeletonFunctions renders the control-flow skeletons (functions f0, f1, …) for the shared package.
func skeletonFunctions(rep *lib.Report) (string, map[string]string) {
	r := lib.Rand("c02-skel")
	maxExh, nRand, randMax := 3, 150, 12
	if lib.Thorough() {
		maxExh, nRand, randMax = 4, 2500, 20
	}
	var bodies [][]gen.Stmt
	for n := 0; n <= maxExh; n++ {
		gen.EnumBodies(n, false, func(b []gen.Stmt) { bodies = append(bodies, append([]gen.Stmt(nil), b...)) })
	}
	rep.Extra["skeleton_exhaustive_bodies"] = len(bodies)
	rep.Extra["skeleton_exhaustive_up_to_nodes"] = maxExh
	for i := 0; i < nRand; i++ {
		bodies = append(bodies, gen.RandBody(r, 3+r.Intn(randMax), false, 0))
	}
	rep.Extra["skeleton_random_bodies"] = nRand
	var src strings.Builder
	src.WriteString("package main\n")
	srcs := map[string]string{}
	for i, b := range bodies {
		name := fmt.Sprintf("f%d", i)
		s := gen.Render(name, b, false)
		srcs[name] = s
		src.WriteString("\n" + s)
	}
	return src.String(), srcs
}
