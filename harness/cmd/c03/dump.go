package main

// Dump of the REAL linked summary graph (after backtrace.Analyze) into the first-order form the
// Lean model BackVisit reads: nodes numbered 0..n-1 in a canonical order, every table the backward
// traversal of analysis/backtrace/backtrace.go consults (In(), Out() of bound args, call -> callee
// param / callee returns, graph -> call sites / referring MakeClosures, closure -> bound vars /
// free vars of the closure summary, global read -> write locations).

import (
	"fmt"
	"go/token"
	"sort"
	"strconv"
	"strings"

	df "github.com/awslabs/ar-go-tools/analysis/dataflow"
	"github.com/awslabs/ar-go-tools/analysis/lang"
	"golang.org/x/tools/go/ssa"
)

// node kinds, shared with lean/Argot/Model/BackVisit.lean (NKind.ofCode)
const (
	kParam      = "P"
	kArg        = "A"
	kCall       = "C"
	kRet        = "R"
	kSynth      = "S"
	kGlobRead   = "G"
	kGlobWrite  = "W"
	kBoundVar   = "B"
	kFreeVar    = "F"
	kClosure    = "K"
	kBoundLabel = "L"
	kIf         = "I"
)

type edge struct {
	to  int
	idx int
}

type dnode struct {
	id     int
	gn     df.GraphNode
	kind   string
	graph  int // dense graph number
	index  int
	parent int // call of an arg, closure of a bound var, else -1
	nill   bool
	bound  bool
	in     []edge // (source, EdgeInfo.Index)
	out    []edge // only for args whose value is bound: every (dest, info) pair of Out()
	allOut []edge // every (dest, info) pair of Out() (the model follows them only from bound args)
	// call
	calleeGraph int   // -1: no CalleeSummary
	args        []int // arg nodes by position
	calleeParam []int // for each arg position: param node of the callee summary, -1 if none
	rets        []int // all return nodes of the callee summary
	siteKey     int   // identifies (CallSite(), Callee())
	// closure
	bvs        []int
	closGraph  int   // -1: no ClosureSummary
	closFvs    []int // free-var node of the closure summary per bound-var position (-1 none)
	writes     []int // global read: write locations
	line       int
	fn         string
	desc       string
	isConstArg bool
}

type dgraph struct {
	id          int
	sg          *df.SummaryGraph
	constructed bool
	callsites   []int
	refClosures []int
	name        string
}

type dump struct {
	nodes  []*dnode
	graphs []*dgraph
	idOf   map[df.GraphNode]int
	gidOf  map[*df.SummaryGraph]int
	notes  []string
}

func kindOf(n df.GraphNode) string {
	switch x := n.(type) {
	case *df.ParamNode:
		return kParam
	case *df.CallNodeArg:
		return kArg
	case *df.CallNode:
		return kCall
	case *df.ReturnValNode:
		return kRet
	case *df.SyntheticNode:
		return kSynth
	case *df.AccessGlobalNode:
		if x.IsWrite {
			return kGlobWrite
		}
		return kGlobRead
	case *df.BoundVarNode:
		return kBoundVar
	case *df.FreeVarNode:
		return kFreeVar
	case *df.ClosureNode:
		return kClosure
	case *df.BoundLabelNode:
		return kBoundLabel
	case *df.IfNode:
		return kIf
	}
	return "?"
}

func longIDKey(s string) (int, int) {
	// "#g.n"
	s = strings.TrimPrefix(s, "#")
	p := strings.SplitN(s, ".", 2)
	a, _ := strconv.Atoi(p[0])
	b := 0
	if len(p) > 1 {
		b, _ = strconv.Atoi(p[1])
	}
	return a, b
}

// dumpGraph walks every summary of the flow graph (and everything reachable from them through the
// tables above, because on-demand summaries of callees may hang off call nodes only).
func dumpGraph(state *df.AnalyzerState, keep func(*ssa.Function) bool) *dump {
	d := &dump{idOf: map[df.GraphNode]int{}, gidOf: map[*df.SummaryGraph]int{}}
	var sgs []*df.SummaryGraph
	seenG := map[*df.SummaryGraph]bool{}
	var addG func(sg *df.SummaryGraph)
	var all []df.GraphNode
	seenN := map[df.GraphNode]bool{}
	addN := func(n df.GraphNode) {
		if n == nil || seenN[n] {
			return
		}
		seenN[n] = true
		all = append(all, n)
	}
	addG = func(sg *df.SummaryGraph) {
		if sg == nil || seenG[sg] || sg.Parent == nil {
			return
		}
		seenG[sg] = true
		sgs = append(sgs, sg)
		sg.ForAllNodes(addN)
		for _, x := range sg.Ifs {
			addN(x)
		}
		for _, c := range sg.Callsites {
			addN(c)
		}
		for _, c := range sg.ReferringMakeClosures {
			addN(c)
		}
	}
	for f, sg := range state.FlowGraph.Summaries {
		if sg == nil || (keep != nil && !keep(f)) {
			continue
		}
		addG(sg)
	}
	// close under the tables (new graphs may appear)
	for i := 0; i < len(all); i++ {
		n := all[i]
		addG(n.Graph())
		for s := range n.In() {
			addN(s)
		}
		for t := range n.Out() {
			addN(t)
		}
		switch x := n.(type) {
		case *df.CallNode:
			for _, a := range x.Args() {
				addN(a)
			}
			if x.CalleeSummary != nil && (keep == nil || x.CalleeSummary.Parent == nil || keep(x.CalleeSummary.Parent)) {
				addG(x.CalleeSummary)
			}
		case *df.CallNodeArg:
			addN(x.ParentNode())
		case *df.ClosureNode:
			for _, b := range x.BoundVars() {
				addN(b)
			}
			addG(x.ClosureSummary)
		case *df.BoundVarNode:
			addN(x.ParentNode())
		case *df.AccessGlobalNode:
			if !x.IsWrite && x.Global != nil {
				for w := range x.Global.WriteLocations {
					addN(w)
				}
			}
		}
	}
	sort.Slice(sgs, func(i, j int) bool { return sgs[i].ID < sgs[j].ID })
	for i, sg := range sgs {
		d.gidOf[sg] = i
		d.graphs = append(d.graphs, &dgraph{id: i, sg: sg, constructed: sg.Constructed, name: sg.Parent.String()})
	}
	sort.Slice(all, func(i, j int) bool {
		a1, a2 := longIDKey(all[i].LongID())
		b1, b2 := longIDKey(all[j].LongID())
		if a1 != b1 {
			return a1 < b1
		}
		if a2 != b2 {
			return a2 < b2
		}
		return kindOf(all[i]) < kindOf(all[j])
	})
	for i, n := range all {
		d.idOf[n] = i
	}
	id := func(n df.GraphNode) int {
		if n == nil {
			return -1
		}
		if v, ok := d.idOf[n]; ok {
			return v
		}
		return -1
	}
	gid := func(sg *df.SummaryGraph) int {
		if sg == nil {
			return -1
		}
		if v, ok := d.gidOf[sg]; ok {
			return v
		}
		return -1
	}
	type sk struct {
		site ssa.CallInstruction
		fn   *ssa.Function
	}
	siteKeys := map[sk]int{}
	fset := state.Program.Fset
	for i, n := range all {
		dn := &dnode{id: i, gn: n, kind: kindOf(n), graph: gid(n.Graph()), parent: -1, calleeGraph: -1, closGraph: -1, siteKey: -1}
		if n.Graph() != nil && n.Graph().Parent != nil {
			dn.fn = n.Graph().Parent.String()
		}
		dn.desc = strings.Trim(n.String(), "\"")
		var pos token.Pos
		for s, e := range n.In() {
			dn.in = append(dn.in, edge{id(s), e.Index})
		}
		sort.Slice(dn.in, func(a, b int) bool { return dn.in[a].to < dn.in[b].to })
		for t, infos := range n.Out() {
			for _, e := range infos {
				dn.allOut = append(dn.allOut, edge{id(t), e.Index})
			}
		}
		sort.Slice(dn.allOut, func(a, b int) bool {
			if dn.allOut[a].to != dn.allOut[b].to {
				return dn.allOut[a].to < dn.allOut[b].to
			}
			return dn.allOut[a].idx < dn.allOut[b].idx
		})
		switch x := n.(type) {
		case *df.ParamNode:
			dn.index = x.Index()
			pos = x.SsaNode().Pos()
		case *df.FreeVarNode:
			dn.index = x.Index()
			pos = x.SsaNode().Pos()
		case *df.ReturnValNode:
			dn.index = x.Index()
		case *df.BoundVarNode:
			dn.index = x.Index()
			dn.parent = id(x.ParentNode())
			pos = x.ParentNode().Instr().Pos()
		case *df.BoundLabelNode:
			dn.index = x.Index()
			if x.Instr() != nil {
				pos = x.Instr().Pos()
			}
		case *df.SyntheticNode:
			if x.Instr() != nil {
				pos = x.Instr().Pos()
			}
		case *df.AccessGlobalNode:
			if x.Instr() != nil {
				pos = x.Instr().Pos()
			}
			if !x.IsWrite && x.Global != nil {
				for w := range x.Global.WriteLocations {
					dn.writes = append(dn.writes, id(w))
				}
				sort.Ints(dn.writes)
			}
		case *df.CallNodeArg:
			dn.index = x.Index()
			dn.parent = id(x.ParentNode())
			dn.nill = lang.IsNillableType(x.Type())
			_, dn.bound = state.BoundingInfo[x.Value()]
			_, dn.isConstArg = x.Value().(*ssa.Const)
			if dn.bound {
				dn.out = dn.allOut
			}
			if x.ParentNode().CallSite() != nil {
				pos = x.ParentNode().CallSite().Pos()
			}
		case *df.CallNode:
			if x.CallSite() != nil {
				pos = x.CallSite().Pos()
			}
			for _, a := range x.Args() {
				dn.args = append(dn.args, id(a))
			}
			k := sk{x.CallSite(), x.Callee()}
			if _, ok := siteKeys[k]; !ok {
				siteKeys[k] = len(siteKeys)
			}
			dn.siteKey = siteKeys[k]
			cs := x.CalleeSummary
			if cs != nil && gid(cs) >= 0 {
				dn.calleeGraph = gid(cs)
				for ai := range x.Args() {
					p := -1
					if cs.Parent != nil && ai < len(cs.Parent.Params) {
						if pn, ok := cs.Params[cs.Parent.Params[ai]]; ok && pn != nil {
							p = id(pn)
						}
					}
					dn.calleeParam = append(dn.calleeParam, p)
				}
				for _, rs := range cs.Returns {
					for _, r := range rs {
						dn.rets = append(dn.rets, id(r))
					}
				}
				sort.Ints(dn.rets)
			}
		case *df.ClosureNode:
			if x.Instr() != nil {
				pos = x.Instr().Pos()
			}
			for _, b := range x.BoundVars() {
				dn.bvs = append(dn.bvs, id(b))
			}
			cs := x.ClosureSummary
			if cs != nil && gid(cs) >= 0 {
				dn.closGraph = gid(cs)
				for bi := range x.BoundVars() {
					f := -1
					if cs.Parent != nil && bi < len(cs.Parent.FreeVars) {
						if fn, ok := cs.FreeVars[cs.Parent.FreeVars[bi]]; ok && fn != nil {
							f = id(fn)
						}
					}
					dn.closFvs = append(dn.closFvs, f)
				}
			}
		}
		if pos.IsValid() {
			dn.line = fset.Position(pos).Line
		}
		d.nodes = append(d.nodes, dn)
	}
	for _, g := range d.graphs {
		for _, c := range g.sg.Callsites {
			g.callsites = append(g.callsites, id(c))
		}
		sort.Ints(g.callsites)
		for _, c := range g.sg.ReferringMakeClosures {
			g.refClosures = append(g.refClosures, id(c))
		}
		sort.Ints(g.refClosures)
	}
	return d
}

func ints(xs []int) string {
	if len(xs) == 0 {
		return "-"
	}
	var p []string
	for _, x := range xs {
		p = append(p, strconv.Itoa(x))
	}
	return strings.Join(p, ",")
}

func edges(es []edge) string {
	if len(es) == 0 {
		return "-"
	}
	var p []string
	for _, e := range es {
		p = append(p, fmt.Sprintf("%d:%d", e.to, e.idx))
	}
	return strings.Join(p, ",")
}

func b01(b bool) int {
	if b {
		return 1
	}
	return 0
}

// oracleText renders the graph in the oracle's line protocol.
//
//	g <gid> <constructed> <callsites> <refClosures>
//	n <id> <kind> <gid> <index> <parent> <nillable> <bound> in=<src:idx,...> out=<dst:idx,...>
//	  cg=<calleeGraph> args=.. cp=.. rets=.. sk=<siteKey> bvs=.. kg=<closGraph> fvs=.. wr=..
func (d *dump) oracleText(flags func(n *dnode) (goDefer, isPoint bool)) string {
	var b strings.Builder
	fmt.Fprintf(&b, "graph %d %d\n", len(d.graphs), len(d.nodes))
	for _, g := range d.graphs {
		fmt.Fprintf(&b, "g %d %d %s %s\n", g.id, b01(g.constructed), ints(g.callsites), ints(g.refClosures))
	}
	for _, n := range d.nodes {
		gd, pt := flags(n)
		graph := n.graph
		if graph < 0 {
			graph = len(d.graphs) // a node of a graph outside the dump: its own (empty, unconstructed) graph
		}
		fmt.Fprintf(&b, "n %d %s %d %d %d %d %d %s %s %d %s %s %s %d %s %d %s %s %d %d\n",
			n.id, n.kind, graph, n.index, n.parent, b01(n.nill), b01(n.bound), edges(n.in), edges(n.allOut),
			n.calleeGraph, ints(n.args), ints(n.calleeParam), ints(n.rets), n.siteKey, ints(n.bvs), n.closGraph, ints(n.closFvs), ints(n.writes),
			b01(gd), b01(pt))
	}
	return b.String()
}

func (d *dump) describe(i int) string {
	if i < 0 || i >= len(d.nodes) {
		return fmt.Sprintf("<%d>", i)
	}
	n := d.nodes[i]
	return fmt.Sprintf("%d[%s g%d L%d %s]", i, n.kind, n.graph, n.line, n.desc)
}
