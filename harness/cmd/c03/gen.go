package main

// Generator of import-free Go programs for C03. One package holds many independent cases
// (`func cN()`), each a short sequence of data operations over string variables whose origins
// are calls `srcK()` (or constants "#K#" passed as call arguments), ending in calls to the
// backtrace point `sink(id, x)`. Every data operation preserves the markers "#K#", so a native
// run (all valuations of the opaque branch word) tells which origins reach which sink.

import (
	"fmt"
	"math/rand"
	"os"
	"sort"
	"strings"
)

type progGen struct {
	r       *rand.Rand
	top     strings.Builder // helper declarations
	cases   []string
	nsrc    int
	nsink   int
	nhelp   int
	ncond   int
	feats   map[string]int
	sinkOps map[int][]string // sink id -> ops used by its case (for evidence/keys)
	srcDecl strings.Builder
}

const prelude = `package main

var word uint

func cond(k uint) bool { return word>>k&1 == 1 }

func sink(id int, x string) { println("K", id, x) }

func id(x string) string { return x }

func cat(x, y string) string { return x + y }

func apply(f func(string) string, x string) string { return f(x) }

type S struct {
	f string
	g string
}

func (s *S) get() string  { return s.f }
func (s *S) set(x string) { s.f = x }

type I interface{ get() string }

type T struct{ h string }

func (t T) get() string { return t.h }
`

type caseGen struct {
	p    *progGen
	b    strings.Builder
	root map[string]string // variable -> variable whose SSA value it is (plain copies alias)
	vars []string
	nv   int
	ops  []string
	n    int
}

func (c *caseGen) fresh() string {
	c.nv++
	return fmt.Sprintf("v%d", c.nv)
}

func (c *caseGen) pick() string { return c.vars[c.p.r.Intn(len(c.vars))] }

func (c *caseGen) rootOf(v string) string {
	if r, ok := c.root[v]; ok {
		return r
	}
	return v
}

// pick2 returns two variables for a two-argument use. Since /repo commit e3a7fa7 (F18 repaired: every
// argument position holding a value gets the in-edge) one value may be passed at both positions: that
// is generated on purpose in a quarter of the cases; otherwise two different SSA values are chosen.
func (c *caseGen) pick2() (string, string) {
	a := c.pick()
	if c.p.r.Intn(4) == 0 {
		c.p.feats["same-value-twice"]++
		return a, a
	}
	for try := 0; try < 8; try++ {
		b := c.pick()
		if c.rootOf(b) != c.rootOf(a) {
			return a, b
		}
	}
	c.op("src")
	return a, c.vars[len(c.vars)-1]
}

func (c *caseGen) emit(format string, a ...any) { fmt.Fprintf(&c.b, "\t"+format+"\n", a...) }

func (p *progGen) newSrc() int {
	p.nsrc++
	fmt.Fprintf(&p.srcDecl, "func src%d() string { return \"#%d#\" }\n", p.nsrc, p.nsrc)
	return p.nsrc
}

func (p *progGen) helper() string {
	p.nhelp++
	return fmt.Sprintf("h%d", p.nhelp)
}

func (p *progGen) condBit() int {
	k := p.ncond % 3
	p.ncond++
	return k
}

// opNames lists the data operations; `allowed` restricts them (used to keep away from known
// findings and by the thorough tier to widen).
var opNames = []string{
	"src", "cat", "id", "cat2", "pick", "tuple", "nested", "rec", "field", "method", "iface", "ifaceval",
	"global", "globalfn", "cloread", "cloparam", "clowrite", "funcval", "apply", "map", "slice", "chan",
	"ptrparam", "phi", "loop", "constarg", "deferres", "sinkhelper", "cloretclo", "field2", "retstruct",
	"sinkhelper2", "sinkclosure", "globalfn2", "boundmethod", "globallazy", "globalmulti", "globalswap",
}

// opt-in operations (C03_OPS): shapes that hit an OPEN finding on the current tree.
//   boundsink: backtrace point in a method reached through two method values -> F15b
var optInOps = []string{"boundsink"}

func (c *caseGen) op(name string) {
	p := c.p
	c.ops = append(c.ops, name)
	p.feats[name]++
	v := c.fresh()
	switch name {
	case "src":
		c.emit("%s := src%d()", v, p.newSrc())
	case "cat":
		c.emit("%s := %s + %s", v, c.pick(), c.pick())
	case "id":
		c.emit("%s := id(%s)", v, c.pick())
	case "cat2":
		a, b := c.pick2()
		c.emit("%s := cat(%s, %s)", v, a, b)
	case "pick":
		h := p.helper()
		fmt.Fprintf(&p.top, "func %s(p, q string) string {\n\tif cond(%d) {\n\t\treturn p\n\t}\n\treturn q\n}\n", h, p.condBit())
		a, b := c.pick2()
		c.emit("%s := %s(%s, %s)", v, h, a, b)
	case "tuple":
		// exactly ONE component of a tuple call is used (two live components are F10/F17)
		h := p.helper()
		fmt.Fprintf(&p.top, "func %s(p, q string) (string, string) { return q, p }\n", h)
		a, b := c.pick2()
		if p.r.Intn(2) == 0 {
			c.emit("%s, _ := %s(%s, %s)", v, h, a, b)
		} else {
			c.emit("_, %s := %s(%s, %s)", v, h, a, b)
		}
	case "nested":
		a, b := c.pick2()
		c.emit("%s := id(cat(%s, id(%s)))", v, a, b)
	case "rec":
		h := p.helper()
		fmt.Fprintf(&p.top, "func %s(n int, p string) string {\n\tif n == 0 {\n\t\treturn p\n\t}\n\treturn %s(n-1, p+\"r\")\n}\n", h, h)
		c.emit("%s := %s(2, %s)", v, h, c.pick())
	case "field":
		s := c.fresh()
		c.emit("%s := &S{}", s)
		c.emit("%s.f = %s", s, c.pick())
		c.emit("%s := %s.f", v, s)
	case "field2":
		s := c.fresh()
		c.emit("%s := S{f: %s, g: %s}", s, c.pick(), c.pick())
		c.emit("%s := %s.g", v, s)
	case "method":
		s := c.fresh()
		c.emit("%s := &S{}", s)
		c.emit("%s.set(%s)", s, c.pick())
		c.emit("%s := %s.get()", v, s)
	case "iface":
		i := c.fresh()
		c.emit("var %s I = &S{f: %s}", i, c.pick())
		c.emit("%s := %s.get()", v, i)
	case "ifaceval":
		i := c.fresh()
		c.emit("var %s I = T{h: %s}", i, c.pick())
		c.emit("if cond(%d) {\n\t\t%s = &S{f: %s}\n\t}", p.condBit(), i, c.pick())
		c.emit("%s := %s.get()", v, i)
	case "global":
		g := "g" + p.helper()
		fmt.Fprintf(&p.top, "var %s string\n", g)
		c.emit("%s = %s", g, c.pick())
		c.emit("%s := %s", v, g)
	case "globalfn":
		g := "g" + p.helper()
		fmt.Fprintf(&p.top, "var %s string\n\nfunc set%s(p string) { %s = p }\n\nfunc get%s() string { return %s }\n", g, g, g, g, g)
		c.emit("set%s(%s)", g, c.pick())
		c.emit("%s := get%s()", v, g)
	case "cloread":
		f := c.fresh()
		c.emit("%s := func() string { return %s }", f, c.pick())
		c.emit("%s := %s()", v, f)
	case "cloparam":
		f := c.fresh()
		c.emit("%s := func(p string) string { return p + %s }", f, c.pick())
		c.emit("%s := %s(%s)", v, f, c.pick())
	case "clowrite":
		// the closure writes a captured variable from plain data only (calls into code that
		// uses other closures from inside a writing closure are F15/F16)
		f := c.fresh()
		c.emit("%s := \"\"", v)
		c.emit("%s := func() { %s = %s }", f, v, c.pick())
		c.emit("%s()", f)
	case "cloretclo":
		h := p.helper()
		fmt.Fprintf(&p.top, "func %s(p string) func() string {\n\treturn func() string { return p }\n}\n", h)
		c.emit("%s := %s(%s)()", v, h, c.pick())
	case "funcval":
		f := c.fresh()
		c.emit("%s := id", f)
		c.emit("%s := %s(%s)", v, f, c.pick())
	case "apply":
		c.emit("%s := apply(id, %s)", v, c.pick())
	case "map":
		m := c.fresh()
		c.emit("%s := map[string]string{}", m)
		c.emit("%s[\"k\"] = %s", m, c.pick())
		c.emit("%s := %s[\"k\"]", v, m)
	case "slice":
		l := c.fresh()
		c.emit("%s := []string{%s}", l, c.pick())
		c.emit("%s = append(%s, %s)", l, l, c.pick())
		c.emit("%s := %s[0] + %s[1]", v, l, l)
	case "chan":
		ch := c.fresh()
		c.emit("%s := make(chan string, 1)", ch)
		c.emit("%s <- %s", ch, c.pick())
		c.emit("%s := <-%s", v, ch)
	case "ptrparam":
		h := p.helper()
		fmt.Fprintf(&p.top, "func %s(p *S, q string) { p.f = q }\n", h)
		s := c.fresh()
		c.emit("%s := &S{}", s)
		c.emit("%s(%s, %s)", h, s, c.pick())
		c.emit("%s := %s.f", v, s)
	case "retstruct":
		h := p.helper()
		fmt.Fprintf(&p.top, "func %s(q string) *S { return &S{f: q} }\n", h)
		c.emit("%s := %s(%s).f", v, h, c.pick())
	case "phi":
		a, b := c.pick2()
		c.emit("%s := %s", v, a)
		c.emit("if cond(%d) {\n\t\t%s = %s\n\t}", p.condBit(), v, b)
	case "loop":
		c.emit("%s := %s", v, c.pick())
		i := c.fresh()
		c.emit("for %s := 0; %s < 2; %s++ {\n\t\t%s = %s + %s\n\t}", i, i, i, v, v, c.pick())
	case "constarg":
		p.nsrc++
		c.emit("%s := cat(\"#%d#\", %s)", v, p.nsrc, c.pick())
	case "deferres":
		h := p.helper()
		fmt.Fprintf(&p.top, "func %s(p string) (r string) {\n\tdefer func() { r = p }()\n\treturn \"\"\n}\n", h)
		c.emit("%s := %s(%s)", v, h, c.pick())
	case "sinkhelper":
		// a sink reached through a helper: the backtrace point sits in the callee
		h := p.helper()
		p.nsink++
		fmt.Fprintf(&p.top, "func %s(p string) { sink(%d, p) }\n", h, p.nsink)
		a := c.pick()
		c.emit("%s(%s)", h, a)
		c.emit("%s := %s", v, a)
		c.root[v] = c.rootOf(a)
		p.sinkOps[p.nsink] = append([]string(nil), c.ops...)
	case "boundmethod":
		// method value: a MakeClosure of (*S).get$bound; all such closures in the package share one
		// function, so its free variable has several referring MakeClosure sites
		sv := c.fresh()
		f := c.fresh()
		c.emit("%s := &S{f: %s}", sv, c.pick())
		c.emit("%s := %s.get", f, sv)
		c.emit("%s := %s()", v, f)
	case "boundsink":
		// the backtrace point sits in a method reached through two method values (two MakeClosure
		// sites of the same $bound wrapper): its receiver must flow back to both
		p.nsink++
		fmt.Fprintf(&p.top, "func (s *S) show%d() { sink(%d, s.f) }\n", p.nsink, p.nsink)
		a, b := c.pick2()
		s1, s2, f1, f2 := c.fresh(), c.fresh(), c.fresh(), c.fresh()
		c.emit("%s := &S{f: %s}", s1, a)
		c.emit("%s := &S{f: %s}", s2, b)
		c.emit("%s := %s.show%d", f1, s1, p.nsink)
		c.emit("%s := %s.show%d", f2, s2, p.nsink)
		c.emit("%s()", f1)
		c.emit("%s()", f2)
		c.emit("%s := %s + %s", v, a, b)
		p.sinkOps[p.nsink] = append([]string(nil), c.ops...)
	case "globallazy":
		// a global with TWO writer functions: lazily initialised in its getter (on the flow path) and
		// overridden by a setter that is called only for its side effect. Under on-demand summarisation
		// the setter is summarised only because the global READ asks for every reachable writer.
		g := "g" + p.helper()
		k := p.newSrc()
		fmt.Fprintf(&p.top, "var %s string\n\nfunc get%s() string {\n\tif %s == \"\" {\n\t\t%s = src%d()\n\t}\n\treturn %s\n}\n\nfunc set%s(p string) { %s = p }\n", g, g, g, g, k, g, g, g)
		c.emit("%s = \"\"", g)
		c.emit("if cond(%d) {\n\t\tset%s(%s)\n\t}", p.condBit(), g, c.pick())
		c.emit("%s := get%s()", v, g)
	case "globalmulti":
		// three writers in three functions, none of them on the flow path except through the global
		g := "g" + p.helper()
		fmt.Fprintf(&p.top, "var %s string\n\nfunc seta%s(p string) { %s = p }\n\nfunc setb%s(p string) { %s = p + \"b\" }\n\nfunc setc%s(p *S) { %s = p.f }\n\nfunc get%s() string { return %s }\n", g, g, g, g, g, g, g, g, g)
		a, b := c.pick2()
		sv := c.fresh()
		c.emit("%s := &S{f: %s}", sv, c.pick())
		c.emit("switch {\n\tcase cond(%d):\n\t\tseta%s(%s)\n\tcase cond(%d):\n\t\tsetb%s(%s)\n\tdefault:\n\t\tsetc%s(%s)\n\t}", p.condBit(), g, a, p.condBit(), g, b, g, sv)
		c.emit("%s := get%s()", v, g)
	case "globalswap":
		// ONE function reads and writes the global and is called at two sites: the value returned by the
		// second call was stored through the first (the global read must reach the writes of EVERY call
		// site of the writer, whatever call the backward traversal is currently inside; red-team C03-r2-m2)
		g := "g" + p.helper()
		fmt.Fprintf(&p.top, "var %s string\n\nfunc swap%s(p string) string {\n\told := %s\n\t%s = p\n\treturn old\n}\n", g, g, g, g)
		a, b := c.pick2()
		c.emit("swap%s(%s)", g, a)
		c.emit("%s := swap%s(%s)", v, g, b)
	case "sinkhelper2":
		// one helper holding the backtrace point, called from two sites with different data: without
		// calling context the parameter must flow back to ALL call sites
		h := p.helper()
		p.nsink++
		fmt.Fprintf(&p.top, "func %s(p string) { sink(%d, p) }\n", h, p.nsink)
		a, b := c.pick2()
		c.emit("%s(%s)", h, a)
		c.emit("%s(%s)", h, b)
		c.emit("%s := %s + %s", v, a, b)
		p.sinkOps[p.nsink] = append([]string(nil), c.ops...)
	case "sinkclosure":
		// the backtrace point sits inside a closure and reads a captured variable
		p.nsink++
		a := c.pick()
		c.emit("func() { sink(%d, %s) }()", p.nsink, a)
		c.emit("%s := %s", v, a)
		c.root[v] = c.rootOf(a)
		p.sinkOps[p.nsink] = append([]string(nil), c.ops...)
	case "globalfn2":
		g := "g" + p.helper()
		fmt.Fprintf(&p.top, "var %s string\n\nfunc set%s(p string) { %s = p }\n\nfunc get%s() string { return %s }\n", g, g, g, g, g)
		a, b := c.pick2()
		c.emit("if cond(%d) {\n\t\tset%s(%s)\n\t} else {\n\t\tset%s(%s)\n\t}", p.condBit(), g, a, g, b)
		c.emit("%s := get%s()", v, g)
	default:
		panic("unknown op " + name)
	}
	c.emit("_ = %s", v)
	c.vars = append(c.vars, v)
}

func (c *caseGen) sinkLast() {
	c.p.nsink++
	c.emit("sink(%d, %s)", c.p.nsink, c.vars[len(c.vars)-1])
	c.p.sinkOps[c.p.nsink] = append([]string(nil), c.ops...)
}

func (c *caseGen) sink() {
	c.p.nsink++
	c.emit("sink(%d, %s)", c.p.nsink, c.pick())
	c.p.sinkOps[c.p.nsink] = append([]string(nil), c.ops...)
}

// genProgram builds one package with ncases cases using only the allowed operations.
func genProgram(r *rand.Rand, ncases int, allowed []string, maxOps int) (src string, p *progGen) {
	p = &progGen{r: r, feats: map[string]int{}, sinkOps: map[int][]string{}}
	for i := 0; i < ncases; i++ {
		c := &caseGen{p: p, n: i, root: map[string]string{}}
		c.op("src")
		if r.Intn(3) > 0 {
			c.op("src")
		}
		// systematic part: case i exercises operation i (mod #ops) first and sinks its result at
		// once, so every operation is sunk directly at least once per package
		c.op(allowed[i%len(allowed)])
		c.sinkLast()
		n := 1 + r.Intn(maxOps)
		for j := 0; j < n; j++ {
			c.op(allowed[r.Intn(len(allowed))])
			if r.Intn(6) == 0 {
				c.sink()
			}
		}
		c.sink()
		p.cases = append(p.cases, fmt.Sprintf("func c%d() {\n%s}\n", i, c.b.String()))
	}
	var b strings.Builder
	b.WriteString(prelude)
	b.WriteString("\n")
	b.WriteString(p.srcDecl.String())
	b.WriteString("\n")
	b.WriteString(p.top.String())
	b.WriteString("\n")
	for _, cs := range p.cases {
		b.WriteString(cs)
		b.WriteString("\n")
	}
	b.WriteString("func main() {\n\tfor w := uint(0); w < 8; w++ {\n\t\tword = w\n")
	for i := range p.cases {
		fmt.Fprintf(&b, "\t\tc%d()\n", i)
	}
	b.WriteString("\t}\n}\n")
	return b.String(), p
}

// allowedOps: C03_OPS=a,b,c restricts the operations (exploration); default = all.
func allowedOps() []string {
	if v := os.Getenv("C03_OPS"); v != "" {
		return strings.Split(v, ",")
	}
	return opNames
}

func sortedKeys(m map[string]int) []string {
	var ks []string
	for k := range m {
		ks = append(ks, k)
	}
	sort.Strings(ks)
	return ks
}
