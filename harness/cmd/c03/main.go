// Driver of property C03 (backtrace completeness + trace well-formedness). See props/C03.json.
package main

import (
	"fmt"
	"os"
	"path/filepath"
	"sort"
	"strings"

	"github.com/awslabs/ar-go-tools/analysis/backtrace"
	"github.com/awslabs/ar-go-tools/analysis/config"
	df "github.com/awslabs/ar-go-tools/analysis/dataflow"
	"golang.org/x/tools/go/ssa"
	"verif/harness/lib"
)

type realRun struct {
	res   backtrace.AnalysisResult
	state *df.AnalyzerState
	d     *dump
	err   error
	panic string
}

// runReal runs the REAL backtrace analysis in-process on the package in dir.
func runReal(dir string, onDemand bool, pkgPath string) (rr realRun) {
	prog, pkgs, err := lib.LoadSSA(dir, ssa.InstantiateGenerics, true, ".")
	if err != nil {
		rr.err = err
		return
	}
	cfg := config.NewDefault()
	cfg.LogLevel = int(config.ErrLevel)
	cfg.SummarizeOnDemand = onDemand
	cfg.SlicingProblems = []config.SlicingSpec{{BacktracePoints: []config.CodeIdentifier{
		config.NewCodeIdentifier(config.CodeIdentifier{Package: "^" + pkgPath + "$", Method: "^sink[0-9]*$"}),
	}}}
	defer func() {
		if r := recover(); r != nil {
			rr.panic = fmt.Sprint(r)
		}
	}()
	rr.res, rr.err = backtrace.Analyze(config.NewLogGroup(cfg), cfg, prog, pkgs)
	rr.state = rr.res.Graph.AnalyzerState
	if rr.state != nil {
		rr.d = dumpGraph(rr.state, func(f *ssa.Function) bool {
			return f != nil && f.Pkg != nil && f.Pkg.Pkg.Path() == pkgPath
		})
	}
	return
}

func explore(file string) {
	src, err := os.ReadFile(file)
	if err != nil {
		panic(err)
	}
	for _, od := range []bool{false, true} {
		dir := lib.WorkDir("C03", "explore")
		lib.WriteProgram(dir, "vprog", map[string]string{"main.go": string(src)})
		rr := runReal(dir, od, "vprog")
		fmt.Printf("==== onDemand=%v err=%v panic=%q\n", od, rr.err, rr.panic)
		if rr.d == nil {
			continue
		}
		if os.Getenv("C03_GRAPH") != "" {
			for _, n := range rr.d.nodes {
				fmt.Printf("  %s in=%s out=%s rets=%s cp=%s\n", rr.d.describe(n.id), edges(n.in), edges(n.out), ints(n.rets), ints(n.calleeParam))
			}
		}
		var entries []df.GraphNode
		for e := range rr.res.Traces {
			entries = append(entries, e)
		}
		sort.Slice(entries, func(i, j int) bool { return rr.d.idOf[entries[i]] < rr.d.idOf[entries[j]] })
		for _, e := range entries {
			lines := map[int]bool{}
			for _, t := range rr.res.Traces[e] {
				for _, tn := range t {
					n := rr.d.nodes[rr.d.idOf[tn.GraphNode]]
					if n.kind == kCall || (n.kind == kArg && n.isConstArg) {
						lines[n.line] = true
					}
				}
				if os.Getenv("C03_TRACES") != "" {
					var ps []string
					for _, tn := range t {
						n := rr.d.nodes[rr.d.idOf[tn.GraphNode]]
						ps = append(ps, fmt.Sprintf("%d%s@%d", n.id, n.kind, n.line))
					}
					fmt.Printf("   trace: %s\n", strings.Join(ps, " <- "))
				}
			}
			var ls []int
			for l := range lines {
				ls = append(ls, l)
			}
			sort.Ints(ls)
			fmt.Printf("entry %s: %d traces, origin lines %v\n", rr.d.describe(rr.d.idOf[e]), len(rr.res.Traces[e]), ls)
		}
	}
}

func main() {
	if f := os.Getenv("C03_FILE"); f != "" {
		explore(f)
		return
	}
	_ = filepath.Join
	rep := lib.NewReport("C03")
	rep.Finish()
}
