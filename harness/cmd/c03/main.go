// Driver of property C03 (backtrace completeness + trace well-formedness). See props/C03.json.
//
// For every generated package (many cases each) and for eager and on-demand summarisation:
//  1. run the REAL analysis (analysis/backtrace.Analyze) in-process;
//  2. dump the REAL linked summary graph and every REAL trace to the compiled Lean oracle, which
//     evaluates the proved criterion `traceWFB` (= Spec `TraceWF (Linked G)`, theorem
//     real_trace_criterion), the weak variant, and the replay of the trace in the model
//     (`replayB`: each step is a candidate of `BackVisit.expand`);
//  3. compare the set of analysis entry arguments with the model's `entryArgs`;
//  4. run the generated program natively for all valuations of its branch word and demand that
//     every origin observed at a backtrace-point argument occurs in some REAL trace of it.
package main

import (
	"fmt"
	"go/constant"
	"os"
	"os/exec"
	"path/filepath"
	"regexp"
	"sort"
	"strconv"
	"strings"

	"github.com/awslabs/ar-go-tools/analysis/backtrace"
	"github.com/awslabs/ar-go-tools/analysis/config"
	df "github.com/awslabs/ar-go-tools/analysis/dataflow"
	"golang.org/x/tools/go/ssa"
	"verif/harness/lib"
)

type realRun struct {
	res   backtrace.AnalysisResult
	state *df.AnalyzerState
	d     *dump
	err   error
	panic string
}

// runReal runs the REAL backtrace analysis in-process on the package in dir.
func runReal(dir string, onDemand bool) (rr realRun) {
	prog, pkgs, err := lib.LoadSSA(dir, ssa.InstantiateGenerics, true, ".")
	if err != nil {
		rr.err = err
		return
	}
	cfg := config.NewDefault()
	cfg.LogLevel = int(config.ErrLevel)
	cfg.SummarizeOnDemand = onDemand
	cfg.SlicingProblems = []config.SlicingSpec{{BacktracePoints: []config.CodeIdentifier{
		config.NewCodeIdentifier(config.CodeIdentifier{Package: "^vprog$", Method: "^sink[A-Z]?$"}),
	}}}
	func() {
		defer func() {
			if r := recover(); r != nil {
				rr.panic = fmt.Sprint(r)
			}
		}()
		rr.res, rr.err = backtrace.Analyze(config.NewLogGroup(cfg), cfg, prog, pkgs)
	}()
	rr.state = rr.res.Graph.AnalyzerState
	if rr.state != nil {
		rr.d = dumpGraph(rr.state, nil)
	}
	return
}

var sinkName = regexp.MustCompile(`^sink[A-Z]?$`)
var marker = regexp.MustCompile(`#(\d+)#`)

// sinkID returns the constant first argument of a call to a sink, -1 otherwise.
func sinkID(c *df.CallNode) int {
	if c == nil || c.Callee() == nil || !sinkName.MatchString(c.Callee().Name()) || len(c.Args()) < 2 {
		return -1
	}
	if k, ok := c.Args()[0].Value().(*ssa.Const); ok && k.Value != nil && k.Value.Kind() == constant.Int {
		v, _ := constant.Int64Val(k.Value)
		return int(v)
	}
	return -1
}

// originsOf: markers of the origins occurring in a trace: calls to srcK, constants "#K#" passed as arguments.
func originsOf(t backtrace.Trace, into map[int]bool) {
	for _, tn := range t {
		switch n := tn.GraphNode.(type) {
		case *df.CallNode:
			if n.Callee() != nil && strings.HasPrefix(n.Callee().Name(), "src") {
				if k, err := strconv.Atoi(n.Callee().Name()[3:]); err == nil {
					into[k] = true
				}
			}
		case *df.CallNodeArg:
			if c, ok := n.Value().(*ssa.Const); ok && c.Value != nil && c.Value.Kind() == constant.String {
				for _, m := range marker.FindAllStringSubmatch(constant.StringVal(c.Value), -1) {
					k, _ := strconv.Atoi(m[1])
					into[k] = true
				}
			}
		}
	}
}

// nativeRun executes the program and returns sink id -> set of markers seen in the argument.
func nativeRun(dir string) (map[int]map[int]bool, error) {
	cmd := exec.Command("go", "run", ".")
	cmd.Dir = dir
	cmd.Env = append(os.Environ(), "GOFLAGS=-mod=mod", "GOPROXY=off", "GOSUMDB=off", "GOTOOLCHAIN=local", "GOWORK=off")
	out, err := cmd.CombinedOutput()
	if err != nil {
		return nil, fmt.Errorf("%v: %s", err, tail(string(out), 2000))
	}
	res := map[int]map[int]bool{}
	for _, line := range strings.Split(string(out), "\n") {
		f := strings.SplitN(line, " ", 3)
		if len(f) < 2 || f[0] != "K" {
			continue
		}
		id, err := strconv.Atoi(f[1])
		if err != nil {
			continue
		}
		if res[id] == nil {
			res[id] = map[int]bool{}
		}
		if len(f) == 3 {
			for _, m := range marker.FindAllStringSubmatch(f[2], -1) {
				k, _ := strconv.Atoi(m[1])
				res[id][k] = true
			}
		}
	}
	return res, nil
}

func tail(s string, n int) string {
	if len(s) > n {
		return s[len(s)-n:]
	}
	return s
}

func setStr(m map[int]bool) string {
	var ks []int
	for k := range m {
		ks = append(ks, k)
	}
	sort.Ints(ks)
	return fmt.Sprint(ks)
}

// input is one package to analyse.
type input struct {
	name     string // unique within the run; part of finding keys for the fixed corpus
	src      string
	corpus   bool
	sinkOps  map[int][]string
	features map[string]int
}

type checker struct {
	rep *lib.Report
}

func (ck *checker) key(in *input, what string, sink int) string {
	if in.corpus {
		return fmt.Sprintf("corpus:%s:%s", in.name, what)
	}
	return fmt.Sprintf("gen:%s:%s:sink%d:seed%d", in.name, what, sink, lib.Seed())
}

func (ck *checker) check(in *input) {
	rep := ck.rep
	ndir := lib.WorkDir("C03", "native-"+in.name)
	lib.WriteProgram(ndir, "vprog", map[string]string{"main.go": in.src})
	truth, nerr := nativeRun(ndir)
	if nerr != nil {
		rep.Fail("harness-native:"+in.name, "generated program does not run natively: "+nerr.Error(), []byte(in.src), true)
		return
	}
	for _, od := range []bool{false, true} {
		mode := "eager"
		if od {
			mode = "ondemand"
		}
		dir := lib.WorkDir("C03", "prog-"+in.name+"-"+mode)
		lib.WriteProgram(dir, "vprog", map[string]string{"main.go": in.src})
		rr := runReal(dir, od)
		if rr.panic != "" || rr.err != nil || rr.d == nil {
			what := fmt.Sprintf("backtrace.Analyze (%s) fails on a well-typed program (no trace is reported at all): panic=%q err=%v", mode, rr.panic, rr.err)
			missing := 0
			for _, ms := range truth {
				missing += len(ms)
			}
			rep.Fail(ck.key(in, "crash", 0), what, []byte(in.src), missing == 0)
			rep.Count("analysis-crash")
			continue
		}
		ck.compare(in, mode, od, rr, truth)
	}
}

func (ck *checker) compare(in *input, mode string, od bool, rr realRun, truth map[int]map[int]bool) {
	rep := ck.rep
	d := rr.d
	// mark backtrace points / go-defer for the model's entry selection
	var ob strings.Builder
	ob.WriteString(d.oracleText(func(n *dnode) (goDefer, isPoint bool) {
		c, ok := n.gn.(*df.CallNode)
		if !ok {
			return false, false
		}
		switch c.CallSite().(type) {
		case *ssa.Go, *ssa.Defer:
			goDefer = true
		}
		isPoint = c.Callee() != nil && c.Callee().Pkg != nil && c.Callee().Pkg.Pkg.Path() == "vprog" && sinkName.MatchString(c.Callee().Name())
		return
	}))
	fmt.Fprintf(&ob, "cfg %d 0\nhyp\n", b01(od))
	type tref struct {
		entry df.GraphNode
		idx   int
	}
	var trefs []tref
	var entries []df.GraphNode
	for e := range rr.res.Traces {
		entries = append(entries, e)
	}
	sort.Slice(entries, func(i, j int) bool { return d.idOf[entries[i]] < d.idOf[entries[j]] })
	unknownNode := false
	for _, e := range entries {
		for i, t := range rr.res.Traces[e] {
			var ids []int
			for _, tn := range t {
				id, ok := d.idOf[tn.GraphNode]
				if !ok {
					unknownNode = true
					id = len(d.nodes) // out of range: the oracle rejects the step
				}
				ids = append(ids, id)
			}
			fmt.Fprintf(&ob, "trace %d %s\n", len(trefs), ints(ids))
			trefs = append(trefs, tref{e, i})
		}
	}
	for i, e := range entries {
		fmt.Fprintf(&ob, "run %d %d 100000\n", i, d.idOf[e])
	}
	for i, e := range entries {
		fmt.Fprintf(&ob, "reach %d %d 100000\n", i, d.idOf[e])
	}
	os.WriteFile(filepath.Join(lib.Root(), ".work", "C03", "oracle-"+in.name+"-"+mode+".txt"), []byte(ob.String()), 0o644)
	out, err := lib.RunOracle("oracle_c03", []byte(ob.String()))
	want := 1 + len(trefs) + 2*len(entries)
	if err != nil || len(out) != want {
		rep.Fail("oracle-run:"+in.name, fmt.Sprintf("oracle failed: %v (%d lines for %d requests) %s", err, len(out), want, strings.Join(out, "|")), []byte(ob.String()), true)
		return
	}
	if unknownNode {
		rep.Count("trace-node-outside-dump")
	}
	// --- hypotheses / entry selection
	hyp := parseKV(out[0])
	tupleOK := hyp["tuple"] == "1"
	if !tupleOK {
		rep.Count("graph:tuple-index-lost(F10)")
	}
	modelEntries := map[int]bool{}
	for _, x := range splitInts(hyp["entries"]) {
		modelEntries[x] = true
	}
	for _, e := range entries {
		if !modelEntries[d.idOf[e]] {
			rep.Fail(ck.key(in, "entry-not-in-model", sinkID(e.(*df.CallNodeArg).ParentNode())),
				fmt.Sprintf("[%s] real analysis reports traces for %s, which the model's entry selection (entryArgs) does not contain", mode, d.describe(d.idOf[e])),
				[]byte(in.src), true)
		}
	}
	// --- per REAL trace: criterion + replay
	realOrigins := map[int]map[int]bool{} // sink id -> markers in some trace
	realEntryOf := map[int]bool{}
	for _, e := range entries {
		arg := e.(*df.CallNodeArg)
		sid := sinkID(arg.ParentNode())
		if arg.Index() == 0 || sid < 0 {
			continue
		}
		realEntryOf[sid] = true
		if realOrigins[sid] == nil {
			realOrigins[sid] = map[int]bool{}
		}
		for _, t := range rr.res.Traces[e] {
			originsOf(t, realOrigins[sid])
		}
	}
	for i, tr := range trefs {
		kv := parseKV(out[1+i])
		t := rr.res.Traces[tr.entry][tr.idx]
		arg := tr.entry.(*df.CallNodeArg)
		sid := sinkID(arg.ParentNode())
		rep.Count("real-trace")
		rep.Count(fmt.Sprintf("real-trace-len<=%d", bucket(len(t))))
		if len(t) > 0 {
			rep.Count("trace-head:" + kindOf(t[0].GraphNode))
		}
		if kv["replay0"] != "1" && kv["replay1"] == "1" {
			rep.Count("trace-is-path-of-repaired-model-only(closureCheck)")
		}
		if kv["wf"] != "1" {
			weak := "not even by the closure-trace jump"
			if kv["weak"] == "1" {
				weak = "only the closure-trace jump of the free-variable case explains it"
			}
			rep.Fail(ck.key(in, "illformed-trace", sid),
				fmt.Sprintf("[%s] a REAL reported trace is not a connected sequence of dataflow steps ending at the entry argument (%s): %s", mode, weak, traceStr(d, t)),
				[]byte(in.src+"\n/* trace: "+traceStr(d, t)+" */\n"), false)
		} else if kv["replay"] != "1" {
			rep.Fail(ck.key(in, "trace-not-model-path", sid),
				fmt.Sprintf("[%s] correspondence M7 broken: a REAL trace is well-formed but is not a path of BackVisit.expand candidates (path of the current-code model: %s): %s", mode, kv["replay0"], traceStr(d, t)),
				[]byte(in.src+"\n/* trace: "+traceStr(d, t)+" */\n"), true)
		}
	}
	// --- model runs (dump order): recorded for evidence; flags tell the proved domain
	for i := range entries {
		kv := parseKV(out[1+len(trefs)+i])
		if kv["inc"] == "1" {
			rep.Count("model:closure-trace-mismatch(F15)")
		}
		if kv["panic"] == "1" {
			rep.Count("model:panics")
		}
		if kv["fin"] != "1" {
			rep.Count("model:not-finished")
		}
	}
	// --- M7d `real ⊇ model`: every static leaf in the proved guaranteed closure (greach, theorems
	// back_visits_closure / back_complete_partial / greach_sound) is the head of a REAL trace
	graphHyp := hyp["wk"] == "1" && hyp["intra"] == "1"
	if !graphHyp {
		rep.Count("graph:outside-GraphHyp(wk/intra)")
	}
	for i, e := range entries {
		kv := parseKV(out[1+len(trefs)+len(entries)+i])
		heads := map[int]bool{}
		for _, t := range rr.res.Traces[e] {
			if len(t) > 0 {
				heads[d.idOf[t[0].GraphNode]] = true
			}
		}
		leaves := splitInts(kv["leaves"])
		rep.Count(fmt.Sprintf("model-guaranteed-leaves<=%d", bucket(len(leaves))))
		if a := e.(*df.CallNodeArg); a.Index() == 1 {
			// how much of the native ground truth the PROVED closure already explains (evidence only)
			sid := sinkID(a.ParentNode())
			proved := map[int]bool{}
			for _, l := range leaves {
				n := d.nodes[l]
				if n.kind == kRet && strings.HasPrefix(n.fn, "vprog.src") {
					if k, err := strconv.Atoi(strings.TrimPrefix(n.fn, "vprog.src")); err == nil {
						proved[k] = true
					}
				}
				if n.kind == kArg && n.isConstArg {
					if c, ok := n.gn.(*df.CallNodeArg).Value().(*ssa.Const); ok && c.Value != nil && c.Value.Kind() == constant.String {
						for _, m := range marker.FindAllStringSubmatch(constant.StringVal(c.Value), -1) {
							k, _ := strconv.Atoi(m[1])
							proved[k] = true
						}
					}
				}
			}
			for k := range truth[sid] {
				rep.Dist["native-origins-"+mode]++
				if proved[k] {
					rep.Dist["native-origins-inside-proved-closure-"+mode]++
				}
			}
			if os.Getenv("C03_DEBUG") != "" && mode == "eager" {
				fmt.Printf("DEBUG sink %d ops=%s native=%s proved=%s keys=%s\n", sid, strings.Join(in.sinkOps[sid], ","), setStr(truth[sid]), setStr(proved), kv["keys"])
			}
		}
		if !graphHyp {
			continue
		}
		arg := e.(*df.CallNodeArg)
		for _, l := range leaves {
			if !heads[l] {
				rep.Fail(ck.key(in, "guaranteed-leaf-not-reported", sinkID(arg.ParentNode())),
					fmt.Sprintf("[%s] correspondence M7 broken (real ⊉ model): node %s is a static leaf in the guaranteed backward closure of %s (theorem back_complete_partial says the model reports a trace from it) but no REAL trace starts there",
						mode, d.describe(l), d.describe(d.idOf[e])),
					[]byte(in.src), true)
				break
			}
		}
	}
	// --- ground truth: every observed origin occurs in some REAL trace of that argument
	var sids []int
	for sid := range truth {
		sids = append(sids, sid)
	}
	sort.Ints(sids)
	for _, sid := range sids {
		ops := strings.Join(in.sinkOps[sid], ",")
		key := ""
		if len(truth[sid]) > 0 {
			key = in.name + ":" + strconv.Itoa(sid) + ":" + ops
		}
		rep.Case(key)
		rep.Count("sinks-checked-" + mode)
		var miss []int
		for k := range truth[sid] {
			if !realOrigins[sid][k] {
				miss = append(miss, k)
			}
		}
		sort.Ints(miss)
		if len(miss) > 0 {
			what := fmt.Sprintf("[%s] origins %v reach the argument of sink(%d, ·) in a native run but occur in no reported trace (entry analysed: %v; reported origins %s; native %s; ops %s)",
				mode, miss, sid, realEntryOf[sid], setStr(realOrigins[sid]), setStr(truth[sid]), ops)
			rep.Fail(ck.key(in, "missed-origin", sid), what, []byte(in.src), false)
		}
		if len(rep.Samples) < 8 && len(truth[sid]) > 1 && mode == "eager" {
			rep.Sample(map[string]any{"program": in.name, "sink": sid, "ops": ops, "native_origins": setStr(truth[sid]), "real_origins": setStr(realOrigins[sid])})
		}
	}
}

func traceStr(d *dump, t backtrace.Trace) string {
	var ps []string
	for _, tn := range t {
		id, ok := d.idOf[tn.GraphNode]
		if !ok {
			ps = append(ps, "?")
			continue
		}
		n := d.nodes[id]
		ps = append(ps, fmt.Sprintf("%d%s@%d", n.id, n.kind, n.line))
	}
	return strings.Join(ps, " <- ")
}

func parseKV(line string) map[string]string {
	m := map[string]string{}
	for _, f := range strings.Fields(line) {
		if i := strings.Index(f, "="); i > 0 {
			m[f[:i]] = f[i+1:]
		}
	}
	return m
}

func splitInts(s string) []int {
	if s == "" || s == "-" {
		return nil
	}
	var r []int
	for _, p := range strings.Split(s, ",") {
		if v, err := strconv.Atoi(p); err == nil {
			r = append(r, v)
		}
	}
	return r
}

func bucket(n int) int {
	for _, b := range []int{1, 2, 4, 8, 16, 32, 64} {
		if n <= b {
			return b
		}
	}
	return 1000
}

func explore(file string) {
	src, err := os.ReadFile(file)
	if err != nil {
		panic(err)
	}
	for _, od := range []bool{false, true} {
		dir := lib.WorkDir("C03", "explore")
		lib.WriteProgram(dir, "vprog", map[string]string{"main.go": string(src)})
		rr := runReal(dir, od)
		fmt.Printf("==== onDemand=%v err=%v panic=%q\n", od, rr.err, rr.panic)
		if rr.d == nil {
			continue
		}
		if os.Getenv("C03_GRAPH") != "" {
			for _, n := range rr.d.nodes {
				fmt.Printf("  %s in=%s out=%s rets=%s cp=%s\n", rr.d.describe(n.id), edges(n.in), edges(n.out), ints(n.rets), ints(n.calleeParam))
			}
		}
		var entries []df.GraphNode
		for e := range rr.res.Traces {
			entries = append(entries, e)
		}
		sort.Slice(entries, func(i, j int) bool { return rr.d.idOf[entries[i]] < rr.d.idOf[entries[j]] })
		for _, e := range entries {
			lines := map[int]bool{}
			for _, t := range rr.res.Traces[e] {
				for _, tn := range t {
					n := rr.d.nodes[rr.d.idOf[tn.GraphNode]]
					if n.kind == kCall || (n.kind == kArg && n.isConstArg) {
						lines[n.line] = true
					}
				}
				if os.Getenv("C03_TRACES") != "" {
					fmt.Printf("   trace: %s\n", traceStr(rr.d, t))
				}
			}
			var ls []int
			for l := range lines {
				ls = append(ls, l)
			}
			sort.Ints(ls)
			fmt.Printf("entry %s: %d traces, origin lines %v\n", rr.d.describe(rr.d.idOf[e]), len(rr.res.Traces[e]), ls)
		}
	}
}

// corpus: replays of findings, run first (keys are fixed: corpus:<dir>:<what>)
func corpusInputs() []*input {
	var ins []*input
	root := filepath.Join(lib.Root(), "corpus", "findings")
	ents, _ := os.ReadDir(root)
	for _, e := range ents {
		if !e.IsDir() || !strings.HasPrefix(e.Name(), "C03_") {
			continue
		}
		b, err := os.ReadFile(filepath.Join(root, e.Name(), "main.go"))
		if err != nil {
			continue
		}
		ins = append(ins, &input{name: e.Name(), src: string(b), corpus: true, sinkOps: map[int][]string{}})
	}
	return ins
}

func main() {
	if f := os.Getenv("C03_FILE"); f != "" {
		explore(f)
		return
	}
	rep := lib.NewReport("C03")
	rep.Rule = "import-free packages of independent cases: 1-2 origins (calls srcK(), constants passed as arguments) + random data operations (concat, helpers, tuples with one live component, recursion, fields, methods, interfaces, globals, closures reading/writing captured variables, function values, maps, slices, channels, pointer parameters, phi, loops, deferred result writes) + sinks (also inside helpers); distinct = (package, sink, operation list); non-trivial = some origin reaches the sink natively"
	ck := &checker{rep: rep}
	for _, in := range corpusInputs() {
		rep.Count("corpus-inputs")
		ck.check(in)
	}
	npk, ncases, maxOps := 3, 60, 5
	if lib.Thorough() {
		npk, ncases, maxOps = 12, 80, 8
	}
	if v := os.Getenv("C03_PKGS"); v != "" {
		npk, _ = strconv.Atoi(v)
	}
	allowed := allowedOps()
	for i := 0; i < npk; i++ {
		r := lib.Rand(fmt.Sprintf("c03-pkg-%d", i))
		src, p := genProgram(r, ncases, allowed, maxOps)
		in := &input{name: fmt.Sprintf("p%d", i), src: src, sinkOps: p.sinkOps, features: p.feats}
		for _, k := range sortedKeys(p.feats) {
			rep.Dist["op:"+k] += p.feats[k]
		}
		ck.check(in)
	}
	rep.Extra["packages"] = npk
	rep.Extra["cases_per_package"] = ncases
	rep.Finish()
}
