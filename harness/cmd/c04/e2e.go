package main

import (
	"fmt"
	"io"
	"os"
	"path/filepath"
	"regexp"
	"sort"
	"strings"

	"github.com/awslabs/ar-go-tools/analysis/backtrace"
	"github.com/awslabs/ar-go-tools/analysis/config"
	"github.com/awslabs/ar-go-tools/analysis/taint"
	"golang.org/x/tools/go/packages"
	"golang.org/x/tools/go/ssa"
	"verif/harness/lib"
)

// Stage 4: end-to-end confirmation on the REAL analyses (taint.Analyze, backtrace.Analyze) of a fixed probe
// program (corpus/findings/C04_probes): one probe function per call form / call kind / specification shape.
// For every probe the property says whether the location has to be identified (a flow / a trace has to be
// reported); the observation is read from the real result by source line.  A difference is a failing input of
// the property on the real tool: it must be one of the recorded findings (same keys as the shape classes of
// stage 3), otherwise it is a violation.

type e2eCase struct {
	name    string
	mode    string // taint | backtrace
	config  string
	expect  map[string]bool   // probe function -> the property demands a report
	finding map[string]string // probe function -> key of the recorded finding that explains a difference
}

const srcCfg = `options:
  log-level: 1
taint-tracking-problems:
  - sources:
      - package: "vmod"
        method: "^(source|Src|Get|Fetch)$"
    sinks:
      - package: "^vmod$"
        method: "^sink$"
`

const sinkCfg = `options:
  log-level: 1
taint-tracking-problems:
  - sources:
      - package: "^vmod$"
        method: "^source2$"
    sinks:
      - package: "^vmod"
        method: "^(sink2|Snk|Put|Store)$"
`

const btCfg = `options:
  log-level: 1
slicing-problems:
  - backtracepoints:
      - package: "^vmod"
        method: "^(sink2|Snk|Put|Store)$"
`

func oneSource(extra string) string {
	return "options:\n  log-level: 1\ntaint-tracking-problems:\n  - sources:\n      - " + extra + "\n    sinks:\n      - package: \"^vmod$\"\n        method: \"^sink$\"\n"
}

func oneSink(extra string) string {
	return "options:\n  log-level: 1\ntaint-tracking-problems:\n  - sources:\n      - package: \"^vmod$\"\n        method: \"^source2$\"\n    sinks:\n      - " + extra + "\n"
}

const (
	kGoDefer    = "shape:entry/go-defer-call-is-not-scanned/miss"
	kInvokeMiss = "shape:entry/invoke-uses-interface-package-and-register-as-receiver/miss"
	kInvokeXtra = "shape:entry/invoke-uses-interface-package-and-register-as-receiver/extra"
	kFvMiss     = "shape:entry/function-value-identified-through-alias-label/miss"
	kFvXtra     = "shape:entry/function-value-identified-through-alias-label/extra"
	kAliasXtra  = "shape:entry/static-call-of-address-taken-function-adds-alias-identifier/extra"
	kVM         = "shape:entry/value-match-not-filled-for-entry-points/miss"
	kRecv       = "shape:entry/receiver-not-filled-for-static-method-entry-points/miss"
	kSinkInvM   = "shape:sink-arg/invoke-uses-interface-package-and-interface-type-as-receiver/miss"
	kSinkInvX   = "shape:sink-arg/invoke-uses-interface-package-and-interface-type-as-receiver/extra"
	kSinkFvM    = "shape:sink-arg/function-value-call-named-by-register/miss"
	kSinkFvX    = "shape:sink-arg/function-value-call-named-by-register/extra"
	kSinkSumX   = "shape:sink-arg/callee-with-summary-also-tested-without-context-receiver-and-call-text/extra"
	kLocPkgM    = "shape:location/location-package-is-name-not-path/miss"
	kLocPkgX    = "shape:location/location-package-is-name-not-path/extra"
	kStoreAddr  = "shape:location/address-of-field-store-identified-as-field-read/extra"
	kF13        = "invalid-regex-panics"
	kIfaceXtra  = "e2e:interface-sink-expansion-builds-unanchored-name-patterns/extra"
	kSynth      = "e2e:synthetic-source-node-is-entry-point-of-every-problem/extra"
)

func all(names ...string) map[string]bool {
	m := map[string]bool{}
	for _, n := range names {
		m[n] = true
	}
	return m
}

var aProbes = []string{"a1", "a2", "a3", "a4", "a5", "a6", "a7", "a8", "a9"}
var bProbes = []string{"b1", "b2", "b3", "b4", "b5", "b6", "b7", "b8", "b9", "b10", "b11", "b12"}

func e2eCases() []e2eCase {
	return []e2eCase{
		{name: "sources-by-call-form", mode: "taint", config: srcCfg, expect: all(aProbes...)},
		{name: "sinks-by-call-form-and-kind", mode: "taint", config: sinkCfg, expect: all(bProbes...)},
		{name: "backtrace-points-by-call-form-and-kind", mode: "backtrace", config: btCfg, expect: all(bProbes...),
			finding: map[string]string{"b2": kGoDefer, "b3": kGoDefer, "b10": kGoDefer, "b6": kFvMiss}},
		{name: "source-receiver-on-static-method", mode: "taint", config: oneSource("method: \"^Src$\"\n        receiver: \"^T$\""), expect: all("a2", "a5", "a6"),
			finding: map[string]string{"a2": kRecv, "a5": kRecv, "a6": kRecv}},
		{name: "source-value-match", mode: "taint", config: oneSource("method: \"^source$\"\n        value-match: \"source\""), expect: all("a1", "a4", "a7"),
			finding: map[string]string{"a1": kVM, "a7": kVM, "a4": kVM}},
		{name: "source-invoke-receiver-interface-name", mode: "taint", config: oneSource("method: \"^Get$\"\n        receiver: \"Getter\""), expect: all("a3", "a9"),
			finding: map[string]string{"a3": kInvokeMiss, "a9": kInvokeMiss}},
		{name: "source-invoke-receiver-register-name", mode: "taint", config: oneSource("method: \"^Get$\"\n        receiver: \"^t[0-9]+$\""), expect: all(),
			finding: map[string]string{"a3": kInvokeXtra}},
		{name: "source-invoke-named-by-implementation", mode: "taint", config: oneSource("package: \"^vmod$\"\n        method: \"^Get$\""), expect: all("a3", "a9"),
			finding: map[string]string{"a3": kInvokeMiss, "a9": kInvokeMiss}},
		{name: "source-function-value-anchored-package", mode: "taint", config: oneSource("package: \"^vmod$\"\n        method: \"^source$\"\n        context: \"a4\""), expect: all("a4"),
			finding: map[string]string{"a4": kFvMiss}},
		{name: "source-function-value-anchored-package-no-context", mode: "taint", config: oneSource("package: \"^vmod$\"\n        method: \"^source$\""), expect: all("a1", "a4", "a7"),
			finding: map[string]string{"a4": "alias-package-prefix"}}, // regression case of the repair 95e1c24
		{name: "source-context", mode: "taint", config: oneSource("package: \"^vmod$\"\n        method: \"^source$\"\n        context: \"a1$\""), expect: all("a1")},
		{name: "sink-invoke-receiver-anchored", mode: "taint", config: oneSink("method: \"^Put$\"\n        receiver: \"^Putter$\""), expect: all("b5", "b10"),
			finding: map[string]string{"b5": kSinkInvM, "b10": kSinkInvM}},
		{name: "sink-function-value-with-context", mode: "taint", config: oneSink("method: \"^sink2$\"\n        context: \"b6$\""), expect: all("b6"),
			finding: map[string]string{"b6": kSinkFvM}},
		{name: "interface-sink-expanded-to-implementations", mode: "taint", config: oneSink("package: \"vmod/lib\"\n        interface: \"Putter\""), expect: all("b5", "b10", "b12"),
			finding: map[string]string{"b13": kIfaceXtra}},
		{name: "location-package-path", mode: "taint", config: oneSource("package: \"^vmod/lib$\"\n        type: \"Rec\"\n        field: \"^Secret$\""), expect: all("e1"),
			finding: map[string]string{"e1": kLocPkgM}},
		{name: "location-package-name", mode: "taint", config: oneSource("package: \"^lib$\"\n        type: \"Rec\"\n        field: \"^Secret$\""), expect: all(),
			finding: map[string]string{"e1": kLocPkgX}},
		{name: "two-problems-synthetic-source", mode: "taint", config: "options:\n  log-level: 1\ntaint-tracking-problems:\n  - sources:\n      - type: \"T$\"\n        field: \"^Secret$\"\n    sinks:\n      - method: \"^sinkA$\"\n" +
			"  - sources:\n      - method: \"^never$\"\n    sinks:\n      - package: \"^vmod$\"\n        method: \"^sink$\"\n", expect: all(),
			finding: map[string]string{"e3": kSynth}},
	}
}

var probeName = regexp.MustCompile(`^[abe][0-9]+$`)

// probeRanges maps every top-level function of main.go to its line range.
func probeRanges(src string) map[string][2]int {
	res := map[string][2]int{}
	lines := strings.Split(src, "\n")
	cur := ""
	for i, l := range lines {
		if strings.HasPrefix(l, "func ") && !strings.HasPrefix(l, "func (") {
			name := strings.TrimPrefix(l, "func ")
			name = name[:strings.Index(name, "(")]
			cur = name
			res[cur] = [2]int{i + 1, i + 1}
		}
		if cur != "" {
			r := res[cur]
			r[1] = i + 1
			res[cur] = r
		}
		if l == "}" {
			cur = ""
		}
	}
	return res
}

func stageE2E(rep *lib.Report) {
	src := filepath.Join(lib.Root(), "corpus", "findings", "C04_probes")
	dir := lib.WorkDir(prop, "e2e")
	files := map[string]string{}
	filepath.Walk(src, func(p string, info os.FileInfo, err error) error {
		if err == nil && !info.IsDir() && (strings.HasSuffix(p, ".go") || strings.HasSuffix(p, ".mod")) {
			b, _ := os.ReadFile(p)
			rel, _ := filepath.Rel(src, p)
			files[filepath.ToSlash(rel)] = string(b)
		}
		return nil
	})
	if files["main.go"] == "" {
		rep.Fail("e2e-corpus-missing", "corpus/findings/C04_probes/main.go not found", nil, true)
		return
	}
	lib.WriteProgram(dir, "vmod", files)
	ranges := probeRanges(files["main.go"])
	probeOf := func(fset interface{ Position(p int) (string, int) }, file string, line int) string { return "" }
	_ = probeOf
	var prog *ssa.Program
	var pkgs []*packages.Package
	load := func() error {
		var err error
		prog, pkgs, err = lib.LoadSSA(dir, ssa.InstantiateGenerics, false, "./...")
		return err
	}
	if err := load(); err != nil {
		rep.Fail("e2e-load", "probe program does not load: "+err.Error(), nil, true)
		return
	}
	mainFile := filepath.Join(dir, "main.go")
	lineProbe := func(file string, line int) string {
		if file != mainFile {
			return ""
		}
		for name, r := range ranges {
			if line >= r[0] && line <= r[1] && probeName.MatchString(name) {
				return name
			}
		}
		return ""
	}
	confirmed := map[string]bool{}
	for _, c := range e2eCases() {
		cfg, err := loadConfig(c.config)
		if err != nil {
			rep.Fail("e2e-config:"+c.name, "probe configuration rejected: "+err.Error(), []byte(c.config), true)
			continue
		}
		hits := map[string]bool{}
		panicked := ""
		func() {
			defer func() {
				if e := recover(); e != nil {
					panicked = fmt.Sprint(e)
				}
			}()
			quiet(func() {
				switch c.mode {
				case "taint":
					res, _ := taint.Analyze(cfg, prog, pkgs)
					if res.TaintFlows != nil {
						for sink, sources := range res.TaintFlows.Sinks {
							pos := prog.Fset.Position(sink.Instr.Pos())
							if p := lineProbe(pos.Filename, pos.Line); p != "" {
								hits[p] = true
							}
							for source := range sources { // sinks inside synthetic wrappers have no position
								pos := prog.Fset.Position(source.Instr.Pos())
								if p := lineProbe(pos.Filename, pos.Line); p != "" {
									hits[p] = true
								}
							}
						}
					}
				case "backtrace":
					lg := config.NewLogGroup(cfg)
					lg.SetAllOutput(io.Discard)
					res, _ := backtrace.Analyze(lg, cfg, prog, pkgs)
					for n, traces := range res.Traces {
						pos := n.Position(res.Graph.AnalyzerState)
						if p := lineProbe(pos.Filename, pos.Line); p != "" {
							hits[p] = true
						}
						for _, tr := range traces { // entry points inside synthetic wrappers have no position
							for _, tn := range tr {
								if p := lineProbe(tn.Pos.Filename, tn.Pos.Line); p != "" {
									hits[p] = true
								}
							}
						}
					}
				}
			})
		}()
		if panicked != "" {
			hits["panic"] = true
			// the shared program may be left half-initialised by the panic: reload it
			if err := load(); err != nil {
				rep.Fail("e2e-load", "probe program does not reload: "+err.Error(), nil, true)
				return
			}
		}
		names := map[string]bool{}
		for n := range c.expect {
			names[n] = true
		}
		for n := range hits {
			names[n] = true
		}
		var sorted []string
		for n := range names {
			sorted = append(sorted, n)
		}
		sort.Strings(sorted)
		for _, n := range sorted {
			rep.Case("e2e:" + c.name + ":" + n)
			rep.Count(fmt.Sprintf("e2e:%s:expected=%v:reported=%v", c.mode, c.expect[n], hits[n]))
			if os.Getenv("VERIF_C04_DEBUG") != "" {
				fmt.Fprintf(os.Stderr, "e2e %-45s %-6s expected=%-5v reported=%v\n", c.name, n, c.expect[n], hits[n])
			}
			if c.expect[n] == hits[n] {
				continue
			}
			dirn := "miss"
			if hits[n] {
				dirn = "extra"
			}
			key := c.finding[n]
			if key == "" {
				key = fmt.Sprintf("e2e:%s:%s:%s", c.name, n, dirn)
			}
			confirmed[key] = true
			content := fmt.Sprintf("probe program: corpus/findings/C04_probes (module vmod), probe function %s\nanalysis: %s\nconfiguration:\n%s\nproperty demands a report: %v\nreal tool reports: %v %s\n",
				n, c.mode, c.config, c.expect[n], hits[n], panicked)
			corpusWrite("e2e-"+key, []byte(content))
			rep.Fail(key, fmt.Sprintf("end-to-end %s, case %s, probe %s: the property demands report=%v, the real %s analysis gives report=%v %s", dirn, c.name, n, c.expect[n], c.mode, hits[n], panicked),
				[]byte(content), false)
		}
	}
	var ks []string
	for k := range confirmed {
		ks = append(ks, k)
	}
	sort.Strings(ks)
	rep.Extra["e2e_findings_reproduced_on_real_tool"] = ks
}
