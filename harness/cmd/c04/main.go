// Driver for C04 "every code location matching a specification is identified, and only those".
//
// Stage 1 (regex):  Go regexp.Compile/MatchString  ==  Lean parser + Brzozowski matcher (proved equal to
//                   unanchored denotational search) on every generated (pattern, text) pair.
// Stage 2 (match):  real config.Load + TaintSpec.IsSource/IsSink/IsSanitizer/IsValidator and
//                   SlicingSpec.IsBacktracePoint (=> CodeIdentifier.equalOnNonEmptyFields) == Lean
//                   CodeId.matchesO on a (specification x identifier) matrix; inside the proved domain
//                   also == the declarative "every given field is found by unanchored search" truth.
// Stage 3 (sites):  see sites.go — generated multi-package programs with every call form; the
//                   identifiers the REAL entry-point / sink code builds and the real booleans are compared
//                   with the Lean model and with the generator's knowledge of the callee.
package main

import (
	"encoding/json"
	"fmt"
	"math/rand"
	"os"
	"regexp"
	"strings"

	"github.com/awslabs/ar-go-tools/analysis/config"
	"verif/harness/lib"
)

const prop = "C04"

// field order shared with the oracle
var fieldNames = []string{"context", "package", "interface", "method", "receiver", "field", "type", "label", "kind", "value-match"}

const (
	fCtx = iota
	fPkg
	fIface
	fMeth
	fRecv
	fFld
	fTyp
	fLabel
	fKind
	fVM
)

// regex-carrying fields, in the order used for subset masks
var regexFields = []int{fCtx, fPkg, fIface, fMeth, fRecv, fFld, fTyp, fVM}

type cidT [10]string

func (c cidT) real() config.CodeIdentifier {
	return config.CodeIdentifier{Context: c[fCtx], Package: c[fPkg], Interface: c[fIface], Method: c[fMeth],
		Receiver: c[fRecv], Field: c[fFld], Type: c[fTyp], Label: c[fLabel], Kind: c[fKind], ValueMatch: c[fVM]}
}

func fromReal(c config.CodeIdentifier) cidT {
	return cidT{c.Context, c.Package, c.Interface, c.Method, c.Receiver, c.Field, c.Type, c.Label, c.Kind, c.ValueMatch}
}

func (c cidT) String() string {
	var ps []string
	for i, v := range c {
		if v != "" {
			ps = append(ps, fmt.Sprintf("%s=%q", fieldNames[i], v))
		}
	}
	return "{" + strings.Join(ps, " ") + "}"
}

func (c cidT) yaml(indent string) string {
	var ps []string
	for i, v := range c {
		if v != "" {
			q, _ := json.Marshal(v)
			ps = append(ps, fmt.Sprintf("%s: %s", fieldNames[i], q))
		}
	}
	if len(ps) == 0 {
		return "{}"
	}
	return strings.Join(ps, "\n"+indent)
}

func esc(s string) string {
	s = strings.ReplaceAll(s, "\\", "\\\\")
	s = strings.ReplaceAll(s, "\t", "\\t")
	s = strings.ReplaceAll(s, "\n", "\\n")
	s = strings.ReplaceAll(s, "\r", "\\r")
	return s
}

func record(tag string, fields ...string) string {
	var b strings.Builder
	b.WriteString(tag)
	for _, f := range fields {
		b.WriteByte('\t')
		b.WriteString(esc(f))
	}
	b.WriteByte('\n')
	return b.String()
}

// quiet runs f with os.Stdout redirected to /dev/null (config loading prints [WARN] lines with fmt.Printf).
func quiet(f func()) {
	old := os.Stdout
	if null, err := os.OpenFile(os.DevNull, os.O_WRONLY, 0); err == nil {
		os.Stdout = null
		defer func() { os.Stdout = old; null.Close() }()
	}
	f()
}

// ---------------------------------------------------------------------------------------------
// Stage 1: regex engine correspondence

var textPool = []string{"vmod/lib/deep", "vmod", "main", "Fn", "source", "sink1", "mysink2", "PM", "t17", "Gen[string]",
	"main$1", "(*vmod/lib/deep.T).PM$bound", "vmod.main", "*T", "chan T", "channel receive", "package vmod/lib/deep",
	"vmod/lib/deep.Fn(\"x\":string)", "invoke t3.IM(\"a.b\":string)", "command-line-arguments", "a+b", "x|y", "", "T",
	"github.com/x/y-z/v2", "line1\nline2", "tab\there", "[]byte", "map[string]*T", "süß/ünï", "A", "aaa", "abab"}

func stageRegex(rep *lib.Report) {
	r := lib.Rand("c04-regex")
	n := 6000
	if lib.Thorough() {
		n = 60000
	}
	type pair struct{ p, s string }
	var pairs []pair
	// fixed corner cases first
	for _, p := range []string{"", "^", "$", "^$", "a*", "(a|b)*c", "(^a|b)*", "(a*)*", "a**", "(", ")", "[]a]", "[^]a]", "[a-]", "[-a]", "\\.", ".",
		"[^a]", "\\w+\\.go$", "^(?:a|ab)(c|bcd)(d*)$", "x*", "(|a)+", "a|", "|", "()", "^*", "$*a", "a$b", "a^b", "(^)*a", "\\Aa\\z", "[\\d_]+", "\\S+", "\\s", "[a\\]b]", "[z-a]", "a??", "a+?b"} {
		for _, s := range []string{"", "a", "ab", "abcd", "abcbcd", "xay", "a\nb", "]", "-", "_9", "foo.go", "foo.gox", " ", "aab", "ba"} {
			pairs = append(pairs, pair{p, s})
		}
	}
	for len(pairs) < n {
		t := textPool[r.Intn(len(textPool))]
		k := patKind(r.Intn(int(numPatKinds)))
		p := makePattern(r, k, t)
		s := t
		if r.Intn(3) > 0 {
			s = mutateText(r, textPool[r.Intn(len(textPool))])
			if r.Intn(2) == 0 {
				s = mutateText(r, t)
			}
		}
		pairs = append(pairs, pair{p, s})
		rep.Count("regex-pattern:" + patKindNames[k])
	}
	var in strings.Builder
	for _, pr := range pairs {
		in.WriteString(record("re", pr.p, pr.s))
	}
	out, err := lib.RunOracle("oracle_c04", []byte(in.String()))
	if err != nil || len(out) != len(pairs) {
		rep.Fail("oracle-run-regex", fmt.Sprintf("oracle failed: %v (%d lines for %d pairs)", err, len(out), len(pairs)), nil, true)
		return
	}
	bad := 0
	for i, pr := range pairs {
		re, cerr := regexp.Compile(pr.p)
		want := "re invalid 0"
		if cerr == nil {
			want = "re ok 0"
			if re.MatchString(pr.s) {
				want = "re ok 1"
				rep.Count("regex-result:match")
			} else {
				rep.Count("regex-result:no-match")
			}
		} else {
			rep.Count("regex-result:compile-error")
		}
		rep.Case("re:" + pr.p + "\x00" + pr.s)
		if out[i] != want {
			bad++
			rep.Fail("regex-engine:"+pr.p+"|"+pr.s,
				fmt.Sprintf("Lean regex matcher and Go regexp disagree on pattern %q text %q: go=%q lean=%q (the matcher theorem no longer speaks about Go's regexp on this input)", pr.p, pr.s, want, out[i]),
				[]byte(fmt.Sprintf("pattern: %q\ntext: %q\ngo: %s\nlean: %s\n", pr.p, pr.s, want, out[i])), true)
		}
	}
	rep.Extra["regex_pairs"] = len(pairs)
	rep.Extra["regex_mismatches"] = bad
	rep.Sample(map[string]any{"stage": "regex", "pattern": pairs[len(pairs)-1].p, "text": pairs[len(pairs)-1].s, "lean": out[len(pairs)-1]})
}

// ---------------------------------------------------------------------------------------------
// Stage 2: specification x identifier matrix through the real config code

var roles = []string{"sources", "sinks", "sanitizers", "validators", "backtracepoints"}

type specT struct {
	c     cidT
	role  int
	kinds [10]patKind // pattern kind per field (for the distribution)
	idx   int         // index inside its problem list of the loaded config
}

var pools = [10][]string{
	fCtx:   {"vmod.main", "(*vmod/lib/deep.T).PM$bound", "vmod.main$1", "", "vmod/lib/deep.Helper"},
	fPkg:   {"vmod", "vmod/lib/deep", "vmod/lib", "main", "command-line-arguments", "fmt", "deep", "github.com/x/y-z/v2", "package vmod/lib/deep", ""},
	fIface: {"", "", "", "I", "vmod/lib/deep.I"},
	fMeth:  {"Fn", "source", "sink1", "PM", "IM", "t17", "Gen[string]", "main$1", "init", "PM$bound", ""},
	fRecv:  {"", "T", "t3", "vmod/lib/deep.I", "Impl"},
	fFld:   {"", "", "F", "secret"},
	fTyp:   {"", "", "*T", "chan T", "**T", "Ch", "*[0]T", "map[string]T"},
	fLabel: {"", "", "lbl"},
	fKind:  {"", "", "", "store", "channel receive"},
	fVM:    {"", "vmod/lib/deep.Fn(\"x\":string)", "invoke t3.IM(\"x\":string)", "go sink(t1)", "defer (*vmod/lib/deep.T).PM(t34, \"d\":string)"},
}

func randCid(r *rand.Rand) cidT {
	var c cidT
	for f := range c {
		c[f] = pools[f][r.Intn(len(pools[f]))]
	}
	return c
}

var matchingKinds = []patKind{patSubstring, patFullAnch, patPrefixAnch, patSuffixAnch, patWild, patAlt, patStar}
var nearKinds = []patKind{patNearAnch, patNearWrongSide, patNearEdit, patNearCase}

// makeSpec derives a specification from a target identifier: the fields in mask get patterns.
// allowInvalid permits deliberately non-compiling patterns.
func makeSpec(r *rand.Rand, target cidT, mask int, allowInvalid bool) specT {
	var s specT
	for bit, f := range regexFields {
		if mask&(1<<bit) == 0 {
			continue
		}
		var k patKind
		x := r.Intn(100)
		switch {
		case x < 62:
			k = matchingKinds[r.Intn(len(matchingKinds))]
		case x < 84:
			k = nearKinds[r.Intn(len(nearKinds))]
		case x < 90:
			k = patOther
		case x < 97 || !allowInvalid:
			k = patRandom
		default:
			k = patInvalid
		}
		p := makePattern(r, k, target[f])
		if p == "" { // an empty pattern is "field not given"
			p = "^" + quoteMeta(target[f]) + "$"
			k = patFullAnch
		}
		s.c[f] = p
		s.kinds[f] = k
	}
	switch x := r.Intn(100); {
	case x < 75:
		s.c[fKind] = target[fKind]
	case x < 88:
		s.c[fKind] = ""
	default:
		s.c[fKind] = pools[fKind][r.Intn(len(pools[fKind]))]
	}
	if r.Intn(6) == 0 {
		s.c[fLabel] = "user-label"
	}
	return s
}

// buildConfig renders the yaml configuration: one problem per specification (so that each can be
// queried on its own), in the role chosen for it.
func buildConfig(specs []*specT) string {
	var taint, slicing strings.Builder
	nt, ns := 0, 0
	for _, s := range specs {
		if roles[s.role] == "backtracepoints" {
			fmt.Fprintf(&slicing, "  - backtracepoints:\n      - %s\n", s.c.yaml("        "))
			s.idx = ns
			ns++
		} else {
			fmt.Fprintf(&taint, "  - %s:\n      - %s\n", roles[s.role], s.c.yaml("        "))
			s.idx = nt
			nt++
		}
	}
	out := "options:\n  log-level: 1\n"
	if nt > 0 {
		out += "taint-tracking-problems:\n" + taint.String()
	}
	if ns > 0 {
		out += "slicing-problems:\n" + slicing.String()
	}
	return out
}

// realMatch runs the real predicate of the role of s on cid; 'p' when it panics.
func realMatch(cfg *config.Config, s *specT, cid config.CodeIdentifier) (res byte) {
	defer func() {
		if e := recover(); e != nil {
			res = 'p'
		}
	}()
	var b bool
	switch roles[s.role] {
	case "sources":
		b = cfg.TaintTrackingProblems[s.idx].IsSource(cid)
	case "sinks":
		b = cfg.TaintTrackingProblems[s.idx].IsSink(cid)
	case "sanitizers":
		b = cfg.TaintTrackingProblems[s.idx].IsSanitizer(cid)
	case "validators":
		b = cfg.TaintTrackingProblems[s.idx].IsValidator(cid)
	case "backtracepoints":
		b = cfg.SlicingProblems[s.idx].IsBacktracePoint(cid)
	}
	if b {
		return '1'
	}
	return '0'
}

// truthMatch is the property's own reading of "specification matches identifier", computed with Go's
// regexp: every given field is found by unanchored search in the corresponding field of the identifier,
// and the kinds are equal. ok=false when a pattern does not compile or the Interface field is given
// (outside the property statement).
func truthMatch(s, c cidT) (match bool, ok bool) {
	if s[fIface] != "" {
		return false, false
	}
	match = s[fKind] == c[fKind]
	for _, f := range regexFields {
		re, err := regexp.Compile(s[f])
		if err != nil {
			return false, false
		}
		if s[f] != "" && !re.MatchString(c[f]) {
			match = false
		}
	}
	return match, true
}

func loadConfig(text string) (cfg *config.Config, err error) {
	quiet(func() { cfg, err = config.Load("c04.yaml", []byte(text)) })
	return
}

func stageMatrix(rep *lib.Report, extraCids []cidT) {
	r := lib.Rand("c04-matrix")
	nCids, nRand := 120, 150
	if lib.Thorough() {
		nCids, nRand = 400, 1500
	}
	cids := append([]cidT{}, extraCids...)
	for i := 0; i < nCids; i++ {
		// clusters: most identifiers differ from an earlier one in one or two fields
		if len(cids) > 0 && r.Intn(4) > 0 {
			c := cids[r.Intn(len(cids))]
			for k := 0; k <= r.Intn(2); k++ {
				f := r.Intn(len(c))
				c[f] = pools[f][r.Intn(len(pools[f]))]
			}
			cids = append(cids, c)
		} else {
			cids = append(cids, randCid(r))
		}
	}
	var specs []*specT
	add := func(s specT) {
		s.role = len(specs) % len(roles)
		sp := s
		specs = append(specs, &sp)
	}
	// every subset of the regex-carrying fields, each derived from some identifier of the matrix
	for mask := 0; mask < 1<<len(regexFields); mask++ {
		add(makeSpec(r, cids[r.Intn(len(cids))], mask, false))
	}
	for i := 0; i < nRand; i++ {
		mask := r.Intn(1 << len(regexFields))
		if r.Intn(4) > 0 {
			mask &^= 1 << 2 // mostly without the Interface field
		}
		if r.Intn(3) == 0 {
			mask &= r.Intn(1 << len(regexFields)) // fewer fields
		}
		add(makeSpec(r, cids[r.Intn(len(cids))], mask, true))
	}
	// fixed: the empty specification, kind-only, label-only
	add(specT{})
	add(specT{c: cidT{fKind: "store"}})
	add(specT{c: cidT{fLabel: "only-a-label"}})
	add(specT{c: cidT{fPkg: "(", fMeth: "Fn"}})
	add(specT{c: cidT{fPkg: "zzz", fMeth: "("}})
	add(specT{c: cidT{fIface: "(", fPkg: "vmod"}})

	text := buildConfig(specs)
	dir := lib.WorkDir(prop, "matrix")
	os.WriteFile(dir+"/config.yaml", []byte(text), 0o644)
	cfg, err := loadConfig(text)
	if err != nil {
		rep.Fail("config-load", "generated configuration rejected by config.Load: "+err.Error(), []byte(text), true)
		return
	}
	var in strings.Builder
	for _, s := range specs {
		in.WriteString(record("spec", s.c[:]...))
	}
	for _, c := range cids {
		in.WriteString(record("cid", c[:]...))
	}
	in.WriteString("matrix\n")
	os.WriteFile(dir+"/oracle_in.txt", []byte(in.String()), 0o644)
	out, err := lib.RunOracle("oracle_c04", []byte(in.String()))
	if err != nil || len(out) != len(specs) {
		rep.Fail("oracle-run-matrix", fmt.Sprintf("oracle failed: %v (%d lines for %d specs)", err, len(out), len(specs)), nil, true)
		return
	}
	mism, outside, panics := 0, 0, 0
	knownPanic := false
	for i, s := range specs {
		line := strings.TrimPrefix(out[i], "m ")
		if len(line) != len(cids) {
			rep.Fail("oracle-run-matrix", "oracle line of wrong length: "+out[i], nil, true)
			return
		}
		nGiven := 0
		for _, f := range regexFields {
			if s.c[f] != "" {
				nGiven++
				rep.Count("spec-field:" + fieldNames[f] + ":" + patKindNames[s.kinds[f]])
			}
		}
		rep.Count(fmt.Sprintf("spec-fields-given=%d", nGiven))
		rep.Count("spec-role:" + roles[s.role])
		for j, c := range cids {
			real := realMatch(cfg, s, c.real())
			model := line[j]
			truth, inDomain := truthMatch(s.c, c)
			rep.Case(fmt.Sprintf("m:%v|%v", s.c, c))
			rep.Count("match-result:" + string(real))
			content := func() []byte {
				return []byte(fmt.Sprintf("role: %s\nspecification:\n  %s\nidentifier: %v\nreal: %c\nmodel: %c\ntruth: %v (in proved domain: %v)\n",
					roles[s.role], s.c.yaml("  "), c, real, model, truth, inDomain))
			}
			if real == 'p' {
				panics++
				if !knownPanic {
					// regression case of finding F13 (fixed by e35b228): a pattern that does not compile must match nothing
					knownPanic = true
					rep.Fail(kF13, fmt.Sprintf("%s specification %v: the pattern does not compile, config.Load keeps a nil *regexp.Regexp and the match panics (identifier %v)", roles[s.role], s.c, c), content(), false)
				}
				continue
			}
			if inDomain {
				t := byte('0')
				if truth {
					t = '1'
				}
				if real != t {
					mism++
					rep.Fail(fmt.Sprintf("cid-match:%v|%v", s.c, c),
						fmt.Sprintf("%s specification %v %s identifier %v but every-given-field-found-by-unanchored-search says %v", roles[s.role], s.c, map[byte]string{'1': "matches", '0': "does not match", 'p': "panics on"}[real], c, truth),
						content(), false)
				} else if model != real {
					mism++
					rep.Fail(fmt.Sprintf("cid-match-model:%v|%v", s.c, c), "Lean CodeId.matchesO disagrees with the real match although the real match equals the truth (oracle/model defect)", content(), true)
				}
			} else {
				outside++
				if model != real {
					mism++
					rep.Fail(fmt.Sprintf("cid-match-model:%v|%v", s.c, c),
						fmt.Sprintf("correspondence CodeId.matchesO vs equalOnNonEmptyFields broken outside the proved domain (invalid pattern or Interface field): real=%c model=%c", real, model), content(), true)
				}
			}
		}
	}
	rep.Extra["matrix_specs"] = len(specs)
	rep.Extra["matrix_identifiers"] = len(cids)
	rep.Extra["matrix_mismatches"] = mism
	rep.Extra["matrix_outside_proved_domain"] = outside
	rep.Extra["matrix_real_panics"] = panics
	rep.Sample(map[string]any{"stage": "matrix", "role": roles[specs[7].role], "spec": specs[7].c.String(), "identifier": cids[3].String(),
		"real": string(realMatch(cfg, specs[7], cids[3].real()))})
}

// corpusWrite (maintenance mode VERIF_C04_WRITE_CORPUS=1) stores the first failing input of every recorded
// disagreement class under corpus/findings/C04_shapes/, the replay files referenced by known_findings.json.
var corpusWritten = map[string]bool{}

func corpusWrite(key string, content []byte) {
	if os.Getenv("VERIF_C04_WRITE_CORPUS") == "" || corpusWritten[key] {
		return
	}
	corpusWritten[key] = true
	d := lib.Root() + "/corpus/findings/C04_shapes"
	os.MkdirAll(d, 0o755)
	name := strings.NewReplacer("/", "_", ":", "_", " ", "_").Replace(key)
	os.WriteFile(d+"/"+name+".txt", append([]byte("# property=C04 key="+key+"\n"), content...), 0o644)
}

// Stage 2b: query history.  ONE loaded Config, identifiers that differ ONLY in Context, queried through the
// Config-level predicates (IsSomeSource / IsSomeSink / IsSomeSanitizer / IsSomeValidator / IsSomeBacktracePoint) and
// through the per-problem ones, in both orders and repeated; every answer must equal the stateless model
// (disjunction of CodeId.matchesO over the specifications of the role) and, inside the proved domain, the
// declarative truth.  Identification is a function of the location and the specification, not of earlier queries.
func stageHistory(rep *lib.Report) {
	r := lib.Rand("c04-history")
	nBase, nSpecs := 40, 120
	if lib.Thorough() {
		nBase, nSpecs = 150, 500
	}
	ctxs := pools[fCtx]
	ctxs = append(append([]string{}, ctxs...), "vmod.run1", "vmod.run2$3", "(*vmod/lib.T).Run")
	type group struct{ ids []cidT }
	var groups []group
	var cids []cidT
	for i := 0; i < nBase; i++ {
		b := randCid(r)
		b[fIface] = ""
		var g group
		for _, k := range r.Perm(len(ctxs))[:3+r.Intn(3)] {
			c := b
			c[fCtx] = ctxs[k]
			g.ids = append(g.ids, c)
			cids = append(cids, c)
		}
		groups = append(groups, g)
	}
	var specs []*specT
	for i := 0; i < nSpecs; i++ {
		t := cids[r.Intn(len(cids))]
		mask := r.Intn(1<<len(regexFields)) &^ (1 << 2)
		if r.Intn(4) > 0 {
			mask |= 1 // mostly with a context
		}
		if r.Intn(2) == 0 {
			mask &= 1 | 1<<1 | 1<<3 // context, package, method only
		}
		s := makeSpec(r, t, mask, false)
		s.role = len(specs) % len(roles)
		sp := s
		specs = append(specs, &sp)
	}
	text := buildConfig(specs)
	dir := lib.WorkDir(prop, "history")
	os.WriteFile(dir+"/config.yaml", []byte(text), 0o644)
	var in strings.Builder
	for _, s := range specs {
		in.WriteString(record("spec", s.c[:]...))
	}
	for _, c := range cids {
		in.WriteString(record("cid", c[:]...))
	}
	in.WriteString("matrix\n")
	out, err := lib.RunOracle("oracle_c04", []byte(in.String()))
	if err != nil || len(out) != len(specs) {
		rep.Fail("oracle-run-history", fmt.Sprintf("oracle failed: %v (%d lines for %d specs)", err, len(out), len(specs)), nil, true)
		return
	}
	index := map[cidT]int{}
	for j, c := range cids {
		index[c] = j
	}
	// stateless expectation per (role, identifier): model and truth
	expect := func(role string, c cidT) (model bool, truth bool, inDomain bool) {
		inDomain = true
		for i, s := range specs {
			if roles[s.role] != role {
				continue
			}
			if out[i][2+index[c]] == '1' {
				model = true
			}
			t, ok := truthMatch(s.c, c)
			if !ok {
				inDomain = false
			}
			if t {
				truth = true
			}
		}
		return
	}
	some := func(cfg *config.Config, role string, c config.CodeIdentifier) bool {
		switch role {
		case "sources":
			return cfg.IsSomeSource(c)
		case "sinks":
			return cfg.IsSomeSink(c)
		case "sanitizers":
			return cfg.IsSomeSanitizer(c)
		case "validators":
			return cfg.IsSomeValidator(c)
		}
		return cfg.IsSomeBacktracePoint(c)
	}
	queries, bad := 0, 0
	for _, order := range []string{"forward", "reverse", "interleaved"} {
		cfg, err := loadConfig(text) // one Config object per order: all its queries share whatever state it keeps
		if err != nil {
			rep.Fail("config-load-history", "generated configuration rejected by config.Load: "+err.Error(), []byte(text), true)
			return
		}
		var seq []cidT
		switch order {
		case "forward":
			for _, g := range groups {
				seq = append(seq, g.ids...)
			}
		case "reverse":
			for gi := len(groups) - 1; gi >= 0; gi-- {
				for k := len(groups[gi].ids) - 1; k >= 0; k-- {
					seq = append(seq, groups[gi].ids[k])
				}
			}
		case "interleaved":
			for k := 0; k < 6; k++ {
				for _, g := range groups {
					if k < len(g.ids) {
						seq = append(seq, g.ids[k])
					}
				}
			}
		}
		seq = append(seq, seq...) // and everything once more
		for qi, c := range seq {
			for _, role := range roles {
				model, truth, inDom := expect(role, c)
				var got, gotPer bool
				func() {
					defer func() { recover() }()
					got = some(cfg, role, c.real())
					for _, s := range specs { // the per-problem predicates on the same Config object
						if roles[s.role] == role && realMatch(cfg, s, c.real()) == '1' {
							gotPer = true
						}
					}
				}()
				queries++
				rep.Case(fmt.Sprintf("hist|%s|%s|%v", order, role, c))
				want := model
				if inDom {
					want = truth
				}
				if got != want || gotPer != want || (inDom && model != truth) {
					bad++
					content := []byte(fmt.Sprintf("configuration: %s/config.yaml (%d specifications, one Config object)\nquery order: %s, query #%d\nrole: %s\nidentifier: %v\nConfig.IsSome*: %v\ndisjunction of the per-problem predicates: %v\nstateless model (CodeId.matchesO): %v\ntruth (every given field found, incl. context): %v (in proved domain: %v)\nidentifiers queried before on this Config that differ only in Context: see the sequence in the driver (groups of %d..%d contexts)\n",
						dir, len(specs), order, qi, role, c, got, gotPer, model, truth, inDom, 3, 5))
					rep.Fail(fmt.Sprintf("history:%s:%s:%v", order, role, c),
						fmt.Sprintf("identification depends on the query history: %s query #%d of %v on one loaded Config: IsSome(%s)=%v, per-problem disjunction=%v, stateless model=%v, truth=%v", order, qi, c, role, got, gotPer, model, truth),
						content, false)
				}
			}
		}
	}
	rep.Extra["history_queries"] = queries
	rep.Extra["history_mismatches"] = bad
	rep.Extra["history_identifier_groups_differing_only_in_context"] = len(groups)
	rep.Extra["history_specs"] = len(specs)
}

func main() {
	rep := lib.NewReport(prop)
	rep.Rule = "regex: (pattern,text) pairs built from target texts (matching / near-miss / unrelated / random / invalid; anchored and unanchored); " +
		"matrix: every subset of the 8 regex-carrying identifier fields x patterns derived from identifiers, all 5 specification roles, through config.Load; " +
		"sites: every call form x Call/Go/Defer x package layout in generated multi-package modules; distinct = distinct (specification, identifier/site) text"
	stageRegex(rep)
	stageMatrix(rep, nil)
	if os.Getenv("VERIF_C04_SKIP_HISTORY") == "" {
		stageHistory(rep)
	}
	rounds := 1
	if lib.Thorough() {
		rounds = 5
	}
	for k := 0; k < rounds; k++ {
		stageSites(rep, k)
	}
	stageE2E(rep)
	rep.Finish()
}
