package main

import (
	"math/rand"
	"regexp"
	"strings"
)

// Pattern generation for C04: patterns are built *from a target text* so that the generator knows
// whether they are meant to match (matching / near-miss / non-matching; anchored / unanchored), plus
// random expressions of the modelled RE2 subset and deliberately invalid ones.

type patKind int

const (
	patEmpty     patKind = iota
	patSubstring         // unanchored literal substring (matches)
	patFullAnch          // ^full$ (matches)
	patPrefixAnch        // ^prefix (matches)
	patSuffixAnch        // suffix$ (matches)
	patWild              // literal with some characters replaced by . / class / group (matches)
	patAlt               // (other|sub) (matches)
	patStar              // .*sub.* , s+ (matches)
	patNearAnch          // ^proper-substring$ (near miss: fails only because anchored)
	patNearWrongSide     // ^suffix or prefix$ (near miss)
	patNearEdit          // literal with one character changed / one appended (near miss)
	patNearCase          // case changed
	patOther             // unrelated identifier
	patRandom            // random expression
	patInvalid           // does not compile
	numPatKinds
)

var patKindNames = []string{"empty", "substring", "full-anchored", "prefix-anchored", "suffix-anchored", "wildcards",
	"alternation", "star", "near:anchored-substring", "near:wrong-side-anchor", "near:edit", "near:case", "unrelated",
	"random", "invalid"}

var invalidPatterns = []string{"(", "a(b", "a)", "a**", "*a", "+", "a|*", "[a", "[z-a]", "x\\", "(?:a", "a*?*", "[]", "(*)", "a++"}

var unrelated = []string{"zzz", "other", "Qux", "nomatch", "x9", "internal/none", "Writer", "Bar"}

func quoteMeta(s string) string { return regexp.QuoteMeta(s) }

func substr(r *rand.Rand, s string) (int, int) {
	rs := []rune(s)
	if len(rs) == 0 {
		return 0, 0
	}
	i := r.Intn(len(rs))
	j := i + 1 + r.Intn(len(rs)-i)
	return i, j
}

func isWordRune(c rune) bool {
	return c == '_' || (c >= '0' && c <= '9') || (c >= 'a' && c <= 'z') || (c >= 'A' && c <= 'Z')
}

// wildcard replaces characters of the literal by equivalent one-character expressions
func wildcard(r *rand.Rand, s string) string {
	var b strings.Builder
	for _, c := range s {
		switch r.Intn(7) {
		case 0:
			if c != '\n' {
				b.WriteString(".")
				continue
			}
		case 1:
			if isWordRune(c) {
				b.WriteString("\\w")
				continue
			}
		case 2:
			if c >= 'a' && c <= 'z' {
				b.WriteString("[a-z]")
				continue
			}
			if c >= '0' && c <= '9' {
				b.WriteString("\\d")
				continue
			}
		case 3:
			if isWordRune(c) {
				b.WriteString("[^/ .]")
				continue
			}
		case 4:
			if isWordRune(c) {
				b.WriteString("(" + string(c) + "|#)")
				continue
			}
		}
		b.WriteString(quoteMeta(string(c)))
	}
	return b.String()
}

// makePattern builds a pattern of the given kind from target; it returns the pattern.
func makePattern(r *rand.Rand, k patKind, target string) string {
	rs := []rune(target)
	switch k {
	case patEmpty:
		return ""
	case patSubstring:
		i, j := substr(r, target)
		return quoteMeta(string(rs[i:j]))
	case patFullAnch:
		return "^" + quoteMeta(target) + "$"
	case patPrefixAnch:
		_, j := substr(r, target)
		return "^" + quoteMeta(string(rs[:j]))
	case patSuffixAnch:
		i, _ := substr(r, target)
		return quoteMeta(string(rs[i:])) + "$"
	case patWild:
		i, j := substr(r, target)
		return wildcard(r, string(rs[i:j]))
	case patAlt:
		i, j := substr(r, target)
		alts := []string{quoteMeta(unrelated[r.Intn(len(unrelated))]), quoteMeta(string(rs[i:j]))}
		if r.Intn(2) == 0 {
			alts[0], alts[1] = alts[1], alts[0]
		}
		if r.Intn(2) == 0 {
			return "(" + alts[0] + "|" + alts[1] + ")"
		}
		return "^(?:" + alts[0] + "|" + alts[1] + ")"
	case patStar:
		i, j := substr(r, target)
		sub := string(rs[i:j])
		switch r.Intn(4) {
		case 0:
			return ".*" + quoteMeta(sub) + ".*"
		case 1:
			return "^.*" + quoteMeta(sub) + ".*$"
		case 2:
			if len(sub) > 0 {
				srs := []rune(sub)
				return quoteMeta(string(srs[:len(srs)-1])) + "(" + quoteMeta(string(srs[len(srs)-1])) + ")+"
			}
			return "x*"
		default:
			return "[a-zA-Z0-9_/.$*() -]*" + quoteMeta(sub) + "?"
		}
	case patNearAnch:
		if len(rs) < 2 {
			return "^" + quoteMeta(target) + "x$"
		}
		if r.Intn(2) == 0 {
			return "^" + quoteMeta(string(rs[1:])) + "$"
		}
		return "^" + quoteMeta(string(rs[:len(rs)-1])) + "$"
	case patNearWrongSide:
		if len(rs) < 2 {
			return "^x" + quoteMeta(target)
		}
		if r.Intn(2) == 0 {
			return "^" + quoteMeta(string(rs[1:]))
		}
		return quoteMeta(string(rs[:len(rs)-1])) + "$"
	case patNearEdit:
		if len(rs) == 0 {
			return "x"
		}
		i := r.Intn(len(rs))
		switch r.Intn(3) {
		case 0:
			c := append([]rune{}, rs...)
			if c[i] == 'q' {
				c[i] = 'z'
			} else {
				c[i] = 'q'
			}
			return quoteMeta(string(c))
		case 1:
			return quoteMeta(target) + "x"
		default:
			return "y" + quoteMeta(target)
		}
	case patNearCase:
		if strings.ToUpper(target) != target {
			return quoteMeta(strings.ToUpper(target))
		}
		return quoteMeta(strings.ToLower(target)) + "_"
	case patOther:
		return quoteMeta(unrelated[r.Intn(len(unrelated))])
	case patRandom:
		return randRegex(r, 2+r.Intn(3), target)
	case patInvalid:
		return invalidPatterns[r.Intn(len(invalidPatterns))]
	}
	return ""
}

// randRegex renders a random expression of the subset; leaves draw characters from `alphabet`.
func randRegex(r *rand.Rand, depth int, alphabet string) string {
	rs := []rune(alphabet)
	if len(rs) == 0 {
		rs = []rune("ab")
	}
	leaf := func() string {
		switch r.Intn(10) {
		case 0:
			return "."
		case 1:
			return "[" + quoteClass(rs[r.Intn(len(rs))]) + "-" + "z]"
		case 2:
			return "[^" + quoteClass(rs[r.Intn(len(rs))]) + "]"
		case 3:
			return "\\w"
		case 4:
			return "^"
		case 5:
			return "$"
		default:
			return quoteMeta(string(rs[r.Intn(len(rs))]))
		}
	}
	if depth == 0 {
		return leaf()
	}
	switch r.Intn(8) {
	case 0:
		return "(" + randRegex(r, depth-1, alphabet) + "|" + randRegex(r, depth-1, alphabet) + ")"
	case 1:
		return "(" + randRegex(r, depth-1, alphabet) + ")*"
	case 2:
		return "(?:" + randRegex(r, depth-1, alphabet) + ")+"
	case 3:
		return "(" + randRegex(r, depth-1, alphabet) + ")?"
	case 4:
		return randRegex(r, depth-1, alphabet) + "|" + randRegex(r, depth-1, alphabet)
	case 5:
		return leaf() + "*?" + randRegex(r, depth-1, alphabet)
	default:
		return randRegex(r, depth-1, alphabet) + randRegex(r, depth-1, alphabet)
	}
}

func quoteClass(c rune) string {
	switch c {
	case ']', '\\', '^', '-', '[':
		return "\\" + string(c)
	}
	if c > 'z' {
		return "a"
	}
	return string(c)
}

// mutateText produces texts around a target: itself, substrings, extensions, edits, empty.
func mutateText(r *rand.Rand, s string) string {
	rs := []rune(s)
	switch r.Intn(8) {
	case 0:
		return ""
	case 1:
		return s
	case 2:
		i, j := substr(r, s)
		return string(rs[i:j])
	case 3:
		return "x" + s
	case 4:
		return s + "2"
	case 5:
		return "my/" + s + "/v2"
	case 6:
		if len(rs) > 0 {
			i := r.Intn(len(rs))
			c := append([]rune{}, rs...)
			c[i] = 'Q'
			return string(c)
		}
		return "Q"
	default:
		return strings.ToUpper(s)
	}
}
