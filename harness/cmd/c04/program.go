package main

import (
	"fmt"
	"math/rand"
	"sort"
	"strings"
)

// Generated multi-package module for C04. The generator KNOWS, for every site line, the call form, the
// call kind (Call/Go/Defer), the enclosing function and the possible callees.

type fnT struct{ pkg, name, recv string } // pkg = package path; recv = receiver type name ("" for functions)

type pkgT struct {
	path, name, alias string
	T, PM, VM, I, IM, Impl, Fn, Plain, Gen, Ch string
}

type siteT struct {
	file     string
	line     int
	form     string
	kind     string
	parent   string // expected String() of the enclosing function
	callee   fnT
	impls    []fnT
	iface    string // invoke: type string of the interface
	wrapper  string
	fnValue  bool // staticFn whose callee is also used as a value somewhere in the program
	comment  string
	pkgIndex int
}

type nodeT struct {
	file     string
	line     int
	ssaKind  string // "FieldAddr", "Field", "Alloc", "Store", "UnOp"
	nk       string // fieldRead | alloc | fieldStore | chanRecv
	parent   string
	field    string
	declPath string // path of the package declaring the core type
	ty       []string
	forStore bool // the FieldAddr computes the address written by a store
}

type programT struct {
	mod   string
	pkgs  []*pkgT
	files map[string]string
	sites []*siteT
	nodes []*nodeT
}

var modPaths = []string{"vmod", "example.com/app", "v.io/x-y"}

func pick(r *rand.Rand, xs ...string) string { return xs[r.Intn(len(xs))] }

func genProgram(r *rand.Rand, nRun int) *programT {
	p := &programT{mod: modPaths[r.Intn(len(modPaths))], files: map[string]string{}}
	layouts := []struct{ sub, name string }{{"lib", "lib"}, {"lib/deep", "deep"}, {"internal/go-util", "util"}, {"other/lib", "lib"}}
	for i, l := range layouts {
		p.pkgs = append(p.pkgs, &pkgT{path: p.mod + "/" + l.sub, name: l.name, alias: fmt.Sprintf("p%d", i),
			T: pick(r, "T", "T", "Data", "T2"), PM: pick(r, "PM", "Read", "PM"), VM: pick(r, "VM", "Value"), I: pick(r, "I", "Reader", "I"),
			IM: pick(r, "IM", "Fetch"), Impl: pick(r, "Impl", "Impl2"), Fn: pick(r, "Fn", "Source", "Fn2", "GetData", "Fn"),
			Plain: pick(r, "Plain", "Sink", "SinkLike", "Exec"), Gen: pick(r, "Gen", "Map"), Ch: pick(r, "Ch", "Pipe")})
	}
	for i, pk := range p.pkgs {
		p.genLib(r, i, pk)
	}
	p.genMain(r, nRun)
	return p
}

type fileB struct {
	name  string
	lines []string
}

func (f *fileB) add(format string, args ...any) int {
	f.lines = append(f.lines, fmt.Sprintf(format, args...))
	return len(f.lines)
}

func (f *fileB) text() string { return strings.Join(f.lines, "\n") + "\n" }

func (pk *pkgT) fn(name string) fnT        { return fnT{pk.path, name, ""} }
func (pk *pkgT) method(name string) fnT    { return fnT{pk.path, name, pk.T} }
func (pk *pkgT) implMethod() fnT           { return fnT{pk.path, pk.IM, pk.Impl} }
func (pk *pkgT) ifaceMethod() fnT          { return fnT{pk.path, pk.IM, pk.I} }
func (pk *pkgT) tyNamed(name string) string { return "named:" + pk.name + ":" + name }

var kinds = []string{"call", "call", "call", "go", "defer"}

func kw(kind string) string {
	switch kind {
	case "go":
		return "go "
	case "defer":
		return "defer "
	}
	return ""
}

func (p *programT) genLib(r *rand.Rand, idx int, pk *pkgT) {
	f := &fileB{name: strings.TrimPrefix(pk.path, p.mod+"/") + "/lib.go"}
	f.add("package %s", pk.name)
	f.add("")
	f.add("type %s struct{ F, G, Secret string }", pk.T)
	f.add("func (t *%s) %s(x string) string { return x + \"p\" }", pk.T, pk.PM)
	f.add("func (t %s) %s(x string) string { return x + \"v\" }", pk.T, pk.VM)
	f.add("type %s interface{ %s(x string) string }", pk.I, pk.IM)
	f.add("type %s struct{ S string }", pk.Impl)
	f.add("func (i *%s) %s(x string) string { return x + \"i\" }", pk.Impl, pk.IM)
	f.add("func %s(x string) string { return x + \"!\" }", pk.Fn)
	f.add("func %s(x string) string { return x + \"?\" }", pk.Plain)
	f.add("func %s[A any](a A) A { return a }", pk.Gen)
	f.add("type %s chan %s", pk.Ch, pk.T)
	f.add("func Mk%s() %s { return %s{} }", pk.T, pk.T, pk.T)
	f.add("func New%s() %s { return &%s{} }", pk.I, pk.I, pk.Impl)
	// sites whose context is a method / a function of a library package
	parent := fmt.Sprintf("(*%s.%s).Run", pk.path, pk.T)
	f.add("func (t *%s) Run(x string) string {", pk.T)
	for k := 0; k < 3; k++ {
		kind := kinds[r.Intn(len(kinds))]
		if r.Intn(2) == 0 {
			name := pick(r, pk.Fn, pk.Plain)
			ln := f.add("\t%s%s(\"s\")", kw(kind), name)
			p.sites = append(p.sites, &siteT{file: f.name, line: ln, form: "staticFn", kind: kind, parent: parent, callee: pk.fn(name), pkgIndex: idx})
		} else {
			ln := f.add("\t%st.%s(\"s\")", kw(kind), pk.PM)
			p.sites = append(p.sites, &siteT{file: f.name, line: ln, form: "staticMethod", kind: kind, parent: parent, callee: pk.method(pk.PM), pkgIndex: idx})
		}
	}
	ln := f.add("\tt.G = x")
	p.nodes = append(p.nodes, &nodeT{file: f.name, line: ln, ssaKind: "Store", nk: "fieldStore", parent: parent, field: "G", declPath: pk.path, ty: []string{"ptr", pk.tyNamed(pk.T)}},
		&nodeT{file: f.name, line: ln, ssaKind: "FieldAddr", nk: "fieldRead", parent: parent, field: "G", declPath: pk.path, ty: []string{"ptr", pk.tyNamed(pk.T)}, forStore: true})
	ln = f.add("\treturn t.Secret")
	p.nodes = append(p.nodes, &nodeT{file: f.name, line: ln, ssaKind: "FieldAddr", nk: "fieldRead", parent: parent, field: "Secret", declPath: pk.path, ty: []string{"ptr", pk.tyNamed(pk.T)}})
	f.add("}")
	p.files[f.name] = f.text()
}

func (p *programT) genMain(r *rand.Rand, nRun int) {
	f := &fileB{name: "main.go"}
	f.add("package main")
	f.add("")
	f.add("import (")
	for _, pk := range p.pkgs {
		f.add("\t%s %q", pk.alias, pk.path)
	}
	f.add(")")
	f.add("")
	f.add("var sel int")
	f.add("type L struct{ f string }")
	seenIM := map[string]bool{}
	for _, pk := range p.pkgs {
		if !seenIM[pk.IM] {
			seenIM[pk.IM] = true
			f.add("func (l *L) %s(x string) string { return x + \"l\" }", pk.IM)
		}
	}
	f.add("func local(x string) string { return x }")
	for i, pk := range p.pkgs {
		f.add("func mk%d(n int) %s.%s { if n > 1 { return &%s.%s{} }; return &L{} }", i, pk.alias, pk.I, pk.alias, pk.Impl)
	}
	usedAsValue := map[fnT]bool{}
	for k := 0; k < nRun; k++ {
		idx := k % len(p.pkgs)
		pk := p.pkgs[idx]
		q := p.pkgs[r.Intn(len(p.pkgs))]
		fname := fmt.Sprintf("run%d", k)
		parent := p.mod + "." + fname
		implsI := []fnT{pk.implMethod(), {p.mod, pk.IM, "L"}}
		withFv := r.Intn(3) > 0
		fvImpls := []fnT{pk.fn(pk.Fn), q.fn(q.Fn)}
		if r.Intn(4) == 0 || q == pk {
			fvImpls[1] = fnT{p.mod, "local", ""}
		}
		f.add("func %s() {", fname)
		f.add("\tt := &%s.%s{}", pk.alias, pk.T)
		f.add("\tvar i %s.%s = mk%d(sel)", pk.alias, pk.I, idx)
		if withFv {
			second := q.alias + "." + q.Fn
			if fvImpls[1].name == "local" {
				second = "local"
			}
			f.add("\tfv := %s.%s", pk.alias, pk.Fn)
			f.add("\tif sel > 2 { fv = %s }", second)
			f.add("\t_ = fv")
			usedAsValue[fvImpls[0]] = true
			usedAsValue[fvImpls[1]] = true
		}
		f.add("\tcl := func(x string) string { return x + t.F }")  // <fname>$1 (captures t: a MakeClosure, called directly)
		f.add("\tcl2 := func(x string) string { return x + t.G }") // <fname>$2 (captured by <fname>$3: a function value there)
		f.add("\t_ = cl2")
		f.add("\tbm := t.%s", pk.PM)
		f.add("\tbi := i.%s", pk.IM)
		f.add("\tch := make(chan %s.%s, 1)", pk.alias, pk.T)
		f.add("\tchp := make(chan *%s.%s, 1)", pk.alias, pk.T)
		f.add("\tchn := make(%s.%s, 1)", pk.alias, pk.Ch)
		f.add("\t_, _, _, _, _, _, _, _ = t, i, cl, bm, bi, ch, chp, chn")
		forms := []string{"staticFn", "staticFn", "staticMethod", "staticMethod", "invoke", "boundMethod", "boundIface", "methodExpr", "closureCall", "generic"}
		if withFv {
			forms = append(forms, "funcValue", "funcValue")
		}
		emitCall := func(par string, indent string) {
			form := forms[r.Intn(len(forms))]
			kind := kinds[r.Intn(len(kinds))]
			s := &siteT{file: f.name, form: form, kind: kind, parent: par, pkgIndex: idx}
			switch form {
			case "staticFn":
				name := pick(r, pk.Fn, pk.Plain, pk.Plain)
				s.callee = pk.fn(name)
				s.line = f.add("%s%s%s.%s(\"s\")", indent, kw(kind), pk.alias, name)
			case "staticMethod":
				if r.Intn(3) == 0 {
					s.callee = pk.method(pk.VM)
					s.line = f.add("%s%st.%s(\"s\")", indent, kw(kind), pk.VM)
				} else {
					s.callee = pk.method(pk.PM)
					s.line = f.add("%s%st.%s(\"s\")", indent, kw(kind), pk.PM)
				}
			case "invoke":
				s.callee = pk.ifaceMethod()
				s.impls = implsI
				s.iface = pk.path + "." + pk.I
				s.line = f.add("%s%si.%s(\"s\")", indent, kw(kind), pk.IM)
			case "funcValue":
				s.impls = fvImpls
				s.line = f.add("%s%sfv(\"s\")", indent, kw(kind))
			case "boundMethod":
				s.form = "boundMethod"
				s.callee = pk.method(pk.PM)
				s.impls = []fnT{pk.method(pk.PM)}
				s.wrapper = pk.PM + "$bound"
				s.line = f.add("%s%sbm(\"s\")", indent, kw(kind))
			case "boundIface":
				s.form = "boundMethod"
				s.callee = pk.ifaceMethod()
				s.impls = implsI
				s.wrapper = pk.IM + "$bound"
				s.comment = "interface"
				s.line = f.add("%s%sbi(\"s\")", indent, kw(kind))
			case "methodExpr":
				s.callee = pk.method(pk.PM)
				s.wrapper = pk.PM + "$thunk"
				s.line = f.add("%s%s(*%s.%s).%s(t, \"s\")", indent, kw(kind), pk.alias, pk.T, pk.PM)
			case "closureCall":
				s.callee = fnT{p.mod, fname + "$1", ""}
				if par != parent { // inside the third closure `cl2` is a captured variable: a function value
					s.form = "funcValue"
					s.impls = []fnT{{p.mod, fname + "$2", ""}}
					s.callee = fnT{}
					s.line = f.add("%s%scl2(\"s\")", indent, kw(kind))
				} else {
					s.line = f.add("%s%scl(\"s\")", indent, kw(kind))
				}
			case "generic":
				s.callee = pk.fn(pk.Gen)
				s.wrapper = pk.Gen + "[string]"
				s.line = f.add("%s%s%s.%s(\"s\")", indent, kw(kind), pk.alias, pk.Gen)
			}
			p.sites = append(p.sites, s)
		}
		nSites := 5 + r.Intn(4)
		for j := 0; j < nSites; j++ {
			emitCall(parent, "\t")
		}
		// sites inside a closure: <fname>$3
		f.add("\tfunc() {")
		for j := 0; j < 2+r.Intn(2); j++ {
			emitCall(parent+"$3", "\t\t")
		}
		f.add("\t}()")
		// non-call locations
		named := pk.tyNamed(pk.T)
		nodeChoices := r.Perm(12)[:5]
		for j0, c := range nodeChoices {
			n := &nodeT{file: f.name, parent: parent, declPath: pk.path}
			switch c {
			case 0:
				n.line, n.ssaKind, n.nk, n.field, n.ty = f.add("\tx%d := t.F; _ = x%d", j0, j0), "FieldAddr", "fieldRead", "F", []string{"ptr", named}
			case 1:
				n.line, n.ssaKind, n.nk, n.field, n.ty = f.add("\t_ = %s.Mk%s().Secret", pk.alias, pk.T), "Field", "fieldRead", "Secret", []string{named}
			case 2:
				ln := f.add("\tt.G = \"w\"")
				n.line, n.ssaKind, n.nk, n.field, n.ty = ln, "Store", "fieldStore", "G", []string{"ptr", named}
				p.nodes = append(p.nodes, &nodeT{file: f.name, line: ln, ssaKind: "FieldAddr", nk: "fieldRead", parent: parent, field: "G", declPath: pk.path, ty: []string{"ptr", named}, forStore: true})
			case 3:
				n.line, n.ssaKind, n.nk, n.ty = f.add("\tx%d := new(%s.%s); _ = x%d", j0, pk.alias, pk.T, j0), "Alloc", "alloc", []string{"ptr", named}
			case 4:
				n.line, n.ssaKind, n.nk, n.ty = f.add("\tx%d := new(*%s.%s); _ = x%d", j0, pk.alias, pk.T, j0), "Alloc", "alloc", []string{"ptr", "ptr", named}
			case 5:
				n.line, n.ssaKind, n.nk, n.ty = f.add("\tx%d := new([]%s.%s); _ = x%d", j0, pk.alias, pk.T, j0), "Alloc", "alloc", []string{"ptr", "slice", named}
			case 6:
				n.line, n.ssaKind, n.nk, n.ty = f.add("\tx%d := new(map[string]%s.%s); _ = x%d", j0, pk.alias, pk.T, j0), "Alloc", "alloc", []string{"ptr", "map:string", named}
			case 7:
				n.line, n.ssaKind, n.nk, n.ty = f.add("\tx%d := new([3]chan %s.%s); _ = x%d", j0, pk.alias, pk.T, j0), "Alloc", "alloc", []string{"ptr", "arr:3", "chan", named}
			case 8:
				n.line, n.ssaKind, n.nk, n.ty = f.add("\tx%d := new(int); _ = x%d", j0, j0), "Alloc", "alloc", []string{"ptr", "basic:int"}
			case 9:
				n.line, n.ssaKind, n.nk, n.ty = f.add("\t<-ch"), "UnOp", "chanRecv", []string{"chan", named}
			case 10:
				n.line, n.ssaKind, n.nk, n.ty = f.add("\t<-chp"), "UnOp", "chanRecv", []string{"chan", "ptr", named}
			case 11:
				n.line, n.ssaKind, n.nk, n.ty = f.add("\t<-chn"), "UnOp", "chanRecv", []string{pk.tyNamed(pk.Ch)}
			}
			p.nodes = append(p.nodes, n)
		}
		f.add("}")
	}
	f.add("func main() {")
	for k := 0; k < nRun; k++ {
		f.add("\trun%d()", k)
	}
	f.add("}")
	p.files[f.name] = f.text()
	for _, s := range p.sites {
		if s.form == "staticFn" && usedAsValue[s.callee] {
			s.fnValue = true
		}
		sort.Slice(s.impls, func(i, j int) bool {
			return s.impls[i].pkg+"\x00"+s.impls[i].name < s.impls[j].pkg+"\x00"+s.impls[j].name
		})
	}
}

// renderTy spells a type-token list the way the property reads it ("*T", "chan T", ...).
func renderTy(ty []string) (string, bool) {
	if len(ty) == 0 {
		return "", false
	}
	t := strings.Split(ty[0], ":")
	switch t[0] {
	case "named":
		return t[2], true
	case "basic":
		return t[1], false
	case "other":
		return "?", false
	}
	rest, ok := renderTy(ty[1:])
	switch t[0] {
	case "ptr":
		return "*" + rest, ok
	case "slice":
		return "[]" + rest, ok
	case "chan":
		return "chan " + rest, ok
	case "arr":
		return "[" + t[1] + "]" + rest, ok
	case "map":
		return "map[" + t[1] + "]" + rest, ok
	}
	return "", false
}

func declName(ty []string) string {
	for _, t := range ty {
		if strings.HasPrefix(t, "named:") {
			return strings.Split(t, ":")[1]
		}
	}
	return ""
}
