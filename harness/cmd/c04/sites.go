package main

import "verif/harness/lib"

func stageSites(rep *lib.Report) []cidT { return nil }
