package main

import (
	"fmt"
	"go/token"
	"io"
	"os"
	"path/filepath"
	"regexp"
	"sort"
	"strings"

	"github.com/awslabs/ar-go-tools/analysis"
	"github.com/awslabs/ar-go-tools/analysis/backtrace"
	"github.com/awslabs/ar-go-tools/analysis/config"
	"github.com/awslabs/ar-go-tools/analysis/dataflow"
	"github.com/awslabs/ar-go-tools/analysis/lang"
	"github.com/awslabs/ar-go-tools/analysis/taint"
	"golang.org/x/tools/go/ssa"
	"golang.org/x/tools/go/ssa/ssautil"
	"verif/harness/lib"
)

// Stage 3: call sites and non-call locations of a generated multi-package module.
//
//   facts:   what the Go code reads from each real ssa call instruction == Entry.factsOf(site) (the SSA shape of
//            every source-level call form as the model states it)
//   cids:    identifiers recorded from the REAL IsEntrypointNode / IsMatchingCodeIDWithCallee (predicate that
//            records and answers false) == Entry.entryCids / sinkCids / nodeCids
//   bools:   REAL taint.IsSourceNode / backtrace.IsInterProceduralEntryPoint / IsMatchingCodeIDWithCallee with
//            specifications loaded by config.Load == model, and == truth (the generator's callee knowledge)
//            inside the proved domain; outside it a disagreement with the truth must be a recorded finding.

type dumpedCall struct {
	instr   ssa.CallInstruction
	site    *siteT
	facts   []string // fields of the facts record
	callees []*ssa.Function
	idx     int // index in the oracle's site table
	reg     string
}

type dumpedNode struct {
	instr ssa.Instruction
	node  *nodeT
}

func receiverStr(s string) string {
	s = strings.ReplaceAll(s, "*", "")
	parts := strings.Split(s, ".")
	return parts[len(parts)-1]
}

// dumper's reading of FindSafeCalleePkg (the recorded identifiers tie it to the real one)
func safeCalleePkg(c *ssa.CallCommon) string {
	if c.IsInvoke() && c.Method != nil {
		if pkg := c.Method.Pkg(); pkg != nil {
			return "+" + pkg.Path()
		}
		return "-"
	}
	if c.StaticCallee() == nil || c.StaticCallee().Pkg == nil {
		return "-"
	}
	return "+" + c.StaticCallee().Pkg.Pkg.Path()
}

func valuePackage(v ssa.Value) string {
	if f, ok := v.(*ssa.Function); ok {
		pkg := f.Package()
		if f.Signature.Recv() != nil && len(f.Params) > 0 {
			pkg = f.Params[0].Parent().Package()
		}
		if pkg != nil {
			return "+" + pkg.Pkg.Path()
		}
	}
	return "-"
}

func dumpFacts(state *dataflow.AnalyzerState, ci ssa.CallInstruction) []string {
	kind := "call"
	switch ci.(type) {
	case *ssa.Go:
		kind = "go"
	case *ssa.Defer:
		kind = "defer"
	}
	c := ci.Common()
	inv, vt, mn, sr := "0", "", "", ""
	if c.IsInvoke() {
		inv, vt, mn = "1", c.Value.Type().String(), c.Method.Name()
	} else if c.Signature() != nil && c.Signature().Recv() != nil {
		sr = receiverStr(c.Signature().Recv().Type().String())
	}
	var al [][2]string
	if !c.IsInvoke() {
		if ptr, ok := state.PointerAnalysis.Queries[c.Value]; ok {
			for _, l := range ptr.PointsTo().Labels() {
				if l.Value() != nil {
					al = append(al, [2]string{valuePackage(l.Value()), l.Value().Name()})
				}
			}
		}
	}
	sort.Slice(al, func(i, j int) bool { return al[i][0]+"\x00"+al[i][1] < al[j][0]+"\x00"+al[j][1] })
	var dd [][2]string
	for i, a := range al {
		if i == 0 || a != al[i-1] {
			dd = append(dd, a)
		}
	}
	al = dd
	out := []string{kind, ci.Parent().String(), ci.String(), inv, c.Value.Name(), vt, mn, safeCalleePkg(c), sr, fmt.Sprint(len(al))}
	for _, a := range al {
		out = append(out, a[0], a[1])
	}
	return out
}

func canonCids(cs []cidT) string {
	var ps []string
	for _, c := range cs {
		var fs []string
		for _, f := range c {
			fs = append(fs, esc(f))
		}
		ps = append(ps, strings.Join(fs, "\t"))
	}
	sort.Strings(ps)
	return strings.Join(ps, "\t|\t")
}

func canonOracleCids(line string) string {
	if line == "c" {
		return ""
	}
	ps := strings.Split(strings.TrimPrefix(line, "c\t|\t"), "\t|\t")
	sort.Strings(ps)
	return strings.Join(ps, "\t|\t")
}

func recorder(dst *[]cidT) func(config.CodeIdentifier) bool {
	return func(c config.CodeIdentifier) bool { *dst = append(*dst, fromReal(c)); return false }
}

func fnOf(f *ssa.Function) fnT {
	recv := ""
	if f.Signature.Recv() != nil {
		recv = receiverStr(f.Signature.Recv().Type().String())
	}
	return fnT{lang.PackageNameFromFunction(f), f.Name(), recv}
}

// entryReason names the hypothesis of the proved domain that fails for (site, specification).
func entryReason(s *siteT, sp cidT, real byte) string {
	switch {
	case s.kind != "call":
		return "go-defer-call-is-not-scanned"
	case s.form == "invoke":
		return "invoke-uses-interface-package-and-register-as-receiver"
	case s.form == "funcValue":
		return "function-value-identified-through-alias-label"
	case sp[fVM] != "":
		return "value-match-not-filled-for-entry-points"
	case sp[fRecv] != "" && s.form == "staticMethod":
		return "receiver-not-filled-for-static-method-entry-points"
	case real == '1' && s.form == "staticFn" && s.fnValue:
		return "static-call-of-address-taken-function-adds-alias-identifier"
	}
	return "unclassified"
}

func argReason(s *siteT, sp cidT, real byte, hasSummary bool) string {
	switch {
	case s.form == "invoke":
		return "invoke-uses-interface-package-and-interface-type-as-receiver"
	case s.form == "funcValue":
		return "function-value-call-named-by-register"
	case real == '1' && hasSummary:
		return "callee-with-summary-also-tested-without-context-receiver-and-call-text"
	}
	return "unclassified"
}

func direction(real byte) string {
	if real == '1' {
		return "extra"
	}
	return "miss"
}

func stageSites(rep *lib.Report, round int) []cidT {
	r := lib.Rand(fmt.Sprintf("c04-sites-%d", round))
	nRun, nSpecs := 12, 260
	if lib.Thorough() {
		nRun, nSpecs = 40, 700
	}
	gp := genProgram(r, nRun)
	dir := lib.WorkDir(prop, fmt.Sprintf("sites%d", round))
	lib.WriteProgram(dir, gp.mod, gp.files)
	prog, pkgs, err := lib.LoadSSA(dir, ssa.InstantiateGenerics, false, "./...")
	if err != nil {
		rep.Fail("harness-load-sites", "generated module does not load: "+err.Error(), []byte(gp.files["main.go"]), true)
		return nil
	}
	cfg0 := config.NewDefault()
	cfg0.LogLevel = int(config.ErrLevel)
	logger := config.NewLogGroup(cfg0)
	logger.SetAllOutput(io.Discard)
	var state *dataflow.AnalyzerState
	quiet(func() { state, err = dataflow.NewInitializedAnalyzerState(prog, pkgs, logger, cfg0) })
	if err != nil {
		rep.Fail("harness-state-sites", "analyzer state: "+err.Error(), nil, true)
		return nil
	}
	// summaries and the linked inter-procedural graph (call nodes, call-argument nodes, callee summaries)
	quiet(func() {
		analysis.RunIntraProceduralPass(state, 2, analysis.IntraAnalysisParams{ShouldBuildSummary: dataflow.ShouldBuildSummary, ShouldTrack: taint.IsNodeOfInterest})
		state.FlowGraph.BuildGraph()
	})
	siteAt := map[string]*siteT{}
	for _, s := range gp.sites {
		siteAt[fmt.Sprintf("%s:%d", s.file, s.line)] = s
	}
	nodeAt := map[string]*nodeT{}
	for _, n := range gp.nodes {
		nodeAt[fmt.Sprintf("%s:%d:%s", n.file, n.line, n.ssaKind)] = n
	}
	var fns []*ssa.Function
	for f := range ssautil.AllFunctions(prog) {
		if f.Blocks == nil {
			continue
		}
		path := ""
		if f.Pkg != nil {
			path = f.Pkg.Pkg.Path()
		}
		if path == gp.mod || strings.HasPrefix(path, gp.mod+"/") || (f.Pkg == nil && strings.Contains(f.String(), gp.mod)) {
			fns = append(fns, f)
		}
	}
	sort.Slice(fns, func(i, j int) bool { return fns[i].String() < fns[j].String() })
	posKey := func(p token.Pos) string {
		if !p.IsValid() {
			return ""
		}
		pp := prog.Fset.Position(p)
		rel, err := filepath.Rel(dir, pp.Filename)
		if err != nil {
			return ""
		}
		return fmt.Sprintf("%s:%d", filepath.ToSlash(rel), pp.Line)
	}
	var calls []*dumpedCall
	var nodes []*dumpedNode
	for _, f := range fns {
		for _, b := range f.Blocks {
			for _, ins := range b.Instrs {
				switch x := ins.(type) {
				case ssa.CallInstruction:
					if _, isBuiltin := x.Common().Value.(*ssa.Builtin); isBuiltin {
						continue
					}
					dc := &dumpedCall{instr: x, facts: dumpFacts(state, x), reg: x.Common().Value.Name()}
					if f.Synthetic == "" {
						dc.site = siteAt[posKey(x.Pos())]
					}
					if cs, err := state.ResolveCallee(x, false); err == nil {
						for c := range cs {
							dc.callees = append(dc.callees, c)
						}
						sort.Slice(dc.callees, func(i, j int) bool { return dc.callees[i].String() < dc.callees[j].String() })
					}
					calls = append(calls, dc)
				case *ssa.FieldAddr:
					if n := nodeAt[posKey(x.Pos())+":FieldAddr"]; n != nil {
						nodes = append(nodes, &dumpedNode{x, n})
					}
				case *ssa.Field:
					if n := nodeAt[posKey(x.Pos())+":Field"]; n != nil {
						nodes = append(nodes, &dumpedNode{x, n})
					}
				case *ssa.Alloc:
					if n := nodeAt[posKey(x.Pos())+":Alloc"]; n != nil {
						nodes = append(nodes, &dumpedNode{x, n})
					}
				case *ssa.Store:
					if n := nodeAt[posKey(x.Pos())+":Store"]; n != nil {
						nodes = append(nodes, &dumpedNode{x, n})
					}
				case *ssa.UnOp:
					if x.Op == token.ARROW {
						if n := nodeAt[posKey(x.Pos())+":UnOp"]; n != nil {
							nodes = append(nodes, &dumpedNode{x, n})
						}
					}
				}
			}
		}
	}
	// every generated site must have been found in the SSA
	found := map[*siteT]bool{}
	for _, c := range calls {
		if c.site != nil {
			found[c.site] = true
		}
	}
	foundN := map[*nodeT]bool{}
	for _, n := range nodes {
		foundN[n.node] = true
	}
	for _, s := range gp.sites {
		if !found[s] {
			rep.Fail("harness-site-unmapped", fmt.Sprintf("generated site %s:%d (%s %s) has no call instruction", s.file, s.line, s.form, s.kind), []byte(gp.files[s.file]), true)
			return nil
		}
	}
	for _, n := range gp.nodes {
		if !foundN[n] {
			rep.Fail("harness-node-unmapped", fmt.Sprintf("generated location %s:%d (%s) has no %s instruction", n.file, n.line, n.nk, n.ssaKind), []byte(gp.files[n.file]), true)
			return nil
		}
	}

	// ---- specifications: derived from the truth identifiers of sites and locations
	var targets, nodeTargets []cidT
	for _, c := range calls {
		if c.site == nil {
			continue
		}
		cands := []fnT{c.site.callee}
		cands = append(cands, c.site.impls...)
		for _, fn := range cands {
			if fn.name == "" {
				continue
			}
			targets = append(targets, cidT{fCtx: c.site.parent, fPkg: fn.pkg, fMeth: fn.name, fRecv: fn.recv, fVM: c.instr.String()})
		}
	}
	for _, n := range nodes {
		ty, _ := renderTy(n.node.ty)
		k := map[string]string{"fieldStore": "store", "chanRecv": "channel receive"}[n.node.nk]
		pkgName := declName(n.node.ty)
		nodeTargets = append(nodeTargets, cidT{fCtx: n.node.parent, fPkg: pkgName, fFld: n.node.field, fTyp: ty, fKind: k},
			cidT{fCtx: n.node.parent, fPkg: n.node.declPath, fFld: n.node.field, fTyp: ty, fKind: k})
	}
	var specs []*specT
	callMask := []int{1 << 0, 1 << 1, 1 << 3, 1 << 4, 1 << 7} // ctx pkg meth recv vm
	nodeMask := []int{1 << 0, 1 << 1, 1 << 5, 1 << 6}         // ctx pkg fld typ
	mkMask := func(bits []int, must []int) int {
		m := 0
		for _, b := range bits {
			if r.Intn(5) < 2 {
				m |= b
			}
		}
		for _, b := range must {
			if r.Intn(4) > 0 {
				m |= b
			}
		}
		return m
	}
	for i := 0; i < nSpecs; i++ {
		var s specT
		if i%4 == 3 && len(nodeTargets) > 0 {
			s = makeSpec(r, nodeTargets[r.Intn(len(nodeTargets))], mkMask(nodeMask, []int{1 << 6, 1 << 1}), false)
			if r.Intn(3) > 0 && s.c[fFld] == "" && s.c[fTyp] == "" {
				continue
			}
		} else {
			s = makeSpec(r, targets[r.Intn(len(targets))], mkMask(callMask, []int{1 << 1, 1 << 3}), false)
			s.c[fKind] = ""
		}
		s.c[fLabel] = ""
		s.role = len(specs) % len(roles)
		sp := s
		specs = append(specs, &sp)
	}
	// specifications aimed at the recorded disagreement classes (names taken from the generated program)
	var histIdx []int // context-bearing specifications used for the query-history check
	addT := func(role string, c cidT) {
		for i, rn := range roles {
			if rn == role {
				specs = append(specs, &specT{c: c, role: i})
			}
		}
	}
	for _, pk := range gp.pkgs[:2] {
		q := regexp.QuoteMeta
		addT("sources", cidT{fMeth: "^" + q(pk.IM) + "$", fRecv: "^t[0-9]+$"})
		addT("sources", cidT{fPkg: "^package ", fMeth: "^" + q(pk.Fn) + "$"})
		addT("backtracepoints", cidT{fPkg: "^package ", fMeth: "^" + q(pk.Fn) + "$"})
		addT("sinks", cidT{fMeth: "^" + q(pk.IM) + "$", fRecv: "/" + q(pk.name) + "\\."})
		addT("sinks", cidT{fMeth: "^t[0-9]+$"})
		addT("sinks", cidT{fMeth: "^" + q(pk.Fn) + "$", fVM: q(pk.Fn) + "$"})
		addT("sanitizers", cidT{fMeth: "^" + q(pk.Plain) + "$", fVM: q(pk.Plain) + "$"})
		addT("sources", cidT{fPkg: "^" + q(pk.name) + "$", fTyp: q(pk.T)})
		addT("sources", cidT{fTyp: q(pk.T), fFld: "^G$"})
		addT("sources", cidT{fMeth: "^" + q(pk.PM) + "$", fRecv: "^$"})
		addT("sources", cidT{fCtx: "^$", fMeth: "^" + q(pk.Fn) + "$"})
		addT("backtracepoints", cidT{fCtx: "^$", fMeth: "^" + q(pk.Fn) + "$"})
		addT("backtracepoints", cidT{fMeth: "^" + q(pk.Plain) + "$", fVM: "^$"})
		for _, ctx := range []string{"\\.run[0-3]$", "\\)\\.Run$", "\\$3$"} {
			histIdx = append(histIdx, len(specs), len(specs)+1)
			addT("sources", cidT{fCtx: ctx, fMeth: "^(" + q(pk.Plain) + "|" + q(pk.Fn) + "|" + q(pk.PM) + ")$"})
			addT("sinks", cidT{fCtx: ctx, fPkg: q(pk.path) + "$", fMeth: "^(" + q(pk.Plain) + "|" + q(pk.Fn) + "|" + q(pk.PM) + ")$"})
		}
		addT("sources", cidT{fPkg: "^" + q(pk.path) + "$", fTyp: q(pk.T), fFld: "Secret"})
	}
	text := buildConfig(specs)
	os.WriteFile(dir+"/config.yaml", []byte(text), 0o644)
	cfg, err := loadConfig(text)
	if err != nil {
		rep.Fail("config-load-sites", "generated configuration rejected by config.Load: "+err.Error(), []byte(text), true)
		return nil
	}

	// how the real code renders the package of an alias label ("package <path>" on the pinned tree): read from the
	// identifiers the real IsEntrypointNode builds (alias identifiers are the ones without Context)
	aliasPrefix := ""
	for _, c := range calls {
		var e1 []cidT
		taint.VerifIsEntrypointNode(state, true, c.instr.(ssa.Node), recorder(&e1))
		for _, id := range e1 {
			if id[fCtx] == "" && strings.HasPrefix(id[fPkg], "package ") {
				aliasPrefix = "package "
			}
		}
	}
	rep.Count("alias-package-rendering:" + map[string]string{"package ": "ssa.Package.String()", "": "path"}[aliasPrefix])
	if aliasPrefix != "" {
		// regression case of the finding repaired by 95e1c24
		rep.Fail("alias-package-prefix", "FindValuePackage renders the package of an alias label as \"package <path>\": package patterns anchored at the path miss function values, patterns such as \"^package \" match them",
			[]byte(gp.files["main.go"]), false)
	}
	// ---- oracle input
	var in strings.Builder
	in.WriteString(record("aliasprefix", aliasPrefix))
	expect := []string{} // what each answered line is about
	type pairT struct {
		call   *dumpedCall
		callee *ssa.Function
		truth  fnT
	}
	var pairsL []pairT
	var realCids []string
	factsOfRecord := map[int][]string{}
	for i, c := range calls {
		c.idx = i
		if s := c.site; s != nil {
			reg := ""
			switch s.form {
			case "invoke", "funcValue", "boundMethod", "closureCall":
				reg = c.reg
			}
			fields := []string{s.form, s.kind, s.parent, c.instr.String(), reg, s.callee.pkg, s.callee.name, s.callee.recv, s.iface,
				map[bool]string{true: "1", false: "0"}[s.fnValue], s.wrapper, aliasPrefix, fmt.Sprint(len(s.impls))}
			for _, im := range s.impls {
				fields = append(fields, im.pkg, im.name, im.recv)
			}
			in.WriteString(record("site", fields...))
			in.WriteString(record("facts", c.facts...))
			factsOfRecord[len(expect)] = c.facts
			expect = append(expect, "facts")
		} else {
			in.WriteString(record("rawsite", c.facts...))
		}
		node := c.instr.(ssa.Node)
		var e1, e0, s0 []cidT
		taint.VerifIsEntrypointNode(state, true, node, recorder(&e1))
		taint.VerifIsEntrypointNode(state, false, node, recorder(&e0))
		taint.IsMatchingCodeIDWithCallee(recorder(&s0), nil, node)
		in.WriteString(record("cids", "entry", "1"))
		in.WriteString(record("cids", "entry", "0"))
		in.WriteString(record("cids", "sink", "-"))
		expect = append(expect, "cids", "cids", "cids")
		realCids = append(realCids, canonCids(e1), canonCids(e0), canonCids(s0))
		for _, callee := range c.callees {
			var sc []cidT
			taint.IsMatchingCodeIDWithCallee(recorder(&sc), callee, node)
			pnf := "+" + lang.PackageNameFromFunction(callee)
			in.WriteString(record("cids", "sink", pnf))
			expect = append(expect, "cids")
			realCids = append(realCids, canonCids(sc))
			truth := fnOf(callee)
			if s := c.site; s != nil {
				switch s.form {
				case "boundMethod", "methodExpr", "generic":
					truth = s.callee // the wrapper stands for the declared method / function
					if len(s.impls) > 0 {
						truth = s.impls[0]
					}
				}
			}
			pairsL = append(pairsL, pairT{c, callee, truth})
		}
	}
	for _, p := range pairsL {
		in.WriteString(record("pair", fmt.Sprint(p.call.idx), "+"+lang.PackageNameFromFunction(p.callee), p.truth.pkg, p.truth.name, p.truth.recv))
	}
	type apairT struct {
		pairT
		arg        *dataflow.CallNodeArg
		hasSummary bool
	}
	var apairs []apairT
	for _, p := range pairsL {
		sum := state.FlowGraph.Summaries[p.call.instr.Parent()]
		if sum == nil {
			continue
		}
		cn := sum.Callees[p.call.instr][p.callee]
		if cn == nil || len(cn.Args()) == 0 {
			continue
		}
		arg := cn.Args()[0]
		ap := apairT{pairT: p, arg: arg, hasSummary: cn.CalleeSummary != nil}
		var ac []cidT
		ok := true
		func() {
			defer func() {
				if e := recover(); e != nil {
					ok = false
				}
			}()
			taint.VerifIsMatchingCodeID(recorder(&ac), arg)
		}()
		if !ok {
			rep.Count("arg-node:real-code-panics")
			continue
		}
		pnf := "+" + lang.PackageNameFromFunction(p.callee)
		sp, sn, full := "", "", ""
		if ap.hasSummary {
			par := cn.CalleeSummary.Parent
			sp, sn, full = lang.PackageNameFromFunction(par), par.Name(), par.String()
		}
		in.WriteString(record("cids", "argat", fmt.Sprint(p.call.idx), pnf, sp, sn, full, map[bool]string{true: "1", false: "0"}[ap.hasSummary]))
		expect = append(expect, "cids")
		realCids = append(realCids, canonCids(ac))
		apairs = append(apairs, ap)
	}
	for _, n := range nodes {
		fields := append([]string{n.node.nk, n.node.parent, n.node.field, n.node.declPath}, n.node.ty...)
		in.WriteString(record("node", fields...))
		var v ssa.Value
		switch x := n.instr.(type) {
		case *ssa.FieldAddr:
			v = x.X
		case *ssa.Field:
			v = x.X
		case *ssa.Alloc:
			v = x
		case *ssa.Store:
			v = x.Addr.(*ssa.FieldAddr).X
		case *ssa.UnOp:
			v = x.X
		}
		pn, tn, terr := taint.VerifFindEltTypePackage(v)
		if terr != nil {
			in.WriteString(record("nodefacts", "-", ""))
		} else {
			in.WriteString(record("nodefacts", "+"+pn, tn))
		}
		var nc []cidT
		taint.VerifIsEntrypointNode(state, true, n.instr.(ssa.Node), recorder(&nc))
		in.WriteString(record("cids", "node"))
		expect = append(expect, "nodefacts", "cids")
		realCids = append(realCids, canonCids(nc))
	}
	for _, s := range specs {
		in.WriteString(record("spec", s.c[:]...))
	}
	for _, ap := range apairs {
		sp, sn, full := "", "", ""
		if ap.hasSummary {
			par := ap.arg.ParentNode().CalleeSummary.Parent
			sp, sn, full = lang.PackageNameFromFunction(par), par.Name(), par.String()
		}
		in.WriteString(record("apair", fmt.Sprint(ap.call.idx), "+"+lang.PackageNameFromFunction(ap.callee), ap.truth.pkg, ap.truth.name, ap.truth.recv,
			sp, sn, full, map[bool]string{true: "1", false: "0"}[ap.hasSummary]))
	}
	in.WriteString("entrymatrix\nsinkmatrix\nnodematrix\nargmatrix\n")
	os.WriteFile(dir+"/oracle_in.txt", []byte(in.String()), 0o644)
	out, err := lib.RunOracle("oracle_c04", []byte(in.String()))
	want := len(expect) + len(calls) + len(pairsL) + len(nodes) + len(apairs)
	if err != nil || len(out) != want {
		rep.Fail("oracle-run-sites", fmt.Sprintf("oracle failed: %v (%d lines, expected %d)", err, len(out), want), nil, true)
		return nil
	}
	progText := func(file string) string {
		return fmt.Sprintf("module %s, file %s:\n%s\n(whole module under %s; configuration %s/config.yaml)\n", gp.mod, file, gp.files[file], dir, dir)
	}

	// ---- facts and identifiers
	ci := 0
	mism := 0
	for k, what := range expect {
		line := out[k]
		switch what {
		case "facts":
			if line != "facts ok" {
				mism++
				rep.Fail("site-facts:"+line, "the SSA shape of a call form differs from Entry.factsOf (model of x/tools SSA construction is wrong for this form): "+line+" REAL "+strings.Join(factsOfRecord[k], "\t"), []byte(line+"\n"+progText("main.go")), true)
			}
		case "nodefacts":
			if line != "nodefacts ok" {
				mism++
				rep.Fail("node-facts:"+line, "FindEltTypePackage differs from Entry.eltTypePackage: "+line, []byte(line+"\n"+progText("main.go")), true)
			}
		case "cids":
			if canonOracleCids(line) != realCids[ci] {
				mism++
				rep.Fail("cids:"+realCids[ci], fmt.Sprintf("identifiers built by the real code differ from the model (record %d): real=[%s] model=[%s]", k, realCids[ci], canonOracleCids(line)),
					[]byte(fmt.Sprintf("real:  %s\nmodel: %s\n%s", realCids[ci], canonOracleCids(line), progText("main.go"))), true)
			}
			ci++
		}
	}
	base := len(expect)

	// ---- booleans
	realEntry := func(s *specT, n ssa.Node) (res byte) {
		defer func() {
			if e := recover(); e != nil {
				res = 'p'
			}
		}()
		var b bool
		switch roles[s.role] {
		case "sources":
			b = taint.IsSourceNode(state, &cfg.TaintTrackingProblems[s.idx], n)
		case "backtracepoints":
			b = backtrace.IsInterProceduralEntryPoint(state, &cfg.SlicingProblems[s.idx], n)
		default:
			return '-'
		}
		if b {
			return '1'
		}
		return '0'
	}
	realSink := func(s *specT, callee *ssa.Function, n ssa.Node) (res byte) {
		defer func() {
			if e := recover(); e != nil {
				res = 'p'
			}
		}()
		var b bool
		ts := &cfg.TaintTrackingProblems
		switch roles[s.role] {
		case "sinks":
			b = taint.IsMatchingCodeIDWithCallee((*ts)[s.idx].IsSink, callee, n)
		case "sanitizers":
			b = taint.IsMatchingCodeIDWithCallee((*ts)[s.idx].IsSanitizer, callee, n)
		case "validators":
			b = taint.IsMatchingCodeIDWithCallee((*ts)[s.idx].IsValidator, callee, n)
		default:
			return '-'
		}
		if b {
			return '1'
		}
		return '0'
	}
	outside, inDom, knownShape := 0, 0, 0
	judge := func(stage string, site *siteT, where string, sp *specT, real, model, truth, dom byte, reason string, file string) {
		key := fmt.Sprintf("%s|%s|%v", stage, where, sp.c)
		rep.Case(key)
		content := func() []byte {
			return []byte(fmt.Sprintf("stage: %s\nlocation: %s\nrole: %s\nspecification:\n  %s\nreal: %c  model: %c  truth: %c  in proved domain: %c\n%s",
				stage, where, roles[sp.role], sp.c.yaml("  "), real, model, truth, dom, progText(file)))
		}
		if truth == '-' { // no generator knowledge: model correspondence only
			if real != model {
				mism++
				rep.Fail("site-model:"+key, fmt.Sprintf("%s: real=%c model=%c at %s for %v", stage, real, model, where, sp.c), content(), true)
			}
			return
		}
		if dom == '1' {
			inDom++
			if real != truth {
				mism++
				rep.Fail("site:"+key, fmt.Sprintf("%s: %s is %sidentified by %s specification %v but the generator's callee knowledge says %c", stage, where,
					map[byte]string{'1': "", '0': "not ", 'p': "(panic) "}[real], roles[sp.role], sp.c, truth), content(), false)
			} else if model != real {
				mism++
				rep.Fail("site-model:"+key, "Lean model disagrees with the real code although the real code equals the truth", content(), true)
			}
			return
		}
		outside++
		if real != model {
			mism++
			rep.Fail("site:"+key, fmt.Sprintf("%s: real=%c model=%c truth=%c at %s for %v (outside the proved domain; the model no longer describes the code)", stage, real, model, truth, where, sp.c),
				content(), real == truth)
			return
		}
		if real != truth {
			knownShape++
			rep.Count("outside-domain-disagreement:" + stage + "/" + reason + "/" + direction(real))
			corpusWrite("shape:"+stage+"/"+reason+"/"+direction(real), content())
			rep.Fail("shape:"+stage+"/"+reason+"/"+direction(real),
				fmt.Sprintf("%s: %s at %s for %v: real=%c truth=%c", stage, reason, where, sp.c, real, truth), content(), false)
		}
	}
	for i, c := range calls {
		parts := strings.Split(out[base+i], " ")
		if len(parts) != 4 || len(parts[1]) != len(specs) {
			rep.Fail("oracle-run-sites", "bad entrymatrix line: "+out[base+i], nil, true)
			return nil
		}
		var n ssa.Node = c.instr.Value() // what scanEntryPoints passes: nil *ssa.Call for Go / Defer
		where := fmt.Sprintf("%s [%s]", c.instr.String(), c.instr.Parent().String())
		form := "raw"
		if c.site != nil {
			form = c.site.form + "/" + c.site.kind
			if strings.Contains(c.site.parent, "$") {
				form += "/in-closure"
			}
			where = fmt.Sprintf("%s:%d %s %s", c.site.file, c.site.line, form, where)
		}
		rep.Count("site-form:" + form)
		for j, sp := range specs {
			real := realEntry(sp, n)
			if real == '-' {
				continue
			}
			truth, dom := byte('-'), byte('0')
			reason := ""
			if c.site != nil {
				truth, dom = parts[2][j], parts[3][j]
				reason = entryReason(c.site, sp.c, real)
				switch c.site.form {
				case "boundMethod", "methodExpr", "closureCall", "generic":
					truth = '-' // identification may happen inside the wrapper: decided end to end (stage 4)
				}
			}
			judge("entry", c.site, where, sp, real, parts[1][j], truth, dom, reason, "main.go")
		}
	}
	// ---- Config-level predicates on ONE loaded configuration (Config.IsSomeSource / IsSomeSink, reached through
	// taint.IsSourceNode(state, nil, ·) and taint.IsNodeOfInterest): every call site is queried in program order and,
	// on a freshly loaded configuration, in reverse order, each pass twice.  The answer must be the stateless
	// disjunction of the model over the specifications of the role: identification is a function of the location
	// and the specification, not of the query history (the same callee occurs in several enclosing functions).
	histQueries, histBad := 0, 0
	var histSpecs []*specT
	for _, j := range histIdx {
		cp := *specs[j]
		histSpecs = append(histSpecs, &cp)
	}
	histText := buildConfig(histSpecs) // a small configuration: only specifications that discriminate by context
	for _, order := range []string{"forward", "reverse"} {
		cfgH, herr := loadConfig(histText)
		if herr != nil {
			rep.Fail("config-load-history-sites", "history configuration rejected: "+herr.Error(), []byte(histText), true)
			break
		}
		oldCfg := state.Config
		state.Config = cfgH
		for pass := 0; pass < 2; pass++ {
			for k := range calls {
				i := k
				if order == "reverse" {
					i = len(calls) - 1 - k
				}
				c := calls[i]
				modelLine := strings.Split(out[base+i], " ")[1]
				expSrc, expInt := false, false
				for _, j := range histIdx {
					if modelLine[j] != '1' {
						continue
					}
					switch roles[specs[j].role] {
					case "sources":
						expSrc, expInt = true, true
					case "sinks":
						expInt = true
					}
				}
				rep.Count(fmt.Sprintf("config-level-history:expected-source=%v", expSrc))
				var n ssa.Node = c.instr.Value()
				gotSrc, gotInt := false, false
				func() {
					defer func() { recover() }()
					gotSrc = taint.IsSourceNode(state, nil, n)
					gotInt = taint.IsNodeOfInterest(state, n)
				}()
				histQueries += 2
				if os.Getenv("VERIF_C04_DEBUG") != "" && pass == 0 {
					fmt.Fprintf(os.Stderr, "hist %s %-60s %-30s expSrc=%v gotSrc=%v expInt=%v gotInt=%v\n", order, c.instr.String(), c.instr.Parent().String(), expSrc, gotSrc, expInt, gotInt)
				}
				rep.Case(fmt.Sprintf("hist|%s|%d|%s|%s", order, pass, c.instr.String(), c.instr.Parent().String()))
				if gotSrc != expSrc || gotInt != expInt {
					histBad++
					where := fmt.Sprintf("%s [%s]", c.instr.String(), c.instr.Parent().String())
					rep.Fail(fmt.Sprintf("history:%s:%d:%s", order, pass, where),
						fmt.Sprintf("Config-level identification depends on the query history: %s queried %s (pass %d) on one loaded configuration: IsSomeSource=%v (stateless: %v), source-or-sink=%v (stateless: %v)",
							where, order, pass, gotSrc, expSrc, gotInt, expInt),
						[]byte(fmt.Sprintf("call: %s\norder: %s pass %d\nConfig.IsSomeSource via taint.IsSourceNode(state, nil, call): %v, stateless disjunction over the source specifications: %v\ntaint.IsNodeOfInterest: %v, stateless: %v\nconfiguration (one Config object for the whole pass):\n%s\n%s",
							where, order, pass, gotSrc, expSrc, gotInt, expInt, histText, progText("main.go"))), false)
				}
			}
		}
		state.Config = oldCfg
	}
	rep.Count(fmt.Sprintf("config-level-history-queries:sites=%d", histQueries))
	_ = histBad
	base += len(calls)
	for i, p := range pairsL {
		parts := strings.Split(out[base+i], " ")
		if len(parts) != 4 || len(parts[1]) != len(specs) {
			rep.Fail("oracle-run-sites", "bad sinkmatrix line: "+out[base+i], nil, true)
			return nil
		}
		where := fmt.Sprintf("%s [%s] callee %s", p.call.instr.String(), p.call.instr.Parent().String(), p.callee.String())
		for j, sp := range specs {
			real := realSink(sp, p.callee, p.call.instr.(ssa.Node))
			if real == '-' {
				continue
			}
			truth, dom := byte('-'), byte('0')
			reason := ""
			if s := p.call.site; s != nil {
				truth, dom = parts[2][j], parts[3][j]
				if dom != '1' {
					truth = '-' // outside the domain the call-argument nodes decide (below)
				}
			}
			judge("sink", p.call.site, where, sp, real, parts[1][j], truth, dom, reason, "main.go")
		}
	}
	base += len(pairsL)
	for i, n := range nodes {
		parts := strings.Split(out[base+i], " ")
		if len(parts) != 3 || len(parts[1]) != len(specs) {
			rep.Fail("oracle-run-sites", "bad nodematrix line: "+out[base+i], nil, true)
			return nil
		}
		where := fmt.Sprintf("%s:%d %s %s [%s]", n.node.file, n.node.line, n.node.nk, n.instr.String(), n.instr.Parent().String())
		rep.Count("location-kind:" + n.node.nk + map[bool]string{true: "(address of a store)", false: ""}[n.node.forStore])
		for j, sp := range specs {
			var real byte
			if _, isStore := n.instr.(*ssa.Store); isStore && roles[sp.role] != "sources" && roles[sp.role] != "backtracepoints" {
				real = realSink(sp, nil, n.instr.(ssa.Node))
			} else {
				real = realEntry(sp, n.instr.(ssa.Node))
			}
			if real == '-' {
				continue
			}
			// truth of locations is the model's reading with the declaring package *path*; the code uses the
			// package *name*: compared in the proved domain only when both coincide
			truth := parts[2][j]
			dom := byte('0')
			if n.node.declPath == declName(n.node.ty) && !n.node.forStore {
				dom = '1'
			}
			reason := "location-package-is-name-not-path"
			if n.node.forStore {
				reason = "address-of-field-store-identified-as-field-read"
				truth = '0' // the address computed for a store is not a read of the field
			}
			judge("location", nil, where, sp, real, parts[1][j], truth, dom, reason, n.node.file)
		}
	}
	base += len(nodes)
	realArg := func(s *specT, arg *dataflow.CallNodeArg) (res byte) {
		defer func() {
			if e := recover(); e != nil {
				res = 'p'
			}
		}()
		var b bool
		switch roles[s.role] {
		case "sinks":
			b = taint.VerifIsSink(state, &cfg.TaintTrackingProblems[s.idx], arg)
		case "sanitizers":
			b = taint.VerifIsSanitizer(state, &cfg.TaintTrackingProblems[s.idx], arg)
		default:
			return '-'
		}
		if b {
			return '1'
		}
		return '0'
	}
	for i, ap := range apairs {
		parts := strings.Split(out[base+i], " ")
		if len(parts) != 4 || len(parts[1]) != len(specs) {
			rep.Fail("oracle-run-sites", "bad argmatrix line: "+out[base+i], nil, true)
			return nil
		}
		where := fmt.Sprintf("argument of %s [%s] callee %s (summary: %v)", ap.call.instr.String(), ap.call.instr.Parent().String(), ap.callee.String(), ap.hasSummary)
		for j, sp := range specs {
			real := realArg(sp, ap.arg)
			if real == '-' {
				continue
			}
			truth, dom := byte('-'), byte('0')
			reason := ""
			if s := ap.call.site; s != nil {
				truth, dom = parts[2][j], parts[3][j]
				reason = argReason(s, sp.c, real, ap.hasSummary)
				switch s.form {
				case "boundMethod", "methodExpr", "closureCall", "generic":
					truth = '-' // decided end to end
				}
			}
			judge("sink-arg", ap.call.site, where, sp, real, parts[1][j], truth, dom, reason, "main.go")
		}
	}
	addExtra := func(k string, v int) {
		old, _ := rep.Extra[k].(int)
		rep.Extra[k] = old + v
	}
	addExtra("sites_programs", 1)
	addExtra("sites_call_argument_nodes", len(apairs))
	addExtra("sites_calls", len(calls))
	addExtra("sites_generated", len(gp.sites))
	addExtra("sites_callee_pairs", len(pairsL))
	addExtra("sites_locations", len(nodes))
	addExtra("sites_specs", len(specs))
	addExtra("sites_in_proved_domain", inDom)
	addExtra("sites_outside_proved_domain", outside)
	addExtra("sites_known_shape_disagreements", knownShape)
	addExtra("sites_mismatches", mism)
	rep.Sample(map[string]any{"stage": "sites", "module": gp.mod, "site": fmt.Sprintf("%+v", *gp.sites[len(gp.sites)/2]), "spec": specs[0].c.String()})

	// identifiers seen in the real program also feed the matrix stage
	var res []cidT
	seen := map[cidT]bool{}
	for _, t := range targets {
		if !seen[t] && len(res) < 60 {
			seen[t] = true
			res = append(res, t)
		}
	}
	return res
}
