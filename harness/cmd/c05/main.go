// Driver for C05 (first cut: `try` mode used while building the check).
package main

import (
	"fmt"
	"os"
	"path/filepath"
	"strings"

	"verif/harness/optrun"
)

func loadSpec(spec string) (*optrun.Program, error) {
	switch {
	case strings.HasPrefix(spec, "testdata:"):
		parts := strings.SplitN(strings.TrimPrefix(spec, "testdata:"), "/", 2)
		return optrun.LoadTestdata(parts[0], parts[1])
	case strings.HasPrefix(spec, "dir:"):
		dir := strings.TrimPrefix(spec, "dir:")
		y, err := os.ReadFile(filepath.Join(dir, "config.yaml"))
		if err != nil {
			return nil, err
		}
		return optrun.Load(filepath.Base(dir), dir, filepath.Join(dir, "config.yaml"), string(y), true)
	}
	return nil, fmt.Errorf("bad program spec %q", spec)
}

func try(spec string, kvs []string) {
	p, err := loadSpec(spec)
	if err != nil {
		fmt.Println("load:", err)
		return
	}
	o := optrun.Opts{}
	for _, kv := range kvs {
		i := strings.IndexByte(kv, '=')
		o[kv[:i]] = kv[i+1:]
	}
	r := p.Taint(o)
	fmt.Printf("opts=%s cfgerr=%v err=%q panic=%q\n", o.Name(), r.CfgErr, r.Err, strings.SplitN(r.Panic, "\n", 2)[0])
	for _, f := range r.Flows {
		fmt.Println("  ", f)
	}
}

func main() {
	if len(os.Args) >= 3 && os.Args[1] == "try" {
		try(os.Args[2], os.Args[3:])
		return
	}
}
