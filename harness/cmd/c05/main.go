// Driver for C05 — options documented as soundness-neutral do not change the verdict.
//
// Tie: the REAL taint analysis (taint.Analyze, in-process) on generated µGo programs, on the
// repository's own multi-package testdata and on the fixed corpus, under
//
//	{eager, on-demand} x pkg-filters x report/coverage/log options x max-alarms
//
// must report the same (source site, sink site) set as the eager default — except max-alarms = k > 0,
// where the criterion of theorem `max_alarms` (subset, at most k, non-empty when the unlimited result
// is) is evaluated by the compiled Lean oracle on the pair of real results.  The oracle also gives the
// verdict of the regenerated tables T1/T2 (`reads_table_complete`): false on the pinned tree (F4),
// replayed here on the real tool (corpus program: a global read through a call argument).
package main

import (
	"fmt"
	"os"
	"path/filepath"
	"runtime"
	"runtime/debug"
	"sort"
	"strconv"
	"strings"
	"time"

	"verif/harness/lib"
	"verif/harness/mugo"
	"verif/harness/optrun"
)

const f4Key = "F4-ondemand-global-read-through-call-arg"

const genConfig = `options:
  log-level: 1
taint-tracking-problems:
  - sources:
      - method: "^source_?\\d*$"
    sinks:
      - method: "^sink_?\\d*$"
`

func loadSpec(spec string) (*optrun.Program, error) {
	switch {
	case strings.HasPrefix(spec, "testdata:"):
		parts := strings.SplitN(strings.TrimPrefix(spec, "testdata:"), "/", 2)
		return optrun.LoadTestdata(parts[0], parts[1])
	case strings.HasPrefix(spec, "dir:"):
		dir := strings.TrimPrefix(spec, "dir:")
		y, err := os.ReadFile(filepath.Join(dir, "config.yaml"))
		if err != nil {
			return nil, err
		}
		return optrun.Load(filepath.Base(dir), dir, filepath.Join(dir, "config.yaml"), string(y), true)
	}
	return nil, fmt.Errorf("bad program spec %q", spec)
}

func try(spec string, kvs []string) {
	p, err := loadSpec(spec)
	if err != nil {
		fmt.Println("load:", err)
		return
	}
	o := optrun.Opts{}
	for _, kv := range kvs {
		i := strings.IndexByte(kv, '=')
		o[kv[:i]] = kv[i+1:]
	}
	r := p.Taint(o)
	fmt.Printf("opts=%s cfgerr=%v err=%q panic=%q\n", o.Name(), r.CfgErr, r.Err, strings.SplitN(r.Panic, "\n", 2)[0])
	for _, f := range r.Flows {
		fmt.Println("  ", f)
	}
}

type variant struct {
	name string
	o    optrun.Opts
	k    int // max-alarms (0 = equality demanded)
}

func diff(a, b []string) string {
	A, B := map[string]bool{}, map[string]bool{}
	for _, x := range a {
		A[x] = true
	}
	for _, x := range b {
		B[x] = true
	}
	var out []string
	for _, x := range a {
		if !B[x] {
			out = append(out, "only with the default configuration: "+x)
		}
	}
	for _, x := range b {
		if !A[x] {
			out = append(out, "only with the variant: "+x)
		}
	}
	sort.Strings(out)
	return strings.Join(out, "\n")
}

func enc(l []string) string {
	if len(l) == 0 {
		return "-"
	}
	var parts []string
	for _, x := range l {
		parts = append(parts, strings.NewReplacer(" ", "_", ";", ",").Replace(x))
	}
	return strings.Join(parts, ";")
}

func main() {
	if len(os.Args) >= 3 && os.Args[1] == "memtest" {
		p, err := loadSpec(os.Args[2])
		if err != nil {
			fmt.Println(err)
			return
		}
		o := optrun.Opts{}
		for _, kv := range os.Args[3:] {
			i := strings.IndexByte(kv, '=')
			o[kv[:i]] = kv[i+1:]
		}
		for i := 0; i < 3; i++ {
			r := p.Taint(o)
			runtime.GC()
			var m runtime.MemStats
			runtime.ReadMemStats(&m)
			fmt.Printf("run %d flows=%d heap-in-use=%d MB\n", i, len(r.Flows), m.HeapInuse>>20)
		}
		return
	}
	if len(os.Args) >= 3 && os.Args[1] == "try" {
		try(os.Args[2], os.Args[3:])
		return
	}
	rep := lib.NewReport("C05")
	rep.Rule = "case = (program, option variant) compared with the eager default run of the same loaded program; distinct = distinct (program, variant); non-trivial = the default result is non-empty. Variants: summarize-on-demand, pkg-filter regexes (matching / not matching / partial), report-summaries / report-coverage / report-paths / report-no-callee-sites (with a scratch reports-dir), coverage-filter, log-level, silence-warn, their combinations with on-demand, max-alarms k (criterion instead of equality)"

	// ---- table verdict (T1/T2)
	readsComplete := false
	if ans, err := lib.RunOracle("oracle_c05", []byte("t2\n")); err == nil && len(ans) == 1 && strings.HasPrefix(ans[0], "t2 ") {
		f := strings.Fields(ans[0])
		for _, x := range f[1:] {
			if x == "reads=1" {
				readsComplete = true
			}
			if strings.HasPrefix(x, "missingReads=") {
				m := strings.TrimPrefix(x, "missingReads=")
				n := 0
				if m != "-" {
					n = len(strings.Split(m, ","))
				}
				rep.Extra["t2_unrecognised_read_positions"] = n
			}
		}
		rep.Extra["t2_reads_table_complete"] = readsComplete
	} else {
		rep.Fail("t2", fmt.Sprintf("oracle_c05 gave no table verdict: %v %v", ans, err), nil, true)
	}

	work := lib.WorkDir("C05", "run")
	rdir := filepath.Join(work, "reports")
	q := strconv.Quote

	variants := func(thorough bool) []variant {
		od := optrun.Opts{"summarize-on-demand": "true"}
		rp := optrun.Opts{"reports-dir": q(rdir)}
		vs := []variant{
			{"on-demand", od, 0},
			{"pkg-filter=main-pkg", optrun.Opts{"pkg-filter": q("command-line-arguments")}, 0},
			{"pkg-filter=nomatch", optrun.Opts{"pkg-filter": q("^zzz-no-such-package$")}, 0},
			{"pkg-filter=all", optrun.Opts{"pkg-filter": q(".*")}, 0},
			{"report-all", rp.With("report-summaries", "true").With("report-coverage", "true").With("report-paths", "true").With("report-no-callee-sites", "true"), 0},
			{"report-paths", rp.With("report-paths", "true"), 0},
			{"log-level=3,silence-warn", optrun.Opts{"log-level": "3", "silence-warn": "true"}, 0},
			{"on-demand+pkg-filter=nomatch+report-coverage", od.With("pkg-filter", q("^zzz$")).With("report-coverage", "true").With("reports-dir", q(rdir)).With("coverage-filter", q(".*main.*")), 0},
			{"max-alarms=1", optrun.Opts{"max-alarms": "1"}, 1},
			{"max-alarms=3", optrun.Opts{"max-alarms": "3"}, 3},
			{"max-alarms=2+on-demand", od.With("max-alarms", "2"), 2},
			{"on-demand+report-summaries", od.With("report-summaries", "true").With("reports-dir", q(rdir)), 0},
		}
		if thorough {
			vs = append(vs,
				variant{"report-summaries", rp.With("report-summaries", "true"), 0},
				variant{"report-coverage", rp.With("report-coverage", "true"), 0},
				variant{"report-no-callee-sites", rp.With("report-no-callee-sites", "true"), 0},
				variant{"coverage-filter", rp.With("report-coverage", "true").With("coverage-filter", q("nomatch")), 0},
				variant{"log-level=2", optrun.Opts{"log-level": "2"}, 0},
				variant{"log-level=4", optrun.Opts{"log-level": "4"}, 0},
				variant{"on-demand+report-all", od.With("reports-dir", q(rdir)).With("report-summaries", "true").With("report-coverage", "true").With("report-paths", "true"), 0},
				variant{"on-demand+pkg-filter=main-pkg", od.With("pkg-filter", q("command-line-arguments")), 0},
				variant{"pkg-filter=partial", optrun.Opts{"pkg-filter": q("foo|fmt|strings")}, 0},
				variant{"max-alarms=2", optrun.Opts{"max-alarms": "2"}, 2},
				variant{"max-alarms=5", optrun.Opts{"max-alarms": "5"}, 5},
				variant{"max-alarms=1000", optrun.Opts{"max-alarms": "1000"}, 1000},
				variant{"max-alarms=1+report-paths", rp.With("max-alarms", "1").With("report-paths", "true"), 1},
			)
		}
		return vs
	}(lib.Thorough())

	var oracleIn strings.Builder
	type pending struct{ key, prog, vname, content string }
	pend := map[string]pending{}
	nAlarm := 0

	sweep := func(spec, name string, vs []variant, knownF4 bool) {
		p, err := loadSpec(spec)
		if err != nil {
			rep.Count("load-error")
			rep.Notes = append(rep.Notes, "load "+spec+": "+err.Error())
			return
		}
		base := p.Taint(optrun.Opts{"summarize-on-demand": "false"})
		if !base.OK() {
			rep.Count("base-run-failed")
			rep.Notes = append(rep.Notes, fmt.Sprintf("%s: default run failed: %v %s", spec, base.CfgErr, strings.SplitN(base.Panic, "\n", 2)[0]))
			return
		}
		rep.Count("program")
		rep.Extra["default_flows/"+name] = len(base.Flows)
		for _, v := range vs {
			os.RemoveAll(rdir)
			r := p.Taint(v.o)
			ckey := ""
			if len(base.Flows) > 0 {
				ckey = name + "/" + v.name
			}
			rep.Case(ckey)
			rep.Count("variant/" + v.name)
			header := fmt.Sprintf("program: %s\nvariant: %s  (options: %s)\nreplay: <driver> try %s %s\n", spec, v.name, v.o.Name(), spec, strings.ReplaceAll(v.o.Name(), ",", " "))
			if r.CfgErr != nil {
				rep.Fail("cfg-"+name+"-"+v.name, "configuration variant rejected: "+r.CfgErr.Error(), []byte(header), true)
				continue
			}
			if r.Panic != "" {
				rep.Fail("panic-"+name+"-"+v.name, "the analysis panics under "+v.name+" but not with the default options: "+strings.SplitN(r.Panic, "\n", 2)[0], []byte(header+r.Panic), false)
				continue
			}
			if v.k > 0 {
				id := fmt.Sprintf("a%d", nAlarm)
				nAlarm++
				fmt.Fprintf(&oracleIn, "alarms %s %d %s %s\n", id, v.k, enc(r.Flows), enc(base.Flows))
				pend[id] = pending{"alarms-" + name + "-" + v.name, name, v.name,
					header + fmt.Sprintf("k=%d\nlimited result (%d):\n  %s\nunlimited result (%d):\n  %s\n", v.k, len(r.Flows), strings.Join(r.Flows, "\n  "), len(base.Flows), strings.Join(base.Flows, "\n  "))}
				continue
			}
			if d := diff(base.Flows, r.Flows); d != "" {
				key := "neq-" + name + "-" + v.name
				what := fmt.Sprintf("taint result of %s changes under %s: %s", name, v.name, strings.SplitN(d, "\n", 2)[0])
				if knownF4 && strings.Contains(v.name, "on-demand") || knownF4 && strings.Contains(v.name, "pkg-filter") {
					if readsComplete {
						key = "F4-still-differs-although-table-complete"
					} else {
						key = f4Key
					}
				}
				rep.Fail(key, what, []byte(header+d+"\n"), false)
			} else if len(rep.Samples) < 6 && len(base.Flows) > 0 {
				rep.Sample(map[string]any{"program": name, "variant": v.name, "flows": len(r.Flows)})
			}
		}
	}

	// ---- fixed corpus first: F4
	f4dir := filepath.Join(lib.Root(), "corpus", "findings", "F04_ondemand_global_reader")
	sweep("dir:"+f4dir, "corpus-F4", []variant{{"on-demand", optrun.Opts{"summarize-on-demand": "true"}, 0}}, true)

	// regression corpus: the global forms FnReadsFrom recognises today — eager and on-demand must agree
	sweep("dir:"+filepath.Join(lib.Root(), "corpus", "c05_global_forms"), "corpus-global-forms",
		[]variant{{"on-demand", optrun.Opts{"summarize-on-demand": "true"}, 0}, {"pkg-filter=nomatch", optrun.Opts{"pkg-filter": q("^zzz$")}, 0},
			{"on-demand+report-summaries", optrun.Opts{"summarize-on-demand": "true", "report-summaries": "true", "reports-dir": q(rdir)}, 0},
			{"on-demand+max-alarms=2", optrun.Opts{"summarize-on-demand": "true", "max-alarms": "2"}, 2}}, false)
	// regression corpus: one source reaching many sinks, every small k
	sweep("dir:"+filepath.Join(lib.Root(), "corpus", "c05_multi_sink"), "corpus-multi-sink",
		[]variant{{"max-alarms=1", optrun.Opts{"max-alarms": "1"}, 1}, {"max-alarms=2", optrun.Opts{"max-alarms": "2"}, 2},
			{"max-alarms=3", optrun.Opts{"max-alarms": "3"}, 3}, {"max-alarms=4+on-demand", optrun.Opts{"max-alarms": "4", "summarize-on-demand": "true"}, 4},
			{"max-alarms=6", optrun.Opts{"max-alarms": "6"}, 6}, {"max-alarms=50", optrun.Opts{"max-alarms": "50"}, 50},
			// limits that do not fit in 32 bits (the counter comparison must not truncate them)
			{"max-alarms=2147483648", optrun.Opts{"max-alarms": "2147483648"}, 2147483648},
			{"max-alarms=4294967298", optrun.Opts{"max-alarms": "4294967298"}, 4294967298},
			{"max-alarms=2147483650+on-demand", optrun.Opts{"max-alarms": "2147483650", "summarize-on-demand": "true"}, 2147483650},
			{"on-demand+report-summaries", optrun.Opts{"summarize-on-demand": "true", "report-summaries": "true", "reports-dir": q(rdir)}, 0}}, false)

	// ---- generated programs
	nGen, cases := 2, 40
	tds := []string{"taint/globals"}
	if lib.Thorough() {
		nGen, cases = 6, 80
		tds = append(tds, "taint/closures", "taint/parameters", "taint/interfaces", "taint/sanitizers", "taint/basic", "taint/fields", "taint/tuples", "taint/defers", "taint/validators")
	}
	for i := 0; i < nGen; i++ {
		p := mugo.Generate(lib.Rand(fmt.Sprintf("c05-prog-%d", i)), mugo.Options{Cases: cases})
		d := filepath.Join(work, fmt.Sprintf("gen%d", i))
		os.MkdirAll(d, 0o755)
		if err := p.Write(d); err != nil {
			rep.Fail("gen", "cannot write generated program: "+err.Error(), nil, true)
			continue
		}
		os.Remove(filepath.Join(d, "rt_gt.go"))
		os.WriteFile(filepath.Join(d, "config.yaml"), []byte(genConfig), 0o644)
		vs := variants
		if i > 0 && !lib.Thorough() {
			vs = variants[:4] // the laziness variants on every program, the rest on the first
		}
		t0 := time.Now()
		sweep("dir:"+d, fmt.Sprintf("gen%d", i), vs, false)
		rep.Extra[fmt.Sprintf("sweep_seconds/gen%d", i)] = time.Since(t0).Seconds()
	}
	// ---- the repository's own multi-package testdata
	for _, t := range tds {
		// one analysis of a program that imports the standard library costs tens of seconds
		vs := []variant{variants[0], variants[2], variants[4], variants[8]}
		if lib.Thorough() {
			// not `pkg-filter=all` here: with ".*" every function of the standard library is summarised eagerly
			// (tens of GB on these programs)
			vs = nil
			for _, v := range variants[:12] {
				if v.name != "pkg-filter=all" {
					vs = append(vs, v)
				}
			}
		}
		t0 := time.Now()
		sweep("testdata:"+t, t, vs, false)
		rep.Extra["sweep_seconds/"+t] = time.Since(t0).Seconds()
		debug.FreeOSMemory()
	}

	// ---- max-alarms criterion, evaluated by the oracle
	if nAlarm > 0 {
		ans, err := lib.RunOracle("oracle_c05", []byte(oracleIn.String()))
		if err != nil {
			rep.Fail("oracle", "oracle_c05 failed: "+err.Error(), nil, true)
		}
		seen := map[string]bool{}
		for _, l := range ans {
			f := strings.Fields(l)
			if len(f) >= 3 && f[0] == "alarms" {
				seen[f[1]] = true
				if f[2] != "ok" {
					pd := pend[f[1]]
					rep.Fail(pd.key, fmt.Sprintf("max-alarms criterion fails for %s under %s: %s", pd.prog, pd.vname, strings.Join(f[3:], " ")), []byte(pd.content), false)
				}
			}
		}
		for id, pd := range pend {
			if !seen[id] {
				rep.Fail("oracle-"+pd.key, "no oracle verdict for "+pd.key, []byte(pd.content), true)
			}
		}
		rep.Extra["max_alarms_criterion_evaluations"] = nAlarm
	}
	if !readsComplete && rep.Known == 0 {
		rep.Notes = append(rep.Notes, "T2 says the reads table is incomplete but the corpus program did not differ between eager and on-demand")
	}
	rep.Finish()
}
