// Driver for C06 — analysis results are deterministic.
//
// Tie / search: canonicalised results (flows with positions, escapes, backtrace end-points) of
//   - R repeated in-process runs of the REAL taint.Analyze / backtrace.Analyze (every run
//     re-randomises map iteration order and goroutine scheduling; GOMAXPROCS is varied), and
//   - cross-process runs under different CPU affinity masks (the tool uses NumCPU-1 summary
//     workers, NumCPU is read from the affinity mask at start-up: worker counts 1..16)
//
// on generated µGo programs, repository testdata programs and a family of programs built to make
// the two ways of reaching a parameter node (from its call site / from inside the callee: F14)
// arrive at the same BFS depth.  Two runs that differ are a concrete replay.
package main

import (
	"crypto/sha1"
	"fmt"
	"os"
	"os/exec"
	"path/filepath"
	"regexp"
	"runtime"
	"sort"
	"strconv"
	"strings"

	df "github.com/awslabs/ar-go-tools/analysis/dataflow"
	"github.com/awslabs/ar-go-tools/analysis/taint"
	"golang.org/x/tools/go/ssa"

	"verif/harness/lib"
	"verif/harness/mugo"
	"verif/harness/optrun"
	"verif/harness/taintrun"
)

const genConfig = `options:
  log-level: 1
taint-tracking-problems:
  - sources:
      - method: "^source_?\\d*$"
    sinks:
      - method: "^sink_?\\d*$"
slicing-problems:
  - backtracepoints:
      - method: "^sink_?\\d*$"
`

func hash(s string) string { return fmt.Sprintf("%x", sha1.Sum([]byte(s)))[:12] }

func loadSpec(spec string) (*optrun.Program, error) {
	switch {
	case strings.HasPrefix(spec, "testdata:"):
		parts := strings.SplitN(strings.TrimPrefix(spec, "testdata:"), "/", 2)
		return optrun.LoadTestdata(parts[0], parts[1])
	case strings.HasPrefix(spec, "dir:"):
		dir := strings.TrimPrefix(spec, "dir:")
		y, err := os.ReadFile(filepath.Join(dir, "config.yaml"))
		if err != nil {
			return nil, err
		}
		return optrun.Load(filepath.Base(dir), dir, filepath.Join(dir, "config.yaml"), string(y), true)
	}
	return nil, fmt.Errorf("bad program spec %q", spec)
}

func analyse(p *optrun.Program, kind string, o optrun.Opts) *optrun.Result {
	if kind == "backtrace" {
		return p.Backtrace(o)
	}
	return p.Taint(o)
}

// repeat runs the analysis r times in this process; returns canon text per distinct hash and counts.
func repeat(p *optrun.Program, kind string, r int, opts ...optrun.Opts) (map[string]string, map[string]int, string) {
	o := optrun.Opts{}
	if len(opts) > 0 {
		o = opts[0]
	}
	canon := map[string]string{}
	count := map[string]int{}
	procs := []int{0, 1, 2, 4, 16, 3}
	old := runtime.GOMAXPROCS(0)
	defer runtime.GOMAXPROCS(old)
	for i := 0; i < r; i++ {
		if g := procs[i%len(procs)]; g > 0 {
			runtime.GOMAXPROCS(g)
		} else {
			runtime.GOMAXPROCS(old)
		}
		res := analyse(p, kind, o)
		if res.CfgErr != nil {
			return nil, nil, "config: " + res.CfgErr.Error()
		}
		c := res.Canon()
		h := hash(c)
		canon[h] = c
		count[h]++
	}
	return canon, count, ""
}

func child(kind, spec string, r int) {
	p, err := loadSpec(spec)
	if err != nil {
		fmt.Printf("loaderr %q\n", err.Error())
		return
	}
	canon, count, e := repeat(p, kind, r)
	if e != "" {
		fmt.Printf("loaderr %q\n", e)
		return
	}
	for h, c := range canon {
		fmt.Printf("canon %s %d numcpu=%d %s\n", h, count[h], runtime.NumCPU(), strconv.Quote(c))
	}
}

// diffCanon lists what is in one canonical result and not in the other.
func diffCanon(a, b string) string {
	set := func(s string) map[string]bool {
		m := map[string]bool{}
		for _, part := range strings.Split(s, "|") {
			i := strings.IndexByte(part, ':')
			if i < 0 {
				continue
			}
			for _, x := range strings.Split(part[i+1:], ";") {
				if x != "" {
					m[part[:i]+" "+x] = true
				}
			}
		}
		return m
	}
	A, B := set(a), set(b)
	var out []string
	for x := range A {
		if !B[x] {
			out = append(out, "only in run A: "+x)
		}
	}
	for x := range B {
		if !A[x] {
			out = append(out, "only in run B: "+x)
		}
	}
	sort.Strings(out)
	return strings.Join(out, "\n")
}

var srcOriginRe = regexp.MustCompile(`\(source_?\d*\)`)

// sourceProjection keeps the backtrace end-points whose origin lies in a source function.
func sourceProjection(canon string) string {
	i := strings.Index(canon, "|endpoints:")
	if i < 0 {
		return canon
	}
	rest := canon[i+len("|endpoints:"):]
	if k := strings.Index(rest, "|panic:"); k >= 0 {
		rest = rest[:k]
	}
	var keep []string
	for _, e := range strings.Split(rest, ";") {
		if k := strings.LastIndex(e, "<="); k >= 0 && srcOriginRe.MatchString(e[k:]) {
			keep = append(keep, e)
		}
	}
	return strings.Join(keep, ";")
}

// ---- F14 tie family: a parameter reached from inside the callee and from the call site

type tieProg struct {
	name string
	src  string
}

func wrap(expr string, k int, fn string) string {
	for i := 0; i < k; i++ {
		expr = fn + "(" + expr + ")"
	}
	return expr
}

// tieFamily: f(a, b) { sink(b.v); b.v = a } called with a = id^k(x) and b.v set through `form`^m.
func tieFamily(max int) []tieProg {
	var ps []tieProg
	forms := []struct{ name, decl, set string }{
		{"direct", "", "b.v = %s"},
		{"global", "var g string\n", "g = %s\n\tb.v = g"},
		{"closure", "", "h := func() string { return %s }\n\tb.v = h()"},
		{"ptr", "", "q := &S{}\n\tq.v = %s\n\tb.v = q.v"},
		{"chan", "", "c := make(chan string, 1)\n\tc <- %s\n\tb.v = <-c"},
	}
	for k := 0; k <= max; k++ {
		for m := 0; m <= max; m++ {
			for fi, f := range forms {
				if max < 2 && fi >= 3 {
					continue
				}
				set := fmt.Sprintf(f.set, wrap("x", m, "id"))
				src := fmt.Sprintf(`package main

func source_1() string   { return "tainted" }
func sink_1(s string)     { println(s) }
func id(s string) string { return s }

type S struct{ v string }

%s
func f(a string, b *S) {
	sink_1(b.v)
	b.v = a
}

func main() {
	x := source_1()
	b := &S{}
	%s
	f(%s, b)
}
`, f.decl, set, wrap("x", k, "id"))
				ps = append(ps, tieProg{fmt.Sprintf("tie-k%d-m%d-%s", k, m, f.name), src})
			}
		}
	}
	return ps
}

// depthProg: the value reaches `join` along a path with `a` returns (id wrappers) and along a path through `b`
// out-parameter helpers; after the join, `t` more id wrappers lead to the sink.
func depthProg(a, b, t int) string {
	var sb strings.Builder
	sb.WriteString("package main\n\nfunc source_1() string { return \"t\" }\nfunc sink_1(s string)   {}\nfunc id(s string) string { return s }\nfunc out(s string, o *string) { *o = s }\nfunc join(p, q string) string { return p + q }\n\nfunc main() {\n\tx := source_1()\n")
	fmt.Fprintf(&sb, "\tp := %s\n", wrap("x", a, "id"))
	sb.WriteString("\tq0 := x\n")
	for i := 0; i < b; i++ {
		fmt.Fprintf(&sb, "\tvar q%d string\n\tout(q%d, &q%d)\n", i+1, i, i+1)
	}
	fmt.Fprintf(&sb, "\tz := join(p, q%d)\n\tsink_1(%s)\n}\n", b, wrap("z", t, "id"))
	return sb.String()
}

// depthsearch (development aid): look for (program, unsafe-max-depth) pairs with run-to-run differences
func depthSearch() {
	work := lib.WorkDir("C06", "depthsearch")
	for a := 0; a <= 4; a++ {
		for b := 0; b <= 8; b++ {
			for t := 0; t <= 0; t++ {
				d := filepath.Join(work, fmt.Sprintf("a%db%dt%d", a, b, t))
				os.MkdirAll(d, 0o755)
				os.WriteFile(filepath.Join(d, "main.go"), []byte(depthProg(a, b, t)), 0o644)
				os.WriteFile(filepath.Join(d, "go.mod"), []byte("module vprog\n\ngo 1.22\n"), 0o644)
				os.WriteFile(filepath.Join(d, "config.yaml"), []byte(genConfig), 0o644)
				p, err := loadSpec("dir:" + d)
				if err != nil {
					fmt.Println("load", err)
					continue
				}
				for depth := 3; depth <= 40; depth++ {
					canon, count, _ := repeat(p, "taint", 16, optrun.Opts{"unsafe-max-depth": strconv.Itoa(depth)})
					if len(canon) > 1 {
						fmt.Printf("NONDET a=%d b=%d t=%d depth=%d %v\n", a, b, t, depth, count)
					}
				}
			}
		}
	}
	fmt.Println("depthsearch done")
}

// explore: which generator features make which analysis unstable (development aid)
func explore() {
	names := []string{"assign", "concat", "conv", "field", "ptr", "slice", "map", "mapkey", "box", "closure", "call", "multiret",
		"outparam", "method", "iface", "funcval", "global", "embed", "phi", "descend", "ascend", "variadic", "defer"}
	work := lib.WorkDir("C06", "explore")
	for i, n := range names {
		feat := mugo.FAssign | mugo.FCall | mugo.Feature(1<<uint(i))
		p := mugo.Generate(lib.Rand("c06-explore-"+n), mugo.Options{Cases: 25, Features: feat})
		d := filepath.Join(work, n)
		os.MkdirAll(d, 0o755)
		p.Write(d)
		os.Remove(filepath.Join(d, "rt_gt.go"))
		os.WriteFile(filepath.Join(d, "config.yaml"), []byte(genConfig), 0o644)
		pr, err := loadSpec("dir:" + d)
		if err != nil {
			fmt.Println(n, "load error", err)
			continue
		}
		for _, kind := range []string{"taint", "backtrace"} {
			canon, _, e := repeat(pr, kind, 16)
			fmt.Printf("feature=%-9s analysis=%-9s distinct=%d %s\n", n, kind, len(canon), e)
		}
	}
}

// ---- proved domain (Props/C06Real.lean): per source, does `taint_deterministic_of_flags` apply?

const domainFuel = 400000

// instrPos renders an instruction exactly like optrun's canonical flows ("file:line:col(fn)").
func instrPos(prog *ssa.Program, ins ssa.Instruction) string {
	if ins == nil {
		return "?"
	}
	p := prog.Fset.Position(ins.Pos())
	fn := ""
	if ins.Parent() != nil {
		fn = ins.Parent().Name()
	}
	return fmt.Sprintf("%s:%d:%d(%s)", filepath.Base(p.Filename), p.Line, p.Column, fn)
}

// flowsBySource splits the "flows:" section of a canonical result into source position -> sorted sink list.
func flowsBySource(canon string) map[string]string {
	m := map[string][]string{}
	if i := strings.Index(canon, "flows:"); i >= 0 {
		rest := canon[i+len("flows:"):]
		if k := strings.Index(rest, "|escapes:"); k >= 0 {
			rest = rest[:k]
		}
		for _, f := range strings.Split(rest, ";") {
			if k := strings.Index(f, "->"); k >= 0 {
				m[f[:k]] = append(m[f[:k]], f[k+2:])
			}
		}
	}
	out := map[string]string{}
	for k, v := range m {
		sort.Strings(v)
		out[k] = strings.Join(v, ",")
	}
	return out
}

// provedDomain runs the real analysis once more keeping its state, dumps the REAL linked graph
// (taintrun.DumpGraph), and has oracle_c01 evaluate `Argot.C06Real.inProvedDomain` for every entry
// point (record c06run). Result: source position -> every entry of that source is inside the domain;
// the canonical result of that extra run (it takes part in the comparison); "" or why it could not run.
func provedDomain(rep *lib.Report, p *optrun.Program, name string) (map[string]bool, string, string) {
	optrun.KeepState = true
	res := p.Taint(optrun.Opts{})
	optrun.KeepState = false
	if !res.OK() || res.State == nil {
		return nil, "", "the extra run kept no analyzer state"
	}
	canon := res.Canon()
	st := res.State
	res.State = nil
	d, err := taintrun.DumpGraph(&taintrun.Result{Analysis: taint.AnalysisResult{State: st}})
	if err != nil {
		return nil, canon, "dump: " + err.Error()
	}
	lines := append([]string{"reset"}, d.Lines...)
	for i, e := range d.Entries {
		tr := "-"
		if len(e.Trace) > 0 {
			var xs []string
			for _, x := range e.Trace {
				xs = append(xs, strconv.Itoa(x))
			}
			tr = strings.Join(xs, ",")
		}
		lines = append(lines, fmt.Sprintf("c06run %d %d %d %s", i, e.Node, domainFuel, tr))
	}
	in := strings.Join(lines, "\n") + "\n"
	out, err := lib.RunOracle("oracle_c01", []byte(in))
	if err != nil || len(out) != len(d.Entries) {
		rep.Fail("oracle:"+name, fmt.Sprintf("oracle_c01 (c06run) failed on the dumped graph of %s: %v (%d answers for %d entries)", name, err, len(out), len(d.Entries)), []byte(in), true)
		return nil, canon, "oracle"
	}
	dom := map[string]bool{}
	model := map[string]map[string]bool{}
	for i, l := range out {
		f := strings.Fields(l)
		if len(f) < 3 || f[0] != "c06" || f[1] != strconv.Itoa(i) {
			rep.Fail("oracle:"+name, "oracle_c01 rejected a c06run record of "+name+": "+l, []byte(in), true)
			return nil, canon, "oracle"
		}
		kv := map[string]string{}
		for _, x := range f[2:] {
			if k := strings.IndexByte(x, '='); k > 0 {
				kv[x[:k]] = x[k+1:]
			}
		}
		if kv["bad"] != "0" {
			rep.Fail("oracle:"+name, "oracle_c01 could not parse the dumped graph of "+name+": "+l, []byte(in), true)
			return nil, canon, "oracle"
		}
		sp := instrPos(p.Prog, d.Entries[i].Instr)
		inD := kv["domain"] == "1"
		if old, ok := dom[sp]; ok {
			dom[sp] = old && inD
		} else {
			dom[sp] = inD
		}
		rep.Count(fmt.Sprintf("entry:term=%s,ebe=%s,keydet=%s", kv["term"], kv["ebe"], kv["keydet"]))
		if model[sp] == nil {
			model[sp] = map[string]bool{}
		}
		if kv["flows"] != "-" && kv["flows"] != "" {
			for _, x := range strings.Split(kv["flows"], ",") {
				if n, e := strconv.Atoi(x); e == nil && n < len(d.Nodes) {
					model[sp][instrPos(p.Prog, df.Instr(d.Nodes[n]))] = true
				}
			}
		}
	}
	// inside the domain the theorem says: every order reports the model's set (flows_eq_model) — counted
	real := flowsBySource(canon)
	for sp, inD := range dom {
		if !inD {
			continue
		}
		var ms []string
		for x := range model[sp] {
			ms = append(ms, x)
		}
		sort.Strings(ms)
		if strings.Join(ms, ",") == real[sp] {
			rep.Count("proved-domain:real==model")
		} else {
			rep.Count("proved-domain:real!=model")
			if len(rep.Notes) < 12 {
				rep.Notes = append(rep.Notes, fmt.Sprintf("%s source %s inside the proved domain: real sinks [%s], model sinks [%s]", name, sp, real[sp], strings.Join(ms, ",")))
			}
		}
	}
	return dom, canon, ""
}

func main() {
	if len(os.Args) >= 2 && os.Args[1] == "depthsearch" {
		depthSearch()
		return
	}
	if len(os.Args) >= 2 && os.Args[1] == "explore" {
		explore()
		return
	}
	if len(os.Args) >= 5 && os.Args[1] == "child" {
		r, _ := strconv.Atoi(os.Args[4])
		child(os.Args[2], os.Args[3], r)
		return
	}
	rep := lib.NewReport("C06")
	rep.Rule = "case = one (program, analysis) pair run R times in-process (GOMAXPROCS varied) and in child processes under CPU sets of 1..16 CPUs (= summary worker counts); distinct = distinct (program, analysis); non-trivial = the result is non-empty. Programs: generated µGo, repository testdata (taint, backtrace), the F14 tie family"
	R, crossR := 10, 2
	nGen, genCases := 1, 40
	taintTD := []string{"taint/closures"}
	backTD := []string{}
	cpuSets := []int{1, 4, 16}
	crossTestdata := false
	tieMax := 1
	if lib.Thorough() {
		R, crossR = 200, 10
		nGen, genCases = 4, 80
		taintTD = append(taintTD, "taint/globals", "taint/parameters", "taint/tuples")
		backTD = append(backTD, "backtrace/closures", "backtrace/backtrace")
		crossTestdata = true
		tieMax = 2
		cpuSets = []int{1, 2, 3, 4, 6, 8, 12, 16}
	}
	work := lib.WorkDir("C06", "progs")
	type job struct{ kind, spec, name string }
	var jobs []job
	for i := 0; i < nGen+1; i++ {
		opt := mugo.Options{Cases: genCases}
		if i == nGen {
			// the program for backtrace: closures writing captured variables are the recorded finding C06a
			opt.Features = mugo.DefaultFeatures &^ (mugo.FClosure | mugo.FDefer | mugo.FFuncVal)
		}
		p := mugo.Generate(lib.Rand(fmt.Sprintf("c06-prog-%d", i)), opt)
		d := filepath.Join(work, fmt.Sprintf("gen%d", i))
		os.MkdirAll(d, 0o755)
		if err := p.Write(d); err != nil {
			rep.Fail("gen", "cannot write generated program: "+err.Error(), nil, true)
			continue
		}
		os.Remove(filepath.Join(d, "rt_gt.go"))
		os.WriteFile(filepath.Join(d, "config.yaml"), []byte(genConfig), 0o644)
		if i == nGen {
			jobs = append(jobs, job{"backtrace", "dir:" + d, fmt.Sprintf("gen%d-noclosure", i)})
		} else {
			jobs = append(jobs, job{"taint", "dir:" + d, fmt.Sprintf("gen%d", i)})
		}
	}
	for _, t := range taintTD {
		jobs = append(jobs, job{"taint", "testdata:" + t, t})
	}
	for _, t := range backTD {
		jobs = append(jobs, job{"backtrace", "testdata:" + t, t})
	}
	if os.Getenv("C06_GEN_ONLY") != "" {
		fmt.Println("programs written to", work)
		return
	}
	self, _ := os.Executable()
	_, tsErr := exec.LookPath("taskset")
	nproc := runtime.NumCPU()

	sourcesIn, sourcesOut := 0, 0
	check := func(j job, rIn int, cross bool) {
		p, err := loadSpec(j.spec)
		if err != nil {
			rep.Count("load-error")
			rep.Notes = append(rep.Notes, "load "+j.spec+": "+err.Error())
			return
		}
		canon, count, e := repeat(p, j.kind, rIn)
		if e != "" {
			rep.Count("config-error")
			rep.Notes = append(rep.Notes, j.spec+": "+e)
			return
		}
		origin := map[string]string{}
		for h := range canon {
			origin[h] = fmt.Sprintf("in-process (%d of %d runs)", count[h], rIn)
		}
		if cross && tsErr == nil {
			for ki, k := range cpuSets {
				if k > nproc {
					continue
				}
				if strings.HasPrefix(j.spec, "testdata:") && ki != 0 && ki != len(cpuSets)-1 {
					continue // testdata: the smallest and the largest CPU set
				}
				set := "0"
				if k > 1 {
					set = fmt.Sprintf("0-%d", k-1)
				}
				c := exec.Command("taskset", "-c", set, self, "child", j.kind, j.spec, strconv.Itoa(crossR))
				c.Env = os.Environ()
				out, err := c.Output()
				if err != nil {
					// killed / no taskset permission / loaded machine: inconclusive, not evidence
					rep.Notes = append(rep.Notes, fmt.Sprintf("cross-process run of %s on %s (cpus %s) did not complete: %v", j.kind, j.spec, set, err))
					rep.Count("cross-process/failed")
					continue
				}
				rep.Count(fmt.Sprintf("cross-process/cpus=%d", k))
				for _, l := range strings.Split(string(out), "\n") {
					f := strings.SplitN(l, " ", 5)
					if len(f) == 5 && f[0] == "canon" {
						cs, _ := strconv.Unquote(f[4])
						canon[f[1]] = cs
						if origin[f[1]] == "" {
							origin[f[1]] = "child process with " + f[3]
						}
					}
				}
			}
		}
		// proved domain of Props/C06Real.lean, evaluated on the dumped REAL graph (generated / corpus programs)
		var dom map[string]bool
		if j.kind == "taint" && strings.HasPrefix(j.spec, "dir:") {
			d, c, why := provedDomain(rep, p, j.name)
			if c != "" {
				h := hash(c)
				canon[h] = c
				if origin[h] == "" {
					origin[h] = "in-process (the extra run whose graph was dumped)"
				}
			}
			if why != "" {
				rep.Count("proved-domain:not-evaluated")
				rep.Notes = append(rep.Notes, j.name+": proved domain not evaluated: "+why)
			} else {
				dom = d
				rep.Count("proved-domain:programs")
				for _, in := range d {
					if in {
						sourcesIn++
					} else {
						sourcesOut++
					}
				}
			}
		}
		key := j.kind + "/" + j.name
		nonEmpty := false
		for _, c := range canon {
			if strings.Contains(c, "flows:m") || strings.Contains(c, "endpoints:m") || strings.Contains(c, ".go:") {
				nonEmpty = true
			}
		}
		if nonEmpty {
			rep.Case(key)
		} else {
			rep.Case("")
		}
		rep.Count("analysis/" + j.kind)
		if len(canon) > 1 {
			var hs []string
			for h := range canon {
				hs = append(hs, h)
			}
			sort.Strings(hs)
			a, b := canon[hs[0]], canon[hs[1]]
			content := fmt.Sprintf("program: %s   analysis: %s\n%d distinct canonical results\nrun A (%s): %s\nrun B (%s): %s\n--- difference ---\n%s\n--- A ---\n%s\n--- B ---\n%s\nreplay: <driver> child %s %s 50\n",
				j.spec, j.kind, len(canon), hs[0], origin[hs[0]], hs[1], origin[hs[1]], diffCanon(a, b), a, b, j.kind, j.spec)
			if src, err := os.ReadFile(filepath.Join(strings.TrimPrefix(j.spec, "dir:"), "main.go")); err == nil && strings.HasPrefix(j.spec, "dir:") && len(src) < 4000 {
				content += "--- main.go ---\n" + string(src)
			}
			fkey := "nondet-" + key
			what := ""
			if dom != nil {
				// which sources differ between runs, and does the determinism theorem cover them?
				var inDiff, outDiff []string
				srcs := map[string]bool{}
				for _, h := range hs {
					for sp := range flowsBySource(canon[h]) {
						srcs[sp] = true
					}
				}
				for sp := range srcs {
					same := true
					for _, h := range hs {
						if flowsBySource(canon[h])[sp] != flowsBySource(a)[sp] {
							same = false
						}
					}
					if !same {
						if dom[sp] {
							inDiff = append(inDiff, sp)
						} else {
							outDiff = append(outDiff, sp)
						}
					}
				}
				sort.Strings(inDiff)
				sort.Strings(outDiff)
				content += fmt.Sprintf("--- proved domain (Argot.C06Real.inProvedDomain on the dumped real graph) ---\nsources that differ INSIDE the domain (taint_deterministic_of_flags applies: impossible for a traversal of the modelled visitor): %v\nsources that differ outside the domain (order dependence of the F14 / C01a shape is possible there): %v\n", inDiff, outDiff)
				if len(inDiff) > 0 {
					fkey = "nondet-proved-domain/" + key
					what = fmt.Sprintf(" — source %s is inside the proved domain (taint_deterministic_of_flags)", inDiff[0])
				} else if len(outDiff) > 0 {
					what = fmt.Sprintf(" — every differing source (%s, …) is outside the proved domain: Prev-dependent successors (F14 shape)", outDiff[0])
				}
			}
			if j.kind == "backtrace" && strings.HasPrefix(j.spec, "dir:") {
				// shape of the recorded findings C06a/C06b: the runs agree on every origin in a source function
				same := true
				for _, h := range hs {
					if sourceProjection(canon[h]) != sourceProjection(a) {
						same = false
					}
				}
				if same && sourceProjection(a) != "" {
					fkey = "nondet-backtrace/non-source-origins"
				}
			}
			rep.Fail(fkey, fmt.Sprintf("%s of %s gives %d different results on identical inputs: %s", j.kind, j.name, len(canon), strings.SplitN(diffCanon(a, b), "\n", 2)[0])+what, []byte(content), false)
		} else if len(rep.Samples) < 6 {
			for h, c := range canon {
				rep.Sample(map[string]any{"program": j.name, "analysis": j.kind, "runs_in_process": rIn, "canon_sha1": h, "canon_bytes": len(c)})
			}
		}
	}
	// fixed corpus first: the recorded findings C06a, C06b
	for _, cname := range []string{"C06a_backtrace_closure_nondet", "C06b_backtrace_constant_origin_nondet"} {
		cdir := filepath.Join(lib.Root(), "corpus", "findings", cname)
		if p, err := loadSpec("dir:" + cdir); err == nil {
			canon, count, _ := repeat(p, "backtrace", 40)
			rep.Case("corpus/" + cname)
			if len(canon) > 1 {
				var parts []string
				for h, c := range canon {
					parts = append(parts, fmt.Sprintf("%s x%d: %s", h, count[h], c))
				}
				sort.Strings(parts)
				rep.Fail("nondet-backtrace/non-source-origins", fmt.Sprintf("backtrace of corpus/findings/%s gives %d different results in 40 runs", cname, len(canon)),
					[]byte(strings.Join(parts, "\n")), false)
			} else {
				rep.Notes = append(rep.Notes, "corpus "+cname+": 40 runs gave one result this time")
			}
		} else {
			rep.Notes = append(rep.Notes, "corpus "+cname+" did not load: "+err.Error())
		}
	}
	for _, j := range jobs {
		r := R
		if strings.HasPrefix(j.spec, "testdata:") {
			// one analysis of a program importing the standard library costs ~10 s
			if r > 20 {
				r = 20
			} else if r > 6 {
				r = 6
			}
		}
		check(j, r, crossTestdata || strings.HasPrefix(j.spec, "dir:"))
	}
	// regression corpus: entry-point contexts re-converging on a shared call site (>= 30 runs)
	check(job{"taint", "dir:" + filepath.Join(lib.Root(), "corpus", "c06_ctx_reconverge"), "corpus-ctx-reconverge"}, 3*R+10, false)
	// the depth cut-off must not depend on the traversal order: the generated programs again with unsafe-max-depth set
	for _, j := range jobs {
		if j.kind != "taint" || !strings.HasPrefix(j.spec, "dir:") {
			continue
		}
		if p, err := loadSpec(j.spec); err == nil {
			for _, depth := range []string{"5", "9", "14"} {
				canon, _, e := repeat(p, "taint", R, optrun.Opts{"unsafe-max-depth": depth})
				if e != "" {
					rep.Notes = append(rep.Notes, j.name+" unsafe-max-depth="+depth+": "+e)
					continue
				}
				rep.Case("taint/" + j.name + "/unsafe-max-depth=" + depth)
				rep.Count("analysis/taint+max-depth")
				if len(canon) > 1 {
					var hs []string
					for h := range canon {
						hs = append(hs, h)
					}
					sort.Strings(hs)
					rep.Fail("nondet-taint/"+j.name+"/unsafe-max-depth="+depth,
						fmt.Sprintf("taint of %s with unsafe-max-depth=%s gives %d different results on identical inputs: %s", j.name, depth, len(canon), strings.SplitN(diffCanon(canon[hs[0]], canon[hs[1]]), "\n", 2)[0]),
						[]byte(fmt.Sprintf("program: %s\noption: unsafe-max-depth: %s\n--- difference ---\n%s\n--- A ---\n%s\n--- B ---\n%s\n", j.spec, depth, diffCanon(canon[hs[0]], canon[hs[1]]), canon[hs[0]], canon[hs[1]])), false)
				}
			}
		}
	}
	// depth cut-off ties: two paths of equal BFS length but different numbers of returns reach the same node
	// (found by `depthsearch` against a variant computing the depth from the intermediate return node)
	for _, ab := range [][2]int{{4, 3}, {3, 2}, {2, 3}} {
		name := fmt.Sprintf("depth-tie-a%db%d", ab[0], ab[1])
		d := filepath.Join(work, name)
		os.MkdirAll(d, 0o755)
		os.WriteFile(filepath.Join(d, "main.go"), []byte(depthProg(ab[0], ab[1], 0)), 0o644)
		os.WriteFile(filepath.Join(d, "go.mod"), []byte("module vprog\n\ngo 1.22\n"), 0o644)
		os.WriteFile(filepath.Join(d, "config.yaml"), []byte(genConfig), 0o644)
		p, err := loadSpec("dir:" + d)
		if err != nil {
			rep.Notes = append(rep.Notes, name+": "+err.Error())
			continue
		}
		lo, hi := 4*ab[0]-2, 4*ab[0]+6
		if lo < 3 {
			lo = 3
		}
		for depth := lo; depth <= hi; depth++ {
			canon, count, _ := repeat(p, "taint", 3*R, optrun.Opts{"unsafe-max-depth": strconv.Itoa(depth)})
			rep.Case(fmt.Sprintf("taint/%s/unsafe-max-depth=%d", name, depth))
			rep.Count("analysis/taint+depth-tie")
			if len(canon) > 1 {
				rep.Fail(fmt.Sprintf("nondet-taint/%s/unsafe-max-depth=%d", name, depth),
					fmt.Sprintf("taint of %s with unsafe-max-depth=%d gives %d different results on identical inputs (%v)", name, depth, len(canon), count),
					[]byte(fmt.Sprintf("option: unsafe-max-depth: %d\nresults: %v\n--- main.go ---\n%s", depth, canon, depthProg(ab[0], ab[1], 0))), false)
			}
		}
	}
	// the F14 tie family (small programs: many repetitions are cheap)
	tieR := R
	if tieR > 60 {
		tieR = 60
	}
	for _, tp := range tieFamily(tieMax) {
		d := filepath.Join(work, tp.name)
		os.MkdirAll(d, 0o755)
		os.WriteFile(filepath.Join(d, "main.go"), []byte(tp.src), 0o644)
		os.WriteFile(filepath.Join(d, "go.mod"), []byte("module vprog\n\ngo 1.22\n"), 0o644)
		os.WriteFile(filepath.Join(d, "config.yaml"), []byte(genConfig), 0o644)
		rep.Count("tie-family")
		check(job{"taint", "dir:" + d, tp.name}, tieR, false)
	}
	rep.Extra["sources_in_proved_domain"] = sourcesIn
	rep.Extra["sources_outside"] = sourcesOut
	rep.Extra["proved_domain_rule"] = "per source position of every generated / corpus / tie-family taint program: oracle_c01 (c06run) evaluates Argot.C06Real.inProvedDomain (term ∧ entryBeforeExit ∧ keyDetOn) on the dumped REAL linked graph for each of its entry points; inside the domain a run-to-run difference of that source is a violation keyed nondet-proved-domain/…"
	rep.Extra["in_process_runs_per_program"] = R
	rep.Extra["cross_process_runs_per_cpu_set"] = crossR
	rep.Extra["cpu_sets"] = fmt.Sprint(cpuSets)
	rep.Finish()
}
