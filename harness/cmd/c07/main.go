// Driver for C07 — "the analyses terminate without crashing on every well-typed program".
//
//  1. fixed corpus: the replay inputs of the known findings and, as regression cases that must finish, of the
//     fixed ones (F7 diamond chain)
//  2. M10: real lang.HasPathTo on SSA built from generated functions vs the Lean model
//     (`hasPathOld` / `hasPathFix`, selected by the regenerated table T11) — answers exact, the model's
//     step counts reported, and the complexity class of the real function measured on diamond chains
//  3. trace model: real NodeTree.GetLassoHandle / GetAllCallingContexts vs `lasso` / `ctxRun`
//  4. sweep: generated programs inside and OUTSIDE the soundness fragment × every analysis entry point
//     × configurations, each in a child process (see worker.go) under a wall-clock budget derived from
//     the program size; a panic, a fatal error or an exceeded budget is a concrete violation
//     (replay = program + configuration + job).
package main

import (
	"bytes"
	"fmt"
	"os"
	"os/exec"
	"syscall"
	"path/filepath"
	"regexp"
	"sort"
	"strings"
	"sync"
	"time"

	"verif/harness/gen"
	"verif/harness/lib"
)

const prop = "C07"

// ---------------------------------------------------------------------------------------------
// configurations

const cidSrc = `      - package: "c07p"
        method: "^source$"
`
const cidSink = `      - package: "c07p"
        method: "^sink$"
`

func cfgYaml(options map[string]string) string {
	var b strings.Builder
	b.WriteString("options:\n  log-level: 1\n")
	keys := make([]string, 0, len(options))
	for k := range options {
		keys = append(keys, k)
	}
	sort.Strings(keys)
	for _, k := range keys {
		fmt.Fprintf(&b, "  %s: %s\n", k, options[k])
	}
	b.WriteString("taint-tracking-problems:\n  - sources:\n" + cidSrc + "    sinks:\n" + cidSink)
	b.WriteString("slicing-problems:\n  - backtracepoints:\n" + cidSink)
	return b.String()
}

// the named configurations every program is analysed under
var baseConfigs = map[string]map[string]string{
	"default.yaml":   {},
	"escape.yaml":    {"use-escape-analysis": "true"},
	"ondemand.yaml":  {"summarize-on-demand": "true"},
	"fieldsens.yaml": {"field-sensitive": "true"},
}

var optionPool = []struct{ k string; vs []string }{
	{"use-escape-analysis", []string{"true", "false"}},
	{"summarize-on-demand", []string{"true", "false"}},
	{"field-sensitive", []string{"true", "false"}},
	{"source-taints-args", []string{"true", "false"}},
	{"unsafe-max-depth", []string{"1", "3", "40"}},
	{"max-entrypoint-context-size", []string{"-1", "1", "2", "50"}},
	{"max-alarms", []string{"1", "1000"}},
	{"unsafe-ignore-non-summarized", []string{"true", "false"}},
	{"silence-warn", []string{"true"}},
	{"pkg-filter", []string{"\"c07p\"", "\"nomatch\"", "\"(\""}},
	{"skip-interprocedural", []string{"true", "false"}},
}

// ---------------------------------------------------------------------------------------------
// running one program through the worker

type outcome struct {
	job    string
	status string // ok | error | panic | crash | timeout
	ms     int64
	msg    string
}

type progResult struct {
	loadErr  string
	loadMs   int64
	funcs    int
	instrs   int
	outs     []outcome
	budgetMs int64
	mcGround, mcGeneric int
	nBound              int // bound-method closures ($bound functions) in the program
}

var self string

// budget for one job: generous multiple of the measured load time (which scales with machine load and
// with the size of the imported standard library) plus a term linear in the number of SSA instructions.
func jobBudget(loadMs int64, instrs int) time.Duration {
	ms := 40*loadMs + int64(instrs)*20
	lo := int64(30000)
	if lib.Thorough() {
		lo = 60000
	}
	if ms < lo {
		ms = lo
	}
	return time.Duration(ms) * time.Millisecond
}

// hardDeadline: past it, running workers are stopped and their remaining jobs are counted as skipped, so that
// the driver always reports what it found inside the check script's own timeout.
var hardDeadline time.Time
var skippedByDeadline int

var panicRe = regexp.MustCompile(`(?m)^(panic: .*|fatal error: .*)$`)

func parseLines(path string) []string {
	b, _ := os.ReadFile(path)
	s := strings.TrimRight(string(b), "\n")
	if s == "" {
		return nil
	}
	return strings.Split(s, "\n")
}

func runProgram(dir string, jobs []string, fixedBudget time.Duration) progResult {
	var pr progResult
	remaining := append([]string(nil), jobs...)
	round := 0
	for len(remaining) > 0 {
		round++
		resFile := filepath.Join(dir, fmt.Sprintf("result_%d.txt", round))
		os.Remove(resFile)
		cmd := exec.Command(self, append([]string{"-worker", dir, resFile}, remaining...)...)
		var stderr bytes.Buffer
		cmd.Stderr = &stderr
		cmd.Stdout = nil
		cmd.SysProcAttr = &syscall.SysProcAttr{Pdeathsig: syscall.SIGKILL} // never outlive the driver
		if err := cmd.Start(); err != nil {
			pr.loadErr = "cannot start worker: " + err.Error()
			return pr
		}
		done := make(chan error, 1)
		go func() { done <- cmd.Wait() }()
		var waitErr error
		killed, memKilled := false, false
		ticks := 0
		lastBegin := time.Now()
		seenLines := 0
		budget := 15 * time.Minute // until LOAD reports the size
		tick := time.NewTicker(50 * time.Millisecond)
	wait:
		for {
			select {
			case waitErr = <-done:
				break wait
			case <-tick.C:
				lines := parseLines(resFile)
				for _, l := range lines[seenLines:] {
					if strings.HasPrefix(l, "LOAD ok ") {
						var ms int64
						var nf, ni int
						fmt.Sscanf(l, "LOAD ok %d %d %d", &ms, &nf, &ni)
						if fixedBudget == 0 {
							budget = jobBudget(ms, ni)
						} else {
							// corpus inputs: a fixed budget, stretched when the machine is slow (load time is the yardstick)
							budget = fixedBudget
							if b := time.Duration(8*ms) * time.Millisecond; b > budget {
								budget = b
							}
						}
						lastBegin = time.Now()
					}
					if strings.HasPrefix(l, "BEGIN ") {
						lastBegin = time.Now()
					}
				}
				seenLines = len(lines)
				if !hardDeadline.IsZero() && time.Now().After(hardDeadline) {
					cmd.Process.Kill()
					<-done
					skippedByDeadline++
					return pr
				}
				if ticks++; ticks%20 == 0 && rssMB(cmd.Process.Pid) > 6144 {
					killed, memKilled = true, true
					cmd.Process.Kill()
					waitErr = <-done
					break wait
				}
				if time.Since(lastBegin) > budget {
					killed = true
					cmd.Process.Kill()
					waitErr = <-done
					break wait
				}
			}
		}
		tick.Stop()
		pr.budgetMs = budget.Milliseconds()
		lines := parseLines(resFile)
		inProgress := ""
		finished := map[string]bool{}
		for _, l := range lines {
			switch {
			case strings.HasPrefix(l, "LOAD error "):
				pr.loadErr = strings.TrimPrefix(l, "LOAD error ")
				return pr
			case strings.HasPrefix(l, "LOAD ok "):
				fmt.Sscanf(l, "LOAD ok %d %d %d", &pr.loadMs, &pr.funcs, &pr.instrs)
			case strings.HasPrefix(l, "KINDS "):
				fmt.Sscanf(l, "KINDS %d %d %d", &pr.mcGround, &pr.mcGeneric, &pr.nBound)
			case strings.HasPrefix(l, "BEGIN "):
				inProgress = strings.TrimPrefix(l, "BEGIN ")
			case strings.HasPrefix(l, "END "):
				f := strings.SplitN(l, " ", 5)
				for len(f) < 5 {
					f = append(f, "")
				}
				var ms int64
				fmt.Sscan(f[3], &ms)
				pr.outs = append(pr.outs, outcome{f[1], f[2], ms, f[4]})
				finished[f[1]] = true
				inProgress = ""
			}
		}
		if waitErr == nil && !killed {
			return pr
		}
		// the worker died
		if inProgress == "" {
			if len(lines) == 0 || !strings.HasPrefix(lines[0], "LOAD") {
				// died while loading
				if killed {
					pr.loadErr = "load exceeded budget"
				} else {
					pr.loadErr = "worker died while loading: " + tail(stderr.String(), 400)
				}
				return pr
			}
			// died between an END and the next BEGIN: a goroutine of the job that just "ended" was still panicking
			// (e.g. MapParallel's collector fails on the missing result, is recovered by the worker, and then the
			// original goroutine panic kills the process). The crash dump names the real cause.
			if len(pr.outs) == 0 || killed {
				return pr
			}
			last := &pr.outs[len(pr.outs)-1]
			st := stderr.String()
			if m := panicRe.FindString(st); m != "" {
				last.status = "crash"
				last.msg = m + " || " + firstRepoFrames(goroutineTrace(st))
			}
			idx := -1
			for i, j := range remaining {
				if j == last.job {
					idx = i
				}
			}
			remaining = remaining[idx+1:]
			continue
		}
		o := outcome{job: inProgress}
		if killed {
			o.status = "timeout"
			o.ms = budget.Milliseconds()
			o.msg = fmt.Sprintf("no result within the budget of %d ms (load %d ms, %d instructions)", budget.Milliseconds(), pr.loadMs, pr.instrs)
			if memKilled {
				o.msg = fmt.Sprintf("no result within the budget of 6 GiB of resident memory (load %d ms, %d instructions)", pr.loadMs, pr.instrs)
			}
		} else {
			o.status = "crash"
			st := stderr.String()
			m := panicRe.FindString(st)
			if m == "" {
				m = "worker exited: " + fmt.Sprint(waitErr)
			}
			o.msg = m + " || " + firstRepoFrames(goroutineTrace(st))
			if strings.Contains(m, "out of memory") || strings.Contains(m, "cannot allocate memory") {
				// the 4 GiB address-space limit of the worker: unbounded allocation, the memory face of divergence
				o.status = "timeout"
				o.ms = budget.Milliseconds()
				o.msg = fmt.Sprintf("no result within the budget of 4 GiB of memory (%s; load %d ms, %d instructions)", m, pr.loadMs, pr.instrs)
			}
		}
		pr.outs = append(pr.outs, o)
		// continue with the jobs after the one that died
		idx := -1
		for i, j := range remaining {
			if j == inProgress {
				idx = i
			}
		}
		remaining = remaining[idx+1:]
	}
	return pr
}

// goroutineTrace turns the crash dump into the same "func(...)\n\tfile:line" shape debug.Stack prints.
func goroutineTrace(st string) string {
	if i := strings.Index(st, "goroutine "); i >= 0 {
		return st[i:]
	}
	return st
}

func tail(s string, n int) string {
	if len(s) > n {
		return s[len(s)-n:]
	}
	return s
}

// ---------------------------------------------------------------------------------------------

type sweepItem struct {
	id       string
	dir      string
	features []string
	jobs     []string
	fixed    time.Duration // fixed budget (corpus items) or 0
	retried  bool
	toKey    string // corpus items: the known-finding key of a timeout on this very input
	files    map[string]string
	onDone   func(it *sweepItem, pr progResult)
}

func replayText(it *sweepItem, o outcome) []byte {
	var b strings.Builder
	fmt.Fprintf(&b, "job: %s\nstatus: %s\nmessage: %s\nfeatures: %s\nreplay: write the files below into a directory, then `argot <analysis> -config <config> .` (job = analysis@config)\n", o.job, o.status, o.msg, strings.Join(it.features, " "))
	names := make([]string, 0, len(it.files))
	for n := range it.files {
		names = append(names, n)
	}
	sort.Strings(names)
	for _, n := range names {
		if strings.HasPrefix(n, "result_") {
			continue
		}
		fmt.Fprintf(&b, "\n==== %s\n%s", n, it.files[n])
	}
	return []byte(b.String())
}

var siteRe = regexp.MustCompile(`[^A-Za-z0-9_.()*/:-]+`)

// failure key: what died and where (innermost repository function + the constant part of the message),
// not the random program: one key per crash site. Recovered panics and goroutine crashes are both "panic".
func failKey(o outcome) string {
	msg := o.msg
	site := ""
	if i := strings.Index(msg, " || "); i >= 0 {
		site = msg[i+4:]
		msg = msg[:i]
	}
	if j := strings.Index(site, " <- "); j >= 0 {
		site = site[:j]
	}
	fn, loc, _ := strings.Cut(site, " ")
	msg = strings.TrimPrefix(msg, "panic: ")
	if k := strings.Index(msg, " [recovered]"); k >= 0 {
		msg = msg[:k]
	}
	cut := len(msg)
	for _, stop := range []string{"c07p", "\"", "(", "0", "1", "2", "3", "4", "5", "6", "7", "8", "9"} {
		if k := strings.Index(msg, stop); k >= 0 && k < cut {
			cut = k
		}
	}
	msg = strings.TrimSpace(msg[:cut])
	if len(msg) > 70 {
		msg = msg[:70]
	}
	if strings.HasPrefix(msg, "runtime error") || strings.HasPrefix(msg, "fatal error") {
		fn += "@" + filepath.Base(loc) // no message constant to tell sites apart: use the line
	}
	status := o.status
	if status == "crash" {
		status = "panic"
	}
	job, _, _ := strings.Cut(o.job, "@")
	return siteRe.ReplaceAllString(fmt.Sprintf("%s:%s:%s:%s", status, job, fn, msg), "_")
}

var start0 = time.Now()

func main() {
	if len(os.Args) > 1 && os.Args[1] == "-worker" {
		workerMain(os.Args[2:])
		return
	}
	var err error
	self, err = os.Executable()
	if err != nil {
		panic(err)
	}
	rep := lib.NewReport(prop)
	rep.Rule = "sweep: one evaluation = one (generated program, analysis entry point, configuration) run to completion in a child process; distinct = distinct (feature multiset, job); non-trivial = program has ≥ 2 features or a corpus input. M10/trace: one evaluation = one (CFG, src, tgt) query / one trace / one call node compared with the Lean model"
	shape := hasPathShape()
	rep.Extra["haspath_shape_T11"] = shape

	// ---- 2. + 3. model correspondences (in-process)
	only := os.Getenv("VERIF_C07_ONLY") // debugging aid: "model" | "sweep" | "corpus"
	if only == "" || only == "model" {
		checkHasPath(rep, shape)
	}
	if only == "model" {
		checkTraces(rep)
		rep.Finish()
		return
	}

	// ---- 1. + 4. corpus and sweep
	r := lib.Rand("c07-sweep")
	// per-process scratch: several checks of this property (other VERIF_REPO trees) may run at the same time
	base := lib.WorkDir(prop, fmt.Sprintf("sweep-%d", os.Getpid()))
	keep := os.Getenv("VERIF_C07_KEEP") == "1"
	var items []*sweepItem
	var mu sync.Mutex

	type failure struct {
		it   *sweepItem
		o    outcome
		what string
		n    int
	}
	failures := map[string]*failure{}
	var retry []*sweepItem
	abort := false
	t0 := time.Now()
	hardDeadline = start0.Add(2000 * time.Second)
	if lib.Thorough() {
		hardDeadline = start0.Add(12500 * time.Second)
	}
	deadline := 1300 * time.Second // stay inside the check script's driver timeout and still report what was found
	if lib.Thorough() {
		deadline = 10000 * time.Second
	}
	knownKeys := map[string]bool{}
	for _, kf := range lib.KnownFindings(prop) {
		if kf.Status == "open" {
			knownKeys[kf.Key] = true
		}
	}
	flog, _ := os.Create(filepath.Join(lib.Root(), ".work", prop, fmt.Sprintf("failures-%d.txt", os.Getpid())))
	defer flog.Close()
	addFailure := func(key, what string, it *sweepItem, o outcome) {
		fmt.Fprintf(flog, "%s\t%s\t%s\t%s\n", key, it.id, o.job, o.msg)
		f := failures[key]
		if f == nil {
			failures[key] = &failure{it, o, what, 1}
			return
		}
		f.n++
		if f.n >= 3 && !knownKeys[key] {
			abort = true // the same new failure three times: stop sweeping, report
		}
		if len(it.features) < len(f.it.features) {
			f.it, f.o, f.what = it, o, what
		}
	}
	report := func(it *sweepItem, pr progResult) {
		mu.Lock()
		defer mu.Unlock()
		if pr.loadErr != "" && !it.retried && (strings.Contains(pr.loadErr, "exceeded budget") || strings.Contains(pr.loadErr, "died while loading")) {
			// environmental (overloaded machine, go list lock contention): once more, alone, after the sweep
			it.retried = true
			retry = append(retry, it)
			rep.Count("load-retry")
			return
		}
		if pr.loadErr != "" {
			rep.Count("load-error")
			rep.Fail("harness-load:"+it.id, "generated program does not load (generator defect, not a property violation): "+pr.loadErr, replayText(it, outcome{}), true)
			return
		}
		for _, o := range pr.outs {
			job, _, _ := strings.Cut(o.job, "@")
			key := ""
			if len(it.features) >= 2 || it.fixed > 0 {
				fs := append([]string(nil), it.features...)
				sort.Strings(fs)
				key = strings.Join(fs, ",") + "|" + o.job
			}
			rep.Case(key)
			rep.Count("job:" + job)
			rep.Count("status:" + o.status)
			if o.status == "error" {
				rep.Count("error-kind:" + job + ":" + firstWords(o.msg, 6))
			}
			if o.status == "panic" || o.status == "crash" || o.status == "timeout" {
				it.onDone(it, progResult{outs: []outcome{o}, loadMs: pr.loadMs, instrs: pr.instrs, nBound: pr.nBound})
			}
		}
		rep.Count(fmt.Sprintf("instrs<=%d", bucket(pr.instrs)))
		rep.Dist["MultiConvert-in-generic-bodies"] += pr.mcGeneric
		rep.Dist["MultiConvert-in-ground-functions"] += pr.mcGround
		if pr.mcGround > 0 {
			// the committed exclusion list of dispatch_total (Spec.genericOnlyKinds) is wrong for this program
			addFailure("dispatch:MultiConvert-in-ground-function", "an ssa.MultiConvert occurs in a non-generic function: lang.InstrSwitch has no case for it (panic(instr)) and Spec.genericOnlyKinds wrongly excludes it from dispatch_total", it, outcome{job: "load", status: "kinds"})
		}
	}
	defaultFail := func(it *sweepItem, pr progResult) {
		o := pr.outs[0]
		what := fmt.Sprintf("analysis job %s on a well-typed program ended with %s: %s", o.job, o.status, o.msg)
		key := failKey(o)
		if o.status == "timeout" {
			// attribute to the known exponential path search only when the model says so
			if it.toKey != "" {
				key = it.toKey // the committed replay input of a known divergence
			} else if f7 := f7Shaped(it.dir); f7 != "" {
				key = "F7:haspath-exponential"
				what += " — " + f7
			} else if fs := fieldSensitiveOnly(it, o); fs != "" {
				key = "C07f:fieldsens-nontermination"
				what += " — " + fs
			} else if cl := contextLimitOnly(it, o); cl != "" {
				key = "C07g:calling-contexts-unbounded"
				what += " — " + cl
			}
		}
		if o.status == "timeout" && !knownKeys[key] {
			// not one of the known divergences: confirm alone, with twice the budget, before calling it a failure
			// (the machine may simply be overloaded)
			mu.Unlock()
			pr2 := runProgram(it.dir, []string{o.job}, 2*time.Duration(o.ms)*time.Millisecond)
			mu.Lock()
			for _, r := range pr2.outs {
				if r.job == o.job && (r.status == "ok" || r.status == "error") {
					rep.Count("timeout-not-confirmed-on-rerun")
					return
				}
			}
			what += " (confirmed by a second run with twice the budget)"
		}
		if strings.Contains(o.msg, "invalid memory address or nil pointer dereference") && strings.Contains(o.msg, "config.(*CodeIdentifier).equalOnNonEmptyFields") {
			key = "F13:invalid-regex-nil-regexp"
		}
		addFailure(key, what, it, o)
	}

	// corpus: F7 — 26 sequential if/else (committed replay input)
	{
		src, err := os.ReadFile(filepath.Join(lib.Root(), "corpus", "findings", "F07_haspath_diamonds", "main.go"))
		if err == nil {
			files := map[string]string{"main.go": string(src), "go.mod": "module c07p\n\ngo 1.22\n", "default.yaml": cfgYaml(nil)}
			fixed := 25 * time.Second
			if lib.Thorough() {
				fixed = 120 * time.Second
			}
			items = append(items, &sweepItem{id: "corpus-F07", features: []string{"corpus:F7-diamond-chain-26"}, files: files,
				jobs: []string{"taint@default.yaml"}, fixed: fixed, toKey: "F7:haspath-exponential", onDone: defaultFail})
		} else {
			rep.Notes = append(rep.Notes, "F7 replay input missing: "+err.Error())
		}
	}
	// corpus: the replay inputs of the crashes found by earlier sweeps (corpus/findings/C07*: main.go, optional
	// go.mod, jobs.txt = one job per line); run first, with the default configuration
	if dirs, err := filepath.Glob(filepath.Join(lib.Root(), "corpus", "findings", "C07*")); err == nil {
		sort.Strings(dirs)
		for _, d := range dirs {
			src, err := os.ReadFile(filepath.Join(d, "main.go"))
			if err != nil {
				continue
			}
			files := map[string]string{"main.go": string(src)}
			for name, opts := range baseConfigs {
				files[name] = cfgYaml(opts)
			}
			fixed := 120 * time.Second
			if bb, err := os.ReadFile(filepath.Join(d, "budget.txt")); err == nil {
				var secs int
				if _, err := fmt.Sscan(string(bb), &secs); err == nil && secs > 0 {
					fixed = time.Duration(secs) * time.Second
				}
			}
			if extra, err := os.ReadDir(d); err == nil {
				for _, e := range extra {
					n := e.Name()
					if n == "go.mod" || strings.HasSuffix(n, ".yaml") || strings.HasSuffix(n, ".s") {
						if b, err := os.ReadFile(filepath.Join(d, n)); err == nil {
							files[n] = string(b)
						}
					}
				}
			}
			jobs := []string{"taint@default.yaml", "backtrace@default.yaml"}
			if jb, err := os.ReadFile(filepath.Join(d, "jobs.txt")); err == nil {
				jobs = strings.Fields(string(jb))
			}
			toKey := ""
			if kb, err := os.ReadFile(filepath.Join(d, "key.txt")); err == nil {
				toKey = strings.TrimSpace(string(kb))
			}
			items = append(items, &sweepItem{id: "corpus-" + filepath.Base(d), features: []string{"corpus:" + filepath.Base(d)},
				files: files, jobs: jobs, fixed: fixed, toKey: toKey, onDone: defaultFail})
		}
	}
	// one program per feature (alone), then random mixtures
	nMix, maxFeat, nStdMix := 10, 5, 2
	if lib.Thorough() {
		nMix, maxFeat, nStdMix = 150, 9, 30
	}
	allJobs := func(p gen.C07Prog, randomCfg bool) []string {
		jobs := []string{"taint@default.yaml", "taint@escape.yaml", "taint@ondemand.yaml", "taint@fieldsens.yaml",
			"backtrace@default.yaml", "backtrace@ondemand.yaml", "escape@default.yaml", "reachability", "defers", "maypanic"}
		if randomCfg {
			jobs = append(jobs, "taint@random.yaml", "backtrace@random.yaml")
		}
		return jobs
	}
	addProg := func(id string, p gen.C07Prog, thin bool) {
		for name, opts := range baseConfigs {
			p.Files[name] = cfgYaml(opts)
		}
		opts := map[string]string{}
		var on []string
		for _, o := range optionPool {
			if r.Intn(3) == 0 {
				v := o.vs[r.Intn(len(o.vs))]
				opts[o.k] = v
				on = append(on, o.k+"="+v)
			}
		}
		p.Files["random.yaml"] = cfgYaml(opts)
		jobs := allJobs(p, true)
		if thin {
			jobs = []string{"taint@default.yaml", "taint@escape.yaml", "backtrace@default.yaml", "reachability", "defers", "maypanic"}
		}
		items = append(items, &sweepItem{id: id, features: append(p.Features, "cfg:"+strings.Join(on, ";")), files: p.Files, jobs: jobs, onDone: defaultFail})
	}
	if only == "corpus" {
		nMix, nStdMix = 0, 0
	}
	for _, name := range gen.C07FeatureNames() {
		if only == "corpus" {
			break
		}
		p := gen.GenC07Program(r, 1, true, name)
		addProg("feat-"+name, p, p.Std && !lib.Thorough())
	}
	for i := 0; i < nMix; i++ {
		addProg(fmt.Sprintf("mix-%d", i), gen.GenC07Program(r, 2+r.Intn(maxFeat), false, ""), false)
	}
	for i := 0; i < nStdMix; i++ {
		addProg(fmt.Sprintf("stdmix-%d", i), gen.GenC07Program(r, 2+r.Intn(maxFeat), true, ""), !lib.Thorough())
	}
	for _, it := range items {
		it.dir = filepath.Join(base, it.id)
		lib.WriteProgram(it.dir, "c07p", it.files)
		for _, f := range it.features {
			name, _, _ := strings.Cut(f, "(")
			if !strings.HasPrefix(name, "cfg:") {
				rep.Count("feature:" + name)
			}
		}
	}
	rep.Extra["programs"] = len(items)

	workers := 5
	if v := os.Getenv("VERIF_C07_WORKERS"); v != "" {
		fmt.Sscan(v, &workers)
	}
	ch := make(chan *sweepItem)
	var wg sync.WaitGroup
	for w := 0; w < workers; w++ {
		wg.Add(1)
		go func() {
			defer wg.Done()
			for it := range ch {
				mu.Lock()
				if !abort && time.Since(t0) > deadline {
					abort = true
					rep.Notes = append(rep.Notes, "global deadline reached: remaining programs skipped")
				}
				stop := abort
				mu.Unlock()
				if stop {
					mu.Lock()
					rep.Count("skipped-after-repeated-new-failure")
					mu.Unlock()
					continue
				}
				pr := runProgram(it.dir, it.jobs, it.fixed)
				report(it, pr)
			}
		}()
	}
	for _, it := range items {
		ch <- it
	}
	close(ch)
	wg.Wait()
	for _, it := range retry {
		pr := runProgram(it.dir, it.jobs, it.fixed)
		report(it, pr)
	}
	var fkeys []string
	for k := range failures {
		fkeys = append(fkeys, k)
	}
	sort.Strings(fkeys)
	for _, k := range fkeys {
		f := failures[k]
		rep.Count("failure:" + k)
		rep.Dist["failure:"+k] = f.n
		rep.Fail(k, fmt.Sprintf("%s (%d occurrence(s) in this run; smallest program: %s)", f.what, f.n, f.it.id), replayText(f.it, f.o), false)
	}
	if only == "" {
		checkTraces(rep) // last: it calls GetAllCallingContexts in-process (see the watchdog there)
	}
	rep.Sample(map[string]any{"program": items[len(items)-1].id, "features": items[len(items)-1].features, "jobs": items[len(items)-1].jobs})
	rep.Extra["jobs_cut_by_hard_deadline"] = skippedByDeadline
	if !keep {
		flog.Close()
		os.RemoveAll(base)
		os.Remove(filepath.Join(lib.Root(), ".work", prop, fmt.Sprintf("failures-%d.txt", os.Getpid())))
	}
	rep.Finish()
}

// fieldSensitiveOnly: the job timed out under a configuration with `field-sensitive: true`; does the same job
// finish within the same budget when only that option is switched off? Then the divergence is the known
// access-path growth of the field-sensitive traversal (finding C07f = C01c).
func fieldSensitiveOnly(it *sweepItem, o outcome) string {
	name, cfgFile, ok := strings.Cut(o.job, "@")
	if !ok {
		return ""
	}
	cfg := it.files[cfgFile]
	if !strings.Contains(cfg, "field-sensitive: true") {
		return ""
	}
	alt := strings.TrimSuffix(cfgFile, ".yaml") + ".nofs.yaml"
	os.WriteFile(filepath.Join(it.dir, alt), []byte(strings.Replace(cfg, "field-sensitive: true", "field-sensitive: false", 1)), 0o644)
	budget := time.Duration(o.ms) * time.Millisecond
	if budget < 20*time.Second {
		budget = 20 * time.Second
	}
	pr := runProgram(it.dir, []string{name + "@" + alt}, budget)
	for _, r := range pr.outs {
		if r.status == "ok" || r.status == "error" {
			return fmt.Sprintf("the same job with field-sensitive: false ends with %s after %d ms: divergence of the field-sensitive traversal (access-path lists grow along a cycle, key never repeats)", r.status, r.ms)
		}
	}
	return ""
}

var ctxLimitRe = regexp.MustCompile(`(?m)^\s*max-entrypoint-context-size:\s*(-?\d+)\s*$`)

// contextLimitOnly: the job timed out under a configuration whose max-entrypoint-context-size is unlimited (≤ 0)
// or larger than the default 5; does it finish with the default? Then the divergence is the enumeration of all
// call-node-distinct calling contexts (finding C07g).
func contextLimitOnly(it *sweepItem, o outcome) string {
	name, cfgFile, ok := strings.Cut(o.job, "@")
	if !ok {
		return ""
	}
	cfg := it.files[cfgFile]
	m := ctxLimitRe.FindStringSubmatch(cfg)
	if m == nil {
		return ""
	}
	var lim int
	fmt.Sscan(m[1], &lim)
	if lim > 0 && lim <= 5 {
		return ""
	}
	alt := strings.TrimSuffix(cfgFile, ".yaml") + ".ctx5.yaml"
	os.WriteFile(filepath.Join(it.dir, alt), []byte(ctxLimitRe.ReplaceAllString(cfg, "  max-entrypoint-context-size: 5")), 0o644)
	budget := time.Duration(o.ms) * time.Millisecond
	if budget < 20*time.Second {
		budget = 20 * time.Second
	}
	pr := runProgram(it.dir, []string{name + "@" + alt}, budget)
	for _, r := range pr.outs {
		if r.status == "ok" || r.status == "error" {
			return fmt.Sprintf("the same job with max-entrypoint-context-size: 5 (instead of %d) ends with %s after %d ms: GetAllCallingContexts enumerates every call-node-distinct context (model bound numNodup, theorem ctx_terminates)", lim, r.status, r.ms)
		}
	}
	return ""
}

// rssMB: resident set of a process in MiB (0 when unknown).
func rssMB(pid int) int64 {
	b, err := os.ReadFile(fmt.Sprintf("/proc/%d/statm", pid))
	if err != nil {
		return 0
	}
	var size, rss int64
	fmt.Sscan(string(b), &size, &rss)
	return rss * int64(os.Getpagesize()) / (1 << 20)
}

func firstWords(s string, n int) string {
	f := strings.Fields(s)
	if len(f) > n {
		f = f[:n]
	}
	return strings.Join(f, " ")
}

func bucket(n int) int {
	for _, b := range []int{100, 300, 1000, 3000, 10000, 30000} {
		if n <= b {
			return b
		}
	}
	return 1000000
}
