// In-process correspondences between the real code and the Lean models of C07 (oracle_c07).
package main

import (
	"fmt"
	"math/rand"
	"os"
	"path/filepath"
	"regexp"
	"sort"
	"strings"
	"time"

	"github.com/awslabs/ar-go-tools/analysis/config"
	"github.com/awslabs/ar-go-tools/analysis/dataflow"
	"github.com/awslabs/ar-go-tools/analysis/lang"
	"github.com/awslabs/ar-go-tools/analysis/taint"
	"golang.org/x/tools/go/ssa"
	"golang.org/x/tools/go/ssa/ssautil"
	"verif/harness/gen"
	"verif/harness/lib"
)

// hasPathShape reads the regenerated table T11 (which model describes lang.HasPathTo).
func hasPathShape() string {
	b, err := os.ReadFile(filepath.Join(lib.Root(), "lean", "Argot", "Gen", "T11HasPath.lean"))
	if err != nil {
		return "missing"
	}
	m := regexp.MustCompile(`def markOn : String := "([a-z]+)"`).FindStringSubmatch(string(b))
	if m == nil {
		return "unparsed"
	}
	return m[1]
}

func succsText(fn *ssa.Function) []string {
	var out []string
	for _, b := range fn.Blocks {
		if len(b.Succs) == 0 {
			out = append(out, "-")
			continue
		}
		var ss []string
		for _, s := range b.Succs {
			ss = append(ss, fmt.Sprint(s.Index))
		}
		out = append(out, strings.Join(ss, ","))
	}
	return out
}

func diamondSrc(name string, n int) string {
	var b strings.Builder
	fmt.Fprintf(&b, "func %s(k int, s string) string {\n", name)
	for i := 0; i < n; i++ {
		fmt.Fprintf(&b, "\tif k > %d {\n\t\ts = s + \"a\"\n\t} else {\n\t\ts = s + \"b\"\n\t}\n", i)
	}
	b.WriteString("\treturn s\n}\n")
	return b.String()
}

type hpQuery struct {
	fn       *ssa.Function
	src, tgt int // tgt == len(blocks): a block of another function (absent)
	real     bool
	realMem  bool
}

// checkHasPath: M10 for lang.HasPathTo.
func checkHasPath(rep *lib.Report, shape string) {
	r := lib.Rand("c07-haspath")
	nRand, maxDia := 250, 9
	if lib.Thorough() {
		nRand, maxDia = 2500, 11
	}
	var src strings.Builder
	src.WriteString(gen.Prelude + "\nfunc main() {}\n")
	for i := 0; i < nRand; i++ {
		src.WriteString("\n" + gen.Render(fmt.Sprintf("f%d", i), gen.RandBody(r, 3+r.Intn(16), false, 0), i%5 == 4))
	}
	for n := 0; n <= maxDia; n++ {
		src.WriteString("\n" + diamondSrc(fmt.Sprintf("dia%d", n), n))
	}
	tSmall, tBig := 11, 16
	src.WriteString("\n" + diamondSrc("tdiaSmall", tSmall) + "\n" + diamondSrc("tdiaBig", tBig))
	dir := lib.WorkDir(prop, fmt.Sprintf("haspath-%d", os.Getpid()))
	defer os.RemoveAll(dir)
	lib.WriteProgram(dir, "vprog", map[string]string{"main.go": src.String()})
	prog, _, err := lib.LoadSSA(dir, ssa.BuilderMode(0), false, ".")
	if err != nil {
		rep.Fail("harness-load-haspath", "generated CFG program does not load: "+err.Error(), nil, true)
		return
	}
	var fns []*ssa.Function
	byName := map[string]*ssa.Function{}
	for f := range ssautil.AllFunctions(prog) {
		if f.Pkg != nil && f.Pkg.Pkg.Path() == "vprog" && len(f.Blocks) > 0 && f.Parent() == nil {
			byName[f.Name()] = f
			if !strings.HasPrefix(f.Name(), "tdia") {
				fns = append(fns, f)
			}
		}
	}
	sort.Slice(fns, func(i, j int) bool { return fns[i].Name() < fns[j].Name() })
	foreign := byName["main"].Blocks[0]

	var in strings.Builder
	var queries []hpQuery
	diaLines := map[int]int{} // n -> index of the oracle output line holding `dia n`
	nLines := 0
	for n := 0; n <= maxDia; n++ {
		fmt.Fprintf(&in, "dia %d\n", n)
		diaLines[n] = nLines
		nLines++
	}
	type sweepRef struct {
		fn   *ssa.Function
		line int
	}
	var sweeps []sweepRef
	for _, f := range fns {
		if f.Name() == "main" || f.Name() == "init" {
			continue
		}
		nb := len(f.Blocks)
		fmt.Fprintf(&in, "cfg %s\n", f.Name())
		for _, s := range succsText(f) {
			fmt.Fprintf(&in, "b %s\n", s)
		}
		var pairs [][2]int
		if nb <= 9 {
			for a := 0; a < nb; a++ {
				for b := 0; b <= nb; b++ {
					pairs = append(pairs, [2]int{a, b})
				}
			}
		} else {
			for k := 0; k < 40; k++ {
				pairs = append(pairs, [2]int{r.Intn(nb), r.Intn(nb + 1)})
			}
			pairs = append(pairs, [2]int{0, nb}, [2]int{0, nb - 1}, [2]int{nb - 1, 0})
		}
		// the real function runs in-process: watchdog per function (a diverging search cannot be stopped, but it
		// can be reported; the driver exits at the end of main)
		doneCh := make(chan []hpQuery, 1)
		go func() {
			var qs []hpQuery
			mem := map[*ssa.BasicBlock]map[*ssa.BasicBlock]bool{}
			for _, p := range pairs {
				b1 := f.Blocks[p[0]]
				b2 := foreign
				if p[1] < nb {
					b2 = f.Blocks[p[1]]
				}
				q := hpQuery{fn: f, src: p[0], tgt: p[1]}
				q.real = lang.HasPathTo(b1, b2, nil)
				q.realMem = lang.HasPathTo(b1, b2, mem)
				qs = append(qs, q)
			}
			doneCh <- qs
		}()
		select {
		case qs := <-doneCh:
			queries = append(queries, qs...)
		case <-time.After(90 * time.Second):
			rep.Fail("haspath-diverges", fmt.Sprintf("lang.HasPathTo did not answer %d queries on a %d-block CFG within 90 s (theorems hasPathOld_terminates / hasPathFix_linear bound the models)", len(pairs), nb), []byte("function "+f.Name()+"\nsuccessors by block:\n"+strings.Join(succsText(f), "\n")+"\n"), false)
			return
		}
		for _, p := range pairs {
			fmt.Fprintf(&in, "hp %d %d 400000\n", p[0], p[1])
			nLines++
		}
		fmt.Fprintf(&in, "sweep 400000\n")
		sweeps = append(sweeps, sweepRef{f, nLines})
		nLines++
	}
	os.WriteFile(filepath.Join(dir, "oracle_in.txt"), []byte(in.String()), 0o644)
	out, err := lib.RunOracle("oracle_c07", []byte(in.String()))
	if err != nil || len(out) != nLines {
		rep.Fail("oracle-run-haspath", fmt.Sprintf("oracle failed: %v (%d lines for %d expected)", err, len(out), nLines), nil, true)
		return
	}
	// the model's diamond family is the CFG x/tools builds for n sequential if/else
	for n := 0; n <= maxDia; n++ {
		f := byName[fmt.Sprintf("dia%d", n)]
		want := "dia " + strings.Join(succsText(f), ";")
		rep.Case(fmt.Sprintf("diamonds-cfg-%d", n))
		if out[diaLines[n]] != want {
			rep.Fail(fmt.Sprintf("diamonds-cfg-%d", n), fmt.Sprintf("Lean `diamonds %d` is not the SSA CFG of %d sequential if/else: model %q, real %q (the exponential witness family no longer describes real functions)", n, n, out[diaLines[n]], want), []byte(diamondSrc("g", n)), true)
		}
	}
	sel := "old"
	if shape == "enqueue" {
		sel = "fix"
	}
	qi := 0
	mism := 0
	nWrong := 0
	lineRe := regexp.MustCompile(`^hp (\S+) (\d+) (\d+) old=(\d),(\d+),(\d) fix=(\d),(\d+),(\d)$`)
	maxRatio := 0.0
	li := maxDia + 1
	for _, f := range fns {
		if f.Name() == "main" || f.Name() == "init" {
			continue
		}
		for qi < len(queries) && queries[qi].fn == f {
			q := queries[qi]
			m := lineRe.FindStringSubmatch(out[li])
			li++
			qi++
			if m == nil {
				rep.Fail("oracle-line-haspath", "unparsable oracle line: "+out[li-1], nil, true)
				return
			}
			ans, steps, done := m[4], m[5], m[6]
			if sel == "fix" {
				ans, steps, done = m[7], m[8], m[9]
			}
			key := ""
			if len(f.Blocks) > 3 {
				key = fmt.Sprintf("%s:%d>%d", strings.Join(succsText(f), ";"), q.src, q.tgt)
			}
			rep.Case(key)
			rep.Count(fmt.Sprintf("haspath:blocks<=%d", bucket2(len(f.Blocks))))
			rep.Count("haspath:answer=" + ans)
			if done != "1" {
				rep.Count("haspath:model-fuel-exhausted")
				continue
			}
			if m[4] != m[7] && m[6] == "1" && m[9] == "1" {
				mism++
				rep.Fail("haspath-old-vs-fix:"+key, fmt.Sprintf("models hasPathOld and hasPathFix answer differently on %s %d->%d (theorem hasPath_repair_same_answer would be false)", f.Name(), q.src, q.tgt), []byte(strings.Join(succsText(f), "\n")), true)
			}
			want := "0"
			if q.real {
				want = "1"
			}
			wantMem := "0"
			if q.realMem {
				wantMem = "1"
			}
			if want != ans || wantMem != ans {
				mism++
				content := fmt.Sprintf("function %s\nsuccessors by block:\n%s\nquery %d -> %d\nreal(mem=nil)=%s real(mem)=%s model(%s)=%s steps=%s\n", f.Name(), strings.Join(succsText(f), "\n"), q.src, q.tgt, want, wantMem, sel, ans, steps)
				// ground truth: plain reachability
				gt := reach(f, q.src, q.tgt)
				if (gt && want == "0") || (!gt && want == "1") {
					nWrong++
					if nWrong > 3 {
						rep.Count("haspath:wrong-answers-not-listed")
						continue
					}
					rep.Fail("haspath-wrong:"+key, "lang.HasPathTo answers differently from reachability in the CFG (RunForwardIterative then skips or re-queues the wrong blocks)", []byte(content), false)
				} else {
					rep.Fail("haspath-model:"+key, "correspondence M10 broken: Lean model of HasPathTo differs from the real function (its answer still equals plain reachability)", []byte(content), true)
				}
			}
		}
		// sweep line
		var cs, fs, n, d int
		var cd, fd, wf int
		var id string
		if _, err := fmt.Sscanf(strings.NewReplacer("=", " ", ",", " ").Replace(out[li]), "sweep %s old %d %d fix %d %d wf %d n %d d %d", &id, &cs, &cd, &fs, &fd, &wf, &n, &d); err == nil && fs > 0 {
			ratio := float64(cs) / float64(fs)
			if ratio > maxRatio {
				maxRatio = ratio
			}
			if fd != 1 || fs > n+1 {
				rep.Fail("haspath-fix-bound:"+f.Name(), fmt.Sprintf("oracle: hasPathFix used %d steps on %d blocks (theorem hasPathFix_linear says ≤ n+1) or did not finish", fs, n), nil, true)
			}
		}
		li++
	}
	rep.Extra["haspath_queries"] = len(queries)
	rep.Extra["haspath_mismatches"] = mism
	rep.Extra["haspath_model_selected"] = sel
	rep.Extra["haspath_max_old_over_fix_step_ratio_generated"] = maxRatio

	// complexity class of the REAL function on the witness family (the step counter of the real loop is
	// not observable without editing it; its growth is)
	measure := func(f *ssa.Function) time.Duration {
		best := time.Duration(1 << 62)
		for i := 0; i < 7; i++ {
			t0 := time.Now()
			lang.HasPathTo(f.Blocks[0], foreign, nil)
			if d := time.Since(t0); d < best {
				best = d
			}
		}
		return best
	}
	ts, tb := measure(byName["tdiaSmall"]), measure(byName["tdiaBig"])
	ratio := float64(tb) / float64(ts+1)
	rep.Extra["haspath_real_time_ratio_dia16_over_dia11"] = ratio
	rep.Extra["haspath_model_step_ratio_old"] = float64(4*(int64(1)<<tBig)-3) / float64(4*(int64(1)<<tSmall)-3)
	rep.Extra["haspath_model_step_ratio_fix"] = float64(3*tBig+1) / float64(3*tSmall+1)
	rep.Case("haspath-complexity-class")
	switch shape {
	case "dequeue":
		// the defect F7 (fixed by commit 2099ce8) is back: table T11 says so (obligation hasPath_marks_on_enqueue is
		// broken) and the witness family of theorem hasPathOld_diamonds is the concrete input
		rep.Fail("F7:haspath-exponential", fmt.Sprintf("lang.HasPathTo marks blocks on dequeue again (T11): the search is exponential on sequential if/else — real time grows by %.1f from 11 to 16 diamonds (model hasPathOld: 32, hasPathFix: 1.4); theorem hasPathOld_diamonds: 4*2^n-3 iterations", ratio), []byte(diamondSrc("g", 26)), false)
	case "enqueue":
		if ratio > 6 {
			rep.Fail("F7:haspath-exponential", fmt.Sprintf("T11 says HasPathTo marks on enqueue (linear) but the real function scales by %.1f from 11 to 16 diamonds", ratio), []byte(diamondSrc("g", tBig)), false)
		}
	default:
		rep.Fail("haspath-shape", "table T11 could not classify lang.HasPathTo (shape="+shape+"): no model is known to describe it", nil, true)
	}
}

func bucket2(n int) int {
	for _, b := range []int{2, 4, 8, 16, 32, 64} {
		if n <= b {
			return b
		}
	}
	return 1000
}

func reach(f *ssa.Function, src, tgt int) bool {
	if tgt >= len(f.Blocks) {
		return false
	}
	seen := map[int]bool{src: true}
	st := []int{src}
	for len(st) > 0 {
		b := st[len(st)-1]
		st = st[:len(st)-1]
		if b == tgt {
			return true
		}
		for _, s := range f.Blocks[b].Succs {
			if !seen[s.Index] {
				seen[s.Index] = true
				st = append(st, s.Index)
			}
		}
	}
	return false
}

// f7Shaped: does the program in dir contain a function on which the MODEL of the current HasPathTo needs
// far more iterations than the repaired one (the shape of finding F7)? Returns a description or "".
func f7Shaped(dir string) string {
	if hasPathShape() != "dequeue" {
		return ""
	}
	prog, _, err := lib.LoadSSA(dir, ssa.InstantiateGenerics, true, ".")
	if err != nil {
		return ""
	}
	var in strings.Builder
	var names []string
	for f := range ssautil.AllFunctions(prog) {
		if f.Pkg == nil || f.Pkg.Pkg.Path() != "c07p" || len(f.Blocks) < 12 {
			continue
		}
		fmt.Fprintf(&in, "cfg %s\n", f.Name())
		for _, s := range succsText(f) {
			fmt.Fprintf(&in, "b %s\n", s)
		}
		in.WriteString("sweep 2000\n")
		names = append(names, f.Name())
	}
	out, err := lib.RunOracle("oracle_c07", []byte(in.String()))
	if err != nil {
		return ""
	}
	for _, l := range out {
		var cs, fs, n, d, cd, fd, wf int
		var id string
		if _, err := fmt.Sscanf(strings.NewReplacer("=", " ", ",", " ").Replace(l), "sweep %s old %d %d fix %d %d wf %d n %d d %d", &id, &cs, &cd, &fs, &fd, &wf, &n, &d); err == nil {
			if cd == 0 || cs > 50*(n+1) {
				return fmt.Sprintf("function %s (%d blocks): the model of lang.HasPathTo (mark on dequeue) needs more than %d loop iterations for one query where the repaired search needs %d — finding F7", id, n, cs, fs)
			}
		}
	}
	return ""
}

// ---------------------------------------------------------------------------------------------
// traces and calling contexts

const traceProg = `package main

func source() string { return "t" }
func sink(s string)  { println(s) }

func a(s string, n int) string {
	if n == 0 {
		return s
	}
	return b(s, n-1) + c(s, n)
}
func b(s string, n int) string { return a(s, n) + d(s) }
func c(s string, n int) string {
	if n > 3 {
		return b(s, n)
	}
	return d(s)
}
func d(s string) string { return e(s) + e(s+"x") }
func e(s string) string { sink(s); return s }

type T struct{ f func(string) string }

func (t T) run(s string) string { return t.f(s) + d(s) }

func main() {
	s := source()
	t := T{f: d}
	sink(a(s, 3))
	sink(t.run(s))
	go e(c(s, 1))
}
`

func checkTraces(rep *lib.Report) {
	dir := lib.WorkDir(prop, fmt.Sprintf("traces-%d", os.Getpid()))
	defer os.RemoveAll(dir)
	lib.WriteProgram(dir, "c07p", map[string]string{"main.go": traceProg, "cfg.yaml": cfgYaml(nil)})
	prog, pkgs, err := lib.LoadSSA(dir, ssa.InstantiateGenerics, true, ".")
	if err != nil {
		rep.Fail("harness-load-traces", "trace program does not load: "+err.Error(), nil, true)
		return
	}
	b, _ := os.ReadFile(filepath.Join(dir, "cfg.yaml"))
	cfg, err := config.Load(filepath.Join(dir, "cfg.yaml"), b)
	if err != nil {
		rep.Fail("harness-cfg-traces", err.Error(), nil, true)
		return
	}
	// in-process run of the analysis whose termination is the question: watchdog
	type anaRes struct {
		res taint.AnalysisResult
		err error
	}
	anaCh := make(chan anaRes, 1)
	go func() {
		r, e := taint.Analyze(cfg, prog, pkgs)
		anaCh <- anaRes{r, e}
	}()
	var res taint.AnalysisResult
	select {
	case a := <-anaCh:
		res, err = a.res, a.err
	case <-time.After(180 * time.Second):
		rep.Fail("trace-program-diverges", "taint.Analyze did not return within 180 s on the 40-line recursive program of the trace correspondence (a/b/c mutually recursive, default configuration)", []byte(traceProg), false)
		return
	}
	if res.State == nil {
		rep.Fail("harness-analyze-traces", fmt.Sprintf("taint.Analyze returned no state: %v", err), nil, true)
		return
	}
	st := res.State
	// enumerate call nodes
	idx := map[*dataflow.CallNode]int{}
	var nodes []*dataflow.CallNode
	add := func(n *dataflow.CallNode) {
		if n == nil {
			return
		}
		if _, ok := idx[n]; !ok {
			idx[n] = -1
			nodes = append(nodes, n)
		}
	}
	for _, sm := range st.FlowGraph.Summaries {
		for _, m := range sm.Callees {
			for _, n := range m {
				add(n)
			}
		}
		for _, n := range sm.Callsites {
			add(n)
		}
	}
	sort.Slice(nodes, func(i, j int) bool { return nodes[i].LongID() < nodes[j].LongID() })
	for i, n := range nodes {
		idx[n] = i
	}
	var in strings.Builder
	fmt.Fprintf(&in, "ctxgraph %d\n", len(nodes))
	list := func(xs []int) string {
		if len(xs) == 0 {
			return "-"
		}
		sort.Ints(xs)
		var ss []string
		for _, x := range xs {
			ss = append(ss, fmt.Sprint(x))
		}
		return strings.Join(ss, ",")
	}
	for i, n := range nodes {
		var cs []int
		if g := n.Graph(); g != nil {
			for _, c := range g.Callsites {
				cs = append(cs, idx[c])
			}
		}
		fmt.Fprintf(&in, "callers %d %s\n", i, list(cs))
	}
	var entries []int
	if st.PointerAnalysis != nil {
		for _, e := range st.PointerAnalysis.CallGraph.Root.Out {
			if sm := st.FlowGraph.Summaries[e.Callee.Func]; sm != nil {
				for _, m := range sm.Callees {
					for _, n := range m {
						entries = append(entries, idx[n])
					}
				}
			}
		}
	}
	fmt.Fprintf(&in, "entry %s\n", list(entries))
	type ctxQ struct {
		node, limit int
		real        string
		count       int
	}
	var qs []ctxQ
	for _, limit := range []int{-1, 1, 2, 3, 5} {
		st.Config.MaxEntrypointContextSize = limit
		for i, n := range nodes {
			// in-process call of code whose termination is the question: watchdog (a diverging goroutine cannot be
			// stopped, but the driver can report and go on; it exits at the end of main)
			resCh := make(chan []*dataflow.CallStack, 1)
			go func() { resCh <- dataflow.GetAllCallingContexts(st, n) }()
			var stacks []*dataflow.CallStack
			select {
			case stacks = <-resCh:
			case <-time.After(60 * time.Second):
				rep.Fail("ctx-diverges", fmt.Sprintf("GetAllCallingContexts(%s) with max-entrypoint-context-size=%d did not return within 60 s on an %d-call-node program (theorem ctx_terminates bounds the model by numNodup; the real loop no longer stops)", n.LongID(), limit, len(nodes)), []byte(traceProg), false)
				return
			}
			var ss []string
			for _, s := range stacks {
				// a call stack (outermost first) -> the model's reversed stack (outermost call at the head)
				var ids []string
				for _, cn := range s.ToSlice() {
					ids = append(ids, fmt.Sprint(idx[cn]))
				}
				ss = append(ss, strings.Join(ids, "."))
			}
			sort.Strings(ss)
			l := limit
			if l < 0 {
				l = 0
			}
			qs = append(qs, ctxQ{i, limit, strings.Join(ss, ";"), len(ss)})
			fmt.Fprintf(&in, "ctx %d %d 100000\n", i, l)
		}
	}
	// lasso: random traces over the call nodes
	r := rand.New(rand.NewSource(lib.Seed()))
	type lq struct {
		labels string
		real   bool
	}
	var ls []lq
	nL := 400
	if lib.Thorough() {
		nL = 5000
	}
	for k := 0; k < nL && len(nodes) > 0; k++ {
		ln := 1 + r.Intn(7)
		first := nodes[r.Intn(len(nodes))]
		t := dataflow.NewNodeTree(first)
		labels := []string{label(first)}
		for j := 1; j < ln; j++ {
			n := nodes[r.Intn(min(len(nodes), 6))]
			t = t.Add(n)
			labels = append(labels, label(n))
		}
		ls = append(ls, lq{strings.Join(labels, " "), t.GetLassoHandle() != nil})
		fmt.Fprintf(&in, "lasso %s\n", strings.Join(labels, " "))
	}
	os.WriteFile(filepath.Join(dir, "oracle_in.txt"), []byte(in.String()), 0o644)
	out, err := lib.RunOracle("oracle_c07", []byte(in.String()))
	if err != nil || len(out) != len(qs)+len(ls) {
		rep.Fail("oracle-run-traces", fmt.Sprintf("oracle failed: %v (%d lines for %d expected)", err, len(out), len(qs)+len(ls)), nil, true)
		return
	}
	maxStacks := 0
	for i, q := range qs {
		var pops int
		var done int
		var results string
		fmt.Sscanf(out[i], "ctx pops=%d done=%d results=%s", &pops, &done, &results)
		key := ""
		if q.count > 1 {
			key = fmt.Sprintf("ctx:%d:%d", q.node, q.limit)
		}
		rep.Case(key)
		rep.Count(fmt.Sprintf("ctx:stacks<=%d", bucket2(q.count)))
		if q.count > maxStacks {
			maxStacks = q.count
		}
		// model stacks have the queried node LAST (bottom) and the outermost call FIRST, like the real ToSlice
		if results != q.real || done != 1 {
			rep.Fail(fmt.Sprintf("ctx-model:%d:%d", q.node, q.limit), fmt.Sprintf("GetAllCallingContexts(%s, limit %d) = {%s} but model ctxRun = {%s} (done=%d): theorem ctx_terminates no longer describes the code", nodes[q.node].LongID(), q.limit, q.real, results, done), []byte(in.String()), true)
		}
	}
	for i, q := range ls {
		want := "lasso 0"
		if q.real {
			want = "lasso 1"
		}
		rep.Case("lasso:" + q.labels)
		rep.Count("lasso:" + want)
		if out[len(qs)+i] != want {
			rep.Fail("lasso-model:"+q.labels, fmt.Sprintf("NodeTree.GetLassoHandle()!=nil is %v on trace [%s] but the model says %s", q.real, q.labels, out[len(qs)+i]), nil, true)
		}
	}
	rep.Extra["ctx_call_nodes"] = len(nodes)
	rep.Extra["ctx_queries"] = len(qs)
	rep.Extra["ctx_max_stacks"] = maxStacks
	rep.Extra["lasso_traces"] = len(ls)
}

var labelIDs = map[string]int{}

// label: GetLassoHandle compares Label.String(); name the equivalence classes.
func label(n *dataflow.CallNode) string {
	s := n.String()
	if _, ok := labelIDs[s]; !ok {
		labelIDs[s] = len(labelIDs)
	}
	return fmt.Sprintf("L%d", labelIDs[s])
}
