// Worker mode of the C07 driver: one child process analyses one program with a list of
// (analysis, configuration) jobs, in-process, through the same entry points cmd/argot uses.
// A separate process is needed because the analyses start goroutines (RunIntraProceduralPass,
// MapParallel, the report writer): a panic there cannot be recovered by the caller and kills
// the process — which is exactly the observable the property talks about.
//
// Protocol (append-only result file, one line per event, flushed immediately):
//   LOAD ok <ms> <user-functions> <user-instructions> | LOAD error <msg>
//   BEGIN <job>
//   END <job> ok|error|panic <ms> <message…>
// The parent attributes a death (exit status 2 = Go panic, killed = budget exceeded) to the job
// whose BEGIN has no END.
package main

import (
	"fmt"
	"os"
	"path/filepath"
	"runtime/debug"
	"strings"
	"time"

	"github.com/awslabs/ar-go-tools/analysis"
	"github.com/awslabs/ar-go-tools/analysis/backtrace"
	"github.com/awslabs/ar-go-tools/analysis/config"
	"github.com/awslabs/ar-go-tools/analysis/dataflow"
	"github.com/awslabs/ar-go-tools/analysis/defers"
	"github.com/awslabs/ar-go-tools/analysis/escape"
	"github.com/awslabs/ar-go-tools/analysis/maypanic"
	"github.com/awslabs/ar-go-tools/analysis/reachability"
	"github.com/awslabs/ar-go-tools/analysis/taint"
	"golang.org/x/tools/go/packages"
	"golang.org/x/tools/go/ssa"
	"golang.org/x/tools/go/ssa/ssautil"
)

// a job is "<analysis>" or "<analysis>@<config file name in the program dir>"
func workerMain(args []string) {
	if len(args) < 3 {
		fmt.Fprintln(os.Stderr, "usage: c07 -worker <progdir> <resultfile> <job>...")
		os.Exit(64)
	}
	dir, resFile, jobs := args[0], args[1], args[2:]
	// a worker must never outlive its driver, run for ever, or take the machine's memory:
	//  - exit when the parent goes away (the check script kills the driver on its own timeout)
	//  - hard lifetime limit
	//  - memory: the driver kills a worker whose resident set exceeds 6 GiB (a diverging traversal allocates
	//    without bound) and treats it like an exceeded budget
	ppid := os.Getppid()
	go func() {
		for {
			time.Sleep(2 * time.Second)
			if os.Getppid() != ppid {
				os.Exit(4)
			}
		}
	}()
	time.AfterFunc(40*time.Minute, func() { os.Exit(5) })
	debug.SetMemoryLimit(5 << 30) // soft; the hard limit is enforced by the driver, which watches the resident set
	res, err := os.OpenFile(resFile, os.O_APPEND|os.O_CREATE|os.O_WRONLY, 0o644)
	if err != nil {
		fmt.Fprintln(os.Stderr, err)
		os.Exit(64)
	}
	emit := func(format string, a ...any) {
		s := fmt.Sprintf(format, a...)
		s = strings.ReplaceAll(s, "\n", " ⏎ ")
		if len(s) > 600 {
			s = s[:600]
		}
		res.WriteString(s + "\n")
		res.Sync()
	}
	// the analyses print to stdout; keep the terminal clean
	devnull, _ := os.OpenFile(os.DevNull, os.O_WRONLY, 0)
	os.Stdout = devnull

	t0 := time.Now()
	pcfg := &packages.Config{Mode: analysis.PkgLoadMode, Tests: false, Dir: dir,
		Env: append(os.Environ(), "GOFLAGS=-mod=mod", "GOPROXY=off", "GOSUMDB=off", "GOTOOLCHAIN=local", "GOWORK=off")}
	load := func() (*ssa.Program, []*packages.Package, error) {
		return analysis.LoadProgram(analysis.LoadProgramOptions{BuildMode: ssa.InstantiateGenerics, ApplyRewrites: true, PackageConfig: pcfg}, []string{"."})
	}
	prog, pkgs, err := load()
	if err != nil {
		emit("LOAD error %v", err)
		os.Exit(0)
	}
	nf, ni := 0, 0
	for f := range ssautil.AllFunctions(prog) {
		if f.Pkg != nil && f.Pkg.Pkg.Path() == "c07p" || (f.Pkg == nil && f.Parent() != nil) {
			nf++
			for _, b := range f.Blocks {
				ni += len(b.Instrs)
			}
		}
	}
	emit("LOAD ok %d %d %d", time.Since(t0).Milliseconds(), nf, ni)
	// instruction kinds without a case in lang.InstrSwitch (Spec.genericOnlyKinds): where do they occur?
	mcGround, mcGeneric := 0, 0
	for f := range ssautil.AllFunctions(prog) {
		generic := f.TypeParams().Len() > 0 && len(f.TypeArgs()) == 0
		for p := f.Parent(); p != nil && !generic; p = p.Parent() {
			generic = p.TypeParams().Len() > 0 && len(p.TypeArgs()) == 0
		}
		for _, b := range f.Blocks {
			for _, ins := range b.Instrs {
				if _, ok := ins.(*ssa.MultiConvert); ok {
					if generic {
						mcGeneric++
					} else {
						mcGround++
					}
				}
			}
		}
	}
	nBound := 0
	for f := range ssautil.AllFunctions(prog) {
		if strings.HasSuffix(f.Name(), "$bound") && f.Pkg == nil || (strings.HasSuffix(f.Name(), "$bound") && f.Pkg != nil && f.Pkg.Pkg.Path() == "c07p") {
			nBound++
		}
	}
	emit("KINDS %d %d %d", mcGround, mcGeneric, nBound)

	for _, job := range jobs {
		name, cfgFile, _ := strings.Cut(job, "@")
		emit("BEGIN %s", job)
		start := time.Now()
		status, msg := runJob(name, dir, cfgFile, prog, pkgs, pcfg)
		emit("END %s %s %d %s", job, status, time.Since(start).Milliseconds(), msg)
	}
	os.Exit(0)
}

func loadCfg(dir, cfgFile string) (*config.Config, error) {
	if cfgFile == "" {
		c := config.NewDefault()
		c.LogLevel = int(config.ErrLevel)
		return c, nil
	}
	p := filepath.Join(dir, cfgFile)
	b, err := os.ReadFile(p)
	if err != nil {
		return nil, err
	}
	return config.Load(p, b)
}

func runJob(name, dir, cfgFile string, prog *ssa.Program, pkgs []*packages.Package, pcfg *packages.Config) (status, msg string) {
	defer func() {
		if r := recover(); r != nil {
			status = "panic"
			msg = fmt.Sprintf("%v || %s", r, firstRepoFrames(string(debug.Stack())))
			// if this panic is only the echo of a worker goroutine that is itself panicking (MapParallel's
			// collector missing a result), let that goroutine bring the process down before END is written, so
			// that the parent attributes the crash dump to this job
			time.Sleep(1500 * time.Millisecond)
		}
	}()
	cfg, err := loadCfg(dir, cfgFile)
	if err != nil {
		return "error", "config: " + err.Error() // an error is an allowed outcome
	}
	switch name {
	case "taint":
		res, err := taint.Analyze(cfg, prog, pkgs)
		if err != nil {
			return "error", err.Error()
		}
		return "ok", fmt.Sprintf("sinks=%d", len(res.TaintFlows.Sinks))
	case "backtrace":
		res, err := backtrace.Analyze(config.NewLogGroup(cfg), cfg, prog, pkgs)
		if err != nil {
			return "error", err.Error()
		}
		return "ok", fmt.Sprintf("traces=%d", len(res.Traces))
	case "escape":
		st, err := dataflow.NewInitializedAnalyzerState(prog, pkgs, config.NewLogGroup(cfg), cfg)
		if err != nil {
			return "error", err.Error()
		}
		if err := escape.InitializeEscapeAnalysisState(st); err != nil {
			return "error", err.Error()
		}
		// ask for the locality of every summarized reachable function in the arbitrary context, as the
		// taint visitor does when it enters a function without context
		n := 0
		for f := range st.ReachableFunctions() {
			if st.EscapeAnalysisState.IsSummarized(f) {
				ctx := st.EscapeAnalysisState.ComputeArbitraryContext(f)
				loc, _ := st.EscapeAnalysisState.ComputeInstructionLocalityAndCallsites(f, ctx)
				n += len(loc)
			}
		}
		return "ok", fmt.Sprintf("locality=%d", n)
	case "reachability":
		st, err := dataflow.NewAnalyzerState(prog, pkgs, config.NewLogGroup(cfg), cfg, []func(*dataflow.AnalyzerState){})
		if err != nil {
			return "error", err.Error()
		}
		r := reachability.FindReachable(st, false, false, nil)
		reachability.ReachableFunctionsAnalysis(st, false, false, true)
		return "ok", fmt.Sprintf("reachable=%d", len(r))
	case "defers":
		defers.AnalyzeProgram(prog, config.NewLogGroup(cfg))
		return "ok", ""
	case "maypanic":
		maypanic.MayPanicAnalyzer(prog, nil, true)
		return "ok", ""
	}
	return "error", "unknown job " + name
}

// firstRepoFrames extracts the innermost frames that belong to the repository under verification.
func firstRepoFrames(stack string) string {
	var out []string
	lines := strings.Split(stack, "\n")
	for i := 0; i+1 < len(lines); i++ {
		l := lines[i]
		if strings.HasPrefix(l, "github.com/awslabs/ar-go-tools/") && !strings.Contains(l, "verif/harness") {
			fn := l
			if j := strings.LastIndex(fn, "("); j > 0 {
				fn = fn[:j]
			}
			fn = strings.TrimPrefix(fn, "github.com/awslabs/ar-go-tools/")
			loc := strings.TrimSpace(lines[i+1])
			if j := strings.Index(loc, " +0x"); j > 0 {
				loc = loc[:j]
			}
			if j := strings.Index(loc, "/analysis/"); j >= 0 {
				loc = loc[j+1:]
			} else if j := strings.Index(loc, "/internal/"); j >= 0 {
				loc = loc[j+1:]
			}
			out = append(out, fn+" "+loc)
			if len(out) == 3 {
				break
			}
		}
	}
	return strings.Join(out, " <- ")
}
