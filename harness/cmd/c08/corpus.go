package main

// corpus.go: the fixed corpus of known-bad inputs (run first) and the classification of a criterion
// failure into the *specific shapes* of the recorded findings.  A failure of any other shape stays a
// VIOLATION.

import (
	"fmt"
	"os"
	"path/filepath"
	"regexp"
	"sort"
	"strings"

	"github.com/awslabs/ar-go-tools/analysis/dataflow"
	"golang.org/x/tools/go/ssa"
	"golang.org/x/tools/go/ssa/ssautil"
	"verif/harness/lib"
	"verif/harness/taintrun"
)

// keys of the recorded findings (known_findings.json), one per defect shape
var shapeKey = map[string]string{
	"F2":   "F2:user-function-named-like-handled-builtin",
	"F3":   "F3:min-max-with-arity-other-than-2",
	"C08a": "C08a:return-edge-index-beyond-number-of-return-instructions",
	"C08b": "C08b:extract-of-commaok-tuple-drops-call-result-index",
	"C08c": "C08c:call-argument-edge-only-to-first-position-of-a-repeated-value",
}

var shapeWhat = map[string]string{
	"F2":   "a call to a user function named like a handled builtin (clear, close, real, ...) gets no call node and no call-result mark: its result carries no origin (builtins.go matches Value.Name())",
	"F3":   "min/max with a number of operands other than 2 is declared handled (no call node) but no operand is transferred to the result",
	"C08a": "addReturnEdge compares the tuple index with the number of return instructions: edges into result #k are dropped when k > number of return statements",
	"C08b": "extract #0 of a comma-ok TypeAssert/receive tuple filters marks by tuple index: a call-result mark with index != 0 does not pass",
	"C08c": "addCallArgEdge locates the argument node by SSA value (FindArg): when one value is passed at two positions of a call only the first argument node gets the incoming edges",
}

var handledNames = map[string]bool{"ssa:wrapnilchk": true, "append": true, "len": true, "close": true, "delete": true,
	"println": true, "print": true, "recover": true, "cap": true, "complex": true, "imag": true, "real": true,
	"min": true, "max": true, "clear": true, "copy": true}

type failure struct {
	rule string
	kv   map[string]string
	raw  string
}

func parseFailures(line string) []failure {
	parts := strings.SplitN(line, " ", 4)
	if len(parts) < 4 {
		return []failure{{rule: "?", raw: line, kv: map[string]string{}}}
	}
	var out []failure
	for _, f := range strings.Split(parts[3], " ; ") {
		f = strings.TrimSpace(f)
		ws := strings.Fields(f)
		if len(ws) == 0 {
			continue
		}
		out = append(out, failure{rule: ws[0], kv: fields(f), raw: f})
	}
	return out
}

func atoi(s string) int {
	var i int
	fmt.Sscan(s, &i)
	return i
}

// classify returns the id of the recorded finding whose exact shape this failure has, or "".
func (d *fnDump) classifyFailure(f failure) string {
	switch f.rule {
	case "edge":
		at, dst := atoi(f.kv["at"]), uint32(atoi(f.kv["dst"]))
		for _, t := range d.targets {
			if t.loc != at {
				continue
			}
			for _, n := range t.nodes {
				if n != dst {
					continue
				}
				if t.kind == "return" && t.pos > d.nReturns {
					return "C08a"
				}
				if t.kind == "arg" {
					for _, t0 := range d.targets {
						if t0.loc == at && t0.kind == "arg" && t0.val == t.val && t0.pos < t.pos {
							return "C08c"
						}
					}
				}
			}
		}
	case "xfer":
		at := atoi(f.kv["at"])
		if at < 0 || at >= len(d.instrs) {
			return ""
		}
		switch x := d.instrs[at].(type) {
		case *ssa.Extract:
			if x.Index != 0 {
				return ""
			}
			commaOk := false
			switch t := x.Tuple.(type) {
			case *ssa.TypeAssert:
				commaOk = t.CommaOk
			case *ssa.UnOp:
				commaOk = t.CommaOk
			}
			if !commaOk {
				return ""
			}
			m := atoi(f.kv["mark"])
			for _, o := range d.origins {
				if o.mark == m && o.idx >= 1 {
					return "C08b"
				}
			}
		case ssa.CallInstruction:
			if name, ok := isRealBuiltin(x.Common()); ok && (name == "min" || name == "max") && len(x.Common().Args) != 2 {
				return "F3"
			}
		}
	case "init":
		loc := atoi(f.kv["loc"])
		if loc < 0 || loc >= len(d.instrs) {
			return ""
		}
		if c, ok := d.instrs[loc].(*ssa.Call); ok {
			if _, real := isRealBuiltin(c.Common()); !real && c.Common().Value != nil && !c.Common().IsInvoke() &&
				handledNames[c.Common().Value.Name()] {
				return "F2"
			}
		}
	}
	return ""
}

var missedRe = regexp.MustCompile(`//\s*(?:missed \(|reported \(was missed: )([A-Za-z0-9]+)`)
var reportedRe = regexp.MustCompile(`//\s*reported`)

// runCorpus replays the recorded inputs: end to end on the real taint analysis (+ native run) and
// through the criterion machinery.  A sink line marked `// missed (ID)` is an open finding; one marked
// `// reported (was missed: ID, repaired by <commit>)` is a regression case of a repaired finding: in both
// cases a flow that is not reported (or a summary whose criterion failure has the shape ID) is reported
// under the finding's key — KNOWN-FINDING while the entry of known_findings.json is open, VIOLATION
// once it is marked fixed.
func runCorpus(rep *lib.Report) {
	root := filepath.Join(lib.Root(), "corpus", "findings")
	for _, name := range []string{"F02_F03_builtins", "C08a_return_index", "C08b_commaok_extract", "C08c_dup_arg_value"} {
		srcB, err := os.ReadFile(filepath.Join(root, name, "main.go"))
		if err != nil {
			rep.Fail("corpus-missing:"+name, "replay input missing: "+err.Error(), nil, true)
			continue
		}
		src := string(srcB)
		dir := workDir("corpus_"+name)
		lib.WriteProgram(dir, "vcorpus", map[string]string{"main.go": src})
		missed := map[int]string{}
		reported := map[int]bool{}
		nSinks := 0
		for i, l := range strings.Split(src, "\n") {
			if m := missedRe.FindStringSubmatch(l); m != nil {
				missed[i+1] = m[1]
				nSinks++
			} else if reportedRe.MatchString(l) {
				reported[i+1] = true
				nSinks++
			}
		}
		// native ground truth: every sink prints the marker
		out, nerr := lib.GoRun(dir, 30)
		native := strings.Count(out, "tainted")
		if nerr != nil || native != nSinks {
			rep.Fail("corpus-native:"+name, fmt.Sprintf("native run of %s: %v, %d marker lines for %d sinks", name, nerr, native, nSinks), []byte(out), true)
			continue
		}
		os.Remove(filepath.Join(dir, "prog.bin"))
		// the real taint analysis
		res := taintrun.Run(dir, taintrun.Options{SourceRe: "^source", SinkRe: "^sink$"})
		if !res.OK() {
			rep.Fail("corpus-taint:"+name, fmt.Sprintf("taint analysis did not run on %s: %v %s", name, res.LoadErr, res.Panic), nil, true)
			continue
		}
		got := map[int]bool{}
		for _, f := range res.Flows {
			got[f.SinkLine] = true
		}
		still := map[string]bool{}
		for line, id := range missed {
			if got[line] {
				rep.Count("corpus:now-reported:" + id)
			} else {
				still[id] = true
			}
		}
		for line := range reported {
			if !got[line] {
				rep.Fail(fmt.Sprintf("corpus-control:%s:%d", name, line),
					fmt.Sprintf("control flow of %s line %d (marked `reported`) is no longer reported by the taint analysis", name, line), srcB, false)
			}
		}
		// the same program through the criterion
		flagged := map[string]bool{}
		if res.Prog != nil {
			var state *dataflow.AnalyzerState
			var serr error
			quiet(func() { state, serr = newState(res.Prog, res.Pkgs, false) })
			if serr == nil {
				var fns []*ssa.Function
				for f := range ssautil.AllFunctions(res.Prog) {
					if f.Pkg != nil && f.Pkg.Pkg.Path() == "vcorpus" && f.Blocks != nil && f.Name() != "init" {
						fns = append(fns, f)
					}
				}
				sort.Slice(fns, func(i, j int) bool { return fns[i].String() < fns[j].String() })
				b := &batch{name: "corpus-" + name, srcs: map[string]string{}}
				b.dumps = analyzeFunctions(state, fns, "c")
				or := runOracle(rep, b, dir)
				for _, d := range b.dumps {
					rep.Case("")
					if d.err != nil || d.skipped != "" {
						continue
					}
					line := or[d]
					if strings.HasPrefix(line, "ok ") {
						continue
					}
					unknown := false
					for _, f := range parseFailures(line) {
						if id := d.classifyFailure(f); id != "" {
							flagged[id] = true
						} else {
							unknown = true
						}
					}
					if unknown {
						handleFailure(rep, b, d, line)
					}
				}
			}
		}
		ids := map[string]bool{}
		for id := range still {
			ids[id] = true
		}
		for id := range flagged {
			ids[id] = true
		}
		for id := range ids {
			switch {
			case flagged[id]:
				rep.Count("corpus:re-established:" + id)
				e2e := "native run reaches the sink, the taint analysis does not report it"
				if !still[id] {
					e2e = "the taint analysis reports the end-to-end flow, but the function summary still lacks it"
				}
				rep.Fail(shapeKey[id], shapeWhat[id]+" — replay corpus/findings/"+name+": "+e2e+"; Intra.closed is false on the real summary", srcB, false)
			default:
				rep.Fail("corpus-blind:"+id, "the flow of "+name+" marked missed ("+id+") is still missed by the taint analysis but Intra.closed did not flag its shape: the criterion machinery no longer sees this defect", srcB, true)
			}
		}
	}
}
