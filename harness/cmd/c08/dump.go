package main

// dump.go: runs the REAL intra-procedural pass on one function and serialises
//   - the first-order image of its SSA (instruction-level CFG, kinds, operands),
//   - the origins (parameters, free variables, call results) and the boundary targets
//     (returned values, call arguments, closure bindings, If conditions) with their summary nodes,
//   - the REAL final state (FlowInformation.MarkedValues, origin marks only),
//   - the REAL summary edges leaving the origin nodes,
// in the line protocol of lean/Oracle/C08.lean.

import (
	"fmt"
	"go/token"
	"go/types"
	"sort"
	"strings"

	"github.com/awslabs/ar-go-tools/analysis/dataflow"
	"github.com/awslabs/ar-go-tools/analysis/lang"
	"golang.org/x/tools/go/ssa"
)

type markKey struct {
	typ  dataflow.MarkType
	node ssa.Node
	idx  int
}

type originInfo struct {
	mark  int
	val   int
	loc   int
	idx   int // -1 = none
	nodes []uint32
	desc  string
}

type targetInfo struct {
	loc   int
	val   int
	nodes []uint32
	kind  string
	pos   int // result index / argument position / binding position
}

type fnDump struct {
	fn       *ssa.Function
	text     string // oracle record
	nInstr   int
	nFacts   int
	kinds    map[string]int // instruction kinds present
	origins  []originInfo
	targets  []targetInfo
	instrs   []ssa.Instruction
	valName  map[int]string
	err      error
	skipped  string
	nOrigins int
	nReturns int // number of Return instructions
	// memory rows
	nStores, nLoads, nAliasPairs, nMemContainers, nMemNoQuery int
	memLine                                                   string // oracle verdict on closedMem
	vidOf    func(ssa.Value) int
}

// isRealBuiltin: the callee is a language builtin (the *ssa.Builtin value), whatever its name.
func isRealBuiltin(c *ssa.CallCommon) (string, bool) {
	if b, ok := c.Value.(*ssa.Builtin); ok {
		return b.Name(), true
	}
	return "", false
}

// instruction kind string + operands (value list) + aux as the model wants them.
func classify(ins ssa.Instruction) (kind string, ops []ssa.Value, aux int) {
	switch x := ins.(type) {
	case *ssa.BinOp:
		return "binop", []ssa.Value{x.X, x.Y}, 0
	case *ssa.UnOp:
		return "unop", []ssa.Value{x.X}, 0
	case *ssa.Convert:
		return "convert", []ssa.Value{x.X}, 0
	case *ssa.ChangeType:
		return "changeType", []ssa.Value{x.X}, 0
	case *ssa.ChangeInterface:
		return "changeInterface", []ssa.Value{x.X}, 0
	case *ssa.MakeInterface:
		return "makeInterface", []ssa.Value{x.X}, 0
	case *ssa.SliceToArrayPointer:
		return "sliceToArrayPtr", []ssa.Value{x.X}, 0
	case *ssa.Field:
		return "field", []ssa.Value{x.X}, 0
	case *ssa.FieldAddr:
		return "fieldAddr", []ssa.Value{x.X}, 0
	case *ssa.Index:
		return "index", []ssa.Value{x.X, x.Index}, 0
	case *ssa.IndexAddr:
		return "indexAddr", []ssa.Value{x.X, x.Index}, 0
	case *ssa.Lookup:
		return "lookup", []ssa.Value{x.X, x.Index}, 0
	case *ssa.Phi:
		return "phi", append([]ssa.Value(nil), x.Edges...), 0
	case *ssa.Extract:
		return "extract", []ssa.Value{x.Tuple}, x.Index
	case *ssa.TypeAssert:
		return "typeAssert", []ssa.Value{x.X}, 0
	case *ssa.Slice:
		return "slice", []ssa.Value{x.X, x.Low, x.High, x.Max}, 0
	case *ssa.Range:
		return "range", []ssa.Value{x.X}, 0
	case *ssa.Next:
		return "next", []ssa.Value{x.Iter}, 0
	case *ssa.Select:
		var chans []ssa.Value
		for _, st := range x.States {
			if st.Dir == types.RecvOnly {
				chans = append(chans, st.Chan)
			}
		}
		return "select", chans, 0
	case *ssa.Return:
		return "ret", append([]ssa.Value(nil), x.Results...), 0
	case *ssa.If:
		return "ifc", []ssa.Value{x.Cond}, 0
	case *ssa.MakeClosure:
		return "makeClosure", append([]ssa.Value(nil), x.Bindings...), 0
	case ssa.CallInstruction:
		c := x.Common()
		if name, ok := isRealBuiltin(c); ok {
			return "builtin:" + name, append([]ssa.Value(nil), c.Args...), 0
		}
		// the builtin error interface's Error() is handled like a builtin by the pass
		if c.IsInvoke() && c.Method.Name() == "Error" && len(c.Args) == 0 && isErrorIface(c.Value.Type()) {
			return "builtin:Error", []ssa.Value{c.Value}, 0
		}
		return "call", lang.GetArgs(x), 0
	}
	return "other", nil, 0
}

func isErrorIface(t types.Type) bool {
	return types.Identical(t, types.Universe.Lookup("error").Type())
}

func joinInts(xs []int) string {
	if len(xs) == 0 {
		return "-"
	}
	var b strings.Builder
	for i, x := range xs {
		if i > 0 {
			b.WriteByte(',')
		}
		fmt.Fprintf(&b, "%d", x)
	}
	return b.String()
}

func joinU32(xs []uint32) string {
	if len(xs) == 0 {
		return "-"
	}
	var b strings.Builder
	for i, x := range xs {
		if i > 0 {
			b.WriteByte(',')
		}
		fmt.Fprintf(&b, "%d", x)
	}
	return b.String()
}

// limits for one function (the state has nInstr × nValues cells)
var maxInstr, maxFacts = 1500, 3000000

func dumpFunction(state *dataflow.AnalyzerState, fn *ssa.Function, id string, uid uint32) (d *fnDump) {
	d = &fnDump{fn: fn, kinds: map[string]int{}, valName: map[int]string{}}
	defer func() {
		if p := recover(); p != nil {
			d.err = fmt.Errorf("panic in the intra-procedural pass: %v", p)
		}
	}()
	if len(fn.Blocks) == 0 || len(fn.Blocks[0].Instrs) == 0 {
		d.skipped = "no-body"
		return d
	}
	// flat instruction numbering (DebugRef is ignored by the pass)
	flat := map[ssa.Instruction]int{}
	first := make([]int, len(fn.Blocks))
	for _, b := range fn.Blocks {
		first[b.Index] = -1
		for _, ins := range b.Instrs {
			if _, dbg := ins.(*ssa.DebugRef); dbg {
				continue
			}
			if first[b.Index] < 0 {
				first[b.Index] = len(d.instrs)
			}
			flat[ins] = len(d.instrs)
			d.instrs = append(d.instrs, ins)
		}
	}
	d.nInstr = len(d.instrs)
	if d.nInstr > maxInstr {
		d.skipped = "too-large"
		return d
	}
	var fi *dataflow.FlowInformation
	res, err := dataflow.IntraProceduralAnalysis(state, fn, true, uid,
		func(*dataflow.AnalyzerState, ssa.Node) bool { return false },
		func(s *dataflow.IntraAnalysisState) { fi = s.FlowInfo() })
	if err != nil {
		d.err = err
		return d
	}
	sg := res.Summary
	if fi == nil || sg == nil {
		d.err = fmt.Errorf("no flow information captured")
		return d
	}
	vid := func(v ssa.Value) int {
		if v == nil {
			return 0
		}
		if id, ok := fi.ValueID[v]; ok {
			return int(id) + 1
		}
		return 0
	}
	d.vidOf = vid
	var sb strings.Builder
	fmt.Fprintf(&sb, "fn %s\n", id)
	// instructions
	for i, ins := range d.instrs {
		kind, ops, aux := classify(ins)
		d.kinds[kind]++
		if kind == "unop" {
			d.kinds["unop:"+ins.(*ssa.UnOp).Op.String()]++
		}
		if kind == "extract" {
			d.kinds[fmt.Sprintf("extract-of-%T", ins.(*ssa.Extract).Tuple)]++
		}
		r := 0
		if v, ok := ins.(ssa.Value); ok {
			r = vid(v)
			d.valName[r] = v.Name()
		}
		var os []int
		for _, o := range ops {
			os = append(os, vid(o))
		}
		var ss []int
		b := ins.Block()
		if flat[ins] == first[b.Index]+countReal(b)-1 { // last real instruction of the block
			for _, s := range b.Succs {
				if first[s.Index] >= 0 {
					ss = append(ss, first[s.Index])
				}
			}
		} else {
			ss = []int{i + 1}
		}
		fmt.Fprintf(&sb, "i %s %d %s %d %s\n", kind, r, joinInts(os), aux, joinInts(ss))
	}
	// origins
	marks := map[markKey]int{}
	addOrigin := func(k markKey, v ssa.Value, loc int, nodes []uint32, desc string) {
		id := len(marks) + 1
		marks[k] = id
		d.origins = append(d.origins, originInfo{mark: id, val: vid(v), loc: loc, idx: k.idx, nodes: nodes, desc: desc})
	}
	for _, p := range fn.Params {
		var ns []uint32
		if n, ok := sg.Params[p]; ok {
			ns = append(ns, n.ID())
		}
		d.valName[vid(p)] = p.Name()
		addOrigin(markKey{dataflow.Parameter, p, -1}, p, 0, ns, "param "+p.Name())
	}
	for _, fv := range fn.FreeVars {
		var ns []uint32
		if n, ok := sg.FreeVars[fv]; ok {
			ns = append(ns, n.ID())
		}
		d.valName[vid(fv)] = fv.Name()
		addOrigin(markKey{dataflow.FreeVar, fv, -1}, fv, 0, ns, "freevar "+fv.Name())
	}
	for i, ins := range d.instrs {
		c, ok := ins.(*ssa.Call)
		if !ok {
			continue
		}
		if k, _, _ := classify(ins); k != "call" {
			continue
		}
		var ns []uint32
		for _, cn := range sg.Callees[c] {
			ns = append(ns, cn.ID())
		}
		sort.Slice(ns, func(a, b int) bool { return ns[a] < ns[b] })
		n := c.Common().Signature().Results().Len()
		for k := 0; k < n; k++ {
			addOrigin(markKey{dataflow.CallReturn, c, k}, c, i, ns, fmt.Sprintf("call %s #%d", c.Name(), k))
		}
	}
	d.nOrigins = len(d.origins)
	for _, o := range d.origins {
		ix := "-"
		if o.idx >= 0 {
			ix = fmt.Sprint(o.idx)
		}
		fmt.Fprintf(&sb, "o %d %d %d %s %s\n", o.mark, o.val, o.loc, ix, joinU32(o.nodes))
	}
	// targets
	for i, ins := range d.instrs {
		switch x := ins.(type) {
		case *ssa.Return:
			d.nReturns++
			for k, r := range x.Results {
				var ns []uint32
				if rn := sg.Returns[x]; k < len(rn) && rn[k] != nil {
					ns = append(ns, rn[k].ID())
				}
				d.targets = append(d.targets, targetInfo{i, vid(r), ns, "return", k})
			}
		case *ssa.If:
			var ns []uint32
			if n, ok := sg.Ifs[x]; ok {
				ns = append(ns, n.ID())
			}
			d.targets = append(d.targets, targetInfo{i, vid(x.Cond), ns, "if", 0})
		case *ssa.MakeClosure:
			cn := sg.CreatedClosures[x]
			for k, b := range x.Bindings {
				var ns []uint32
				if cn != nil && k < len(cn.BoundVars()) {
					ns = append(ns, cn.BoundVars()[k].ID())
				}
				d.targets = append(d.targets, targetInfo{i, vid(b), ns, "binding", k})
			}
		case ssa.CallInstruction:
			if k, _, _ := classify(ins); k != "call" {
				continue
			}
			for pos, a := range lang.GetArgs(x) {
				var ns []uint32
				for _, cn := range sg.Callees[x] {
					if pos < len(cn.Args()) {
						ns = append(ns, cn.Args()[pos].ID())
					}
				}
				sort.Slice(ns, func(a, b int) bool { return ns[a] < ns[b] })
				d.targets = append(d.targets, targetInfo{i, vid(a), ns, "arg", pos})
			}
		}
	}
	for _, t := range d.targets {
		fmt.Fprintf(&sb, "t %d %d %s\n", t.loc, t.val, joinU32(t.nodes))
	}
	// real final state, origin marks only
	n := int(fi.NumValues)
	type fact struct{ v, m int }
	for i, ins := range d.instrs {
		iid, ok := fi.InstrID[ins]
		if !ok {
			continue
		}
		var fs []fact
		base := int(iid) * n
		for v := 0; v < n; v++ {
			av := fi.MarkedValues[base+v]
			if av == nil {
				continue
			}
			for _, mp := range av.AllMarks() {
				m := mp.Mark
				if m.Label != "" {
					continue
				}
				ix := -1
				if m.Index.Kind == dataflow.ReturnedTupleIndex {
					ix = m.Index.Value
				}
				if id, ok := marks[markKey{m.Type, m.Node, ix}]; ok {
					fs = append(fs, fact{v + 1, id})
				}
			}
		}
		if len(fs) == 0 {
			continue
		}
		sort.Slice(fs, func(a, b int) bool {
			if fs[a].v != fs[b].v {
				return fs[a].v < fs[b].v
			}
			return fs[a].m < fs[b].m
		})
		d.nFacts += len(fs)
		if d.nFacts > maxFacts {
			d.skipped = "state-too-large"
			return d
		}
		fmt.Fprintf(&sb, "s %d ", i)
		prev := fact{-1, -1}
		firstOut := true
		for _, f := range fs {
			if f == prev {
				continue
			}
			prev = f
			if !firstOut {
				sb.WriteByte(',')
			}
			firstOut = false
			fmt.Fprintf(&sb, "%d:%d", f.v, f.m)
		}
		sb.WriteByte('\n')
	}
	// real edges out of the origin nodes
	emit := func(src dataflow.GraphNode) {
		type e struct{ d, i int }
		var es []e
		for dst, infos := range src.Out() {
			for _, info := range infos {
				ix := 0
				if info.Index >= 0 {
					ix = info.Index + 1
				}
				es = append(es, e{int(dst.ID()), ix})
			}
		}
		sort.Slice(es, func(a, b int) bool {
			if es[a].d != es[b].d {
				return es[a].d < es[b].d
			}
			return es[a].i < es[b].i
		})
		for _, x := range es {
			fmt.Fprintf(&sb, "e %d %d %d\n", src.ID(), x.d, x.i)
		}
	}
	for _, p := range fn.Params {
		if nd, ok := sg.Params[p]; ok {
			emit(nd)
		}
	}
	for _, fv := range fn.FreeVars {
		if nd, ok := sg.FreeVars[fv]; ok {
			emit(nd)
		}
	}
	for _, ins := range d.instrs {
		if c, ok := ins.(*ssa.Call); ok {
			var cns []*dataflow.CallNode
			for _, cn := range sg.Callees[c] {
				cns = append(cns, cn)
			}
			sort.Slice(cns, func(a, b int) bool { return cns[a].ID() < cns[b].ID() })
			for _, cn := range cns {
				emit(cn)
			}
		}
	}
	d.memRows(state, fi, flat, &sb)
	sb.WriteString("go\n")
	d.text = sb.String()
	return d
}

// memRows emits the memory rows of lean/Argot/Model/IntraMem.lean: one store row per Store / MapUpdate / Send /
// select-send (and one per container the address was computed from: FieldAddr.X, IndexAddr.X, Slice.X — what
// markValue marks on top of the address), one load row per UnOp(*), UnOp(<-), Lookup, Index, Range, select-receive,
// and for each store address the values of the function whose REAL pointer.Pointer (state.PointerAnalysis.Queries)
// MayAlias the address's.
func (d *fnDump) memRows(state *dataflow.AnalyzerState, fi *dataflow.FlowInformation, flat map[ssa.Instruction]int, sb *strings.Builder) {
	vid := d.vidOf
	type srow struct {
		loc  int
		addr ssa.Value
		vals []ssa.Value
	}
	var stores []srow
	addStore := func(loc int, addr ssa.Value, vals ...ssa.Value) {
		stores = append(stores, srow{loc, addr, vals})
		// containers of the address
		for c, n := addr, 0; n < 8; n++ {
			switch x := c.(type) {
			case *ssa.FieldAddr:
				c = x.X
			case *ssa.IndexAddr:
				c = x.X
			case *ssa.Slice:
				c = x.X
			default:
				return
			}
			stores = append(stores, srow{loc, c, vals})
			d.nMemContainers++
		}
	}
	for i, ins := range d.instrs {
		switch x := ins.(type) {
		case *ssa.Store:
			addStore(i, x.Addr, x.Val)
			d.kinds["mem:store"]++
		case *ssa.MapUpdate:
			addStore(i, x.Map, x.Key, x.Value)
			d.kinds["mem:mapupdate"]++
		case *ssa.Send:
			addStore(i, x.Chan, x.X)
			d.kinds["mem:send"]++
		case *ssa.Select:
			for _, st := range x.States {
				if st.Dir == types.SendOnly {
					addStore(i, st.Chan, st.Send)
					d.kinds["mem:select-send"]++
				} else if vid(st.Chan) != 0 {
					fmt.Fprintf(sb, "ml %d %d %d\n", i, vid(st.Chan), vid(x))
					d.nLoads++
				}
			}
		case *ssa.UnOp:
			if (x.Op == token.MUL || x.Op == token.ARROW) && vid(x.X) != 0 {
				fmt.Fprintf(sb, "ml %d %d %d\n", i, vid(x.X), vid(x))
				d.nLoads++
			}
		case *ssa.Lookup:
			if vid(x.X) != 0 {
				fmt.Fprintf(sb, "ml %d %d %d\n", i, vid(x.X), vid(x))
				d.nLoads++
			}
		case *ssa.Index:
			if vid(x.X) != 0 {
				fmt.Fprintf(sb, "ml %d %d %d\n", i, vid(x.X), vid(x))
				d.nLoads++
			}
		case *ssa.Range:
			if vid(x.X) != 0 {
				fmt.Fprintf(sb, "ml %d %d %d\n", i, vid(x.X), vid(x))
				d.nLoads++
			}
		}
	}
	// values of the function that have a direct pointer query, in id order
	type pv struct {
		id int
		v  ssa.Value
	}
	var pvs []pv
	for v, id := range fi.ValueID {
		if _, ok := state.PointerAnalysis.Queries[v]; ok {
			pvs = append(pvs, pv{int(id) + 1, v})
		}
	}
	sort.Slice(pvs, func(a, b int) bool { return pvs[a].id < pvs[b].id })
	done := map[int]bool{}
	for _, r := range stores {
		a := vid(r.addr)
		if a == 0 {
			continue
		}
		var vs []int
		for _, v := range r.vals {
			if id := vid(v); id != 0 {
				vs = append(vs, id)
			}
		}
		fmt.Fprintf(sb, "ms %d %d %s\n", r.loc, a, joinInts(vs))
		d.nStores++
		if done[a] {
			continue
		}
		done[a] = true
		pa, ok := state.PointerAnalysis.Queries[r.addr]
		if !ok {
			d.nMemNoQuery++
			continue
		}
		var bs []int
		for _, q := range pvs {
			if q.id != a && pa.MayAlias(state.PointerAnalysis.Queries[q.v]) {
				bs = append(bs, q.id)
			}
		}
		d.nAliasPairs += len(bs)
		fmt.Fprintf(sb, "ma %d %s\n", a, joinInts(bs))
	}
}

func countReal(b *ssa.BasicBlock) int {
	n := 0
	for _, ins := range b.Instrs {
		if _, dbg := ins.(*ssa.DebugRef); !dbg {
			n++
		}
	}
	return n
}

// describeInstr renders instruction i of a dumped function for replay files.
func (d *fnDump) describeInstr(i int) string {
	if i < 0 || i >= len(d.instrs) {
		return "?"
	}
	ins := d.instrs[i]
	s := ins.String()
	if v, ok := ins.(ssa.Value); ok {
		s = v.Name() + " = " + s
	}
	pos := ins.Parent().Prog.Fset.Position(ins.Pos())
	if ins.Pos() != token.NoPos {
		s += fmt.Sprintf("   (%s:%d)", pos.Filename, pos.Line)
	}
	return s
}
