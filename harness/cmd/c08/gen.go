package main

// gen.go: seeded generator of type-correct Go functions exercising the SSA value-computing
// instruction kinds (arithmetic, conversions, field/index selection, phi, extraction, boxing,
// type assertion, slicing, builtins) in straight-line, branching and looping control flow, with
// calls (static, interface, closure, method, go, defer), closures capturing variables, memory
// writes and multi-result calls.  One package, hundreds of functions, no imports.

import (
	"fmt"
	"math/rand"
	"strings"
)

type ty int

const (
	tInt ty = iota
	tStr
	tFloat
	tBool
	tBytes
	tInts
	tStrs
	tArr
	tMapSI
	tMapSS
	tS
	tPS
	tT
	tAny
	tI
	tErr
	tMyInt
	tMyStr
	tChanI
	tChanS
	tCplx
	tFn
	tPInt
	nTypes
)

var tyName = [...]string{"int", "string", "float64", "bool", "[]byte", "[]int", "[]string", "[3]int",
	"map[string]int", "map[string]string", "S", "*S", "T", "any", "I", "error", "MyInt", "MyStr",
	"chan int", "chan string", "complex128", "func(int) int", "*int"}

var tyZero = [...]string{"0", `""`, "0.0", "false", "nil", "nil", "nil", "[3]int{}", "nil", "nil", "S{}", "nil",
	"T{}", "nil", "nil", "nil", "MyInt(0)", `MyStr("")`, "nil", "nil", "0", "nil", "nil"}

// producers: opaque prelude functions returning a value of each type (call-result origins)
var tyMk = [...]string{"mkInt()", "mkStr()", "mkFloat()", "mkBool()", "mkBytes()", "mkInts()", "mkStrs()", "mkArr()",
	"mkMapSI()", "mkMapSS()", "mkS(1, \"a\")", "mkPS()", "mkT()", "mkAny()", "mkI()", "mkErr(\"e\")", "MyInt(mkInt())",
	"MyStr(mkStr())", "mkChanI()", "mkChanS()", "mkCplx()", "mkFn()", "mkPInt()"}

const prelude = `package main

type S struct {
	A int
	B string
	C []int
	P *S
}

type T struct {
	S S
	N int
	E any
}

type MyInt int
type MyStr string

type I interface{ M() string }
type J interface {
	M() string
	N(int) int
}

type impl struct{ s string }

func (x impl) M() string   { return x.s }
func (x impl) N(a int) int { return a + len(x.s) }

type myErr struct{ msg string }

func (e *myErr) Error() string { return e.msg }

func (s S) Get() int        { return s.A }
func (s *S) Set(a int)      { s.A = a }
func (s *S) Name() string   { return s.B }
func (s S) With(b string) S { s.B = b; return s }

var gInt int
var gStr string
var gS S

//go:noinline
func mkInt() int { return gInt }
func mkStr() string { return gStr }
func mkFloat() float64 { return float64(gInt) }
func mkBool() bool { return gInt > 0 }
func mkBytes() []byte { return []byte(gStr) }
func mkInts() []int { return []int{gInt} }
func mkStrs() []string { return []string{gStr} }
func mkArr() [3]int { return [3]int{gInt, 1, 2} }
func mkMapSI() map[string]int { return map[string]int{gStr: gInt} }
func mkMapSS() map[string]string { return map[string]string{gStr: gStr} }
func mkS(a int, b string) S { return S{A: a, B: b} }
func mkPS() *S { return &S{A: gInt, B: gStr} }
func mkT() T { return T{S: gS, N: gInt} }
func mkAny() any { return gStr }
func mkI() I { return impl{gStr} }
func mkJ() J { return impl{gStr} }
func mkErr(s string) error { return &myErr{s} }
func mkChanI() chan int { return make(chan int, 1) }
func mkChanS() chan string { return make(chan string, 1) }
func mkCplx() complex128 { return complex(float64(gInt), 1) }
func mkFn() func(int) int { return func(a int) int { return a + gInt } }
func mkPInt() *int { return &gInt }

func hInt(a int) int { return a + 1 }
func hStr(s string) string { return s + "!" }
func h2(a int) (int, string) { return a, gStr }
func h3(s string) (string, int, error) { return s, len(s), nil }
func hAny(x any) any { return x }
func hS(s S) S { return s }
func hPS(p *S) *S { return p }
func hInts(xs []int) []int { return xs }
func hVar(xs ...int) int { return len(xs) }
func hPair(a, b int) int { return a + b }
func hM2(a int) (int, map[string]int) { return a, map[string]int{gStr: a} }
func hMS2(s string) (bool, map[string]string) { return s != "", map[string]string{s: s} }
func hPairS(a, b string) string { return a + b }

func useInt(a int)       { gInt = a }
func useStr(s string)    { gStr = s }
func useAny(x any)       { _ = x }
func useS(s S)           { gS = s }
func usePS(p *S)         { gS = *p }
func useInts(xs []int)   { _ = xs }
func useBytes(b []byte)  { _ = b }
func useBool(b bool)     { _ = b }
func useFloat(f float64) { _ = f }
`

type gvar struct {
	name string
	t    ty
}

type fgen struct {
	r      *rand.Rand
	sb     *strings.Builder
	env    []gvar
	nvar   int
	rets   []ty
	depth  int
	budget int
	inLoop int
	stats  map[string]int
}

func (g *fgen) count(k string) { g.stats[k]++ }

func (g *fgen) ind() string { return strings.Repeat("\t", g.depth+1) }

func (g *fgen) line(format string, a ...any) {
	g.sb.WriteString(g.ind())
	fmt.Fprintf(g.sb, format, a...)
	g.sb.WriteByte('\n')
}

func (g *fgen) fresh() string {
	g.nvar++
	return fmt.Sprintf("v%d", g.nvar)
}

func (g *fgen) varsOf(t ty) []string {
	var r []string
	for _, v := range g.env {
		if v.t == t {
			r = append(r, v.name)
		}
	}
	return r
}

// base: a variable of type t if there is one (usually), else an opaque producer call.
func (g *fgen) base(t ty) string {
	vs := g.varsOf(t)
	if len(vs) > 0 && g.r.Intn(8) != 0 {
		// prefer recent variables: longer chains
		if g.r.Intn(2) == 0 {
			return vs[len(vs)-1]
		}
		return vs[g.r.Intn(len(vs))]
	}
	return tyMk[t]
}

func (g *fgen) lit(t ty) string {
	switch t {
	case tInt:
		return fmt.Sprint(g.r.Intn(9) + 1)
	case tStr:
		return fmt.Sprintf("%q", string(rune('a'+g.r.Intn(26))))
	case tFloat:
		return fmt.Sprintf("%d.5", g.r.Intn(9))
	case tBool:
		return "true"
	}
	return tyMk[t]
}

// expr returns an expression of type t; d bounds the nesting.
func (g *fgen) expr(t ty, d int) string {
	if d <= 0 {
		if g.r.Intn(6) == 0 {
			return g.lit(t)
		}
		return g.base(t)
	}
	e := func(u ty) string { return g.expr(u, d-1) }
	b := g.base
	pick := func(alts ...func() string) string { return alts[g.r.Intn(len(alts))]() }
	switch t {
	case tInt:
		return pick(
			func() string { g.count("e:binop"); return "(" + e(tInt) + " " + []string{"+", "-", "*", "&", "|", "^"}[g.r.Intn(6)] + " " + e(tInt) + ")" },
			func() string { g.count("e:neg"); return "(-" + e(tInt) + ")" },
			func() string { g.count("e:len"); return "len(" + b([]ty{tStr, tBytes, tInts, tMapSI, tStrs}[g.r.Intn(5)]) + ")" },
			func() string { g.count("e:cap"); return "cap(" + b(tInts) + ")" },
			func() string { g.count("e:indexaddr"); return b(tInts) + "[" + b(tInt) + "]" },
			func() string { g.count("e:index-arr"); return b(tArr) + "[" + b(tInt) + "%3]" },
			func() string { g.count("e:lookup"); return b(tMapSI) + "[" + e(tStr) + "]" },
			func() string { g.count("e:field"); return b(tS) + ".A" },
			func() string { g.count("e:fieldaddr"); return b(tPS) + ".A" },
			func() string { g.count("e:field-nested"); return b(tT) + ".S.A" },
			func() string { g.count("e:convert"); return "int(" + b(tFloat) + ")" },
			func() string { g.count("e:changetype"); return "int(" + b(tMyInt) + ")" },
			func() string { g.count("e:min"); return []string{"min", "max"}[g.r.Intn(2)] + "(" + e(tInt) + ", " + b(tInt) + ")" },
			func() string { g.count("e:call"); return "hInt(" + e(tInt) + ")" },
			func() string { g.count("e:typeassert"); return b(tAny) + ".(int)" },
			func() string { g.count("e:copy"); return "copy(" + b(tBytes) + ", " + b(tBytes) + ")" },
			func() string { g.count("e:recv"); return "<-" + b(tChanI) },
			func() string { g.count("e:load"); return "*" + b(tPInt) },
			func() string { g.count("e:index-str"); return "int(" + b(tStr) + "[" + b(tInt) + "])" },
			func() string { g.count("e:callfn"); return b(tFn) + "(" + e(tInt) + ")" },
			func() string { g.count("e:method"); return b(tS) + ".Get()" },
			func() string { g.count("e:variadic"); return "hVar(" + e(tInt) + ", " + b(tInt) + ")" },
			func() string { g.count("e:invoke2"); return "mkJ().N(" + e(tInt) + ")" },
			func() string { g.count("e:call-pair"); return "hPair(" + e(tInt) + ", " + e(tInt) + ")" },
			func() string { g.count("e:not-int"); return "(^" + e(tInt) + ")" },
			func() string { g.count("e:slice2arrayptr"); return "(*[1]int)(" + b(tInts) + ")[0]" },
		)
	case tStr:
		return pick(
			func() string { g.count("e:concat"); return "(" + e(tStr) + " + " + e(tStr) + ")" },
			func() string { g.count("e:convert-bytes"); return "string(" + b(tBytes) + ")" },
			func() string { g.count("e:indexaddr"); return b(tStrs) + "[" + b(tInt) + "]" },
			func() string { g.count("e:lookup"); return b(tMapSS) + "[" + e(tStr) + "]" },
			func() string { g.count("e:field"); return b(tS) + ".B" },
			func() string { g.count("e:fieldaddr"); return b(tPS) + ".B" },
			func() string { g.count("e:changetype"); return "string(" + b(tMyStr) + ")" },
			func() string { g.count("e:call"); return "hStr(" + e(tStr) + ")" },
			func() string { g.count("e:typeassert"); return b(tAny) + ".(string)" },
			func() string { g.count("e:invoke"); return b(tI) + ".M()" },
			func() string { g.count("e:error"); return b(tErr) + ".Error()" },
			func() string { g.count("e:slice-str"); return b(tStr) + "[" + b(tInt) + ":]" },
			func() string { g.count("e:min"); return "min(" + e(tStr) + ", " + b(tStr) + ")" },
			func() string { g.count("e:recv"); return "<-" + b(tChanS) },
			func() string { g.count("e:method"); return b(tPS) + ".Name()" },
			func() string { g.count("e:convert-rune"); return "string(rune(" + b(tInt) + "))" },
			func() string { g.count("e:call-pair"); return "hPairS(" + e(tStr) + ", " + e(tStr) + ")" },
		)
	case tFloat:
		return pick(
			func() string { g.count("e:convert"); return "float64(" + b(tInt) + ")" },
			func() string { g.count("e:binop"); return "(" + e(tFloat) + " + " + e(tFloat) + ")" },
			func() string { g.count("e:real"); return []string{"real", "imag"}[g.r.Intn(2)] + "(" + b(tCplx) + ")" },
			func() string { g.count("e:min"); return "max(" + e(tFloat) + ", " + b(tFloat) + ")" },
		)
	case tBool:
		return pick(
			func() string { g.count("e:cmp"); return "(" + e(tInt) + " < " + e(tInt) + ")" },
			func() string { g.count("e:cmp"); return "(" + e(tStr) + " == " + e(tStr) + ")" },
			func() string { g.count("e:not"); return "(!" + e(tBool) + ")" },
			func() string { g.count("e:cmp-nil"); return "(" + b(tPS) + " != nil)" },
			func() string { g.count("e:cmp-iface"); return "(" + b(tAny) + " == " + b(tAny) + ")" },
		)
	case tBytes:
		return pick(
			func() string { g.count("e:convert-bytes"); return "[]byte(" + b(tStr) + ")" },
			func() string { g.count("e:append"); return "append(" + b(tBytes) + ", " + b(tBytes) + "...)" },
			func() string { g.count("e:append"); return "append(" + b(tBytes) + ", byte(" + b(tInt) + "))" },
			func() string { g.count("e:append-str"); return "append(" + b(tBytes) + ", " + b(tStr) + "...)" },
			func() string { g.count("e:slice"); return b(tBytes) + "[" + b(tInt) + ":]" },
		)
	case tInts:
		return pick(
			func() string { g.count("e:append"); return "append(" + b(tInts) + ", " + e(tInt) + ")" },
			func() string { g.count("e:append"); return "append(" + b(tInts) + ", " + e(tInt) + ", " + b(tInt) + ")" },
			func() string { g.count("e:slice"); return b(tInts) + "[:" + b(tInt) + "]" },
			func() string { g.count("e:slice3"); return b(tInts) + "[" + b(tInt) + ":" + b(tInt) + ":" + b(tInt) + "]" },
			func() string { g.count("e:field"); return b(tS) + ".C" },
			func() string { g.count("e:fieldaddr"); return b(tPS) + ".C" },
			func() string { g.count("e:makeslice"); return "make([]int, " + b(tInt) + ")" },
			func() string { g.count("e:call"); return "hInts(" + b(tInts) + ")" },
			func() string { g.count("e:composite"); return "[]int{" + e(tInt) + ", " + b(tInt) + "}" },
		)
	case tStrs:
		return pick(
			func() string { g.count("e:append"); return "append(" + b(tStrs) + ", " + e(tStr) + ")" },
			func() string { g.count("e:slice"); return b(tStrs) + "[1:]" },
			func() string { g.count("e:composite"); return "[]string{" + e(tStr) + "}" },
		)
	case tArr:
		return pick(
			func() string { g.count("e:composite"); return "[3]int{" + e(tInt) + ", " + b(tInt) + ", 0}" },
			func() string { return b(tArr) },
		)
	case tMapSI:
		return pick(
			func() string { g.count("e:composite"); return "map[string]int{" + b(tStr) + ": " + e(tInt) + "}" },
			func() string { return b(tMapSI) },
		)
	case tMapSS:
		return pick(
			func() string { g.count("e:composite"); return "map[string]string{" + b(tStr) + ": " + e(tStr) + "}" },
			func() string { return b(tMapSS) },
		)
	case tS:
		return pick(
			func() string { g.count("e:composite"); return "S{A: " + e(tInt) + ", B: " + e(tStr) + "}" },
			func() string { g.count("e:load"); return "*" + b(tPS) },
			func() string { g.count("e:call"); return "mkS(" + e(tInt) + ", " + e(tStr) + ")" },
			func() string { g.count("e:field"); return b(tT) + ".S" },
			func() string { g.count("e:call"); return "hS(" + b(tS) + ")" },
			func() string { g.count("e:method"); return b(tS) + ".With(" + e(tStr) + ")" },
			func() string { g.count("e:typeassert"); return b(tAny) + ".(S)" },
		)
	case tPS:
		return pick(
			func() string { g.count("e:composite"); return "&S{A: " + e(tInt) + ", B: " + e(tStr) + "}" },
			func() string { g.count("e:fieldaddr"); return b(tPS) + ".P" },
			func() string { g.count("e:call"); return "hPS(" + b(tPS) + ")" },
			func() string { g.count("e:field"); return b(tS) + ".P" },
		)
	case tT:
		return pick(
			func() string { g.count("e:composite"); return "T{S: " + e(tS) + ", N: " + e(tInt) + ", E: " + b(tAny) + "}" },
			func() string { return b(tT) },
		)
	case tAny:
		return pick(
			func() string { g.count("e:makeinterface"); return "any(" + e(tInt) + ")" },
			func() string { g.count("e:makeinterface"); return "any(" + e(tStr) + ")" },
			func() string { g.count("e:makeinterface"); return "any(" + b(tS) + ")" },
			func() string { g.count("e:changeinterface"); return "any(" + b(tI) + ")" },
			func() string { g.count("e:changeinterface"); return "any(" + b(tErr) + ")" },
			func() string { g.count("e:call"); return "hAny(" + e(tAny) + ")" },
			func() string { g.count("e:field"); return b(tT) + ".E" },
		)
	case tI:
		return pick(
			func() string { g.count("e:makeinterface"); return "I(impl{" + e(tStr) + "})" },
			func() string { g.count("e:typeassert-iface"); return b(tAny) + ".(I)" },
			func() string { g.count("e:changeinterface"); return "I(mkJ())" },
		)
	case tErr:
		return pick(
			func() string { g.count("e:call"); return "mkErr(" + e(tStr) + ")" },
			func() string { g.count("e:typeassert-iface"); return b(tAny) + ".(error)" },
		)
	case tMyInt:
		return pick(
			func() string { g.count("e:changetype"); return "MyInt(" + e(tInt) + ")" },
			func() string { g.count("e:binop"); return "(" + b(tMyInt) + " + MyInt(" + b(tInt) + "))" },
		)
	case tMyStr:
		return "MyStr(" + e(tStr) + ")"
	case tCplx:
		g.count("e:complex")
		return "complex(" + e(tFloat) + ", " + b(tFloat) + ")"
	case tFn:
		return b(tFn)
	}
	return g.base(t)
}

var declTypes = []ty{tInt, tInt, tInt, tStr, tStr, tStr, tFloat, tBool, tBytes, tInts, tStrs, tArr, tMapSI, tMapSS,
	tS, tS, tPS, tPS, tT, tAny, tAny, tI, tErr, tMyInt, tMyStr, tCplx, tChanI, tPInt}

func (g *fgen) declare(t ty, e string) string {
	v := g.fresh()
	g.line("%s := %s", v, e)
	g.line("_ = %s", v)
	g.env = append(g.env, gvar{v, t})
	return v
}

func (g *fgen) block(n int) {
	saved := len(g.env)
	g.depth++
	for i := 0; i < n && g.budget > 0; i++ {
		g.stmt()
	}
	g.depth--
	g.env = g.env[:saved]
}

func (g *fgen) retStmt() {
	if len(g.rets) == 0 {
		g.line("return")
		return
	}
	var es []string
	for _, t := range g.rets {
		es = append(es, g.expr(t, 1))
	}
	g.line("return %s", strings.Join(es, ", "))
}

func (g *fgen) stmt() {
	g.budget--
	r := g.r
	k := r.Intn(100)
	switch {
	case k < 30: // declaration from an expression
		t := declTypes[r.Intn(len(declTypes))]
		g.count("s:decl")
		g.declare(t, g.expr(t, 1+r.Intn(2)))
	case k < 40: // assignment to an existing variable (phi at joins)
		if len(g.env) == 0 {
			return
		}
		v := g.env[r.Intn(len(g.env))]
		if v.t == tFn || v.t == tChanI || v.t == tChanS {
			return
		}
		g.count("s:assign")
		g.line("%s = %s", v.name, g.expr(v.t, 1))
	case k < 50 && g.depth < 3: // if / else
		g.count("s:if")
		g.line("if %s {", g.expr(tBool, 1))
		g.block(1 + r.Intn(3))
		if r.Intn(2) == 0 {
			g.line("} else {")
			g.block(1 + r.Intn(3))
		}
		g.line("}")
	case k < 52 && g.depth < 3: // do-while: a single block that is its own successor
		g.count("s:do-while")
		vs := g.varsOf(tInt)
		ss := g.varsOf(tStr)
		g.line("for {")
		g.depth++
		if len(vs) > 0 {
			v := vs[r.Intn(len(vs))]
			g.line("%s = %s", v, g.expr(tInt, 1))
		}
		if len(ss) > 0 {
			v := ss[r.Intn(len(ss))]
			g.line("%s = %s", v, g.expr(tStr, 1))
		}
		g.line("useInt(%s)", g.expr(tInt, 1))
		g.line("if %s {", g.expr(tBool, 1))
		g.line("\tbreak")
		g.line("}")
		g.depth--
		g.line("}")
	case k < 56 && g.depth < 3: // counted loop
		g.count("s:for")
		i := g.fresh()
		g.line("for %s := 0; %s < %s; %s++ {", i, i, g.expr(tInt, 0), i)
		g.env = append(g.env, gvar{i, tInt})
		g.inLoop++
		g.block(1 + r.Intn(3))
		g.inLoop--
		g.env = g.env[:len(g.env)-1]
		g.line("}")
	case k < 60 && g.depth < 3: // range
		g.count("s:range")
		kv, vv := g.fresh(), g.fresh()
		switch r.Intn(4) {
		case 0:
			g.line("for %s, %s := range %s {", kv, vv, g.base(tInts))
			g.env = append(g.env, gvar{kv, tInt}, gvar{vv, tInt})
		case 1:
			g.line("for %s, %s := range %s {", kv, vv, g.base(tMapSI))
			g.env = append(g.env, gvar{kv, tStr}, gvar{vv, tInt})
		case 2:
			g.line("for %s, %s := range %s {", kv, vv, g.base(tStrs))
			g.env = append(g.env, gvar{kv, tInt}, gvar{vv, tStr})
		case 3:
			g.line("for %s, %s := range %s {", kv, vv, g.base(tMapSS))
			g.env = append(g.env, gvar{kv, tStr}, gvar{vv, tStr})
		}
		g.depth++
		g.line("_, _ = %s, %s", kv, vv)
		g.depth--
		g.inLoop++
		g.block(1 + r.Intn(2))
		g.inLoop--
		g.env = g.env[:len(g.env)-2]
		g.line("}")
	case k < 61 && g.depth < 3: // range over a string / select
		if r.Intn(2) == 0 {
			g.count("s:range-string")
			kv, vv := g.fresh(), g.fresh()
			g.line("for %s, %s := range %s {", kv, vv, g.base(tStr))
			g.env = append(g.env, gvar{kv, tInt})
			g.depth++
			g.line("_, _ = %s, %s", kv, vv)
			g.line("useInt(%s + int(%s))", kv, vv)
			g.depth--
			g.inLoop++
			g.block(1)
			g.inLoop--
			g.env = g.env[:len(g.env)-1]
			g.line("}")
		} else {
			g.count("s:select")
			a, b2 := g.fresh(), g.fresh()
			g.line("select {")
			g.line("case %s := <-%s:", a, g.base(tChanS))
			g.depth++
			g.line("useStr(%s)", a)
			g.depth--
			g.line("case %s, ok := <-%s:", b2, g.base(tChanI))
			g.depth++
			g.line("_ = ok")
			g.line("useInt(%s)", b2)
			g.depth--
			g.line("case %s <- %s:", g.base(tChanS), g.expr(tStr, 1))
			g.line("default:")
			g.line("}")
		}
	case k < 63 && g.depth < 3: // switch
		g.count("s:switch")
		g.line("switch %s {", g.expr(tInt, 0))
		g.line("case 1:")
		g.block(1 + r.Intn(2))
		g.line("case 2, 3:")
		g.block(1)
		g.line("default:")
		g.block(1)
		g.line("}")
	case k < 68: // comma-ok forms
		v, ok := g.fresh(), g.fresh()
		switch r.Intn(5) {
		case 0:
			g.count("s:commaok-typeassert")
			t := []ty{tInt, tStr, tS}[r.Intn(3)]
			g.line("%s, %s := %s.(%s)", v, ok, g.base(tAny), tyName[t])
			g.env = append(g.env, gvar{v, t}, gvar{ok, tBool})
		case 1:
			g.count("s:commaok-lookup")
			g.line("%s, %s := %s[%s]", v, ok, g.base(tMapSI), g.expr(tStr, 0))
			g.env = append(g.env, gvar{v, tInt}, gvar{ok, tBool})
		case 2:
			g.count("s:commaok-recv")
			g.line("%s, %s := <-%s", v, ok, g.base(tChanS))
			g.env = append(g.env, gvar{v, tStr}, gvar{ok, tBool})
		case 3:
			g.count("s:commaok-lookup")
			g.line("%s, %s := %s[%s]", v, ok, g.base(tMapSS), g.expr(tStr, 0))
			g.env = append(g.env, gvar{v, tStr}, gvar{ok, tBool})
		case 4:
			g.count("s:commaok-typeassert-iface")
			g.line("%s, %s := %s.(I)", v, ok, g.base(tAny))
			g.env = append(g.env, gvar{v, tI}, gvar{ok, tBool})
		}
		g.line("_, _ = %s, %s", v, ok)
	case k < 73: // multi-result calls
		a, b2 := g.fresh(), g.fresh()
		if r.Intn(3) == 0 {
			// a map that is result #1 of a call, read with the comma-ok form (and plainly)
			g.count("s:call2-map-commaok")
			v, ok := g.fresh(), g.fresh()
			if r.Intn(2) == 0 {
				g.line("%s, %s := hM2(%s)", a, b2, g.expr(tInt, 1))
				g.line("%s, %s := %s[%s]", v, ok, b2, g.expr(tStr, 0))
				g.env = append(g.env, gvar{a, tInt}, gvar{b2, tMapSI}, gvar{v, tInt}, gvar{ok, tBool})
			} else {
				g.line("%s, %s := hMS2(%s)", a, b2, g.expr(tStr, 1))
				g.line("%s, %s := %s[%s]", v, ok, b2, g.expr(tStr, 0))
				g.env = append(g.env, gvar{a, tBool}, gvar{b2, tMapSS}, gvar{v, tStr}, gvar{ok, tBool})
			}
			g.line("_, _, _, _ = %s, %s, %s, %s", a, b2, v, ok)
		} else if r.Intn(2) == 0 {
			g.count("s:call2")
			g.line("%s, %s := h2(%s)", a, b2, g.expr(tInt, 1))
			g.env = append(g.env, gvar{a, tInt}, gvar{b2, tStr})
			g.line("_, _ = %s, %s", a, b2)
		} else {
			g.count("s:call3")
			c := g.fresh()
			g.line("%s, %s, %s := h3(%s)", a, b2, c, g.expr(tStr, 1))
			g.env = append(g.env, gvar{a, tStr}, gvar{b2, tInt}, gvar{c, tErr})
			g.line("_, _, _ = %s, %s, %s", a, b2, c)
		}
	case k < 80: // memory writes
		switch r.Intn(7) {
		case 0:
			g.count("s:store-field")
			g.line("%s.A = %s", g.base(tPS), g.expr(tInt, 1))
		case 1:
			g.count("s:store-index")
			g.line("%s[0] = %s", g.base(tInts), g.expr(tInt, 1))
		case 2:
			g.count("s:mapupdate")
			g.line("%s[%s] = %s", g.base(tMapSS), g.expr(tStr, 0), g.expr(tStr, 1))
		case 3:
			g.count("s:store-ptr")
			g.line("*%s = %s", g.base(tPInt), g.expr(tInt, 1))
		case 4:
			g.count("s:send")
			g.line("%s <- %s", g.base(tChanS), g.expr(tStr, 1))
		case 5:
			g.count("s:store-field")
			g.line("%s.B = %s", g.base(tPS), g.expr(tStr, 1))
		case 6:
			g.count("s:addr-of")
			vs := g.varsOf(tInt)
			if len(vs) > 0 {
				g.declare(tPInt, "&"+vs[r.Intn(len(vs))])
			}
		}
	case k < 88: // sinks / calls for effect
		switch r.Intn(10) {
		case 0:
			g.count("s:use")
			g.line("useInt(%s)", g.expr(tInt, 1))
		case 1:
			g.count("s:use")
			g.line("useStr(%s)", g.expr(tStr, 1))
		case 2:
			g.count("s:use")
			g.line("useAny(%s)", g.expr(tAny, 1))
		case 3:
			g.count("s:use")
			g.line("useS(%s)", g.expr(tS, 1))
		case 4:
			g.count("s:method-ptr")
			g.line("%s.Set(%s)", g.base(tPS), g.expr(tInt, 1))
		case 5:
			g.count("s:use")
			g.line("useInts(%s)", g.expr(tInts, 1))
		case 6:
			g.count("s:builtin-effect")
			g.line("delete(%s, %s)", g.base(tMapSI), g.expr(tStr, 0))
		case 7:
			g.count("s:builtin-effect")
			g.line("println(%s, %s)", g.expr(tStr, 0), g.expr(tInt, 0))
		case 8:
			g.count("s:builtin-effect")
			g.line("clear(%s)", g.base(tMapSS))
		case 9:
			g.count("s:use")
			g.line("usePS(%s)", g.expr(tPS, 1))
		}
	case k < 92: // defer / go
		switch r.Intn(4) {
		case 0:
			g.count("s:defer")
			g.line("defer useStr(%s)", g.expr(tStr, 1))
		case 1:
			g.count("s:go")
			g.line("go useInt(%s)", g.expr(tInt, 1))
		case 2:
			g.count("s:defer-closure")
			g.line("defer func() {")
			g.depth++
			g.line("if r := recover(); r != nil {")
			g.line("\tuseAny(r)")
			g.line("}")
			g.line("useStr(%s)", g.base(tStr))
			g.depth--
			g.line("}()")
		case 3:
			g.count("s:go-closure")
			g.line("go func(a int) {")
			g.depth++
			g.line("useInt(a + %s)", g.base(tInt))
			g.depth--
			g.line("}(%s)", g.expr(tInt, 1))
		}
	case k < 97: // closures capturing variables
		g.count("s:closure")
		f := g.fresh()
		g.line("%s := func(a int) int {", f)
		saved := len(g.env)
		savedRets := g.rets
		g.rets = []ty{tInt}
		g.env = append(g.env, gvar{"a", tInt})
		savedLoop := g.inLoop
		g.inLoop = 0
		g.depth++
		for i := 0; i < 1+r.Intn(3) && g.budget > 0; i++ {
			g.stmt()
		}
		g.retStmt()
		g.depth--
		g.inLoop = savedLoop
		g.rets = savedRets
		g.env = g.env[:saved]
		g.line("}")
		g.line("_ = %s", f)
		g.env = append(g.env, gvar{f, tFn})
	default: // early return (inside a branch only, so that what follows stays reachable)
		if g.depth > 0 && g.inLoop == 0 {
			g.count("s:early-return")
			g.retStmt()
		} else if g.inLoop > 0 {
			g.count("s:break")
			g.line([]string{"break", "continue"}[r.Intn(2)])
		}
	}
}

// genFunc renders one function and the call main uses to make it reachable.
func genFunc(r *rand.Rand, name string, size int, stats map[string]int) (src string, call string) {
	var sb strings.Builder
	g := &fgen{r: r, sb: &sb, budget: size, stats: stats}
	np := r.Intn(5)
	var ps, zs []string
	for i := 0; i < np; i++ {
		t := declTypes[r.Intn(len(declTypes))]
		pn := fmt.Sprintf("p%d", i)
		ps = append(ps, pn+" "+tyName[t])
		zs = append(zs, tyZero[t])
		g.env = append(g.env, gvar{pn, t})
	}
	nr := []int{0, 1, 1, 1, 2, 2, 2, 3}[r.Intn(8)]
	var rs []string
	for i := 0; i < nr; i++ {
		t := []ty{tInt, tStr, tAny, tS, tInts, tBool, tPS, tErr, tBytes}[r.Intn(9)]
		g.rets = append(g.rets, t)
		rs = append(rs, tyName[t])
	}
	res := ""
	if nr == 1 {
		res = " " + rs[0]
	} else if nr > 1 {
		res = " (" + strings.Join(rs, ", ") + ")"
	}
	firstIf := ""
	if r.Intn(6) == 0 {
		// `if p` on a bool parameter as the very first instruction of the function
		pn := fmt.Sprintf("p%d", np)
		ps = append(ps, pn+" bool")
		zs = append(zs, "false")
		g.env = append(g.env, gvar{pn, tBool})
		firstIf = pn
	}
	fmt.Fprintf(&sb, "func %s(%s)%s {\n", name, strings.Join(ps, ", "), res)
	if firstIf != "" {
		g.count("s:first-if-on-param")
		g.line("if %s {", firstIf)
		g.block(1 + r.Intn(2))
		g.line("}")
	}
	for i := 0; i < size && g.budget > 0; i++ {
		g.stmt()
	}
	g.retStmt()
	sb.WriteString("}\n")
	return sb.String(), fmt.Sprintf("%s(%s)", name, strings.Join(zs, ", "))
}
