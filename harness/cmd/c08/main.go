// Driver for C08 (tie kind V): the REAL intra-procedural pass (dataflow.IntraProceduralAnalysis with the
// analyzer state built as analysis/taint does) is run on every function of a generated package (and, in
// the thorough tier, on the functions of loaded standard-library packages); the SSA facts, the REAL
// final FlowInformation.MarkedValues and the REAL summary edges are dumped and the compiled Lean
// oracle evaluates `Intra.closed` (proved sufficient for the property in Argot/Props/C08.lean) on them.
// On a criterion failure the offending instruction is wrapped between a source and a sink, the flow is
// confirmed natively (two runs with different source values) and the real taint analysis is run on it.
// Memory rows (C01 layer L2): the same record carries the store/load rows of the function and the may-alias
// pairs of the REAL pointer analysis (dump.go memRows); the oracle's second answer line is the verdict of
// `Intra.closedMem` (Argot/Model/IntraMem.lean, proved sufficient in Argot/Props/C08Mem.lean); see evaluateMem.
package main

import (
	"fmt"
	"os"
	"path/filepath"
	"sort"
	"strings"

	"github.com/awslabs/ar-go-tools/analysis/config"
	"github.com/awslabs/ar-go-tools/analysis/dataflow"
	"golang.org/x/tools/go/packages"
	"golang.org/x/tools/go/ssa"
	"golang.org/x/tools/go/ssa/ssautil"
	"verif/harness/lib"
)

const prop = "C08"

// workDir: scratch directory of this run (VERIF_C08_SUB separates concurrent runs, e.g. mutation self-tests).
func workDir(sub string) string { return lib.WorkDir(prop, os.Getenv("VERIF_C08_SUB")+sub) }

// newState builds the analyzer state the way taint.Analyze does (pointer analysis, implementations,
// globals, bounding information); allFuncs widens the pointer queries to every function (std sweep).
func newState(prog *ssa.Program, pkgs []*packages.Package, allFuncs bool) (*dataflow.AnalyzerState, error) {
	cfg := config.NewDefault()
	cfg.LogLevel = int(config.ErrLevel)
	lg := config.NewLogGroup(cfg)
	if !allFuncs {
		return dataflow.NewInitializedAnalyzerState(prog, pkgs, lg, cfg)
	}
	prog.Build()
	st, err := dataflow.NewAnalyzerState(prog, pkgs, lg, cfg, []func(*dataflow.AnalyzerState){
		func(s *dataflow.AnalyzerState) { s.PopulateImplementations() },
		func(s *dataflow.AnalyzerState) { s.PopulatePointersVerbose(func(*ssa.Function) bool { return true }) },
		func(s *dataflow.AnalyzerState) { s.PopulateGlobalsVerbose() },
	})
	if err != nil {
		return nil, err
	}
	if err := st.PopulateBoundingInformation(false); err != nil {
		return nil, err
	}
	return st, nil
}

type batch struct {
	name  string
	dumps []*fnDump
	srcs  map[string]string // function name -> generated source
}

// silence the tool's logging on stdout while the real code runs
func quiet(f func()) {
	saved := os.Stdout
	null, err := os.OpenFile(os.DevNull, os.O_WRONLY, 0)
	if err == nil {
		os.Stdout = null
	}
	defer func() {
		os.Stdout = saved
		if err == nil {
			null.Close()
		}
	}()
	f()
}

func analyzeFunctions(state *dataflow.AnalyzerState, fns []*ssa.Function, prefix string) []*fnDump {
	var out []*fnDump
	quiet(func() {
		for i, f := range fns {
			out = append(out, dumpFunction(state, f, fmt.Sprintf("%s%d", prefix, i), uint32(i+1)))
		}
	})
	return out
}

func runOracle(rep *lib.Report, b *batch, dir string) map[*fnDump]string {
	var in strings.Builder
	var sent []*fnDump
	for _, d := range b.dumps {
		if d.err != nil || d.skipped != "" {
			continue
		}
		in.WriteString(d.text)
		sent = append(sent, d)
	}
	os.WriteFile(filepath.Join(dir, "oracle_in_"+b.name+".txt"), []byte(in.String()), 0o644)
	all, err := lib.RunOracle("oracle_c08", []byte(in.String()))
	// two answer lines per function: the `closed` verdict and the `closedMem` verdict ("mem …")
	var lines, mems []string
	for _, l := range all {
		if strings.HasPrefix(l, "mem ") {
			mems = append(mems, l)
		} else {
			lines = append(lines, l)
		}
	}
	if err != nil || len(lines) != len(sent) || len(mems) != len(sent) {
		rep.Fail("oracle-run:"+b.name, fmt.Sprintf("oracle failed: %v (%d+%d answers for %d functions)", err, len(lines), len(mems), len(sent)), nil, true)
		return nil
	}
	res := map[*fnDump]string{}
	for i, d := range sent {
		res[d] = lines[i]
		d.memLine = mems[i]
	}
	return res
}

// memory rows (Intra.closedMem, lean/Argot/Model/IntraMem.lean): evidence counters of this run
var memStat = map[string]int{}

// evaluateMem handles the `mem <id> none|ok|fail stores= loads= aliases= exempt= [diag]` line of d.
// A failing function is a VIOLATION only if a source→store→alias→load→sink program of the same store/load kind
// shows natively that the flow is real while the real taint analysis does not report it; otherwise it is counted
// (mem_rows_failed_unconfirmed) and written to the scratch directory.
func evaluateMem(rep *lib.Report, b *batch, d *fnDump, dir string) {
	ws := strings.Fields(d.memLine)
	if len(ws) < 3 {
		return
	}
	kv := fields(d.memLine)
	rows := atoi(kv["stores"]) + atoi(kv["loads"]) + atoi(kv["aliases"])
	memStat["mem_functions_"+ws[2]]++
	if ws[2] == "none" {
		return
	}
	memStat["mem_rows_checked"] += rows
	memStat["mem_store_rows"] += atoi(kv["stores"])
	memStat["mem_load_rows"] += atoi(kv["loads"])
	memStat["mem_alias_rows"] += atoi(kv["aliases"])
	memStat["mem_alias_exempt_selfinit"] += atoi(kv["exempt"])
	memStat["mem_store_rows_via_container"] += d.nMemContainers
	memStat["mem_store_addr_without_query"] += d.nMemNoQuery
	if ws[2] == "ok" {
		return
	}
	idx := strings.Index(d.memLine, "exempt=")
	detail := d.memLine[idx:]
	if j := strings.IndexByte(detail, ' '); j >= 0 {
		detail = detail[j+1:]
	}
	fails := strings.Split(detail, " ; ")
	tried := map[string]bool{}
	for _, raw := range fails {
		fw := strings.Fields(raw)
		if len(fw) == 0 {
			continue
		}
		memStat["mem_rows_failed"]++
		rep.Count(b.name + ":memfail:" + fw[0])
		tk := memTemplateFor(d, fw[0], fields(raw))
		if tk == "" || tried[tk] {
			continue
		}
		tried[tk] = true
		sr := runSearch(tk)
		rep.Count("search:" + tk)
		if sr.nativeDep && !sr.reported {
			if reportedWraps[tk] {
				rep.Count("wrap-again:" + tk)
				return
			}
			reportedWraps[tk] = true
			var sb strings.Builder
			d.fn.WriteTo(&sb)
			content := fmt.Sprintf("// closedMem failure: %s\n// in %s\n// native: the value at the sink changes with the source value; real taint analysis: flow NOT reported\n%s\n/*\n%s\nsource:\n%s\n\nSSA:\n%s\noracle record:\n%s*/\n",
				raw, d.fn.String(), sr.program, d.memLine, b.srcs[rootName(d.fn)], sb.String(), d.text)
			rep.Fail("wrap:"+tk, fmt.Sprintf("a flow through memory (%s) is lost: native run shows the sink value depends on the source, the taint analysis reports nothing (criterion closedMem: %s in %s)", tk, raw, d.fn.String()),
				[]byte(content), false)
			return
		}
	}
	memStat["mem_rows_failed_unconfirmed"] += len(fails)
	memStat["mem_functions_failed_unconfirmed"]++
	var sb strings.Builder
	fmt.Fprintf(&sb, "function: %s\n%s\n\nsource:\n%s\n\nSSA:\n", d.fn.String(), d.memLine, b.srcs[rootName(d.fn)])
	d.fn.WriteTo(&sb)
	fmt.Fprintf(&sb, "\noracle record:\n%s", d.text)
	os.WriteFile(filepath.Join(dir, fmt.Sprintf("memfail_%s_%d.txt", b.name, memStat["mem_functions_failed_unconfirmed"])), []byte(sb.String()), 0o644)
	if len(rep.Notes) < 20 {
		rep.Notes = append(rep.Notes, "closedMem false, end-to-end templates all reported (unconfirmed): "+d.fn.String()+": "+fails[0])
	}
}

// explore: VERIF_C08_EXPLORE=<program dir> dumps every function of that program's main package
// (record, oracle answer, SSA) to stdout and exits. Debugging aid, not part of the check.
func explore(dir string) {
	prog, pkgs, err := lib.LoadSSA(dir, ssa.InstantiateGenerics, false, ".")
	if err != nil {
		fmt.Println("load:", err)
		return
	}
	var state *dataflow.AnalyzerState
	quiet(func() { state, err = newState(prog, pkgs, false) })
	if err != nil {
		fmt.Println("state:", err)
		return
	}
	var fns []*ssa.Function
	for f := range ssautil.AllFunctions(prog) {
		if f.Pkg != nil && f.Pkg.Pkg.Name() == "main" && f.Blocks != nil && f.Name() != "init" {
			fns = append(fns, f)
		}
	}
	sort.Slice(fns, func(i, j int) bool { return fns[i].String() < fns[j].String() })
	for _, d := range analyzeFunctions(state, fns, "x") {
		fmt.Printf("==== %s err=%v skipped=%q\n", d.fn.String(), d.err, d.skipped)
		d.fn.WriteTo(os.Stdout)
		fmt.Print(d.text)
		if d.text != "" {
			out, err := lib.RunOracle("oracle_c08", []byte(d.text))
			fmt.Println("oracle:", out, err)
		}
	}
}

func main() {
	if dir := os.Getenv("VERIF_C08_EXPLORE"); dir != "" {
		explore(dir)
		return
	}
	rep := lib.NewReport(prop)
	rep.Rule = "one case = one function: real IntraProceduralAnalysis result (final MarkedValues restricted to parameter/free-variable/call-result marks + summary edges) checked against Intra.closed by the Lean oracle; generated functions: random typed statements over 23 types (see harness/cmd/c08/gen.go); distinct = distinct multiset of instruction kinds + block count; non-trivial = at least one origin, one value-computing instruction and one boundary target; memory rows: for every function with a Store/MapUpdate/Send/select-send or a load, Intra.closedMem (storeOK, aliasOK over the may-alias pairs of the REAL pointer analysis, loadOK) is evaluated on the same real state (mem_* counters); a failure is a VIOLATION only when a source->store->alias->load->sink template is real natively and unreported by the real taint tool"
	dir := workDir("prog")
	r := lib.Rand("c08")

	nFuncs, size := 450, 14
	if lib.Thorough() {
		nFuncs, size = 2500, 18
	}
	if s := os.Getenv("VERIF_C08_N"); s != "" {
		fmt.Sscan(s, &nFuncs)
	}
	stats := map[string]int{}
	var src strings.Builder
	src.WriteString(prelude)
	srcs := map[string]string{}
	var calls []string
	for i := 0; i < nFuncs; i++ {
		name := fmt.Sprintf("f%d", i)
		s, call := genFunc(r, name, size/2+r.Intn(size), stats)
		srcs[name] = s
		src.WriteString("\n" + s)
		calls = append(calls, call)
	}
	src.WriteString("\nfunc main() {\n")
	for _, c := range calls {
		src.WriteString("\t" + c + "\n")
	}
	src.WriteString("}\n")
	lib.WriteProgram(dir, "vprog", map[string]string{"main.go": src.String()})
	prog, pkgs, err := lib.LoadSSA(dir, ssa.InstantiateGenerics, false, ".")
	if err != nil {
		rep.Fail("harness-load", "generated program does not load: "+err.Error(), []byte(src.String()), true)
		rep.Finish()
		return
	}
	var state *dataflow.AnalyzerState
	quiet(func() { state, err = newState(prog, pkgs, false) })
	if err != nil {
		rep.Fail("harness-state", "analyzer state: "+err.Error(), nil, true)
		rep.Finish()
		return
	}
	var fns []*ssa.Function
	for f := range ssautil.AllFunctions(prog) {
		if f.Pkg != nil && f.Pkg.Pkg.Path() == "vprog" && f.Blocks != nil {
			fns = append(fns, f)
		} else if f.Pkg == nil && f.Parent() != nil && f.Blocks != nil { // closures of generated functions have Pkg set; keep generic
			fns = append(fns, f)
		}
	}
	sort.Slice(fns, func(i, j int) bool { return fns[i].String() < fns[j].String() })
	runCorpus(rep)
	b := &batch{name: "gen", srcs: srcs}
	b.dumps = analyzeFunctions(state, fns, "g")
	evaluate(rep, b, dir)
	if os.Getenv("VERIF_C08_NOSTD") != "1" {
		stdSweep(rep)
	}
	if lib.Thorough() || lib.ProofBroken() || os.Getenv("VERIF_C08_WRAPS") == "1" {
		sweepWraps(rep)
	}

	if tl, err := lib.RunOracle("oracle_c08", []byte("tbl\n")); err == nil && len(tl) == 1 {
		rep.Extra["t5_builtin_table"] = tl[0]
	}
	for k, v := range stats {
		rep.Dist["gen:"+k] = v
	}
	rep.Extra["generated_functions"] = nFuncs
	for _, k := range []string{"mem_rows_checked", "mem_rows_failed", "mem_rows_failed_unconfirmed"} {
		rep.Extra[k] = memStat[k]
	}
	for k, v := range memStat {
		rep.Extra[k] = v
	}
	rep.Finish()
}

// evaluate sends a batch to the oracle and reports.
func evaluate(rep *lib.Report, b *batch, dir string) {
	res := runOracle(rep, b, dir)
	if res == nil {
		return
	}
	for _, d := range b.dumps {
		if d.err != nil {
			rep.Count(b.name + ":analysis-error")
			rep.Fail("intra-error:"+d.fn.String(), "the intra-procedural pass failed on "+d.fn.String()+": "+d.err.Error(),
				[]byte(b.srcs[rootName(d.fn)]), true)
			continue
		}
		if d.skipped != "" {
			rep.Count(b.name + ":skipped-" + d.skipped)
			continue
		}
		line := res[d]
		evaluateMem(rep, b, d, dir)
		key := ""
		nx := 0
		var ks []string
		for k, n := range d.kinds {
			ks = append(ks, fmt.Sprintf("%s=%d", k, n))
			switch k {
			case "other", "ret", "ifc", "call", "makeClosure":
			default:
				nx += n
			}
			rep.Dist[b.name+":ik:"+k] += n
		}
		if d.nOrigins > 0 && nx > 0 && len(d.targets) > 0 {
			sort.Strings(ks)
			key = fmt.Sprintf("b%d|%s", len(d.fn.Blocks), strings.Join(ks, ","))
		}
		rep.Case(key)
		rep.Count(fmt.Sprintf("%s:blocks<=%d", b.name, bucket(len(d.fn.Blocks))))
		rep.Count(fmt.Sprintf("%s:facts<=%d", b.name, bucket(d.nFacts)))
		for _, t := range d.targets {
			rep.Dist[b.name+":target:"+t.kind]++
		}
		if rep.Evaluations%257 == 5 {
			rep.Sample(map[string]any{"function": d.fn.String(), "instrs": d.nInstr, "origins": d.nOrigins,
				"targets": len(d.targets), "state_facts": d.nFacts, "oracle": line})
		}
		if strings.HasPrefix(line, "ok ") {
			if strings.HasSuffix(line, "ssa=0") {
				rep.Count(b.name + ":ssa-reach-hypothesis-false")
			}
			continue
		}
		handleFailure(rep, b, d, line)
	}
}

func rootName(f *ssa.Function) string {
	for f.Parent() != nil {
		f = f.Parent()
	}
	return f.Name()
}

func bucket(n int) int {
	for _, b := range []int{1, 2, 4, 8, 16, 32, 64, 128, 256, 1024, 4096, 16384, 65536, 1 << 20} {
		if n <= b {
			return b
		}
	}
	return 1 << 30
}

// handleFailure: the criterion is false on the real result of d.
func handleFailure(rep *lib.Report, b *batch, d *fnDump, line string) {
	// failures that have exactly the shape of a recorded finding are reported under that finding's key
	var rest []failure
	for _, f := range parseFailures(line) {
		if id := d.classifyFailure(f); id != "" {
			rep.Count(b.name + ":known-shape:" + id)
			rep.Fail(shapeKey[id], shapeWhat[id]+" — seen in "+d.fn.String()+": "+f.raw, []byte(b.srcs[rootName(d.fn)]+"\n"+d.text), false)
		} else {
			rest = append(rest, f)
		}
	}
	if len(rest) == 0 {
		rep.Count(b.name + ":outside-closed-only-known-shapes")
		return
	}
	var sb strings.Builder
	fmt.Fprintf(&sb, "function: %s\noracle: %s\n\n", d.fn.String(), line)
	parts := strings.SplitN(line, " ", 4)
	detail := ""
	if len(parts) == 4 {
		detail = parts[3]
	}
	_ = detail
	first := rest[0].raw
	for _, ff := range rest {
		kv := ff.kv
		for _, k := range []string{"at", "loc", "from", "to"} {
			if v, ok := kv[k]; ok {
				var i int
				fmt.Sscan(v, &i)
				fmt.Fprintf(&sb, "%s=%d: %s\n", k, i, d.describeInstr(i))
			}
		}
		if v, ok := kv["mark"]; ok {
			var m int
			fmt.Sscan(v, &m)
			for _, o := range d.origins {
				if o.mark == m {
					fmt.Fprintf(&sb, "mark=%d: origin %s\n", m, o.desc)
				}
			}
		}
	}
	fmt.Fprintf(&sb, "\nsource:\n%s\n\nSSA:\n", b.srcs[rootName(d.fn)])
	d.fn.WriteTo(&sb)
	fmt.Fprintf(&sb, "\noracle record:\n%s", d.text)
	// concrete search: wrap the offending construct between a source and a sink
	for _, ff := range rest {
		tk := templateFor(d, ff)
		if tk == "" {
			continue
		}
		sr := runSearch(tk)
		rep.Count("search:" + tk)
		if sr.nativeDep && !sr.reported {
			if reportedWraps[tk] {
				rep.Count("wrap-again:" + tk)
				return
			}
			reportedWraps[tk] = true
			content := fmt.Sprintf("// criterion failure: %s\n// in %s\n// native: the value at the sink changes with the source value; real taint analysis: flow NOT reported\n%s\n/*\n%s*/\n",
				ff.raw, d.fn.String(), sr.program, sb.String())
			rep.Fail("wrap:"+tk, fmt.Sprintf("the summary of a function with construct %q loses a real flow: native run shows the sink value depends on the source, the taint analysis reports nothing (criterion: %s in %s)", tk, ff.raw, d.fn.String()),
				[]byte(content), false)
			return
		}
		fmt.Fprintf(&sb, "\nsearch %s: native-dependence=%v reported-by-taint=%v %s\n", tk, sr.nativeDep, sr.reported, sr.note)
	}
	rep.Fail(fmt.Sprintf("closed:%s:%s:%s", b.name, d.fn.String(), rest[0].rule),
		fmt.Sprintf("Intra.closed is false on the real result for %s (%s): %s", d.fn.String(), b.name, first), []byte(sb.String()), true)
}

var reportedWraps = map[string]bool{}

func fields(s string) map[string]string {
	m := map[string]string{}
	for _, w := range strings.Fields(s) {
		if i := strings.IndexByte(w, '='); i > 0 {
			m[w[:i]] = w[i+1:]
		}
	}
	return m
}
