package main

// search.go: concrete search after a criterion failure.  The violated rule names an instruction kind
// (and operand position), an origin kind or a boundary-use kind; the matching template wraps exactly
// that construct between a source and a sink.  Ground truth = two native runs with different source
// values (the value observed at the sink must change); verdict of the implementation = the REAL taint
// analysis (taintrun) on the same program.  A flow that is real natively and not reported is a concrete
// failing input.

import (
	"fmt"
	"os"
	"path/filepath"
	"sort"
	"strings"

	"golang.org/x/tools/go/ssa"
	"verif/harness/lib"
	"verif/harness/taintrun"
)

const wrapPrelude = `package main

type S struct {
	A int
	B string
}
type MyStr string
type I interface{ M() string }
type J interface {
	M() string
	N() int
}
type impl struct{ s string }

func (x impl) M() string { return x.s }
func (x impl) N() int    { return len(x.s) }

var opaque = 1

func c() bool            { return opaque > 0 }
func k() string          { return "k" }
func ki() int            { return opaque }

var zeroV, oneV = 0, 1

func z() int { return zeroV }
func o() int { return oneV }
func source() string     { return "%SRCS%" }
func sourceInt() int     { return %SRCI% }
func sourceF() float64   { return %SRCF% }
func source2() (int, string) { return 0, "%SRCS%" }
func sink(x any)         { println(fmtAny(x)) }
func mkS(b string) S     { return S{A: len(b), B: b} }
func mkPS(b string) *S   { return &S{A: len(b), B: b} }
func mkArr(b string) [2]string { return [2]string{b, "z"} }
func mkStrs(b string) []string { return []string{b, "z"} }
func mkMap(b string) map[string]string { return map[string]string{"k": b, "AAA": "1", "BBBBB": "2"} }
func mkAny(b string) any { return b }
func mkCh(b string) chan string { ch := make(chan string, 1); ch <- b; return ch }
func mkPStr(b string) *string { return &b }
func mkI(b string) I     { return impl{b} }
func mkJ(b string) J     { return impl{b} }

func fmtAny(x any) string {
	switch v := x.(type) {
	case string:
		return "s:" + v
	case int:
		return "i:" + itoa(v)
	case bool:
		if v {
			return "b:true"
		}
		return "b:false"
	case float64:
		return "f:" + itoa(int(v*100))
	case byte:
		return "y:" + itoa(int(v))
	case []byte:
		return "bs:" + string(v)
	}
	return "?"
}

func itoa(n int) string {
	if n == 0 {
		return "0"
	}
	neg := n < 0
	if neg {
		n = -n
	}
	s := ""
	for n > 0 {
		s = string(rune('0'+n%%10)) + s
		n /= 10
	}
	if neg {
		s = "-" + s
	}
	return s
}
`

// body of main per template; the sink call must be on a line containing "sink("
var wraps = map[string]string{
	"binop:0":            "x := source()\n\ty := x + k()\n\tsink(y)",
	"binop:1":            "x := source()\n\ty := k() + x\n\tsink(y)",
	"unop:-":             "x := sourceInt()\n\ty := -x\n\tsink(y)",
	"unop:^":             "x := sourceInt()\n\ty := ^x\n\tsink(y)",
	"unop:!":             "x := sourceInt() > 150\n\ty := !x\n\tsink(y)",
	"unop:*":             "p := mkPStr(source())\n\ty := *p\n\tsink(y)",
	"unop:<-":            "ch := mkCh(source())\n\ty := <-ch\n\tsink(y)",
	"convert:0":          "x := source()\n\ty := []byte(x)\n\tsink(y)",
	"changeType:0":       "x := source()\n\ty := MyStr(x)\n\tz := string(y)\n\tsink(z)",
	"changeInterface:0":  "j := mkJ(source())\n\ti := I(j)\n\tsink(i.M())",
	"makeInterface:0":    "x := source()\n\ta := any(x)\n\tsink(a)",
	"typeAssert:0":       "a := mkAny(source())\n\ty := a.(string)\n\tsink(y)",
	"sliceToArrayPtr:0":  "b := []byte(source())\n\tp := (*[3]byte)(b)\n\tsink(p[0])",
	"field:0":            "s := mkS(source())\n\tsink(s.B)",
	"fieldAddr:0":        "p := mkPS(source())\n\tsink(p.B)",
	"index:0":            "a := mkArr(source())\n\tsink(a[z()])",
	"index:1":            "a := mkArr(\"q\")\n\tsink(a[sourceInt()%2])",
	"indexAddr:0":        "s := mkStrs(source())\n\tsink(s[z()])",
	"indexAddr:1":        "s := mkStrs(\"q\")\n\tsink(s[sourceInt()%2])",
	"lookup:0":           "m := mkMap(source())\n\tsink(m[k()])",
	"lookup:1":           "m := mkMap(\"q\")\n\tsink(m[source()])",
	"phi":                "x := source()\n\ty := k()\n\tif c() {\n\t\ty = x\n\t}\n\tsink(y)",
	"extract:call":       "_, y := source2()\n\tsink(y)",
	"extract:typeAssert": "a := mkAny(source())\n\ty, ok := a.(string)\n\t_ = ok\n\tsink(y)",
	"extract:lookup":     "m := mkMap(source())\n\ty, ok := m[k()]\n\t_ = ok\n\tsink(y)",
	"extract:unop":       "ch := mkCh(source())\n\ty, ok := <-ch\n\t_ = ok\n\tsink(y)",
	"slice:0":            "x := source()\n\ty := x[o():]\n\tsink(y)",
	"builtin:append:0":   "b := []byte(source())\n\ty := append(b, 'a')\n\tsink(y)",
	"builtin:append:1":   "b := []byte(source())\n\ty := append([]byte(k()), b...)\n\tsink(y)",
	"builtin:len:0":      "x := source()\n\tsink(len(x))",
	"builtin:min:0":      "x := source()\n\ty := min(x, \"zzz\")\n\tsink(y)",
	"builtin:min:1":      "x := source()\n\ty := min(\"zzz\", x)\n\tsink(y)",
	"builtin:max:0":      "x := source()\n\ty := max(x, \"0\")\n\tsink(y)",
	"builtin:max:1":      "x := source()\n\ty := max(\"0\", x)\n\tsink(y)",
	"builtin:complex:0":  "x := sourceF()\n\ty := complex(x, 1)\n\tsink(real(y))",
	"builtin:complex:1":  "x := sourceF()\n\ty := complex(1, x)\n\tsink(imag(y))",
	"builtin:real:0":     "x := complex(sourceF(), 1)\n\tsink(real(x))",
	"builtin:imag:0":     "x := complex(1, sourceF())\n\tsink(imag(x))",
	"builtin:Error:0":    "e := error(errT{source()})\n\tsink(e.Error())",
	"init:param":         "viaParam(source())",
	"init:freevar":       "x := source()\n\tf := func() {\n\t\tsink(x)\n\t}\n\tf()",
	"init:call":          "sink(source())",
	"carry":              "x := source()\n\tif c() {\n\t\topaque++\n\t} else {\n\t\topaque--\n\t}\n\tsink(x)",
	"carry#2":            "x := source()\n\tfor i := 0; i < 3; i++ {\n\t\topaque++\n\t}\n\tsink(x)",
	"carry#3":            "x := source()\n\tswitch ki() {\n\tcase 1:\n\t\topaque++\n\tcase 2:\n\t\topaque--\n\tdefault:\n\t\topaque += 2\n\t}\n\tif c() {\n\t\topaque++\n\t}\n\tsink(x)",
	"carry#4":            "x := source()\n\ty := x + k()\n\tfor i := 0; i < 2; i++ {\n\t\tif c() {\n\t\t\topaque++\n\t\t\tcontinue\n\t\t}\n\t\topaque--\n\t}\n\tsink(y)",
	"phi#2":              "x := source()\n\ty := k()\n\tif !c() {\n\t\ty = k() + \"a\"\n\t} else {\n\t\ty = x\n\t}\n\tsink(y)",
	"phi#3":              "y := source()\n\tfor i := 0; i < 2; i++ {\n\t\ty = y + k()\n\t}\n\tsink(y)",
	"range:0":            "m := mkMap(source())\n\tfor _, v := range m {\n\t\tsink(v)\n\t}",
	"next:0":             "m := mkMap(source())\n\tfor _, v := range m {\n\t\tsink(v)\n\t}",
	"extract:next":       "m := mkMap(source())\n\tfor _, v := range m {\n\t\tsink(v)\n\t}",
	"extract:next#2":     "m := map[string]string{source(): k()}\n\tfor kk := range m {\n\t\tsink(kk)\n\t}",
	"select:0":           "ch := mkCh(source())\n\tselect {\n\tcase v := <-ch:\n\t\tsink(v)\n\t}",
	"extract:select":     "ch := mkCh(source())\n\tch2 := mkCh(k())\n\tselect {\n\tcase v := <-ch:\n\t\tsink(v)\n\tcase w := <-ch2:\n\t\t_ = w\n\t}",
	"extract:lookup#2":   "_, m := mkMap2(source())\n\ty, ok := m[k()]\n\t_ = ok\n\tsink(y)",
	"extract:typeAssert#2": "a := mkAny(source())\n\tvar y string\n\tswitch v := a.(type) {\n\tcase string:\n\t\ty = v\n\t}\n\tsink(y)",
	"carry#5":            "x := source()\n\ty := k()\n\tn := 0\n\tfor {\n\t\tsink(y)\n\t\ty = id(x)\n\t\tn++\n\t\tif n > 1 {\n\t\t\tbreak\n\t\t}\n\t}",
	"edge:binding#2":     "h := mkH(source())\n\tsink(h.f())",
	"edge:arg#2":         "x := source()\n\tsink3(k(), k(), x)",
	"edge:return#2":      "_, y := id2(k(), source())\n\tsink(y)",
	"edge:return":        "sink(id(source()))",
	"edge:arg":           "x := source()\n\tsink(x)",
	"edge:binding":       "x := source()\n\tf := func() string {\n\t\treturn x\n\t}\n\tsink(f())",
	// memory rows (closedMem): source → store → may-alias (a DIFFERENT SSA value) → load → sink
	"mem:store":     "s := k()\n\tp := &s\n\tq := idp(p)\n\t*p = source()\n\tsink(*q)",
	"mem:store#2":   "t := mkPS(k())\n\tt.B = source()\n\tsink(t.B)",
	"mem:store#3":   "s := mkStrs(k())\n\ts[z()] = source()\n\tsink(s[z()])",
	"mem:store#4":   "s := k()\n\tsink(stld(&s, &s, source()))",
	"mem:store#5":   "s := k()\n\tp := &s\n\tpp := &p\n\tq := *pp\n\t*p = source()\n\tsink(*q)",
	"mem:store#6":   "a, b := k(), k()\n\tp := &a\n\tif c() {\n\t\tp = &b\n\t}\n\t*p = source()\n\tsink(b)",
	"mem:store#7":   "s := k()\n\tp := &s\n\tq := idp(p)\n\tfor i := 0; i < 2; i++ {\n\t\tsink(*q)\n\t\t*p = source()\n\t}",
	"mem:mapupdate":   "m := mkMap(k())\n\tm2 := idm(m)\n\tm[k()] = source()\n\tsink(m2[k()])",
	"mem:mapupdate#2": "m := map[string]string{}\n\tm2 := idm(m)\n\tm[source()] = k()\n\tfor kk := range m2 {\n\t\tsink(kk)\n\t}",
	"mem:send":        "ch := make(chan string, 1)\n\tch2 := idc(ch)\n\tch <- source()\n\tsink(<-ch2)",
	"mem:select-send": "ch := make(chan string, 1)\n\tch2 := idc(ch)\n\tselect {\n\tcase ch <- source():\n\tdefault:\n\t}\n\tsink(<-ch2)",
}

const wrapExtra = `
type errT struct{ s string }

func (e errT) Error() string { return e.s }

func viaParam(x string) { sink(x) }
func sink3(a, b, x any)  { sink(x) }
func mkMap2(b string) (int, map[string]string) { return 0, map[string]string{"k": b} }

type holder struct{ f func() string }

func mkH(x string) holder {
	f := func() string { return x }
	return holder{f}
}
func id2(a, b string) (string, string) { return a, b }
func id(x string) string { return x }
func idp(p *string) *string { return p }
func idm(m map[string]string) map[string]string { return m }
func idc(ch chan string) chan string { return ch }
func stld(p, q *string, v string) string { *p = v; return *q }
`

// memTemplateFor chooses the end-to-end template family for a closedMem failure (rule mstore / malias / mload).
func memTemplateFor(d *fnDump, rule string, kv map[string]string) string {
	at := atoi(kv["at"])
	if at < 0 || at >= len(d.instrs) {
		return ""
	}
	switch x := d.instrs[at].(type) {
	case *ssa.Store:
		return "mem:store"
	case *ssa.MapUpdate:
		return "mem:mapupdate"
	case *ssa.Send:
		return "mem:send"
	case *ssa.Select:
		if rule == "mload" {
			return "select:0"
		}
		return "mem:select-send"
	case *ssa.UnOp:
		return "unop:" + x.Op.String()
	case *ssa.Lookup:
		return "lookup:0"
	case *ssa.Index:
		return "index:0"
	case *ssa.Range:
		return "range:0"
	}
	return ""
}

// templateFor chooses the template key for a failure in function d.
func templateFor(d *fnDump, f failure) string {
	switch f.rule {
	case "xfer":
		at := atoi(f.kv["at"])
		if at < 0 || at >= len(d.instrs) {
			return ""
		}
		ins := d.instrs[at]
		kind, ops, _ := classify(ins)
		// operand position of the failing operand
		pos := 0
		op := atoi(f.kv["op"])
		for i, o := range ops {
			if o != nil && d.vidOf != nil && d.vidOf(o) == op {
				pos = i
				break
			}
		}
		switch x := ins.(type) {
		case *ssa.UnOp:
			return "unop:" + x.Op.String()
		case *ssa.Phi:
			return "phi"
		case *ssa.Extract:
			switch x.Tuple.(type) {
			case *ssa.Call:
				return "extract:call"
			case *ssa.TypeAssert:
				return "extract:typeAssert"
			case *ssa.Lookup:
				return "extract:lookup"
			case *ssa.UnOp:
				return "extract:unop"
			case *ssa.Next:
				return "extract:next"
			case *ssa.Select:
				return "extract:select"
			}
			return ""
		}
		return fmt.Sprintf("%s:%d", kind, pos)
	case "init":
		m := atoi(f.kv["mark"])
		for _, o := range d.origins {
			if o.mark == m {
				switch {
				case strings.HasPrefix(o.desc, "param"):
					return "init:param"
				case strings.HasPrefix(o.desc, "freevar"):
					return "init:freevar"
				default:
					return "init:call"
				}
			}
		}
	case "carry":
		return "carry"
	case "edge":
		at, dst := atoi(f.kv["at"]), uint32(atoi(f.kv["dst"]))
		for _, t := range d.targets {
			if t.loc == at {
				for _, n := range t.nodes {
					if n == dst {
						if t.kind == "if" {
							return ""
						}
						return "edge:" + t.kind
					}
				}
			}
		}
	}
	return ""
}

type searchResult struct {
	program   string
	nativeDep bool // the value at the sink depends on the source natively
	reported  bool // the real taint analysis reports source -> sink
	note      string
}

var searchCache = map[string]*searchResult{}

func renderWrap(key string, variant int) string {
	s, i, f := "AAA", "111", "1.5"
	if variant == 1 {
		s, i, f = "BBBBB", "222", "2.5"
	}
	p := strings.NewReplacer("%SRCS%", s, "%SRCI%", i, "%SRCF%", f, "%%", "%").Replace(wrapPrelude)
	return p + wrapExtra + "\nfunc main() {\n\t" + wraps[key] + "\n}\n"
}

// runSearch builds the wrapped program for `key`, runs it natively twice and through the taint analysis.
func runSearch(key string) *searchResult {
	if r, ok := searchCache["all:"+key]; ok {
		return r
	}
	var last *searchResult
	for _, k := range []string{key, key + "#2", key + "#3", key + "#4", key + "#5", key + "#6", key + "#7"} {
		if _, ok := wraps[k]; !ok {
			continue
		}
		last = runSearch1(k)
		if last.nativeDep && !last.reported {
			break
		}
	}
	if last == nil {
		last = &searchResult{note: "no template for " + key}
	}
	searchCache["all:"+key] = last
	return last
}

func runSearch1(key string) *searchResult {
	if r, ok := searchCache[key]; ok {
		return r
	}
	r := &searchResult{}
	searchCache[key] = r
	if _, ok := wraps[key]; !ok {
		r.note = "no template for " + key
		return r
	}
	var outs [2]string
	for v := 0; v < 2; v++ {
		dir := workDir(fmt.Sprintf("search_%s_%d", sanitizeKey(key), v))
		src := renderWrap(key, v)
		lib.WriteProgram(dir, "vwrap", map[string]string{"main.go": src})
		out, err := lib.GoRun(dir, 20)
		os.Remove(filepath.Join(dir, "prog.bin"))
		if err != nil {
			r.note = fmt.Sprintf("native run failed: %v: %s", err, out)
			return r
		}
		outs[v] = out
		if v == 0 {
			r.program = src
			res := taintrun.Run(dir, taintrun.Options{SourceRe: "^source", SinkRe: "^sink$"})
			if !res.OK() {
				r.note = fmt.Sprintf("taint analysis did not run: %v %s", res.LoadErr, res.Panic)
				return r
			}
			// every template has exactly one source and one sink: any reported flow is that flow
			r.reported = len(res.Flows) > 0
		}
	}
	r.nativeDep = outs[0] != outs[1]
	return r
}

func sanitizeKey(s string) string {
	return strings.NewReplacer(":", "_", "<", "lt", "-", "m", "*", "star", "!", "not", "^", "xor").Replace(s)
}

// sweepWraps runs every template through the native ground truth and the real taint analysis: each
// listed instruction kind, origin kind and boundary-use kind wrapped between a source and a sink
// must be reported (thorough tier; VERIF_C08_WRAPS=1 in quick).  All templates whose sink call is in
// their own body go into ONE program (one function per template, flows told apart by the line of the
// sink call); the few that reach the sink through a helper are run one by one.
func sweepWraps(rep *lib.Report) {
	var keys, single []string
	for k, body := range wraps {
		if strings.Contains(body, "sink(") {
			keys = append(keys, k)
		} else {
			single = append(single, k)
		}
	}
	sort.Strings(keys)
	sort.Strings(single)
	results := map[string]*searchResult{}
	for _, k := range single {
		results[k] = runSearch1(k)
	}
	// the batch
	var outs [2]map[int]string
	sinkLine := map[int]int{} // template index -> line of its sink call
	var reportedLines map[int]bool
	var program string
	batchNote := ""
	for v := 0; v < 2 && batchNote == ""; v++ {
		s, i, f := "AAA", "111", "1.5"
		if v == 1 {
			s, i, f = "BBBBB", "222", "2.5"
		}
		var sb strings.Builder
		sb.WriteString(strings.NewReplacer("%SRCS%", s, "%SRCI%", i, "%SRCF%", f, "%%", "%").Replace(wrapPrelude))
		sb.WriteString(wrapExtra)
		sb.WriteString("\nvar cur int\n\nfunc sinkAt(x any) { println(\"T\", cur, fmtAny(x)) }\n")
		for n, k := range keys {
			body := strings.ReplaceAll(wraps[k], "sink(", "sinkAt(")
			fmt.Fprintf(&sb, "\n// %s\nfunc t%d() {\n\t%s\n}\n", k, n, body)
		}
		sb.WriteString("\nfunc main() {\n")
		for n := range keys {
			fmt.Fprintf(&sb, "\tcur = %d\n\tfunc() {\n\t\tdefer func() { recover() }()\n\t\tt%d()\n\t}()\n", n, n)
		}
		sb.WriteString("}\n")
		src := sb.String()
		dir := workDir(fmt.Sprintf("wraps_batch_%d", v))
		lib.WriteProgram(dir, "vwrap", map[string]string{"main.go": src})
		out, err := lib.GoRun(dir, 60)
		os.Remove(filepath.Join(dir, "prog.bin"))
		if err != nil {
			batchNote = fmt.Sprintf("native run of the batch failed: %v: %s", err, out)
			break
		}
		outs[v] = map[int]string{}
		for _, l := range strings.Split(out, "\n") {
			var n int
			var rest string
			if c, _ := fmt.Sscanf(l, "T %d %s", &n, &rest); c >= 1 {
				outs[v][n] += l + ";"
			}
		}
		if v == 0 {
			program = src
			cur := -1
			for ln, l := range strings.Split(src, "\n") {
				var n int
				if c, _ := fmt.Sscanf(l, "func t%d() {", &n); c == 1 {
					cur = n
				}
				if cur >= 0 && strings.Contains(l, "sinkAt(") && !strings.HasPrefix(l, "func ") {
					sinkLine[cur] = ln + 1
				}
			}
			res := taintrun.Run(dir, taintrun.Options{SourceRe: "^source", SinkRe: "^sinkAt$"})
			if !res.OK() {
				batchNote = fmt.Sprintf("taint analysis did not run on the batch: %v %s", res.LoadErr, res.Panic)
				break
			}
			reportedLines = map[int]bool{}
			for _, fl := range res.Flows {
				reportedLines[fl.SinkLine] = true
			}
		}
	}
	for n, k := range keys {
		r := &searchResult{program: "// template " + k + " = function t" + fmt.Sprint(n) + " of\n" + program, note: batchNote}
		if batchNote == "" {
			r.nativeDep = outs[0][n] != outs[1][n]
			r.reported = reportedLines[sinkLine[n]]
		}
		results[k] = r
	}
	all := append(append([]string{}, keys...), single...)
	sort.Strings(all)
	for _, k := range all {
		r := results[k]
		rep.Case("wrap|" + k)
		switch {
		case r.note != "":
			rep.Fail("wrap-harness:"+k, "template "+k+" could not be evaluated: "+r.note, []byte(r.program), true)
		case !r.nativeDep:
			rep.Count("wraps:no-native-dependence")
			rep.Notes = append(rep.Notes, "template "+k+": the sink value does not depend on the source natively (template is vacuous)")
		case !r.reported:
			// confirm on the stand-alone program before reporting
			if one := runSearch1(k); one.nativeDep && !one.reported {
				rep.Fail("wrap:"+k, fmt.Sprintf("construct %q between a source and a sink: the sink value depends on the source natively, the taint analysis reports nothing", k), []byte(one.program), false)
			} else {
				rep.Count("wraps:reported")
			}
		default:
			rep.Count("wraps:reported")
		}
	}
}
