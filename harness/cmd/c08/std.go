package main

// std.go: the same validation on functions of loaded standard-library packages (those the analysis
// itself would visit: reachable from main according to the analyzer state).

import (
	"fmt"
	"os"
	"sort"
	"strings"

	"github.com/awslabs/ar-go-tools/analysis/dataflow"
	"golang.org/x/tools/go/ssa"
	"verif/harness/lib"
)

const stdQuick = `package main

import (
	"errors"
	"path"
	"sort"
	"strconv"
	"strings"
	"unicode/utf8"
)

var sinkS []string
var sinkI []int

func main() {
	a := strings.Split("a,b,c", ",")
	sinkS = append(sinkS, strings.Join(a, "-"), strings.Replace("abc", "b", "x", -1), strings.ToUpper("x"),
		strings.TrimSpace(" a "), strings.Repeat("ab", 3), strings.Title("ab cd"), strings.Map(func(r rune) rune { return r + 1 }, "abc"))
	sinkS = append(sinkS, strings.Fields(" a b ")...)
	var sb strings.Builder
	sb.WriteString("x")
	sb.WriteByte('y')
	sinkS = append(sinkS, sb.String(), strings.NewReplacer("a", "b").Replace("aaa"))
	r := strings.NewReader("hello")
	b := make([]byte, 3)
	n, _ := r.Read(b)
	sinkI = append(sinkI, n, strings.Index("abc", "c"), strings.Count("aaa", "a"), strings.LastIndex("abca", "a"))
	i, err := strconv.Atoi("12")
	if err != nil {
		sinkS = append(sinkS, err.Error())
	}
	f, _ := strconv.ParseFloat("1.5", 64)
	u, _ := strconv.ParseUint("77", 8, 32)
	q, _ := strconv.Unquote("\"a\\n\"")
	sinkI = append(sinkI, i, int(f), int(u))
	sinkS = append(sinkS, strconv.Itoa(i), strconv.Quote("a\n"), strconv.FormatFloat(f, 'g', -1, 64), q, strconv.FormatInt(-5, 2))
	sort.Strings(sinkS)
	sort.Ints(sinkI)
	sort.Slice(sinkI, func(x, y int) bool { return sinkI[x] > sinkI[y] })
	sinkI = append(sinkI, sort.SearchInts(sinkI, 3))
	rn, sz := utf8.DecodeRuneInString("é")
	sinkI = append(sinkI, int(rn), sz, utf8.RuneCountInString("héllo"))
	sinkS = append(sinkS, path.Join("a", "b/../c"), path.Base("/x/y"), path.Ext("a.go"), path.Clean("a//b"))
	e := errors.New("x")
	w := errors.Join(e, errors.New("y"))
	if errors.Is(w, e) {
		sinkS = append(sinkS, errors.Unwrap(w).Error())
	}
}
`

func stdProgram() string {
	if !lib.Thorough() {
		return stdQuick
	}
	s := strings.Replace(stdQuick, "import (\n", "import (\n\t\"bufio\"\n\t\"bytes\"\n\t\"encoding/base64\"\n\t\"encoding/hex\"\n\t\"encoding/json\"\n\t\"fmt\"\n\t\"math\"\n\t\"math/big\"\n\t\"math/bits\"\n\t\"path/filepath\"\n\t\"regexp\"\n\t\"time\"\n", 1)
	extra := `
func init() {
	var buf bytes.Buffer
	buf.WriteString("abc")
	fmt.Fprintf(&buf, "%d %s %v", 1, "x", []int{1})
	sinkS = append(sinkS, buf.String(), fmt.Sprint(1.5, "a"), fmt.Sprintf("%q %x", "s", 255))
	re := regexp.MustCompile("a(b*)c")
	sinkS = append(sinkS, re.FindStringSubmatch("xabbcx")...)
	sinkS = append(sinkS, re.ReplaceAllString("abc abbc", "<$1>"))
	var v map[string]any
	_ = json.Unmarshal([]byte("{\"a\":[1,2,{\"b\":null}]}"), &v)
	out, _ := json.Marshal(v)
	sinkS = append(sinkS, string(out))
	sinkS = append(sinkS, time.Unix(0, 0).UTC().Format(time.RFC3339), filepath.Join("a", "b"))
	sinkS = append(sinkS, base64.StdEncoding.EncodeToString([]byte("hi")), hex.EncodeToString([]byte("hi")))
	sc := bufio.NewScanner(strings.NewReader("a b\nc"))
	for sc.Scan() {
		sinkS = append(sinkS, sc.Text())
	}
	sinkI = append(sinkI, bits.OnesCount(7), int(math.Sqrt(16)), int(big.NewInt(5).Int64()))
}
`
	return s + extra
}

func stdSweep(rep *lib.Report) {
	dir := workDir("std")
	lib.WriteProgram(dir, "vstd", map[string]string{"main.go": stdProgram()})
	prog, pkgs, err := lib.LoadSSA(dir, ssa.InstantiateGenerics, false, ".")
	if err != nil {
		rep.Fail("harness-load-std", "std program does not load: "+err.Error(), nil, true)
		return
	}
	var state *dataflow.AnalyzerState
	quiet(func() { state, err = newState(prog, pkgs, true) })
	if err != nil {
		rep.Fail("harness-state-std", "analyzer state (std): "+err.Error(), nil, true)
		return
	}
	var fns []*ssa.Function
	for f := range state.ReachableFunctions() {
		if f == nil || f.Blocks == nil || f.Pkg == nil || f.Pkg.Pkg.Path() == "vstd" {
			continue
		}
		fns = append(fns, f)
	}
	sort.Slice(fns, func(i, j int) bool { return fns[i].String() < fns[j].String() })
	rep.Extra["std_reachable_functions"] = len(fns)
	limit := 250
	if lib.Thorough() {
		limit = 3000
	}
	if e := os.Getenv("VERIF_C08_STD"); e != "" {
		fmt.Sscan(e, &limit)
	}
	if len(fns) > limit { // seeded sample, deterministic for a seed
		r := lib.Rand("c08-std")
		r.Shuffle(len(fns), func(i, j int) { fns[i], fns[j] = fns[j], fns[i] })
		fns = fns[:limit]
		sort.Slice(fns, func(i, j int) bool { return fns[i].String() < fns[j].String() })
	}
	pk := map[string]int{}
	for _, f := range fns {
		pk[f.Pkg.Pkg.Path()]++
	}
	for p, n := range pk {
		rep.Dist["std:pkg:"+p] = n
	}
	b := &batch{name: "std", srcs: map[string]string{}}
	b.dumps = analyzeFunctions(state, fns, "s")
	evaluate(rep, b, dir)
	rep.Extra["std_functions_analysed"] = fmt.Sprint(len(fns))
}
