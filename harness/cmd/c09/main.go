// Driver for C09: the predefined standard-library summaries.
//
//	T6 + M4  every function of the loaded standard library for which the REAL summaries.SummaryOfFunc
//	         answers: real summary == the regenerated table row compiled into the oracle, real signature
//	         (len(Parent.Params), Results().Len()) == the go/types signature of the translator, and the
//	         REAL edges built by dataflow.NewPredefinedSummary == Summ.apply (out and in maps, exact).
//	misfits  every row whose written positions do not fit is a concrete failing input of the property
//	         (the loader returns false without a diagnostic): one finding per row, key std-misfit:<key>.
//	search   (partial, labelled) semantic direction: native marker runs of invocable entries, see semantic.go.
package main

import (
	"fmt"
	"os"
	"path/filepath"
	"sort"
	"strconv"
	"strings"

	"github.com/awslabs/ar-go-tools/analysis/dataflow"
	"github.com/awslabs/ar-go-tools/analysis/summaries"
	"golang.org/x/tools/go/ssa"
	"golang.org/x/tools/go/ssa/ssautil"
	"verif/harness/lib"
)

const prop = "C09"

type entry struct {
	table, key             string
	resolved               bool
	nParams, nResults      int
	conforms, known, shape bool
	misfits, note          string
	seenInSSA              bool
}

func matrix(m [][]int) string {
	if len(m) == 0 {
		return "-"
	}
	var rows []string
	for _, r := range m {
		var xs []string
		for _, x := range r {
			xs = append(xs, strconv.Itoa(x))
		}
		rows = append(rows, strings.Join(xs, ","))
	}
	return strings.Join(rows, ";")
}

func nodeName(n dataflow.GraphNode) string {
	switch x := n.(type) {
	case *dataflow.ParamNode:
		return fmt.Sprintf("p%d", x.Index())
	case *dataflow.ReturnValNode:
		return fmt.Sprintf("r%d", x.Index())
	}
	return fmt.Sprintf("?%T", n)
}

func join(l []string) string {
	if len(l) == 0 {
		return "-"
	}
	sort.Strings(l)
	return strings.Join(l, ",")
}

// dumpReal lists the out and in maps of a predefined summary graph (parameters and return nodes only:
// that is all NewPredefinedSummary creates).
func dumpReal(g *dataflow.SummaryGraph) (out, in string, hasRet bool) {
	var outs, ins []string
	for _, p := range g.Params {
		for dst, infos := range p.Out() {
			for _, ei := range infos {
				outs = append(outs, fmt.Sprintf("%s>%s:%d", nodeName(p), nodeName(dst), ei.Index))
			}
		}
		for src, ei := range p.In() {
			ins = append(ins, fmt.Sprintf("%s>%s:%d", nodeName(src), nodeName(p), ei.Index))
		}
	}
	seen := map[*dataflow.ReturnValNode]bool{}
	for _, rs := range g.Returns {
		hasRet = true
		for _, r := range rs {
			if r == nil || seen[r] {
				continue
			}
			seen[r] = true
			for src, ei := range r.In() {
				ins = append(ins, fmt.Sprintf("%s>%s:%d", nodeName(src), nodeName(r), ei.Index))
			}
		}
	}
	return join(outs), join(ins), hasRet
}

func field(fields []string, name string) string {
	for _, f := range fields {
		if strings.HasPrefix(f, name+"=") {
			return f[len(name)+1:]
		}
	}
	return ""
}

func importable(p string) bool {
	if p == "internal" || strings.HasPrefix(p, "internal/") || strings.Contains(p, "/internal/") || strings.HasSuffix(p, "/internal") {
		return false
	}
	return p != "builtin"
}

func main() {
	rep := lib.NewReport(prop)
	rep.Rule = "one case per (table row x loaded ssa.Function it names): exhaustive over the regenerated table; distinct = distinct key; non-trivial = the row writes at least one position"

	// ---- the table as the oracle (compiled from the regenerated Lean file) sees it
	lines, err := lib.RunOracle("oracle_c09", []byte("pkgs\nlist\n"))
	if err != nil {
		rep.Fail("oracle-run", "oracle failed: "+err.Error(), nil, true)
		rep.Finish()
		return
	}
	entries := map[string]*entry{}
	var order []string
	var pkgs, notInstalled []string
	for _, l := range lines {
		f := strings.Split(l, "\t")
		switch f[0] {
		case "pkg":
			pkgs = append(pkgs, f[1])
		case "missing":
			notInstalled = append(notInstalled, f[1])
		case "entry":
			np, _ := strconv.Atoi(f[4])
			nr, _ := strconv.Atoi(f[5])
			e := &entry{table: f[1], key: f[2], resolved: f[3] == "1", nParams: np, nResults: nr, conforms: f[6] == "1",
				known: f[7] == "1", shape: f[8] == "1", misfits: f[9], note: f[10]}
			entries[e.key] = e
			order = append(order, e.key)
		}
	}
	if len(entries) < 100 {
		rep.Fail("table-empty", fmt.Sprintf("the regenerated table has only %d rows", len(entries)), nil, true)
		rep.Finish()
		return
	}
	missing := map[string]bool{}
	for _, p := range notInstalled {
		missing[p] = true
	}

	// ---- load the standard library once through the repository's loader
	dir := lib.WorkDir(prop, "prog")
	var src strings.Builder
	src.WriteString("package main\n\nimport (\n")
	nImp := 0
	for _, p := range pkgs {
		if importable(p) && !missing[p] {
			fmt.Fprintf(&src, "\t_ %q\n", p)
			nImp++
		}
	}
	src.WriteString(")\n\nfunc main() {}\n")
	lib.WriteProgram(dir, "vstd", map[string]string{"main.go": src.String()})
	prog, _, err := lib.LoadSSA(dir, ssa.InstantiateGenerics, false, ".")
	if err != nil {
		rep.Fail("harness-load", "program importing the summarised packages does not load: "+err.Error(), nil, true)
		rep.Finish()
		return
	}
	rep.Extra["packages_in_stdPackages"] = len(pkgs)
	rep.Extra["packages_imported"] = nImp
	rep.Extra["packages_not_installed"] = notInstalled

	// ---- every loaded function with a real predefined summary
	type fcase struct {
		f            *ssa.Function
		key          string
		s            summaries.Summary
		out, in      string
		np, nr       int
		hasRet       bool
		args, rets   string
		writesSomething bool
	}
	var cases []*fcase
	for f := range ssautil.AllFunctions(prog) {
		s, ok := summaries.SummaryOfFunc(f)
		if !ok {
			continue
		}
		g := dataflow.NewPredefinedSummary(f, dataflow.GetUniqueFunctionID())
		if g == nil {
			rep.Fail("nil-summary:"+f.String(), "SummaryOfFunc answers but NewPredefinedSummary returns nil", nil, true)
			continue
		}
		c := &fcase{f: f, key: f.String(), s: s, np: len(f.Params), nr: f.Signature.Results().Len(), args: matrix(s.Args), rets: matrix(s.Rets)}
		c.out, c.in, c.hasRet = dumpReal(g)
		for _, r := range append(append([][]int{}, s.Args...), s.Rets...) {
			if len(r) > 0 {
				c.writesSomething = true
			}
		}
		cases = append(cases, c)
	}
	sort.Slice(cases, func(i, j int) bool { return cases[i].key < cases[j].key })
	var in strings.Builder
	for _, c := range cases {
		hr := "0"
		if c.hasRet {
			hr = "1"
		}
		fmt.Fprintf(&in, "fn\t%s\t%d\t%d\t%s\t%s\t%s\n", c.key, c.np, c.nr, hr, c.args, c.rets)
	}
	os.WriteFile(filepath.Join(dir, "oracle_in.txt"), []byte(in.String()), 0o644)
	res, err := lib.RunOracle("oracle_c09", []byte(in.String()))
	if err != nil || len(res) != len(cases) {
		rep.Fail("oracle-run", fmt.Sprintf("oracle failed: %v (%d lines for %d functions)", err, len(res), len(cases)), nil, true)
		rep.Finish()
		return
	}
	nMisfit := 0
	for i, c := range cases {
		f := strings.Split(res[i], "\t")
		key := ""
		if c.writesSomething {
			key = c.key
		}
		rep.Case(key)
		rep.Count(fmt.Sprintf("params=%d", min(c.np, 6)))
		rep.Count(fmt.Sprintf("results=%d", min(c.nr, 3)))
		if !c.hasRet && c.nr > 0 {
			rep.Count("results-but-no-return-node")
		}
		if c.f.Blocks == nil {
			rep.Count("external(no body)")
		}
		if c.f.Synthetic != "" {
			rep.Count("synthetic:" + strings.SplitN(c.f.Synthetic, " ", 2)[0])
		}
		content := fmt.Sprintf("function: %s\nsignature: %s\nreal summary: Args=%v Rets=%v\nreal params=%d results=%d hasReturnNode=%v\nreal out: %s\nreal in : %s\noracle   : %s\n",
			c.key, c.f.Signature, c.s.Args, c.s.Rets, c.np, c.nr, c.hasRet, c.out, c.in, res[i])
		if len(f) < 3 || f[0] != "res" || f[1] != c.key {
			rep.Fail("oracle-answer:"+c.key, "unexpected oracle answer", []byte(content), true)
			continue
		}
		e := entries[c.key]
		if field(f, "found") != "1" || e == nil {
			rep.Fail("t6-missing-row:"+c.key, "the real table answers for this function but the regenerated table (T6) has no such row: translator out of date", []byte(content), true)
			continue
		}
		e.seenInSSA = true
		if field(f, "tableEq") != "1" {
			rep.Fail("t6-row-differs:"+c.key, "regenerated row differs from the summary the real code returns", []byte(content), true)
			continue
		}
		if field(f, "sigEq") != "1" {
			rep.Fail("t6-sig-differs:"+c.key, fmt.Sprintf("go/types signature of the translator (%d params, %d results; resolved=%v) differs from the ssa function (%d, %d)", e.nParams, e.nResults, e.resolved, c.np, c.nr), []byte(content), true)
			continue
		}
		if field(f, "out") != c.out || field(f, "in") != c.in {
			// the model no longer describes PopulateGraphFromSummary. Is a written in-range position lost?
			rep.Fail("apply-model:"+c.key, "REAL NewPredefinedSummary edges differ from Summ.apply (apply_exact no longer describes the code)", []byte(content), field(f, "conf") != "1")
			continue
		}
		if field(f, "conf") != "1" {
			nMisfit++
			rep.Count("misfit")
			rep.Fail("std-misfit:"+c.key, fmt.Sprintf("summary row of %s writes positions that do not exist in its signature %s; the loader drops them silently: %s", c.key, c.f.Signature, field(f, "dropped")), []byte(content), false)
		}
		if i%41 == 7 {
			rep.Sample(map[string]any{"function": c.key, "summary": fmt.Sprintf("%v/%v", c.s.Args, c.s.Rets), "real_out": c.out, "real_in": c.in, "oracle": res[i]})
		}
	}
	// ---- rows and their resolution
	var unresolved, notLoaded, shapeWarn []string
	for _, k := range order {
		e := entries[k]
		switch {
		case !e.resolved:
			unresolved = append(unresolved, k+"  ("+e.note+")")
		case !e.seenInSSA:
			notLoaded = append(notLoaded, k)
		}
		if e.resolved && e.conforms && !e.shape {
			shapeWarn = append(shapeWarn, k)
		}
		if e.resolved && !e.conforms && !e.seenInSSA {
			// a misfit the M4 pass could not see on a real graph: still a row that does not fit
			rep.Fail("std-misfit:"+k, "summary row does not fit the go/types signature (function not in the loaded program): "+e.misfits, []byte(k+"\n"+e.note+"\n"+e.misfits+"\n"), false)
		}
	}
	rep.Extra["table_rows"] = len(order)
	rep.Extra["functions_with_real_summary"] = len(cases)
	rep.Extra["misfit_rows"] = nMisfit
	rep.Extra["rows_naming_no_function"] = unresolved
	rep.Extra["rows_resolved_but_not_loaded"] = notLoaded
	rep.Extra["rows_with_more_rows_than_parameters"] = shapeWarn

	// ---- the exception list of the Lean theorem must be the recorded findings, nothing more
	recorded := map[string]bool{}
	for _, kf := range lib.KnownFindings(prop) {
		if kf.Status == "open" && strings.HasPrefix(kf.Key, "std-misfit:") {
			recorded[strings.TrimPrefix(kf.Key, "std-misfit:")] = true
		}
	}
	for _, k := range order {
		if entries[k].known && !recorded[k] {
			rep.Fail("exception-not-recorded:"+k, "Spec.knownMisfits excepts a row that is not an open finding in known_findings.json: std_table_conforms is weaker than recorded", nil, true)
		}
	}

	var fns []semFn
	for _, c := range cases {
		fns = append(fns, semFn{f: c.f, key: c.key})
	}
	semanticSearch(rep, fns)
	rep.Finish()
}
