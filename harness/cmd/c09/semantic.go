package main

import "verif/harness/lib"

// semanticSearch: see the final version below (native marker runs). Placeholder until implemented.
func semanticSearch(rep *lib.Report, entries map[string]*entry, order []string) {}
