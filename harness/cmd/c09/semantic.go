package main

// Semantic direction of C09 — SEARCH ONLY, PARTIAL (the bodies of the standard library are not
// modelled; nothing here is a proof).
//
// For a sample of invocable entries (pure functions/methods of strings, bytes, strconv, fmt, path, …)
// and every argument position i whose type can carry a marker, one case is generated:
//
//	a_i := source_<sid>()            // a value containing the unique marker of the case
//	a_k := neutral value (k != i)
//	r… := pkg.F(a…)                   // or recv.M(a…)
//	sink_<sid*16+j>(r_j) …            // every result
//	sink_<sid*16+8+k>(a_k) …          // every other pointer-like argument (and the receiver) after the call
//
// The program is (1) executed natively with sinks that walk their argument (reflect, unexported
// fields included) looking for the marker: the flows some execution exhibits; (2) analysed by the
// REAL taint analysis. A flow observed natively that the tool does not report is a concrete failing
// input of the property (key std-flow:<entry>:<i>-><target>).

import (
	"bytes"
	"fmt"
	"go/ast"
	"go/types"
	"os"
	"os/exec"
	"path/filepath"
	"sort"
	"strconv"
	"strings"

	"golang.org/x/tools/go/ssa"
	"verif/harness/lib"
	"verif/harness/taintrun"
)

type semFn struct {
	f   *ssa.Function
	key string
}

// how to build a value of a type: marker expression (printf with the marker text), neutral expression
type synth struct {
	marker  string // Go expression containing %[1]s = marker text ("" = the type cannot carry a marker)
	neutral string
	ptrLike bool // sink the argument after the call
	imports []string
}

const mk = `"%[1]s"`

var synths = map[string]synth{
	"string":           {mk, `"n"`, false, nil},
	"[]byte":           {`[]byte(` + mk + `)`, `[]byte("n")`, true, nil},
	"[]string":         {`[]string{"a", ` + mk + `}`, `[]string{"n", "m"}`, true, nil},
	"[]rune":           {`[]rune(` + mk + `)`, `[]rune("n")`, true, nil},
	"any":              {`any(` + mk + `)`, `any("n")`, false, nil},
	"[]any":            {`[]any{` + mk + `}`, `[]any{"n"}`, true, nil},
	"error":            {`errors.New(` + mk + `)`, `errors.New("n")`, false, []string{"errors"}},
	"io.Reader":        {`strings.NewReader(` + mk + `)`, `strings.NewReader("n")`, true, []string{"strings"}},
	"io.Writer":        {`bytes.NewBufferString(` + mk + `)`, `new(bytes.Buffer)`, true, []string{"bytes"}},
	"*bytes.Buffer":    {`bytes.NewBufferString(` + mk + `)`, `new(bytes.Buffer)`, true, []string{"bytes"}},
	"*strings.Builder": {`mkBuilder(` + mk + `)`, `new(strings.Builder)`, true, []string{"strings"}},
	"*strings.Reader":  {`strings.NewReader(` + mk + `)`, `strings.NewReader("n")`, true, []string{"strings"}},
	"*bytes.Reader":    {`bytes.NewReader([]byte(` + mk + `))`, `bytes.NewReader([]byte("n"))`, true, []string{"bytes"}},
	"*bufio.Reader":    {`bufio.NewReader(strings.NewReader(` + mk + `))`, `bufio.NewReader(strings.NewReader("n"))`, true, []string{"bufio", "strings"}},
	"*bufio.Scanner":   {`bufio.NewScanner(strings.NewReader(` + mk + `))`, `bufio.NewScanner(strings.NewReader("n"))`, true, []string{"bufio", "strings"}},
	"*regexp.Regexp":   {`regexp.MustCompile(` + mk + `)`, `regexp.MustCompile("n")`, true, []string{"regexp"}},
	"int":              {"", "1", false, nil},
	"int64":            {"", "int64(1)", false, nil},
	"uint64":           {"", "uint64(1)", false, nil},
	"float64":          {"", "1.5", false, nil},
	"bool":             {"", "true", false, nil},
	"byte":             {"", "byte('x')", false, nil},
	"rune":             {"", "'x'", false, nil},
	"*any":             {`ptrAny(` + mk + `)`, `new(any)`, true, nil},
}

var semPackages = map[string]bool{"strings": true, "bytes": true, "strconv": true, "fmt": true, "path": true,
	"path/filepath": true, "errors": true, "regexp": true, "bufio": true, "html": true, "io": true,
	"encoding/json": true, "net/url": true, "unicode/utf8": true, "sort": true}

var semDeny = map[string]bool{"Walk": true, "WalkDir": true, "Glob": true, "Print": true, "Printf": true, "Println": true,
	"Scan": true, "Scanf": true, "Scanln": true, "Abs": true, "EvalSymlinks": true, "Pipe": true, "ReadFile": true}

func qual(p *types.Package) string { return p.Name() }

func semanticSearch(rep *lib.Report, fns []semFn) {
	type arg struct {
		ty string
		sy synth
	}
	type scase struct {
		fn    semFn
		args  []arg // receiver first
		recv  bool
		nres  int
		pkg   *types.Package
		call  string // format with args
		names []string
	}
	var cs []*scase
	sort.Slice(fns, func(i, j int) bool { return fns[i].key < fns[j].key })
	for _, fn := range fns {
		f := fn.f
		if f.Pkg == nil && f.Object() == nil {
			continue
		}
		obj, _ := f.Object().(*types.Func)
		if obj == nil || obj.Pkg() == nil || !semPackages[obj.Pkg().Path()] || !ast.IsExported(f.Name()) || semDeny[f.Name()] || f.Synthetic != "" {
			continue
		}
		sig := f.Signature
		if sig.TypeParams().Len() > 0 || sig.RecvTypeParams().Len() > 0 {
			continue
		}
		c := &scase{fn: fn, nres: sig.Results().Len(), pkg: obj.Pkg()}
		ok := true
		add := func(t types.Type, variadic bool) {
			ts := types.TypeString(t, qual)
			if variadic {
				// the last parameter of a variadic function: pass one element
				ts = types.TypeString(t.(*types.Slice).Elem(), qual)
			}
			ts = strings.ReplaceAll(ts, "interface{}", "any")
			sy, has := synths[ts]
			if !has {
				ok = false
				return
			}
			c.args = append(c.args, arg{ts, sy})
		}
		if sig.Recv() != nil {
			if named, isNamed := derefNamed(sig.Recv().Type()); !isNamed || !ast.IsExported(named.Obj().Name()) {
				continue
			}
			c.recv = true
			add(sig.Recv().Type(), false)
		}
		for i := 0; i < sig.Params().Len() && ok; i++ {
			add(sig.Params().At(i).Type(), sig.Variadic() && i == sig.Params().Len()-1)
		}
		if !ok || len(c.args) == 0 || len(c.args) > 6 || c.nres > 6 {
			continue
		}
		hasMarker := false
		for _, a := range c.args {
			if a.sy.marker != "" {
				hasMarker = true
			}
		}
		if hasMarker {
			cs = append(cs, c)
		}
	}
	// every invocable entry in both tiers (the native run and one analyser load are cheap); the cap only
	// guards against a table that grows a lot
	maxEntries := 400
	if len(cs) > maxEntries {
		// seeded sample, always keeping the rows named in the property text
		r := lib.Rand("c09-sem")
		r.Shuffle(len(cs), func(i, j int) { cs[i], cs[j] = cs[j], cs[i] })
		sort.SliceStable(cs, func(i, j int) bool { return pri(cs[i].fn.key) > pri(cs[j].fn.key) })
		cs = cs[:maxEntries]
	}
	if len(cs) == 0 {
		rep.Extra["semantic_entries"] = 0
		return
	}
	// ---- generate
	imports := map[string]bool{"strings": true}
	var body, calls, srcs strings.Builder
	sinkIDs := map[int]bool{}
	type sub struct {
		c    *scase
		i    int
		sid  int
		text string // source function + case function, for stand-alone replay files
		imps []string
	}
	var subs []sub
	sid := 0
	for ci, c := range cs {
		imports[c.pkg.Path()] = true
		for _, a := range c.args {
			for _, im := range a.sy.imports {
				imports[im] = true
			}
		}
		for i, a := range c.args {
			if a.sy.marker == "" {
				continue
			}
			sid++
			marker := fmt.Sprintf("MK%dQz", sid)
			srcLine := fmt.Sprintf("func source_%d() %s { return %s }\n", sid, a.ty, fmt.Sprintf(a.sy.marker, marker))
			srcs.WriteString(srcLine)
			bodyStart := body.Len()
			fmt.Fprintf(&body, "// %s, marker in argument %d\nfunc case_%d_%d() {\n\tdefer func() { recover() }()\n", c.fn.key, i, ci, i)
			var names []string
			for k, ak := range c.args {
				if k == i {
					fmt.Fprintf(&body, "\ta%d := source_%d()\n", k, sid)
				} else {
					fmt.Fprintf(&body, "\ta%d := %s\n", k, ak.sy.neutral)
				}
				names = append(names, fmt.Sprintf("a%d", k))
			}
			var rs []string
			for j := 0; j < c.nres; j++ {
				rs = append(rs, fmt.Sprintf("r%d", j))
			}
			lhs := ""
			if len(rs) > 0 {
				lhs = strings.Join(rs, ", ") + " := "
			}
			variadic := c.fn.f.Signature.Variadic()
			callArgs := names
			target := qual(c.pkg) + "." + c.fn.f.Name()
			if c.recv {
				target = "a0." + c.fn.f.Name()
				callArgs = names[1:]
			}
			_ = variadic
			fmt.Fprintf(&body, "\t%s%s(%s)\n", lhs, target, strings.Join(callArgs, ", "))
			for j := range rs {
				id := sid*16 + j
				sinkIDs[id] = true
				fmt.Fprintf(&body, "\tsink_%d(r%d)\n", id, j)
			}
			for k, ak := range c.args {
				if k != i && ak.sy.ptrLike {
					id := sid*16 + 8 + k
					sinkIDs[id] = true
					fmt.Fprintf(&body, "\tsink_%d(a%d)\n", id, k)
				}
			}
			body.WriteString("}\n\n")
			fmt.Fprintf(&calls, "\tcase_%d_%d()\n", ci, i)
			imps := map[string]bool{c.pkg.Path(): true, "strings": true}
			for _, ak := range c.args {
				for _, im := range ak.sy.imports {
					imps[im] = true
				}
			}
			var il []string
			for im := range imps {
				il = append(il, im)
			}
			sort.Strings(il)
			subs = append(subs, sub{c: c, i: i, sid: sid, text: srcLine + "\n" + body.String()[bodyStart:] + fmt.Sprintf("func main() { case_%d_%d() }\n", ci, i), imps: il})
		}
	}
	var ims []string
	for p := range imports {
		ims = append(ims, p)
	}
	sort.Strings(ims)
	var main strings.Builder
	main.WriteString("package main\n\nimport (\n")
	for _, p := range ims {
		fmt.Fprintf(&main, "\t%q\n", p)
	}
	main.WriteString(")\n\nvar _ = strings.Contains\n\nfunc mkBuilder(s string) *strings.Builder { b := new(strings.Builder); b.WriteString(s); return b }\nfunc ptrAny(s string) *any { var x any = s; return &x }\n\n")
	main.WriteString(srcs.String())
	main.WriteString("\n")
	main.WriteString(body.String())
	main.WriteString("func main() {\n" + calls.String() + "}\n")
	var ids []int
	for id := range sinkIDs {
		ids = append(ids, id)
	}
	sort.Ints(ids)
	var stub, gt strings.Builder
	stub.WriteString("//go:build !gt\n\npackage main\n\n")
	gt.WriteString("//go:build gt\n\npackage main\n\nimport (\n\t\"fmt\"\n\t\"reflect\"\n\t\"strings\"\n)\n\n")
	for _, id := range ids {
		fmt.Fprintf(&stub, "func sink_%d(x any) {}\n", id)
		fmt.Fprintf(&gt, "func sink_%d(x any) { observe(%d, x) }\n", id, id)
	}
	gt.WriteString(gtRuntime)
	dir := lib.WorkDir(prop, "semantic")
	lib.WriteProgram(dir, "vsem", map[string]string{"main.go": main.String(), "rt_stub.go": stub.String(), "rt_gt.go": gt.String()})

	// ---- native run
	bin := filepath.Join(dir, "gt.bin")
	build := exec.Command("go", "build", "-tags", "gt", "-o", bin, ".")
	build.Dir = dir
	build.Env = append(os.Environ(), "GOFLAGS=-mod=mod", "GOPROXY=off", "GOSUMDB=off", "GOTOOLCHAIN=local", "GOWORK=off")
	if out, err := build.CombinedOutput(); err != nil {
		rep.Fail("harness-semantic-build", "generated marker program does not build: "+string(out), []byte(main.String()), true)
		return
	}
	run := exec.Command(bin)
	run.Dir = dir
	var so, se bytes.Buffer
	run.Stdout, run.Stderr = &so, &se
	if err := run.Run(); err != nil {
		rep.Fail("harness-semantic-run", "generated marker program failed: "+err.Error()+" "+se.String(), []byte(main.String()), true)
		return
	}
	native := map[[2]int]bool{}
	for _, line := range strings.Split(so.String()+"\n"+se.String(), "\n") {
		var s, k int
		if n, _ := fmt.Sscanf(line, "OBS %d %d", &s, &k); n == 2 {
			native[[2]int{s, k}] = true
		}
	}
	// ---- real taint analysis
	res := taintrun.Run(dir, taintrun.Options{SourceRe: `^source_\d+$`, SinkRe: `^sink_\d+$`})
	if !res.OK() {
		rep.Fail("harness-semantic-analysis", fmt.Sprintf("taint analysis of the marker program did not complete: %v %s", res.LoadErr, firstLine(res.Panic)), []byte(main.String()), true)
		return
	}
	tool := res.IDPairs()
	nFlows, nMissed := 0, 0
	for _, s := range subs {
		rep.Count("semantic:cases")
		for p := range native {
			if p[0] != s.sid || p[1]/16 != s.sid {
				continue
			}
			nFlows++
			slot := p[1] % 16
			target := fmt.Sprintf("r%d", slot)
			if slot >= 8 {
				target = fmt.Sprintf("a%d", slot-8)
			}
			if !tool[p] {
				nMissed++
				key := fmt.Sprintf("std-flow:%s:%d->%s", s.c.fn.key, s.i, target)
				what := fmt.Sprintf("%s (%s): the marker planted in argument %d reaches %s at run time, the taint analysis reports no flow from source_%d to sink_%d", s.c.fn.key, s.c.fn.f.Signature, s.i, target, p[0], p[1])
				var im strings.Builder
				for _, x := range s.imps {
					fmt.Fprintf(&im, "\t%q\n", x)
				}
				var sk strings.Builder
				for id := s.sid * 16; id < s.sid*16+16; id++ {
					if sinkIDs[id] {
						fmt.Fprintf(&sk, "func sink_%d(x any) {} // natively: walks x looking for the marker\n", id)
					}
				}
				standalone := fmt.Sprintf("// %s\n// native run of the generated program printed: OBS %d %d\n// replay: argot taint with sources ^source_\\d+$ and sinks ^sink_\\d+$ on this file reports no flow from source_%d to sink_%d\npackage main\n\nimport (\n%s)\n\nvar _ = strings.Contains\n\nfunc mkBuilder(s string) *strings.Builder { b := new(strings.Builder); b.WriteString(s); return b }\nfunc ptrAny(s string) *any { var x any = s; return &x }\n\n%s\n%s", what, p[0], p[1], p[0], p[1], im.String(), s.text, sk.String())
				rep.Fail(key, what, []byte(standalone), false)
			}
		}
	}
	rep.Extra["semantic_entries"] = len(cs)
	rep.Extra["semantic_cases"] = len(subs)
	rep.Extra["semantic_native_flows"] = nFlows
	rep.Extra["semantic_flows_missed_by_tool"] = nMissed
	rep.Notes = append(rep.Notes, "semantic direction is a search over a sample of invocable entries (native marker runs vs the real taint analysis), not a proof")
}

func firstLine(s string) string {
	if i := strings.IndexByte(s, '\n'); i >= 0 {
		return s[:i]
	}
	return s
}

func pri(key string) int {
	switch key {
	case "strings.Join", "fmt.Sprintf", "strconv.Itoa", "strings.Replace", "(*bytes.Buffer).WriteString", "path.Join":
		return 1
	}
	return 0
}

func derefNamed(t types.Type) (*types.Named, bool) {
	if p, ok := t.(*types.Pointer); ok {
		t = p.Elem()
	}
	n, ok := t.(*types.Named)
	return n, ok
}

var _ = strconv.Itoa

const gtRuntime = `
// observe walks x (unexported fields included) and prints OBS <sid> <sink> when the marker of the
// case is found in a string, byte slice or rune slice.
func observe(id int, x any) {
	marker := fmt.Sprintf("MK%dQz", id/16)
	seen := map[uintptr]bool{}
	if walk(reflect.ValueOf(x), strings.ToLower(marker), seen, 0) {
		fmt.Printf("OBS %d %d\n", id/16, id)
	}
}

func has(s, marker string) bool { return strings.Contains(strings.ToLower(s), marker) }

func walk(v reflect.Value, marker string, seen map[uintptr]bool, depth int) bool {
	if !v.IsValid() || depth > 12 {
		return false
	}
	switch v.Kind() {
	case reflect.String:
		return has(v.String(), marker)
	case reflect.Slice, reflect.Array:
		if v.Kind() == reflect.Slice && v.IsNil() {
			return false
		}
		if v.Type().Elem().Kind() == reflect.Uint8 {
			b := make([]byte, v.Len())
			for i := range b {
				b[i] = byte(v.Index(i).Uint())
			}
			// also the bytes beyond len (a Buffer keeps written data in its capacity)
			if v.Kind() == reflect.Slice && v.Cap() > v.Len() {
				w := v.Slice(0, v.Cap())
				b = make([]byte, w.Len())
				for i := range b {
					b[i] = byte(w.Index(i).Uint())
				}
			}
			return has(string(b), marker)
		}
		if v.Type().Elem().Kind() == reflect.Int32 {
			r := make([]rune, v.Len())
			for i := range r {
				r[i] = rune(v.Index(i).Int())
			}
			return has(string(r), marker)
		}
		for i := 0; i < v.Len(); i++ {
			if walk(v.Index(i), marker, seen, depth+1) {
				return true
			}
		}
	case reflect.Pointer:
		if v.IsNil() || seen[v.Pointer()] {
			return false
		}
		seen[v.Pointer()] = true
		return walk(v.Elem(), marker, seen, depth+1)
	case reflect.Interface:
		if v.IsNil() {
			return false
		}
		return walk(v.Elem(), marker, seen, depth+1)
	case reflect.Struct:
		for i := 0; i < v.NumField(); i++ {
			if walk(v.Field(i), marker, seen, depth+1) {
				return true
			}
		}
	case reflect.Map:
		if v.IsNil() {
			return false
		}
		it := v.MapRange()
		for it.Next() {
			if walk(it.Key(), marker, seen, depth+1) || walk(it.Value(), marker, seen, depth+1) {
				return true
			}
		}
	}
	return false
}
`
