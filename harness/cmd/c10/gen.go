package main

import (
	"encoding/json"
	"fmt"
	"strings"
)

// One specification case: a function (or interface method) of arity n (receiver included for the
// method forms) with m results, a dataflow specification (Args, Rets) for it, and a body that
// flows everything or nothing (so that consulting the body is visible).
type ccase struct {
	id         int
	n, m       int
	args, rets [][]int
	form       string // F: function spec, static call; FM: method spec via ObjectPath "(*pkg.T)", static method call;
	// I: interface-method spec, invoke; IP: interface-method spec AND a different function spec for the implementation, invoke
	other     [][2][][]int // IP: the (args, rets) of the competing function spec
	bodyAll   bool
	malformed bool
	// IE: interface J_<id> embeds I_<id> (which declares the method); the call is made on a J value.
	// embed: which specs exist — "same": J.M = I.M = spec; "diff": J.M = spec, I.M = the complement;
	// "absentI": J.M = spec only; "onlyI": I.M = spec only (no spec applies to the call: the body decides)
	embed string
	// wrap: how the call to the specified function is made from the caller —
	// "": plain call statement; "D": `defer f(a…)` (sinks on the other arguments deferred earlier, so they run after f);
	// "G": `go f(a…)` followed by a receive on the channel the body signals on, then the sinks;
	// "C": the call and the sinks are inside an immediately-invoked closure taking the arguments as parameters;
	// "CC": the same closure without parameters (the arguments are captured variables).
	// Results of a deferred / spawned call are discarded by the language: only the arg -> arg part is observable.
	wrap string
}

// observable results of the call form
func (c *ccase) mObs() int {
	if c.wrap == "D" || c.wrap == "G" {
		return 0
	}
	return c.m
}

// the function containing the call to the specified function
func (c *ccase) callerName(i int) string {
	if c.wrap == "C" || c.wrap == "CC" {
		return fmt.Sprintf("case_%d_%d$1", c.id, i)
	}
	return fmt.Sprintf("case_%d_%d", c.id, i)
}

const slots = 16 // sink id = sid*slots + slot; slot j<4: result j; slot 4+k: argument k after the call

func (c *ccase) fname() string {
	if c.form == "F" || c.form == "FV" {
		return fmt.Sprintf("f_%d", c.id)
	}
	return fmt.Sprintf("M_%d", c.id)
}

// sid of (case, source position)
func sid(c *ccase, i int) int { return c.id*4 + i + 1 }

func params(lo, n int) string {
	var ps []string
	for k := lo; k < n; k++ {
		ps = append(ps, fmt.Sprintf("a%d", k))
	}
	if len(ps) == 0 {
		return ""
	}
	return strings.Join(ps, ", ") + " *T"
}

func results(m int) string {
	switch m {
	case 0:
		return ""
	case 1:
		return " *T"
	}
	return " (" + strings.TrimSuffix(strings.Repeat("*T, ", m), ", ") + ")"
}

func body(c *ccase) string {
	var b strings.Builder
	b.WriteString("{\n")
	sig := ""
	if c.wrap == "G" {
		// the spawned call signals its completion; the caller receives before it reads the arguments
		sig = fmt.Sprintf("\tdone_%d <- struct{}{}\n", c.id)
	}
	if c.bodyAll {
		b.WriteString("\tx := \"\"\n\t_ = x\n")
		for k := 0; k < c.n; k++ {
			fmt.Fprintf(&b, "\tx += a%d.s\n", k)
		}
		for k := 0; k < c.n; k++ {
			fmt.Fprintf(&b, "\ta%d.s = x\n", k)
		}
		b.WriteString(sig)
		if c.m > 0 {
			var rs []string
			for j := 0; j < c.m; j++ {
				rs = append(rs, "&T{x}")
			}
			fmt.Fprintf(&b, "\treturn %s\n", strings.Join(rs, ", "))
		}
	} else {
		b.WriteString(sig)
		if c.m > 0 {
			var rs []string
			for j := 0; j < c.m; j++ {
				rs = append(rs, "&T{}")
			}
			fmt.Fprintf(&b, "\treturn %s\n", strings.Join(rs, ", "))
		}
	}
	b.WriteString("}\n")
	return b.String()
}

// render the declarations and the n caller functions of a case; sinks/sources used are appended to decl.
func (c *ccase) render(b *strings.Builder, used map[string]bool) {
	name := c.fname()
	if c.wrap == "G" {
		fmt.Fprintf(b, "var done_%d = make(chan struct{})\n\n", c.id)
	}
	switch c.form {
	case "F", "FV":
		fmt.Fprintf(b, "func %s(%s)%s %s\n", name, params(0, c.n), results(c.m), body(c))
		if c.form == "FV" {
			fmt.Fprintf(b, "var fv_%d = %s\n\n", c.id, name)
		}
	default:
		if c.form != "FM" && c.form != "MV" && c.form != "MX" {
			fmt.Fprintf(b, "type I_%d interface {\n\t%s(%s)%s\n}\n\n", c.id, name, params(1, c.n), results(c.m))
		}
		if c.form == "IE" {
			fmt.Fprintf(b, "type J_%d interface {\n\tI_%d\n}\n\n", c.id, c.id)
		}
		fmt.Fprintf(b, "func (a0 *T) %s(%s)%s %s\n", name, params(1, c.n), results(c.m), body(c))
	}
	if c.n == 0 {
		// no argument to taint: the function is only called (so that its specification is linked)
		fmt.Fprintf(b, "func case_%d_0() {\n", c.id)
		var rs []string
		for j := 0; j < c.m; j++ {
			rs = append(rs, "_")
		}
		lhs := ""
		if c.m > 0 {
			lhs = strings.Join(rs, ", ") + " = "
		}
		switch c.wrap {
		case "D":
			fmt.Fprintf(b, "\tdefer %s()\n}\n\n", name)
		case "G":
			fmt.Fprintf(b, "\tgo %s()\n\t<-done_%d\n}\n\n", name, c.id)
		case "C", "CC":
			fmt.Fprintf(b, "\tfunc() {\n\t\t%s%s()\n\t}()\n}\n\n", lhs, name)
		default:
			fmt.Fprintf(b, "\t%s%s()\n}\n\n", lhs, name)
		}
	}
	for i := 0; i < c.n; i++ {
		s := sid(c, i)
		fmt.Fprintf(b, "func case_%d_%d() {\n", c.id, i)
		for k := 0; k < c.n; k++ {
			if k == i {
				fmt.Fprintf(b, "\ta%d := source_%d()\n", k, s)
				used[fmt.Sprintf("func source_%d() *T { return &T{\"tainted\"} }", s)] = true
			} else {
				fmt.Fprintf(b, "\ta%d := &T{}\n", k)
			}
		}
		var rs []string
		for j := 0; j < c.m; j++ {
			rs = append(rs, fmt.Sprintf("r%d", j))
		}
		lhs := ""
		if c.m > 0 {
			lhs = strings.Join(rs, ", ") + " := "
		}
		var as, all []string
		lo := 0
		if c.form != "F" && c.form != "FV" && c.form != "MX" {
			lo = 1
		}
		for k := 0; k < c.n; k++ {
			all = append(all, fmt.Sprintf("a%d", k))
			if k >= lo {
				as = append(as, fmt.Sprintf("a%d", k))
			}
		}
		// pre: statements that must precede the call (in the function that contains it); call: the call expression
		pre, call := "", ""
		switch c.form {
		case "F":
			call = fmt.Sprintf("%s(%s)", name, strings.Join(as, ", "))
		case "FV":
			call = fmt.Sprintf("fv_%d(%s)", c.id, strings.Join(as, ", "))
		case "FM":
			call = fmt.Sprintf("a0.%s(%s)", name, strings.Join(as, ", "))
		case "MX":
			// method expression: the receiver is the first argument
			call = fmt.Sprintf("(*T).%s(%s)", name, strings.Join(as, ", "))
		case "MV":
			pre = fmt.Sprintf("h := a0.%s\n", name)
			call = fmt.Sprintf("h(%s)", strings.Join(as, ", "))
		case "IE":
			pre = fmt.Sprintf("var x J_%d = a0\n", c.id)
			call = fmt.Sprintf("x.%s(%s)", name, strings.Join(as, ", "))
		default:
			pre = fmt.Sprintf("var x I_%d = a0\n", c.id)
			call = fmt.Sprintf("x.%s(%s)", name, strings.Join(as, ", "))
		}
		var sinks []string
		if c.wrap != "D" && c.wrap != "G" {
			for j := 0; j < c.m; j++ {
				sinks = append(sinks, fmt.Sprintf("sink_%d(r%d)", s*slots+j, j))
				used[fmt.Sprintf("func sink_%d(x *T) {}", s*slots+j)] = true
			}
		}
		for k := 0; k < c.n; k++ {
			if k != i {
				sinks = append(sinks, fmt.Sprintf("sink_%d(a%d)", s*slots+4+k, k))
				used[fmt.Sprintf("func sink_%d(x *T) {}", s*slots+4+k)] = true
			}
		}
		ind := "\t"
		switch c.wrap {
		case "C":
			// the names of the closure's parameters shadow the caller's variables: the call text is unchanged
			fmt.Fprintf(b, "\tfunc(%s) {\n", params(0, c.n))
			ind = "\t\t"
		case "CC":
			b.WriteString("\tfunc() {\n")
			ind = "\t\t"
		}
		if pre != "" {
			b.WriteString(ind + pre)
		}
		switch c.wrap {
		case "D":
			// deferred calls run last-in first-out: the sinks registered first run after the call to f
			for k := len(sinks) - 1; k >= 0; k-- {
				fmt.Fprintf(b, "\tdefer %s\n", sinks[k])
			}
			fmt.Fprintf(b, "\tdefer %s\n", call)
		case "G":
			fmt.Fprintf(b, "\tgo %s\n\t<-done_%d\n", call, c.id)
			for _, x := range sinks {
				fmt.Fprintf(b, "\t%s\n", x)
			}
		default:
			fmt.Fprintf(b, "%s%s%s\n", ind, lhs, call)
			for _, x := range sinks {
				fmt.Fprintf(b, "%s%s\n", ind, x)
			}
		}
		switch c.wrap {
		case "C":
			fmt.Fprintf(b, "\t}(%s)\n", strings.Join(all, ", "))
		case "CC":
			b.WriteString("\t}()\n")
		}
		b.WriteString("}\n\n")
	}
}

type specSummary struct {
	Args [][]int
	Rets [][]int
}
type specContract struct {
	InterfaceID string `json:"InterfaceId,omitempty"`
	ObjectPath  string `json:"ObjectPath,omitempty"`
	Methods     map[string]specSummary
}

func nonNil(m [][]int) [][]int {
	out := make([][]int, len(m))
	for i, r := range m {
		out[i] = append([]int{}, r...)
	}
	return out
}

// specs renders the dataflow-specs JSON for a batch of cases (module/package path `mod`).
func specs(mod string, cs []*ccase) []byte {
	var all []specContract
	fn := specContract{ObjectPath: mod, Methods: map[string]specSummary{}}
	mt := specContract{ObjectPath: "(*" + mod + ".T)", Methods: map[string]specSummary{}}
	for _, c := range cs {
		sum := specSummary{nonNil(c.args), nonNil(c.rets)}
		switch c.form {
		case "F", "FV":
			fn.Methods[c.fname()] = sum
		case "FM", "MV", "MX":
			mt.Methods[c.fname()] = sum
		case "IE":
			other := specSummary{nonNil(c.other[0][0]), nonNil(c.other[0][1])}
			jc := specContract{InterfaceID: fmt.Sprintf("%s.J_%d", mod, c.id), Methods: map[string]specSummary{c.fname(): sum}}
			ic := specContract{InterfaceID: fmt.Sprintf("%s.I_%d", mod, c.id), Methods: map[string]specSummary{c.fname(): sum}}
			switch c.embed {
			case "same":
				all = append(all, jc, ic)
			case "diff":
				ic.Methods[c.fname()] = other
				all = append(all, jc, ic)
			case "absentI":
				all = append(all, jc)
			case "onlyI":
				all = append(all, ic)
			}
		case "I", "IP":
			all = append(all, specContract{InterfaceID: fmt.Sprintf("%s.I_%d", mod, c.id), Methods: map[string]specSummary{c.fname(): sum}})
			if c.form == "IP" {
				mt.Methods[c.fname()] = specSummary{nonNil(c.other[0][0]), nonNil(c.other[0][1])}
			}
		}
	}
	if len(fn.Methods) > 0 {
		all = append(all, fn)
	}
	if len(mt.Methods) > 0 {
		all = append(all, mt)
	}
	b, _ := json.MarshalIndent(all, "", " ")
	return b
}

func program(cs []*ccase) string {
	var b strings.Builder
	b.WriteString("package main\n\ntype T struct{ s string }\n\n")
	used := map[string]bool{}
	for _, c := range cs {
		c.render(&b, used)
	}
	var decls []string
	for d := range used {
		decls = append(decls, d)
	}
	sortStrings(decls)
	b.WriteString(strings.Join(decls, "\n"))
	b.WriteString("\n\nfunc main() {\n")
	for _, c := range cs {
		for i := 0; i < max(c.n, 1); i++ {
			fmt.Fprintf(&b, "\tcase_%d_%d()\n", c.id, i)
		}
	}
	b.WriteString("}\n")
	return b.String()
}
