// Driver for C10: user dataflow specifications (contracts) are applied exactly as written.
//
// For every specification matrix (exhaustive for arity <= 2, every 0/1 Args x Rets table; arity 3:
// sampled in the quick tier, exhaustive in the thorough tier; plus a malformed stream with ragged /
// out-of-range / negative rows) x {function spec, method spec, interface-method spec, interface-method
// spec competing with a different function spec for the implementation} x {body flows everything, body
// flows nothing} a one-call program is generated (many per package) together with its dataflow-specs
// JSON, the REAL taint analysis is run on it, and
//
//	M4   the real contract summary graph (AnalyzerState.DataFlowContracts) == Summ.apply          (exact)
//	M4'  the summary the real call node is linked to (callee kind, graph identity, IsInterfaceContract)
//	     == Contract.resolveCallee / linkCallee                                                   (exact)
//	M6=  the flows the real tool reports for the case == Contract.visitOneCall on the model graph (exact),
//	     with the caller-side facts (which argument nodes have an edge to their later use, the tuple
//	     index on call -> use-of-result edges) read off the real caller graph.
//
// Call forms ("for all call forms"): plain call statement (F, FM, I, IP, IE, FV, MV) and, per matrix, one of
// D `defer f(a…)` (sinks on the other arguments deferred earlier; results are discarded by the language, so only the
// arg -> arg part is observable: the model runs on the observed signature, contract_flows_discarded_results),
// G `go f(a…)` + receive on the channel the body signals on (exactness demanded, completeness counted: goroutines
// are outside the tool's documented fragment), C / CC call inside an immediately-invoked closure (arguments as
// parameters / captured variables), MX method expression (*T).M (a call to the synthetic thunk: compared with
// the specification, exactly).
//
// A difference between the real flows and what the specification lists IS a failing input of the
// property (the program and the spec file are the replay).
package main

import (
	"fmt"
	"math/rand"
	"os"
	"path/filepath"
	"regexp"
	"sort"
	"strconv"
	"strings"

	"github.com/awslabs/ar-go-tools/analysis/dataflow"
	"golang.org/x/tools/go/ssa"
	"verif/harness/lib"
	"verif/harness/taintrun"
)

const prop = "C10"

func sortStrings(s []string) { sort.Strings(s) }

func matrix(m [][]int) string {
	if len(m) == 0 {
		return "-"
	}
	var rows []string
	for _, r := range m {
		var xs []string
		for _, x := range r {
			xs = append(xs, strconv.Itoa(x))
		}
		rows = append(rows, strings.Join(xs, ","))
	}
	return strings.Join(rows, ";")
}

func bitsMatrix(rows, cols int, bits uint) [][]int {
	m := make([][]int, rows)
	for i := 0; i < rows; i++ {
		m[i] = []int{}
		for j := 0; j < cols; j++ {
			if bits&(1<<uint(i*cols+j)) != 0 {
				m[i] = append(m[i], j)
			}
		}
	}
	return m
}

func complement(m [][]int, cols int) [][]int {
	out := make([][]int, len(m))
	for i, r := range m {
		has := map[int]bool{}
		for _, x := range r {
			has[x] = true
		}
		out[i] = []int{}
		for j := 0; j < cols; j++ {
			if !has[j] {
				out[i] = append(out[i], j)
			}
		}
	}
	return out
}

var forms = []string{"F", "FM", "I", "IP"}

func (c *ccase) key() string {
	w := ""
	if c.wrap != "" {
		w = c.wrap + "-"
	}
	return fmt.Sprintf("%s%s%s/n%d/m%d/%s/%s/all=%v", w, c.form, c.embed, c.n, c.m, matrix(c.args), matrix(c.rets), c.bodyAll)
}

// buildCases enumerates the specification cases of this run.
func buildCases(rep *lib.Report) []*ccase {
	r := lib.Rand("c10")
	var cs []*ccase
	add := func(n, m int, ab, rb uint, form string, all bool) {
		if form != "F" && n == 0 {
			return
		}
		c := &ccase{id: len(cs) + 1, n: n, m: m, args: bitsMatrix(n, n, ab), rets: bitsMatrix(n, m, rb), form: form, bodyAll: all}
		if form == "IP" || strings.HasPrefix(form, "IE") {
			c.other = [][2][][]int{{complement(c.args, n), complement(c.rets, m)}}
		}
		if strings.HasPrefix(form, "IE") {
			c.form, c.embed = "IE", strings.TrimPrefix(form, "IE:")
		}
		cs = append(cs, c)
	}
	maxExh := 2
	nRand3 := 120
	if lib.Thorough() {
		maxExh = 3
		nRand3 = 0
	}
	for n := 0; n <= maxExh; n++ {
		for m := 0; m <= 2; m++ {
			for ab := uint(0); ab < 1<<uint(n*n); ab++ {
				for rb := uint(0); rb < 1<<uint(n*m); rb++ {
					if n <= 2 {
						// every form and both bodies
						// embedded interfaces: the call is made on J (embeds I, which declares the method)
						embeds := []string{"IE:same", "IE:diff", "IE:absentI"}
						if lib.Thorough() {
							for ei, e := range embeds {
								add(n, m, ab, rb, e, (int(ab)+int(rb)+ei)%2 == 0)
							}
						} else {
							h := int(ab) + int(rb) + int(lib.Seed())
							add(n, m, ab, rb, embeds[h%3], (h/3)%2 == 0)
						}
						for fi, f := range forms {
							if lib.Thorough() {
								add(n, m, ab, rb, f, true)
								add(n, m, ab, rb, f, false)
							} else {
								// quick tier: one body per (matrix, form), alternating with the matrix and the seed
								add(n, m, ab, rb, f, (int(ab)+int(rb)+fi+int(lib.Seed()))%2 == 0)
							}
						}
					} else {
						// arity 3, thorough: every matrix with <= 1 result; of the 32768 matrices with 2 results the
						// fifth selected by the seed (seeds 1..5 together cover all of them); form and body rotate
						// with the matrix and the seed
						h := int(ab*31+rb*7) + int(lib.Seed())
						if m == 2 && (int(ab)+int(rb))%5 != int(lib.Seed())%5 {
							continue
						}
						add(n, m, ab, rb, forms[h%4], (h/4)%2 == 0)
					}
				}
			}
		}
	}
	for k := 0; k < nRand3; k++ {
		m := r.Intn(3)
		add(3, m, uint(r.Intn(1<<9)), uint(r.Intn(1<<uint(3*m))), forms[r.Intn(4)], r.Intn(2) == 0)
	}
	// defer / go / closure call forms and method expressions ("for all call forms"): every arity <= 2 matrix under one
	// (wrap, base form) selected by the matrix and the seed (thorough: under every wrap), plus random arity 3
	wraps := []string{"D", "G", "C", "CC", "MX"}
	bases := []string{"F", "FM", "I"}
	addW := func(n, m int, ab, rb uint, w, base string, all bool) {
		before := len(cs)
		if w == "MX" {
			add(n, m, ab, rb, "MX", all)
			return
		}
		add(n, m, ab, rb, base, all)
		if len(cs) > before {
			cs[len(cs)-1].wrap = w
		}
	}
	nWrapped := 0
	for n := 0; n <= 2; n++ {
		for m := 0; m <= 2; m++ {
			for ab := uint(0); ab < 1<<uint(n*n); ab++ {
				for rb := uint(0); rb < 1<<uint(n*m); rb++ {
					h := int(ab)*3 + int(rb) + int(lib.Seed())
					if lib.Thorough() {
						for wi, w := range wraps {
							addW(n, m, ab, rb, w, bases[(h+wi)%3], (h+wi)%2 == 0)
							nWrapped++
						}
					} else {
						addW(n, m, ab, rb, wraps[h%5], bases[(h/5)%3], (h/15)%2 == 0)
						nWrapped++
					}
				}
			}
		}
	}
	nW3 := 60
	if lib.Thorough() {
		nW3 = 2000
	}
	for k := 0; k < nW3; k++ {
		m := r.Intn(3)
		addW(3, m, uint(r.Intn(1<<9)), uint(r.Intn(1<<uint(3*m))), wraps[k%5], bases[r.Intn(3)], r.Intn(2) == 0)
		nWrapped++
	}
	rep.Extra["defer_go_closure_methodexpr_cases"] = nWrapped
	// further call forms: FV = call through a function value (callee from the call graph), MV = call through a
	// method value (bound method wrapper; compared with the specification only, not with the one-call model)
	nMore := 100
	if lib.Thorough() {
		nMore = 3000
	}
	for k := 0; k < nMore; k++ {
		n, m := 1+r.Intn(3), r.Intn(3)
		add(n, m, uint(r.Intn(1<<uint(n*n))), uint(r.Intn(1<<uint(n*m))), []string{"FV", "MV", "IE:onlyI", "IE:diff"}[k%4], r.Intn(2) == 0)
	}
	rep.Extra["function_value_and_method_value_cases"] = nMore
	rep.Extra["exhaustive_up_to_arity"] = maxExh
	rep.Extra["random_arity3_cases"] = nRand3
	// malformed stream: ragged rows, positions out of range, negative positions
	nMal := 80
	if lib.Thorough() {
		nMal = 1500
	}
	for k := 0; k < nMal; k++ {
		n, m := 1+r.Intn(3), r.Intn(3)
		c := &ccase{id: len(cs) + 1, n: n, m: m, form: forms[r.Intn(3)], bodyAll: r.Intn(2) == 0, malformed: true}
		c.args, c.rets = randRagged(r, n, n), randRagged(r, n, m)
		cs = append(cs, c)
	}
	rep.Extra["malformed_cases"] = nMal
	return cs
}

func randRagged(r *rand.Rand, n, cols int) [][]int {
	rows := n - 1 + r.Intn(3) // n-1 .. n+1 rows
	if rows < 0 {
		rows = 0
	}
	m := make([][]int, rows)
	for i := range m {
		m[i] = []int{}
		for k := r.Intn(4); k > 0; k-- {
			m[i] = append(m[i], r.Intn(cols+3)-1) // -1 .. cols+1
		}
	}
	return m
}

func nodeName(n dataflow.GraphNode) string {
	switch x := n.(type) {
	case *dataflow.ParamNode:
		return fmt.Sprintf("p%d", x.Index())
	case *dataflow.ReturnValNode:
		return fmt.Sprintf("r%d", x.Index())
	}
	return fmt.Sprintf("?%T", n)
}

func join(l []string) string {
	if len(l) == 0 {
		return "-"
	}
	sort.Strings(l)
	return strings.Join(l, ",")
}

func dumpSummary(g *dataflow.SummaryGraph) (out, in string, hasRet bool) {
	var outs, ins []string
	for _, p := range g.Params {
		for dst, infos := range p.Out() {
			for _, ei := range infos {
				outs = append(outs, fmt.Sprintf("%s>%s:%d", nodeName(p), nodeName(dst), ei.Index))
			}
		}
		for src, ei := range p.In() {
			ins = append(ins, fmt.Sprintf("%s>%s:%d", nodeName(src), nodeName(p), ei.Index))
		}
	}
	seen := map[*dataflow.ReturnValNode]bool{}
	for _, rs := range g.Returns {
		hasRet = true
		for _, r := range rs {
			if r == nil || seen[r] {
				continue
			}
			seen[r] = true
			for src, ei := range r.In() {
				ins = append(ins, fmt.Sprintf("%s>%s:%d", nodeName(src), nodeName(r), ei.Index))
			}
		}
	}
	return join(outs), join(ins), hasRet
}

func field(fields []string, name string) string {
	for _, f := range fields {
		if strings.HasPrefix(f, name+"=") {
			return f[len(name)+1:]
		}
	}
	return ""
}

var bisectDepth int

var calleeCode = regexp.MustCompile(`\((SA|CG|IC|IM)\)call:`)
var sinkNum = regexp.MustCompile(`^sink_(\d+)$`)

type subcase struct {
	c         *ccase
	i         int
	real      []string // reported slots R<j> / A<k>
	ptr       string
	resIdx    string
	shapeErr  string
	linkReal  string
	linkInput string
}

func yamlFor(onDemand bool) string {
	return fmt.Sprintf("options:\n  log-level: 1\n  summarize-on-demand: %v\ntaint-tracking-problems:\n  - sources:\n      - method: \"^source_\\\\d+$\"\n    sinks:\n      - method: \"^sink_\\\\d+$\"\ndataflow-specs:\n  - \"specs.json\"\n", onDemand)
}

// runBatch generates, analyses and compares one package of cases. Returns false when the harness itself failed.
func runBatch(rep *lib.Report, batch int, cs []*ccase, onDemand bool) bool {
	const mod = "vprog"
	dir := lib.WorkDir(prop, fmt.Sprintf("batch%d", batch))
	progText, specText := program(cs), string(specs(mod, cs))
	lib.WriteProgram(dir, mod, map[string]string{"main.go": progText, "specs.json": specText})
	yaml := yamlFor(onDemand)
	os.WriteFile(filepath.Join(dir, "config.yaml"), []byte(yaml), 0o644)
	l, err := taintrun.Load(dir, false)
	if err != nil {
		rep.Fail(fmt.Sprintf("harness-load:%d", batch), "generated program does not load: "+err.Error(), []byte(progText), true)
		return false
	}
	res := l.Analyze(taintrun.Options{YAML: yaml})
	if !res.OK() || res.Analysis.State == nil {
		if len(cs) == 1 {
			c := cs[0]
			rep.Fail("analysis-crash:"+c.key(), fmt.Sprintf("the taint analysis does not complete on a one-call program with a specification: %v %s", res.LoadErr, firstLine(res.Panic)), caseReplay(c, cs, mod), false)
			return false
		}
		if bisectDepth < 14 {
			// isolate one crashing case: the half that still crashes is searched again
			bisectDepth++
			half := len(cs) / 2
			if !runBatch(rep, batch*2+1000, cs[:half], onDemand) {
				return false
			}
			runBatch(rep, batch*2+1001, cs[half:], onDemand)
			return false
		}
		rep.Fail(fmt.Sprintf("analysis-failed:%d", batch), fmt.Sprintf("taint analysis did not complete: loadErr=%v panic=%s", res.LoadErr, firstLine(res.Panic)), []byte(progText+"\n/* specs.json\n"+specText+"\n*/\n"), true)
		return false
	}
	st := res.Analysis.State
	pairs := res.IDPairs()
	byName := map[string]*ssa.Function{}
	for f := range st.FlowGraph.Summaries {
		if f != nil && f.Pkg != nil && f.Pkg.Pkg.Path() == mod {
			byName[f.Name()] = f
		}
	}
	caseByID := map[int]*ccase{}
	for _, c := range cs {
		caseByID[c.id] = c
	}
	var in strings.Builder
	type check struct {
		kind string // app | visit | link
		sc   *subcase
		c    *ccase
		real string
	}
	var checks []check
	for _, c := range cs {
		// ---- M4: the contract graph
		key := mod + "." + c.fname()
		switch c.form {
		case "FM", "MV", "MX":
			key = "(*" + mod + ".T)." + c.fname()
		case "I", "IP":
			key = fmt.Sprintf("%s.I_%d.%s", mod, c.id, c.fname())
		case "IE":
			key = fmt.Sprintf("%s.J_%d.%s", mod, c.id, c.fname())
			if c.embed == "onlyI" {
				key = fmt.Sprintf("%s.I_%d.%s", mod, c.id, c.fname())
			}
		}
		g := st.DataFlowContracts[key]
		if g == nil {
			rep.Fail("contract-not-built:"+c.key(), "no summary graph was built for the specification key "+key, caseReplay(c, cs, mod), true)
			continue
		}
		out, inn, hasRet := dumpSummary(g)
		hr := "0"
		if hasRet {
			hr = "1"
		}
		np, nr := len(g.Parent.Params), g.Parent.Signature.Results().Len()
		if np != c.n || nr != c.m {
			rep.Fail("harness-shape:"+c.key(), fmt.Sprintf("contract graph built on %s with %d params / %d results, expected %d / %d", g.Parent, np, nr, c.n, c.m), caseReplay(c, cs, mod), true)
			continue
		}
		fmt.Fprintf(&in, "app\t%d\t%d\t%d\t%s\t%s\t%s\n", c.id, np, nr, hr, matrix(c.args), matrix(c.rets))
		checks = append(checks, check{kind: "app", c: c, real: fmt.Sprintf("out=%s\tin=%s", out, inn)})
		wantIface := c.form == "I" || c.form == "IP" || c.form == "IE"
		if g.IsInterfaceContract != wantIface || !g.IsPreSummarized || !g.Constructed {
			rep.Fail("contract-flags:"+c.key(), fmt.Sprintf("contract graph flags: IsInterfaceContract=%v IsPreSummarized=%v Constructed=%v", g.IsInterfaceContract, g.IsPreSummarized, g.Constructed), caseReplay(c, cs, mod), true)
		}
		// ---- per source position
		for i := 0; i < c.n; i++ {
			sc := &subcase{c: c, i: i}
			s := sid(c, i)
			cross := ""
			for p := range pairs {
				if p[0] != s || p[1]/slots != s {
					if p[0] == s || p[1]/slots == s {
						cross = fmt.Sprintf("source_%d -> sink_%d", p[0], p[1])
					}
					continue
				}
				slot := p[1] % slots
				if slot < 4 {
					sc.real = append(sc.real, fmt.Sprintf("R%d", slot))
				} else {
					sc.real = append(sc.real, fmt.Sprintf("A%d", slot-4))
				}
			}
			if cross != "" {
				// every sink is only reachable from the source of its own one-call function through the specified call:
				// a flow between two of them is a flow no specification lists (program + spec file = failing input)
				rep.Fail("contract-flows:"+c.key()+fmt.Sprintf("/src=%d/cross", i), "a flow that no specification lists is reported between two one-call functions: "+cross, caseReplay(c, cs, mod), false)
				continue
			}
			caller := byName[c.callerName(i)]
			if caller == nil || st.FlowGraph.Summaries[caller] == nil {
				rep.Fail("harness-shape:"+c.key(), "caller summary missing", caseReplay(c, cs, mod), true)
				continue
			}
			readCaller(sc, st, st.FlowGraph.Summaries[caller], g, key, mod)
			if sc.shapeErr != "" {
				rep.Fail("harness-shape:"+c.key(), "caller graph outside the modelled family: "+sc.shapeErr, caseReplay(c, cs, mod), true)
				continue
			}
			if c.form == "IE" && c.embed == "onlyI" {
				// no specification applies to a call on J (the key is the static receiver type J.M): the
				// specification written for I.M must NOT be applied; the analysed body decides
				kk := c.key() + fmt.Sprintf("/src=%d", i)
				rep.Case(kk)
				rep.Count("form=IE:onlyI")
				var want []string
				if c.bodyAll {
					for j := 0; j < c.m; j++ {
						want = append(want, fmt.Sprintf("R%d", j))
					}
					for k := 0; k < c.n; k++ {
						if k != i {
							want = append(want, fmt.Sprintf("A%d", k))
						}
					}
				}
				if w, real := join(want), join(sc.real); w != real {
					content := append(caseReplay(c, cs, mod), []byte(fmt.Sprintf("\n/* source at argument %d (source_%d)\n   the body flows %s; the spec of I.M (not applicable to a call on J) lists %s\n   real tool reports: %s\n*/\n", i, sid(c, i), w, listed(c, sc), real))...)
					rep.Fail("contract-flows:"+kk, fmt.Sprintf("call on the embedding interface J without a spec for J.M: expected the flows of the analysed body (%s), tool reports %s (the spec of the declaring interface I.M lists %s)", w, real, listed(c, sc)), content, false)
				}
				continue
			}
			if c.form == "MV" || c.form == "MX" {
				// (MX: a method expression (*T).M is a call to the synthetic thunk M$thunk, whose analysed body calls M)
				// outside the one-call family (the call goes through the synthetic bound-method wrapper):
				// the property itself is still checked: reported flows == what the specification lists
				kk := c.key() + fmt.Sprintf("/src=%d", i)
				rep.Case(kk)
				rep.Count("form=" + c.form)
				// The call resolves to the synthetic wrapper M$bound, whose analysed body calls the specified
				// method: every listed flow must be reported; additional flows (the traversal composes
				// arg -> receiver -> result through the wrapper) are counted, they are not flows of a call
				// "resolved to" the specified method.
				want, real := listed(c, sc), join(sc.real)
				have := map[string]bool{}
				for _, x := range sc.real {
					have[x] = true
				}
				var lost []string
				for _, x := range strings.Split(want, ",") {
					if x != "-" && x != "" && !have[x] {
						lost = append(lost, x)
					}
				}
				if want != real {
					rep.Count(c.form + ":extra-flows-through-bound-wrapper")
					if c.form == "MX" && len(lost) == 0 {
						// the thunk only forwards its parameters to the specified method (no captured receiver): the
						// flows of the call must be exactly the listed ones
						content := append(caseReplay(c, cs, mod), []byte(fmt.Sprintf("\n/* source at argument %d (source_%d)\n   specification lists : %s\n   real tool reports   : %s\n*/\n", i, sid(c, i), want, real))...)
						rep.Fail("contract-flows:"+kk, fmt.Sprintf("a flow the specification does not list is reported for the call through a method expression: spec lists %s, tool reports %s", want, real), content, false)
					}
				}
				if len(lost) > 0 {
					content := append(caseReplay(c, cs, mod), []byte(fmt.Sprintf("\n/* source at argument %d (source_%d)\n   specification lists : %s\n   real tool reports   : %s\n*/\n", i, sid(c, i), want, real))...)
					rep.Fail("contract-flows:"+kk, fmt.Sprintf("a flow the specification lists is not reported for the call through a method value / method expression: spec lists %s, tool reports %s", want, real), content, false)
				}
				continue
			}
			fmt.Fprintf(&in, "visit\t%d.%d\t%d\t%d\t%d\t%s\t%s\t%s\t%s\n", c.id, i, c.n, c.mObs(), i, sc.ptr, sc.resIdx, matrix(c.args), matrix(c.rets))
			checks = append(checks, check{kind: "visit", sc: sc, c: c, real: join(sc.real)})
			in.WriteString(sc.linkInput)
			checks = append(checks, check{kind: "link", sc: sc, c: c, real: sc.linkReal})
		}
		if c.n == 0 {
			rep.Case("")
			rep.Count("arity=0")
		}
	}
	os.WriteFile(filepath.Join(dir, "oracle_in.txt"), []byte(in.String()), 0o644)
	lines, err := lib.RunOracle("oracle_c10", []byte(in.String()))
	if err != nil || len(lines) != len(checks) {
		rep.Fail("oracle-run", fmt.Sprintf("oracle failed: %v (%d lines for %d checks)", err, len(lines), len(checks)), nil, true)
		return false
	}
	// failing inputs of the property itself (visit) are reported before model / correspondence differences
	var orderIdx []int
	for k, ck := range checks {
		if ck.kind == "visit" {
			orderIdx = append(orderIdx, k)
		}
	}
	for k, ck := range checks {
		if ck.kind != "visit" {
			orderIdx = append(orderIdx, k)
		}
	}
	for _, k := range orderIdx {
		ck := checks[k]
		f := strings.Split(lines[k], "\t")
		c := ck.c
		switch ck.kind {
		case "app":
			got := fmt.Sprintf("out=%s\tin=%s", field(f, "out"), field(f, "in"))
			if f[0] != "app" || got != ck.real {
				content := append(caseReplay(c, cs, mod), []byte(fmt.Sprintf("\n/* real contract graph: %s\n   Summ.apply        : %s\n*/\n", ck.real, lines[k]))...)
				rep.Fail("apply-model:"+c.key(), "REAL contract summary graph differs from Summ.apply", content, true)
			}
			if c.malformed {
				rep.Count("malformed:dropped=" + strconv.FormatBool(field(f, "dropped") != "-"))
			}
		case "link":
			got := fmt.Sprintf("callees=%s\tlinked=%s", field(f, "callees"), field(f, "linked"))
			if f[0] != "lnk" || got != ck.real {
				content := append(caseReplay(c, cs, mod), []byte(fmt.Sprintf("\n/* source position %d\n   real  : %s\n   model : %s\n*/\n", ck.sc.i, ck.real, got))...)
				rep.Fail("link-model:"+c.key(), "REAL callee resolution / linked summary differs from Contract.resolveCallee / linkCallee", content, true)
			}
		case "visit":
			sc := ck.sc
			lineK := k
			k := c.key() + fmt.Sprintf("/src=%d", sc.i)
			rep.Case(k)
			rep.Count("form=" + c.form)
			if c.wrap != "" {
				rep.Count("wrap=" + c.wrap + "/" + c.form)
			}
			rep.Count(fmt.Sprintf("arity=%d,results=%d", c.n, c.m))
			rep.Count(fmt.Sprintf("bodyAll=%v", c.bodyAll))
			rep.Count(fmt.Sprintf("onDemand=%v", onDemand))
			if c.malformed {
				rep.Count("malformed")
			}
			rep.Count(fmt.Sprintf("reported=%d", len(sc.real)))
			if f[0] != "vis" || field(f, "conv") != "1" {
				rep.Fail("visit-model:"+k, "oracle did not converge / bad answer: "+lines[lineK], caseReplay(c, cs, mod), true)
				continue
			}
			model := field(f, "reported")
			// what the specification lists for this source position, independently of any model
			want := listed(c, sc)
			if c.wrap != "" {
				rep.Count(fmt.Sprintf("wrap=%s:observable-args=%d,listed=%d", c.wrap, strings.Count(sc.ptr, "1"), len(splitList(want))))
			}
			if c.wrap == "G" {
				// `go f(a…)`: goroutines are outside the fragment for which the tool claims completeness (it warns
				// "Data flows to Go call"): demanded = exactness (no flow other than the listed ones is reported);
				// the completeness direction is counted
				have := map[string]bool{}
				for _, x := range splitList(want) {
					have[x] = true
				}
				var extra []string
				for _, x := range sc.real {
					if !have[x] {
						extra = append(extra, x)
					}
				}
				if len(extra) > 0 {
					content := append(caseReplay(c, cs, mod), []byte(fmt.Sprintf("\n/* source at argument %d (source_%d)\n   specification lists : %s\n   real tool reports   : %s\n   not listed          : %s\n*/\n", sc.i, sid(c, sc.i), want, ck.real, join(extra)))...)
					rep.Fail("contract-flows:"+k, fmt.Sprintf("a flow the specification does not list is reported for the spawned call: spec lists %s, tool reports %s", want, ck.real), content, false)
				}
				switch {
				case want == ck.real && model == ck.real:
					rep.Count("G:complete(all listed flows reported, = model)")
				case want == ck.real:
					rep.Count("G:complete, model differs")
				default:
					rep.Count("G:listed flow not reported (goroutine, outside the documented fragment)")
				}
				continue
			}
			if model != ck.real || want != ck.real {
				content := append(caseReplay(c, cs, mod), []byte(fmt.Sprintf("\n/* source at argument %d (source_%d)\n   specification lists : %s\n   real tool reports   : %s\n   Contract.visitOneCall: %s\n   (R<j> = result j reaches its sink, A<k> = argument k reaches its sink after the call)\n*/\n", sc.i, sid(c, sc.i), want, ck.real, model))...)
				if want != ck.real {
					rep.Fail("contract-flows:"+k, fmt.Sprintf("flows reported for the call differ from the specification: spec lists %s, tool reports %s", want, ck.real), content, false)
				} else {
					rep.Fail("visit-model:"+k, "Contract.visitOneCall differs from the real visitor (contract_flows_iff no longer describes the code); real flows still equal the specification", content, true)
				}
			}
			if (k0(c.id)+sc.i)%577 == 3 {
				rep.Sample(map[string]any{"case": k, "spec_lists": want, "real": ck.real, "model": model, "caller_ptr_mask": sc.ptr, "result_edge_index": sc.resIdx})
			}
		}
	}
	return true
}

func k0(x int) int { return x * 7 }

func splitList(s string) []string {
	if s == "-" || s == "" {
		return nil
	}
	return strings.Split(s, ",")
}

func firstLine(s string) string {
	if i := strings.IndexByte(s, '\n'); i >= 0 {
		return s[:i]
	}
	return s
}

// listed: R<j> for in-range j in Rets[i], A<k> for in-range k != i in Args[i] whose argument node has a later use.
func listed(c *ccase, sc *subcase) string {
	var out []string
	seen := map[string]bool{}
	if sc.i < len(c.rets) {
		for _, j := range c.rets[sc.i] {
			if j >= 0 && j < c.mObs() && !seen[fmt.Sprint("R", j)] {
				seen[fmt.Sprint("R", j)] = true
				out = append(out, fmt.Sprintf("R%d", j))
			}
		}
	}
	if sc.i < len(c.args) {
		for _, k := range c.args[sc.i] {
			if k >= 0 && k < c.n && k != sc.i && sc.ptr[k] == '1' && !seen[fmt.Sprint("A", k)] {
				seen[fmt.Sprint("A", k)] = true
				out = append(out, fmt.Sprintf("A%d", k))
			}
		}
	}
	return join(out)
}

// readCaller reads the caller-side facts of a sub-case off the real caller summary and the link of its call node.
func readCaller(sc *subcase, st *dataflow.AnalyzerState, caller *dataflow.SummaryGraph, contract *dataflow.SummaryGraph, key, mod string) {
	c := sc.c
	var fcall *dataflow.CallNode
	nCallees := 0
	var calleeNames []string
	wantName := c.fname()
	if c.form == "MV" {
		wantName += "$bound"
	}
	if c.form == "MX" {
		wantName += "$thunk"
	}
	for _, nodes := range caller.Callees {
		for _, n := range nodes {
			if n.Callee() == nil || n.Callee().Name() != wantName {
				continue
			}
			fcall = n
			nCallees++
			code := calleeCode.FindStringSubmatch(n.String())
			cc := "?"
			if code != nil {
				cc = code[1]
			}
			calleeNames = append(calleeNames, n.Callee().String()+":"+cc)
		}
	}
	if fcall == nil || nCallees != 1 {
		sc.shapeErr = fmt.Sprintf("%d call nodes for the call to %s", nCallees, c.fname())
		return
	}
	if c.form == "MV" || c.form == "MX" || (c.form == "IE" && c.embed == "onlyI") {
		// every argument (and the captured receiver) is a pointer: observable after the call
		sc.ptr = strings.Repeat("1", c.n)
		return
	}
	// link facts
	linked := "none"
	if s := fcall.CalleeSummary; s != nil {
		switch {
		case s == contract:
			linked = fmt.Sprintf("contract:%s:%s", s.Parent.String(), b01(s.IsInterfaceContract))
		case s.IsPreSummarized:
			linked = fmt.Sprintf("contract:%s:%s(other)", s.Parent.String(), b01(s.IsInterfaceContract))
		default:
			linked = "body:" + s.Parent.String()
		}
	}
	sc.linkReal = fmt.Sprintf("callees=%s\tlinked=%s", join(calleeNames), linked)
	instr := fcall.CallSite()
	static, invoke, mk := "-", "0", "-"
	if f := instr.Common().StaticCallee(); f != nil {
		static = f.String()
	}
	if instr.Common().IsInvoke() {
		invoke = "1"
		mk = instr.Common().Value.Type().String() + "." + instr.Common().Method.Name()
	}
	impl := "(*" + mod + ".T)." + c.fname()
	if c.form == "F" || c.form == "FV" {
		impl = mod + "." + c.fname()
	}
	ic, fcs := "-", "-"
	switch c.form {
	case "F", "FV":
		fcs = mod + "." + c.fname()
	case "FM":
		fcs = impl
	case "I":
		ic = impl
	case "IP":
		ic, fcs = impl, impl
	case "IE":
		ic = impl
	}
	oic := "-"
	if c.form == "IE" && (c.embed == "same" || c.embed == "diff") {
		oic = fmt.Sprintf("%s.I_%d.%s", mod, c.id, c.fname())
	}
	// the implementation (or function) always has a body in the program; whether a summary was built
	// from it is what ShouldBuildSummary decides, the model is told it exists to show it is not used
	built := impl
	sc.linkInput = fmt.Sprintf("link\t%d.%d\t%s\t%s\t%s\t%s\t%s\t%s\t%s\t%s\n", c.id, sc.i, static, invoke, mk, impl, ic, fcs, built, oic)
	// caller-side edges
	ptr := make([]byte, c.n)
	for k := range ptr {
		ptr[k] = '0'
	}
	slotOf := func(n dataflow.GraphNode) int {
		a, ok := n.(*dataflow.CallNodeArg)
		if !ok {
			return -1
		}
		callee := a.ParentNode().Callee()
		if callee == nil {
			return -1
		}
		m := sinkNum.FindStringSubmatch(callee.Name())
		if m == nil {
			return -1
		}
		v, _ := strconv.Atoi(m[1])
		if v/slots != sid(c, sc.i) {
			return -1
		}
		return v % slots
	}
	resIdx := make([]string, c.mObs())
	for j := range resIdx {
		resIdx[j] = "-1"
	}
	for dst, infos := range fcall.Out() {
		slot := slotOf(dst)
		if slot < 0 || slot >= 4 || slot >= c.mObs() || len(infos) != 1 {
			sc.shapeErr = fmt.Sprintf("unexpected out edge of the call node to %s (%d edge infos)", dst.String(), len(infos))
			return
		}
		resIdx[slot] = strconv.Itoa(infos[0].Index)
	}
	if len(fcall.Out()) != c.mObs() {
		sc.shapeErr = fmt.Sprintf("call node has %d out edges for %d results", len(fcall.Out()), c.m)
		return
	}
	args := fcall.Args()
	if len(args) != c.n {
		sc.shapeErr = fmt.Sprintf("call node has %d argument nodes for arity %d", len(args), c.n)
		return
	}
	for k, a := range args {
		for dst := range a.Out() {
			slot := slotOf(dst)
			if slot == 4+k {
				ptr[k] = '1'
			} else if closureExit(c, dst, caller) {
				// closure forms: a pointer-like argument also flows back to the closure's own parameter / free
				// variable (observed by the enclosing function after the closure returns; no sink there)
			} else if _, isCall := dst.(*dataflow.CallNode); !isCall || k != sc.i {
				// (the tainted argument has a back edge to the source call node: not followed, see model)
				sc.shapeErr = fmt.Sprintf("unexpected out edge of argument %d to %s", k, dst.String())
				return
			}
		}
	}
	sc.ptr = string(ptr)
	if sc.ptr == "" {
		sc.ptr = "-"
	}
	sc.resIdx = strings.Join(resIdx, ",")
	if sc.resIdx == "" {
		sc.resIdx = "-"
	}
}

// closureExit: dst is a parameter or free-variable node of the closure that contains the call (forms C, CC).
func closureExit(c *ccase, dst dataflow.GraphNode, caller *dataflow.SummaryGraph) bool {
	if c.wrap != "C" && c.wrap != "CC" {
		return false
	}
	switch x := dst.(type) {
	case *dataflow.ParamNode:
		return c.wrap == "C" && x.Graph() == caller
	case *dataflow.FreeVarNode:
		return c.wrap == "CC" && x.Graph() == caller
	}
	return false
}

func b01(x bool) string {
	if x {
		return "1"
	}
	return "0"
}

// caseReplay renders a stand-alone program + spec file for one case.
func caseReplay(c *ccase, all []*ccase, mod string) []byte {
	one := []*ccase{c}
	return []byte(fmt.Sprintf("// case %s\n// replay: write main.go / specs.json / config.yaml below into a module `%s`, run `argot taint -config config.yaml .`\n// ---- main.go\n%s\n/* ---- specs.json\n%s\n---- config.yaml\n%s*/\n", c.key(), mod, program(one), specs(mod, one), yamlFor(false)))
}

func main() {
	rep := lib.NewReport(prop)
	rep.Rule = "one case per (specification matrix, form, body, source position): all 0/1 Args x Rets matrices for arity <= 2 (and 3 in the thorough tier) x {F, FM, I, IP} x {body flows all, body flows nothing}; every such matrix also under one of the call forms defer / go / closure (parameters, captured) / method expression (thorough: all five); sampled arity 3 in the quick tier; plus a malformed stream; distinct = distinct case key; non-trivial = arity >= 1"
	cs := buildCases(rep)
	batchSize := 900
	nb := 0
	for lo := 0; lo < len(cs); lo += batchSize {
		hi := min(lo+batchSize, len(cs))
		// on-demand summarisation for every fourth batch: the contract must win there too
		if !runBatch(rep, nb, cs[lo:hi], nb%4 == 3) {
			break
		}
		nb++
	}
	rep.Extra["cases"] = len(cs)
	rep.Extra["batches"] = nb
	rep.Finish()
}
