// Driver for C11: the REAL pointer analysis of the repository (dataflow.NewInitializedAnalyzerState →
// state.PointerAnalysis) on generated pointer programs versus
//
//	(1) the Lean criteria `ptrClosed` / `cgClosed` (compiled oracle) on the dumped SSA facts + real
//	    points-to label sets + call graph  — result validation V2 (theorems closed_sound, may_alias_sound)
//	(2) ground truth of a native run: addresses logged at probe points; same address at two probes of
//	    the same static type ⇒ real MayAlias must be true; address of a probed allocation ⇒ the
//	    allocation's label must be in the label set  — concrete search
package main

import (
	"fmt"
	"os"
	"strings"
	"time"

	"golang.org/x/tools/go/ssa"
	"verif/harness/gen"
	"verif/harness/lib"
	"verif/harness/ptrrun"
)

func main() {
	rep := lib.NewReport("C11")
	rep.Rule = "generated pointer programs (cases of named functions, closures, methods, interfaces; statements over pointers, fields, **T, slices, arrays, maps, channels, function values, interfaces, globals, go/defer, recursion; every definition probed): distinct = distinct per-function fact text; non-trivial = function with at least one load/store/call fact"
	r := lib.Rand("c11")
	progs, cases := 3, 50
	if lib.Thorough() {
		progs, cases = 6, 80
	}
	rep.Extra["programs"] = progs
	rep.Extra["cases_per_program"] = cases
	start := time.Now()
	budget := 110 * time.Second // after this much wall time no further program is started (the first always runs)
	if lib.Thorough() {
		budget = 10 * time.Minute
	}
	for pi := 0; pi < progs; pi++ {
		if pi > 0 && time.Since(start) > budget {
			rep.Notes = append(rep.Notes, fmt.Sprintf("time budget reached after %d of %d programs", pi, progs))
			break
		}
		rep.Extra["programs_run"] = pi + 1
		o := gen.PtrOpts{Cases: cases, Stmts: 8 + r.Intn(8), Funcs: 2 + r.Intn(3)}
		if pi > 0 { // the first program has every feature; the others vary shape and feature set
			o = gen.PtrOpts{Cases: cases, Stmts: 5 + r.Intn(22), Funcs: 1 + r.Intn(5), NoGo: r.Intn(4) == 0,
				NoAppend: r.Intn(6) == 0, NoStruct: r.Intn(5) == 0}
		}
		pp := gen.GenPtrProg(r, o)
		run := ptrrun.Run("C11", fmt.Sprintf("prog%d", pi), pp, rep)
		if run == nil {
			continue
		}
		for k, n := range pp.Stats {
			rep.Dist["stmt:"+k] += n
		}
		for k, n := range run.Dump.Kinds {
			rep.Dist["ssa:"+k] += n
		}
		checkProgram(rep, run, pi)
	}
	rep.Finish()
}

func checkProgram(rep *lib.Report, run *ptrrun.Result, pi int) {
	d := run.Dump
	// harness-level problems: constructs outside the modelled fragment (generator bug), leaf-shaped functions
	if len(d.Unsupported) > 0 || len(d.LeafShaped) > 0 {
		rep.Fail(fmt.Sprintf("harness-fragment:%d", pi), "generated program left the modelled fragment: "+
			strings.Join(append(append([]string{}, d.Unsupported...), d.LeafShaped...), "; "), []byte(run.Prog.Main), true)
		return
	}
	// per-function coverage
	for i, fn := range d.Funcs {
		facts := run.FactsOf[i]
		if len(facts) == 0 {
			continue
		}
		key := ""
		txt := strings.Join(facts, "\n")
		if strings.Contains("\n"+txt, "\nload ") || strings.Contains("\n"+txt, "\nstore ") || strings.Contains("\n"+txt, "\ncall ") {
			key = txt
		}
		_ = fn
		rep.Case(key)
	}
	rep.Extra["rule_instances"] = intOf(rep.Extra["rule_instances"]) + run.NFacts
	rep.Extra["probes_hit"] = intOf(rep.Extra["probes_hit"]) + len(run.ProbeAddrs)
	rep.Extra["native_runs"] = intOf(rep.Extra["native_runs"]) + run.NativeRuns

	// ground truth: aliases observed at run time that the analysis denies
	missed := ptrrun.MissedAliases(run)
	rep.Extra["alias_pairs_observed"] = intOf(rep.Extra["alias_pairs_observed"]) + run.PairsObserved
	rep.Extra["alloc_memberships_observed"] = intOf(rep.Extra["alloc_memberships_observed"]) + run.AllocObserved
	rep.Extra["mayalias_model_vs_real_same"] = intOf(rep.Extra["mayalias_model_vs_real_same"]) + run.AliasAgree
	rep.Extra["mayalias_model_vs_real_diff"] = intOf(rep.Extra["mayalias_model_vs_real_diff"]) + run.AliasDiffer
	if pi == 0 && len(run.Samples) > 0 {
		for _, s := range run.Samples {
			rep.Sample(s)
		}
	}

	rep.Extra["indirect_cells_observed"] = intOf(rep.Extra["indirect_cells_observed"]) + run.IndirectObserved
	closed := run.PtrClosed && run.CgClosed && run.IqClosed && len(d.MissingQuery) == 0 && run.BadRecords == 0
	switch {
	case len(missed) > 0:
		m := missed[0]
		content := ptrrun.Replay(run, m.Case, fmt.Sprintf("%s\n%d missed aliases in this program; criterion failures: %s\n", m.Text, len(missed), strings.Join(run.FailText(6), " | ")))
		rep.Fail(fmt.Sprintf("missed-alias:%s", m.Key), "objects are the same at run time but the pointer analysis says they cannot alias: "+m.Short, content, false)
	case !closed:
		// targeted search: programs concentrated on the instruction kinds whose rule failed
		if focus := ptrrun.FocusOf(run); len(focus) > 0 && os.Getenv("VERIF_C11_NOFOCUS") == "" {
			for round := 0; round < 2; round++ {
				fr := lib.Rand(fmt.Sprintf("c11-focus-%d-%d", pi, round))
				fp := gen.GenPtrProg(fr, gen.PtrOpts{Cases: 40, Stmts: 8, Funcs: 2, Focus: focus})
				frun := ptrrun.Run("C11", fmt.Sprintf("focus%d_%d", pi, round), fp, rep)
				if frun == nil {
					continue
				}
				rep.Extra["focused_programs"] = intOf(rep.Extra["focused_programs"]) + 1
				if fm := ptrrun.MissedAliases(frun); len(fm) > 0 {
					m := fm[0]
					content := ptrrun.Replay(frun, m.Case, fmt.Sprintf("%s\nfound by the targeted search (focus %v) after the closure criterion failed on a generated program: %s\n", m.Text, focus, strings.Join(run.FailText(4), " | ")))
					rep.Fail(fmt.Sprintf("missed-alias:%s", m.Key), "objects are the same at run time but the pointer analysis says they cannot alias: "+m.Short, content, false)
					return
				}
			}
		}
		what := fmt.Sprintf("the real points-to result does not satisfy the closure criterion (ptr=%v cg=%v indirect=%v missing-queries=%d bad-records=%d): %s; no run-time alias was missed on the executed inputs",
			run.PtrClosed, run.CgClosed, run.IqClosed, len(d.MissingQuery), run.BadRecords, strings.Join(run.FailText(6), " | "))
		c := -1
		if len(run.FailCases) > 0 {
			c = run.FailCases[0]
		}
		rep.Fail(fmt.Sprintf("criterion:%d", pi), what, ptrrun.Replay(run, c, what+"\n"+strings.Join(d.MissingQuery, "\n")), true)
	}
	// sensitivity self-check: with one function declared `unsafe-no-effect` the criterion must fail, and only there
	if closed && len(missed) == 0 {
		var victim *ssa.Function
		for _, fn := range d.Funcs {
			if strings.HasSuffix(fn.String(), fmt.Sprintf(".c%df0", pi)) {
				victim = fn
			}
		}
		if victim != nil {
			fails, stray, text := ptrrun.Canary(run, victim)
			rep.Notes = append(rep.Notes, text)
			rep.Extra["canary_failures"] = intOf(rep.Extra["canary_failures"]) + fails
			if fails == 0 || stray > 0 {
				rep.Fail(fmt.Sprintf("harness-canary:%d", pi), "sensitivity self-check of the criterion failed: "+text, []byte(run.Prog.Main), true)
			}
		}
	}
	if os.Getenv("VERIF_C11_KEEP") == "" {
		run.Cleanup()
	}
}

func intOf(x any) int {
	if n, ok := x.(int); ok {
		return n
	}
	return 0
}
