// Driver for C12: the REAL call graph (state.PointerAnalysis.CallGraph), state.ReachableFunctions() and
// state.ResolveCallee of the repository on generated pointer programs versus
//
//	(1) the Lean criteria `cgClosed` / `ptrClosed` on the dumped facts + real result       — V2 (cg_sound, executed_reachable)
//	(2) the Lean model `Cg.reach` on the dumped edges == real ReachableFunctions, exactly     — M8 (reachable_is_closure)
//	(3) the Lean model `Cg.resolveCallee` == real ResolveCallee(instr, false), exactly        — M8 (resolveCallee_contains_actual)
//	(4) ground truth of native runs: every logged call event (call site, entered function) must be a
//	    call-graph edge at that site (possibly through synthetic wrappers), the entered function must be
//	    in ReachableFunctions and among the functions ResolveCallee returns            — concrete search
package main

import (
	"fmt"
	"os"
	"sort"
	"strings"
	"time"

	"github.com/awslabs/ar-go-tools/analysis/dataflow"
	"github.com/awslabs/ar-go-tools/analysis/lang"
	"golang.org/x/tools/go/callgraph"
	"golang.org/x/tools/go/ssa"
	"verif/harness/gen"
	"verif/harness/lib"
	"verif/harness/ptrrun"
)

type resolveQ struct {
	instr ssa.CallInstruction
	fn    *ssa.Function
}

func main() {
	rep := lib.NewReport("C12")
	rep.Rule = "generated pointer programs (see C11): every call passes a unique site constant, every function logs (its id, the site) on entry; distinct = distinct (call form, callee set size, via-wrapper) per call site text; non-trivial = dynamic / invoke / go / defer call sites"
	r := lib.Rand("c12")
	progs, cases := 3, 50
	if lib.Thorough() {
		progs, cases = 8, 100
	}
	rep.Extra["programs"] = progs
	rep.Extra["cases_per_program"] = cases
	start := time.Now()
	budget := 110 * time.Second // after this much wall time no further program is started (the first always runs)
	if lib.Thorough() {
		budget = 25 * time.Minute
	}
	for pi := 0; pi < progs; pi++ {
		if pi > 0 && time.Since(start) > budget {
			rep.Notes = append(rep.Notes, fmt.Sprintf("time budget reached after %d of %d programs", pi, progs))
			break
		}
		rep.Extra["programs_run"] = pi + 1
		o := gen.PtrOpts{Cases: cases, Stmts: 8 + r.Intn(8), Funcs: 2 + r.Intn(3)}
		if pi > 0 { // the first program has every feature; the others vary shape and feature set
			o = gen.PtrOpts{Cases: cases, Stmts: 5 + r.Intn(22), Funcs: 1 + r.Intn(5), NoGo: r.Intn(6) == 0,
				NoAppend: r.Intn(4) == 0, NoStruct: r.Intn(5) == 0}
		}
		pp := gen.GenPtrProg(r, o)
		var queries []resolveQ
		run := ptrrun.RunWith("C12", fmt.Sprintf("prog%d", pi), pp, rep, "oracle_c12", func(res *ptrrun.Result) string {
			return resolveLines(res, &queries)
		})
		if run == nil {
			continue
		}
		for k, n := range pp.Stats {
			if strings.HasPrefix(k, "call") || strings.HasPrefix(k, "go") || strings.HasPrefix(k, "defer") || strings.HasPrefix(k, "func") || strings.HasPrefix(k, "rt-") {
				rep.Dist["stmt:"+k] += n
			}
		}
		for k, n := range run.Dump.Kinds {
			if strings.HasPrefix(k, "call") {
				rep.Dist["ssa:"+k] += n
			}
		}
		checkProgram(rep, run, pi, queries)
	}
	rep.Finish()
}

// resolveLines renders one `resolve` query per call instruction of the reachable functions.
func resolveLines(res *ptrrun.Result, queries *[]resolveQ) string {
	d := res.Dump
	reach := res.State.ReachableFunctions()
	var b strings.Builder
	for _, fn := range d.Funcs {
		if !reach[fn] {
			continue
		}
		for _, blk := range fn.Blocks {
			for _, ins := range blk.Instrs {
				call, ok := ins.(ssa.CallInstruction)
				if !ok {
					continue
				}
				c, ok := d.CallSite[call]
				if !ok {
					continue // builtin
				}
				static := "-"
				if sc := call.Common().StaticCallee(); sc != nil {
					static = fmt.Sprint(d.FnID[sc])
				}
				var bt []string
				key := lang.InstrMethodKey(call).ValueOr("")
				for g := range res.State.ImplementationsByType[key] {
					if id, ok := d.FnID[g]; ok {
						bt = append(bt, fmt.Sprint(id))
					} else {
						bt = append(bt, fmt.Sprint(1000000+len(bt))) // a function outside the table
					}
				}
				sort.Strings(bt)
				bts := "-"
				if len(bt) > 0 {
					bts = strings.Join(bt, ",")
				}
				fmt.Fprintf(&b, "resolve %d %d %s %s\n", d.FnID[fn], c, static, bts)
				*queries = append(*queries, resolveQ{call, fn})
			}
		}
	}
	return b.String()
}

func ids(d map[*ssa.Function]int, fs map[*ssa.Function]bool) string {
	var xs []int
	for f := range fs {
		if id, ok := d[f]; ok {
			xs = append(xs, id)
		} else {
			xs = append(xs, -1)
		}
	}
	sort.Ints(xs)
	if len(xs) == 0 {
		return "-"
	}
	var ss []string
	for i, x := range xs {
		if i > 0 && xs[i-1] == x {
			continue
		}
		ss = append(ss, fmt.Sprint(x))
	}
	return strings.Join(ss, ",")
}

// viaWrappers: the functions callable from the given ones through chains of synthetic wrappers
// (bound-method closures, thunks, interface-method wrappers), following call-graph edges.
func viaWrappers(cg *callgraph.Graph, start map[*ssa.Function]bool) map[*ssa.Function]bool {
	seen := map[*ssa.Function]bool{}
	var todo []*ssa.Function
	for f := range start {
		seen[f] = true
		todo = append(todo, f)
	}
	for len(todo) > 0 {
		f := todo[len(todo)-1]
		todo = todo[:len(todo)-1]
		if f.Synthetic == "" || f.Pkg != nil {
			continue
		}
		if n := cg.Nodes[f]; n != nil {
			for _, e := range n.Out {
				if g := e.Callee.Func; !seen[g] {
					seen[g] = true
					todo = append(todo, g)
				}
			}
		}
	}
	return seen
}

func checkProgram(rep *lib.Report, run *ptrrun.Result, pi int, queries []resolveQ) {
	d := run.Dump
	state := run.State
	if len(d.Unsupported) > 0 || len(d.LeafShaped) > 0 {
		rep.Fail(fmt.Sprintf("harness-fragment:%d", pi), "generated program left the modelled fragment: "+
			strings.Join(append(append([]string{}, d.Unsupported...), d.LeafShaped...), "; "), []byte(run.Prog.Main), true)
		return
	}
	reach := state.ReachableFunctions()
	var problems []string // model / criterion level
	probCase := -1

	// (2) reach model == real
	realReach := map[*ssa.Function]bool{}
	for f, ok := range reach {
		if ok {
			if _, in := d.FnID[f]; in {
				realReach[f] = true
			}
		}
	}
	var modelReach, resolves []string
	for _, l := range run.OracleOut {
		if strings.HasPrefix(l, "reach ") {
			modelReach = append(modelReach, strings.TrimPrefix(l, "reach "))
		}
		if strings.HasPrefix(l, "resolve ") {
			resolves = append(resolves, strings.TrimPrefix(l, "resolve "))
		}
	}
	if len(modelReach) != 1 || modelReach[0] != ids(d.FnID, realReach) {
		problems = append(problems, fmt.Sprintf("ReachableFunctions differs from the closure of the call graph from main/init: real={%s} model=%v", ids(d.FnID, realReach), modelReach))
	}
	rep.Extra["reachable_functions"] = intOf(rep.Extra["reachable_functions"]) + len(realReach)

	// (3) ResolveCallee model == real
	if len(resolves) != len(queries) {
		problems = append(problems, fmt.Sprintf("oracle answered %d resolve queries of %d", len(resolves), len(queries)))
	} else {
		for i, q := range queries {
			real, err := state.ResolveCallee(q.instr, false)
			set := map[*ssa.Function]bool{}
			for f := range real {
				set[f] = true
			}
			got := ids(d.FnID, set)
			if err != nil {
				got = "error:" + err.Error()
			}
			rep.Count(fmt.Sprintf("resolve-size<=%d", bucket(len(real))))
			if got != resolves[i] {
				problems = append(problems, fmt.Sprintf("ResolveCallee at `%s` in %s: real={%s} model={%s}", q.instr.String(), q.fn.String(), got, resolves[i]))
				if probCase < 0 {
					probCase = ptrrun.CaseOf(q.fn)
				}
			}
		}
	}
	rep.Extra["resolve_queries"] = intOf(rep.Extra["resolve_queries"]) + len(queries)

	// (4) ground truth: call events
	missed, events, evProblems := checkEvents(rep, run, true)
	problems = append(problems, evProblems...)
	rep.Extra["call_events"] = intOf(rep.Extra["call_events"]) + len(events)
	rep.Extra["native_runs"] = intOf(rep.Extra["native_runs"]) + run.NativeRuns
	if pi == 0 {
		for i, e := range events {
			if i%(len(events)/4+1) == 0 && len(run.SiteInstr[e[1]]) > 0 && len(run.FidFn[e[0]]) > 0 {
				si := run.SiteInstr[e[1]][0]
				rep.Sample(map[string]any{"site": si.String(), "in": si.Parent().String(),
					"entered": run.FidFn[e[0]][0].String(), "form": callForm(si)})
			}
		}
	}

	closed := run.PtrClosed && run.CgClosed && len(d.MissingQuery) == 0 && run.BadRecords == 0
	switch {
	case len(missed) > 0:
		m := missed[0]
		rep.Fail("missed-call:"+m.key, m.what, ptrrun.Replay(run, m.c, fmt.Sprintf("%s\n%d missed call events in this program; criterion failures: %v; model problems: %v\n", m.what, len(missed), run.FailText(4), problems)), false)
	case !closed:
		// targeted search: programs concentrated on the call forms whose rule failed
		if focus := ptrrun.FocusOf(run); len(focus) > 0 {
			for round := 0; round < 2; round++ {
				fr := lib.Rand(fmt.Sprintf("c12-focus-%d-%d", pi, round))
				fp := gen.GenPtrProg(fr, gen.PtrOpts{Cases: 40, Stmts: 8, Funcs: 2, Focus: focus})
				frun := ptrrun.RunWith("C12", fmt.Sprintf("focus%d_%d", pi, round), fp, rep, "oracle_c12", nil)
				if frun == nil {
					continue
				}
				rep.Extra["focused_programs"] = intOf(rep.Extra["focused_programs"]) + 1
				if fm, _, _ := checkEvents(rep, frun, false); len(fm) > 0 {
					m := fm[0]
					rep.Fail("missed-call:"+m.key, m.what, ptrrun.Replay(frun, m.c, fmt.Sprintf("%s\nfound by the targeted search (focus %v) after the closure criteria failed on a generated program: %s\n", m.what, focus, strings.Join(run.FailText(4), " | "))), false)
					return
				}
			}
		}
		what := fmt.Sprintf("the real call graph / points-to result does not satisfy the closure criteria (cg=%v ptr=%v missing-queries=%d bad-records=%d): %s; every logged call event was an edge",
			run.CgClosed, run.PtrClosed, len(d.MissingQuery), run.BadRecords, strings.Join(run.FailText(6), " | "))
		c := -1
		if len(run.FailCases) > 0 {
			c = run.FailCases[0]
		}
		rep.Fail(fmt.Sprintf("criterion:%d", pi), what, ptrrun.Replay(run, c, what), true)
	case len(problems) > 0:
		what := "model of CallGraphReachable / ResolveCallee no longer matches the code (theorems reachable_is_closure / resolveCallee_contains_actual do not describe it): " + strings.Join(head(problems, 4), " | ") + "; every logged call event was still resolved"
		rep.Fail(fmt.Sprintf("model:%d", pi), what, ptrrun.Replay(run, probCase, what), true)
	}
	if os.Getenv("VERIF_C11_KEEP") == "" {
		run.Cleanup()
	}
}

type miss struct {
	key, what string
	c         int
}

// checkEvents compares every logged call event with the real call graph, reachable set and ResolveCallee.
func checkEvents(rep *lib.Report, run *ptrrun.Result, count bool) ([]miss, [][2]int, []string) {
	state := run.State
	reach := state.ReachableFunctions()
	cg := state.PointerAnalysis.CallGraph
	// the call graph of the pointer analysis run WITHOUT queries (dataflow.PointerAnalysis.ComputeCallgraph: the
	// mode behind `argot render` / `argot compare`); type tracking is then restricted to what the call graph needs
	nq, nqErr := dataflow.PointerAnalysis.ComputeCallgraph(state.Program)
	var problems []string
	if nqErr != nil || nq == nil {
		problems = append(problems, fmt.Sprintf("ComputeCallgraph(PointerAnalysis) failed: %v", nqErr))
	}
	var missed []miss
	events := make([][2]int, 0, len(run.Events))
	for e := range run.Events {
		events = append(events, e)
	}
	sort.Slice(events, func(i, j int) bool {
		if events[i][1] != events[j][1] {
			return events[i][1] < events[j][1]
		}
		return events[i][0] < events[j][0]
	})
	edgesAt := func(g *callgraph.Graph, instr ssa.CallInstruction) map[*ssa.Function]bool {
		direct := map[*ssa.Function]bool{}
		if g == nil {
			return direct
		}
		if n := g.Nodes[instr.Parent()]; n != nil {
			for _, edge := range n.Out {
				if edge.Site == instr {
					direct[edge.Callee.Func] = true
				}
			}
		}
		return direct
	}
	// judge one (call instruction, entered function) reading of an event: "" if everything contains it
	judge := func(instr ssa.CallInstruction, callee *ssa.Function) (what, form, via string, ndirect int) {
		caller := instr.Parent()
		form = callForm(instr)
		direct := edgesAt(cg, instr)
		all := viaWrappers(cg, direct)
		if !direct[callee] && all[callee] {
			via = "-via-wrapper"
		}
		ndirect = len(direct)
		switch {
		case !reach[caller]:
			what = fmt.Sprintf("function %s executed (it performed the call `%s`) but is not in ReachableFunctions", caller.String(), instr.String())
		case !reach[callee]:
			what = fmt.Sprintf("function %s executed (entered from `%s` in %s) but is not in ReachableFunctions", callee.String(), instr.String(), caller.String())
		case !all[callee]:
			what = fmt.Sprintf("call `%s` in %s entered %s at run time, but the call graph has no such edge at that site (edges: %s)", instr.String(), caller.String(), callee.String(), names(direct))
		default:
			real, err := state.ResolveCallee(instr, false)
			set := map[*ssa.Function]bool{}
			for f := range real {
				set[f] = true
			}
			if err != nil || !viaWrappers(cg, set)[callee] {
				what = fmt.Sprintf("ResolveCallee(`%s`) in %s = {%s} omits the function actually called, %s (err=%v)", instr.String(), caller.String(), names(set), callee.String(), err)
			} else if nq != nil {
				if d2 := edgesAt(nq, instr); !viaWrappers(nq, d2)[callee] {
					what = fmt.Sprintf("call `%s` in %s entered %s at run time, but the call graph of the pointer analysis run without queries (ComputeCallgraph(PointerAnalysis), used by argot render/compare) has no such edge at that site (edges: %s)", instr.String(), caller.String(), callee.String(), names(d2))
				}
			}
		}
		return
	}
	for _, e := range events {
		fid, site := e[0], e[1]
		callees := run.FidFn[fid]
		instrs := run.SiteInstr[site]
		if len(callees) == 0 || len(instrs) == 0 {
			problems = append(problems, fmt.Sprintf("event (function %d, site %d) cannot be mapped to SSA", fid, site))
			continue
		}
		// a site inside a generic function exists once per instance, and so does the function id of a generic
		// function: the event is explained if SOME (instruction, function) reading of it is contained
		first, ok := "", false
		var fi ssa.CallInstruction
		var fc *ssa.Function
		for _, instr := range instrs {
			for _, callee := range callees {
				what, form, via, nd := judge(instr, callee)
				if what == "" && !ok {
					ok = true
					if count {
						if form != "static" {
							rep.Case(fmt.Sprintf("%s%s callees=%d %s", form, via, nd, instr.String()))
						} else {
							rep.Case("")
						}
						rep.Count("event:" + form + via)
						if len(instrs) > 1 || len(callees) > 1 {
							rep.Count("event-in-generic-instance")
						}
					}
				}
				if first == "" && what != "" {
					first, fi, fc = what, instr, callee
				}
			}
		}
		if !ok {
			missed = append(missed, miss{fmt.Sprintf("%s->%s", fi.String(), fc.String()), first, ptrrun.CaseOf(fi.Parent())})
		}
	}
	return missed, events, problems
}

func head(xs []string, n int) []string {
	if len(xs) > n {
		return append(append([]string{}, xs[:n]...), fmt.Sprintf("… %d more", len(xs)-n))
	}
	return xs
}

func names(fs map[*ssa.Function]bool) string {
	var xs []string
	for f := range fs {
		xs = append(xs, f.String())
	}
	sort.Strings(xs)
	return strings.Join(xs, ", ")
}

func callForm(instr ssa.CallInstruction) string {
	cc := instr.Common()
	form := "dynamic"
	switch {
	case cc.IsInvoke():
		form = "invoke"
	case cc.StaticCallee() != nil:
		form = "static"
		if _, ok := cc.Value.(*ssa.MakeClosure); ok {
			form = "static-closure"
		} else if cc.StaticCallee().Synthetic != "" {
			form = "static-wrapper"
		}
	}
	switch instr.(type) {
	case *ssa.Go:
		form = "go-" + form
	case *ssa.Defer:
		form = "defer-" + form
	}
	return form
}

func bucket(n int) int {
	for _, b := range []int{0, 1, 2, 4, 8, 16} {
		if n <= b {
			return b
		}
	}
	return 1000
}

func intOf(x any) int {
	if n, ok := x.(int); ok {
		return n
	}
	return 0
}
