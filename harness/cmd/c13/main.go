// Driver for C13: the REAL taint analysis with use-escape-analysis on generated goroutine programs
// (harness/taintrun) versus marker ground truth obtained by running the programs natively under
// several schedules. Every observed (source, sink) flow must be in Sinks, or its source must be in
// Escapes (the tool then exits with failure), or the tool must have reported an analysis error; a
// flow that is observed while the tool stays silent about its source is a concrete violation.
// Also evaluated per run: the escape-context bookkeeping criterion `context_defined` (no
// "missing escape for … in context" error).
package main

import (
	"bytes"
	"fmt"
	"os"
	"os/exec"
	"path/filepath"
	"regexp"
	"sort"
	"strconv"
	"strings"

	"verif/harness/gen"
	"verif/harness/lib"
	"verif/harness/taintrun"
)

var explore = os.Getenv("VERIF_C13_EXPLORE") != ""

var obsRe = regexp.MustCompile(`^OBS (\d+) (\d+)$`)

func goEnv() []string {
	return append(os.Environ(), "GOFLAGS=-mod=mod", "GOPROXY=off", "GOSUMDB=off", "GOTOOLCHAIN=local", "GOWORK=off")
}

// groundTruth builds the program once and runs it under several GOMAXPROCS values, several times.
func groundTruth(dir string, runs int) (map[[2]int]int, error) {
	bin := filepath.Join(dir, "prog.bin")
	cmd := exec.Command("go", "build", "-o", bin, ".")
	cmd.Dir = dir
	cmd.Env = goEnv()
	if out, err := cmd.CombinedOutput(); err != nil {
		return nil, fmt.Errorf("go build: %v\n%s", err, out)
	}
	obs := map[[2]int]int{}
	for r := 0; r < runs; r++ {
		c := exec.Command(bin)
		c.Env = append(goEnv(), fmt.Sprintf("GOMAXPROCS=%d", []int{1, 2, 4, 8}[r%4]))
		var out bytes.Buffer
		c.Stdout = &out
		c.Stderr = &out
		if err := c.Run(); err != nil {
			return nil, fmt.Errorf("run: %v\n%s", err, out.String())
		}
		seen := map[[2]int]bool{}
		for _, l := range strings.Split(out.String(), "\n") {
			if m := obsRe.FindStringSubmatch(strings.TrimSpace(l)); m != nil {
				a, _ := strconv.Atoi(m[1])
				b, _ := strconv.Atoi(m[2])
				if !seen[[2]int{a, b}] {
					seen[[2]int{a, b}] = true
					obs[[2]int{a, b}]++
				}
			}
		}
	}
	os.Remove(bin)
	return obs, nil
}

var escRe = regexp.MustCompile(`^(.*):(\d+)<-(.*):(\d+)$`)

// hiddenKey names the shape of a silently hidden flow. Shapes that are consequences of the
// recorded C14 findings get the finding's own key (builtin calls are never checked for escape:
// copy/append transports; deferred stores: the escape transfer function ignores Defer).
func hiddenKey(sc *gen.TScenario) string {
	if sc.Via == "method" {
		return "hidden-flow:struct-receiver"
	}
	if sc.Via == "srchelper" {
		return "hidden-flow:source-in-helper"
	}
	if sc.Transport == "copy" && sc.Via == "inline" {
		return "hidden-flow:builtin-call-is-the-only-shared-access"
	}
	if sc.Transport == "captured" && (sc.Via == "callee" || sc.Via == "method") {
		return "hidden-flow:global-pointer-in-callsite-context"
	}
	return "hidden-flow:" + sc.Key()
}

func runProgram(rep *lib.Report, name string, scs []*gen.TScenario, runs int, fixedSrc string, fixedKey string) {
	dir := lib.WorkDir("C13", name)
	src := fixedSrc
	if src == "" {
		src = gen.RenderConcTaint(scs)
	}
	lib.WriteProgram(dir, "vprog", map[string]string{"main.go": src})
	gt, err := groundTruth(dir, runs)
	if err != nil {
		rep.Fail("harness-gt:"+name, "generated goroutine program does not build/run: "+err.Error(), []byte(src), true)
		return
	}
	l, err := taintrun.Load(dir, false)
	if err != nil {
		rep.Fail("harness-load:"+name, "generated goroutine program does not load: "+err.Error(), []byte(src), true)
		return
	}
	bySrcLine := map[int]*gen.TScenario{}
	for _, sc := range scs {
		bySrcLine[sc.SrcLine] = sc
	}
	// one analysis per scenario (only its source is an entry point), so that an analysis error
	// raised while following one source does not excuse silence about another
	for _, sc := range scs {
		o := taintrun.Options{ExtraYAML: "  use-escape-analysis: true\n", KeepLog: true, LogLevel: 2,
			SourceRe: fmt.Sprintf("^source_%d$", sc.ID), SinkRe: fmt.Sprintf("^sink_%d$", sc.ID)}
		res := l.Analyze(o)
		rep.Case(sc.Key())
		rep.Count("dir=" + sc.Dir)
		rep.Count("transport=" + sc.Transport)
		rep.Count("share=" + sc.Share)
		rep.Count("via=" + sc.Via)
		observed := gt[[2]int{sc.ID, sc.ID}]
		if !res.OK() {
			rep.Count("tool=panic")
			rep.Fail("taint-panic:"+sc.Key(), "taint analysis with use-escape-analysis panicked: "+firstLine(res.Panic), []byte(res.Panic+"\n\n"+src), false)
			continue
		}
		flow := res.IDPairs()[[2]int{sc.ID, sc.ID}]
		esc := false
		for _, e := range res.Escapes {
			if m := escRe.FindStringSubmatch(e); m != nil {
				ln, _ := strconv.Atoi(m[4])
				if ln == sc.SrcLine {
					esc = true
				}
			}
		}
		errText := ""
		if res.Err != nil {
			errText = res.Err.Error()
		}
		missingCtx := strings.Contains(errText, "missing escape")
		verdict := "silent"
		switch {
		case flow && esc:
			verdict = "flow+escape"
		case flow:
			verdict = "flow"
		case esc:
			verdict = "escape"
		}
		if res.Err != nil {
			verdict += "+error"
		}
		rep.Count(fmt.Sprintf("observed=%v,tool=%s", observed > 0, verdict))
		if os.Getenv("VERIF_C13_VERBOSE") != "" {
			fmt.Printf("VERDICT %s observed=%d tool=%s escapes=%d\n", sc.Key(), observed, verdict, len(res.Escapes))
		}
		if missingCtx {
			rep.Count("context_defined=false:dir=" + sc.Dir + ",share=" + sc.Share)
		} else {
			rep.Count("context_defined=true")
		}
		if sc.ID%29 == 7 {
			rep.Sample(map[string]any{"program": name, "scenario": sc.Key(), "observed_in_runs": observed, "tool": verdict, "error": firstLine(errText)})
		}
		if observed > 0 && !flow && !esc {
			if explore {
				fmt.Printf("EXPLORE %s err=%v\n", sc.Key(), res.Err != nil)
				continue
			}
			content := fmt.Sprintf("program %s, scenario %d (%s)\nobserved natively in %d of %d runs: data of source_%d (line %d) reaches sink_%d (line %d)\ntool (use-escape-analysis: true, sources ^source_%d$, sinks ^sink_%d$): TaintFlows.Sinks has no such pair and TaintFlows.Escapes does not contain the source; analysis error: %v\nreported flows: %v\nreported escapes: %v\n\n---- main.go ----\n%s",
				name, sc.ID, sc.Key(), observed, runs, sc.ID, sc.SrcLine, sc.ID, sc.SinkLine, sc.ID, sc.ID, res.Err, res.IDPairs(), res.Escapes, src)
			key := hiddenKey(sc)
			if fixedKey != "" {
				key = fixedKey
			}
			rep.Fail(key, fmt.Sprintf("flow through memory shared between goroutines observed at run time but neither reported as taint flow nor as escape (scenario %s)", sc.Key()), []byte(content), false)
		}
	}
	// cross pairs must never be observed (sanity of the ground truth)
	for p := range gt {
		if p[0] != p[1] {
			rep.Fail("harness-cross:"+name, fmt.Sprintf("ground truth reports a flow between different scenarios %v", p), []byte(src), true)
		}
	}
}

func firstLine(s string) string {
	if i := strings.IndexByte(s, '\n'); i >= 0 {
		return s[:i]
	}
	return s
}

func bucket(n int) int {
	for _, b := range []int{0, 1, 2, 4, 8, 16, 32, 64} {
		if n <= b {
			return b
		}
	}
	return 1 << 30
}

func main() {
	rep := lib.NewReport("C13")
	rep.Rule = "generated goroutine programs: one goroutine stores source data into a carrier (field, map, slice element, channel, global, captured cell, interface box, nested field, copy, append) that reached the other goroutine through a sharing mechanism (go argument, closure, global, channel of pointers, holder field); the other side reads it and calls the sink; both directions, synchronised and unsynchronised; ground truth = markers seen by the sinks in native runs under GOMAXPROCS 1/2/4/8; distinct = distinct shape"
	rnd := lib.Rand("c13")
	nProgs, per, runs := 2, 24, 6
	if lib.Thorough() {
		nProgs, per, runs = 8, 50, 16
	}
	if explore {
		nProgs, per, runs = 8, 70, 8
	}
	// fixed corpus: replay programs of the known findings (scenario 0 of each)
	for _, kf := range lib.KnownFindings("C13") {
		// fixed findings stay in the corpus as regression inputs (a failure on them is a VIOLATION)
		b, err := os.ReadFile(filepath.Join(lib.Root(), kf.Replay))
		if err != nil {
			rep.Notes = append(rep.Notes, "cannot read replay of "+kf.ID+": "+err.Error())
			continue
		}
		src := string(b)
		sc := &gen.TScenario{ID: 0, Dir: "corpus", Transport: kf.ID, Share: "-", Via: "-", Sync: true}
		for i, l := range strings.Split(src, "\n") {
			if strings.Contains(l, ":= source_0()") {
				sc.SrcLine = i + 1
			}
			if strings.Contains(l, "sink_0(x)") {
				sc.SinkLine = i + 1
			}
		}
		runProgram(rep, "corpus-"+kf.ID, []*gen.TScenario{sc}, runs, src, kf.Key)
	}
	for p := 0; p < nProgs; p++ {
		scs := gen.RandTScenarios(rnd, per)
		if p == 0 {
			scs = nil
			for _, d := range gen.CTDirs {
				for _, t := range gen.CTTransports {
					scs = append(scs, &gen.TScenario{ID: len(scs), Dir: d, Transport: t, Share: "goarg", Via: "direct", Sync: true})
				}
			}
			for _, s := range gen.CTShares {
				for _, v := range gen.CTVias {
					scs = append(scs, &gen.TScenario{ID: len(scs), Dir: "g2m", Transport: "field", Share: s, Via: v, Sync: true})
				}
				// the creating goroutine stores inline, right after sharing the carrier: the only
				// non-local instruction on the tainted path is that store
				for _, t := range []string{"field", "map", "chan", "selectsend"} {
					scs = append(scs, &gen.TScenario{ID: len(scs), Dir: "m2g", Transport: t, Share: s, Via: "inline", Sync: true})
				}
				// a store made inside a method reached through an interface call, pointer as parameter
				scs = append(scs, &gen.TScenario{ID: len(scs), Dir: "m2g", Transport: "field", Share: s, Via: "ifacecall", Sync: true})
			}
		}
		runProgram(rep, fmt.Sprintf("gen%d", p), scs, runs, "", "")
	}
	sort.Strings(rep.Notes)
	rep.Finish()
}
