// Replay aid for C13: runs the real taint analysis with use-escape-analysis on the program in the
// directory given as argument and prints flows, escapes and the error.
package main

import (
	"fmt"
	"os"
	"time"

	"verif/harness/gen"
	"verif/harness/taintrun"
)

func main() {
	if os.Args[1] == "-gen" {
		// c13probe -gen <dir> <n>: write the systematic first <n> scenarios of the C13 generator
		var n int
		fmt.Sscan(os.Args[3], &n)
		var scs []*gen.TScenario
		if len(os.Args) > 7 {
			// c13probe -gen <dir> 1 <dir> <transport> <share> <via>: one scenario of that shape
			scs = append(scs, &gen.TScenario{ID: 0, Dir: os.Args[4], Transport: os.Args[5], Share: os.Args[6], Via: os.Args[7], Sync: true})
		} else {
			for _, d := range gen.CTDirs {
				for _, t := range gen.CTTransports {
					scs = append(scs, &gen.TScenario{ID: len(scs), Dir: d, Transport: t, Share: "goarg", Via: "direct", Sync: true})
				}
			}
		}
		if n < len(scs) {
			scs = scs[:n]
		}
		os.MkdirAll(os.Args[2], 0o755)
		os.WriteFile(os.Args[2]+"/main.go", []byte(gen.RenderConcTaint(scs)), 0o644)
		os.WriteFile(os.Args[2]+"/go.mod", []byte("module vprog\n\ngo 1.22\n"), 0o644)
		return
	}
	l, err := taintrun.Load(os.Args[1], false)
	if err != nil {
		fmt.Println("load:", err)
		return
	}
	t := time.Now()
	r := l.Analyze(taintrun.Options{ExtraYAML: "  use-escape-analysis: true\n", KeepLog: true, LogLevel: 3})
	fmt.Println("analysis seconds:", time.Since(t).Seconds())
	fmt.Println("ok:", r.OK(), "err:", r.Err, "loaderr:", r.LoadErr)
	if r.Panic != "" {
		fmt.Println("panic:", r.Panic)
	}
	fmt.Println("flows:", r.IDPairs())
	off := l.Analyze(taintrun.Options{})
	fmt.Println("without escape analysis: flows:", off.IDPairs(), "err:", off.Err)
	fmt.Println("escapes:", r.Escapes)
	if len(os.Args) > 2 {
		fmt.Println(r.Log)
	}
}
