package main

// Tie M11: the REAL escape transferFunction and instructionLocality, applied instruction by
// instruction (hook escape.VerifInstrSession) to generated call-free pointer functions, versus the
// Lean model's primitive operations chosen by the translation table below (compiled oracle_c15).
// After every instruction the two graphs must be equal (nodes, statuses, edges, created subnodes
// and load nodes by path name); before every store / load the locality verdicts must agree.

import (
	"fmt"
	"go/token"
	"go/types"
	"sort"
	"strings"

	"github.com/awslabs/ar-go-tools/analysis/escape"
	"golang.org/x/tools/go/ssa"
	"verif/harness/gen"
	"verif/harness/lib"
)

func isPtr(t types.Type) bool {
	_, ok := t.Underlying().(*types.Pointer)
	return ok
}

// translate returns the oracle commands that mirror transferFunction on `instr`, acting on
// register c; ok=false when the instruction kind is outside the table.
func translate(s *escape.VerifInstrSession, instr ssa.Instruction, opID int) (cmds []string, ok bool) {
	switch in := instr.(type) {
	case *ssa.Alloc:
		return []string{fmt.Sprintf("addedge c c %d %d 1", s.ValueIndex(in), s.AllocIndex(in))}, true
	case *ssa.FieldAddr:
		return []string{fmt.Sprintf("fieldaddr c c %d %d %d", s.ValueIndex(in), s.ValueIndex(in.X), in.Field)}, true
	case *ssa.Store:
		if isPtr(in.Val.Type()) {
			return []string{fmt.Sprintf("store c c %d %d -", s.ValueIndex(in.Addr), s.ValueIndex(in.Val))}, true
		}
		if _, isStruct := in.Val.Type().Underlying().(*types.Struct); isStruct {
			return nil, false
		}
		return nil, true
	case *ssa.UnOp:
		if in.Op == token.MUL {
			if isPtr(in.Type()) {
				return []string{fmt.Sprintf("load c c %d %d %d -", s.ValueIndex(in), s.ValueIndex(in.X), opID)}, true
			}
			if _, isStruct := in.Type().Underlying().(*types.Struct); isStruct {
				return nil, false
			}
			return nil, true
		}
		if in.Op == token.ARROW {
			return nil, false
		}
		return nil, true
	case *ssa.Phi:
		if !isPtr(in.Type()) {
			return nil, true
		}
		for _, e := range in.Edges {
			cmds = append(cmds, fmt.Sprintf("wa c c %d %d", s.ValueIndex(in), s.ValueIndex(e)))
		}
		return cmds, true
	case *ssa.Go:
		if _, static := in.Call.Value.(*ssa.Function); !static {
			return nil, false
		}
		var args []string
		for _, a := range in.Call.Args {
			if isPtr(a.Type()) {
				args = append(args, fmt.Sprint(s.ValueIndex(a)))
			}
		}
		if len(args) == 0 {
			return nil, true
		}
		return []string{"callunknown c c " + strings.Join(args, ",")}, true
	case *ssa.If, *ssa.Jump, *ssa.Return, *ssa.BinOp, *ssa.DebugRef:
		return nil, true
	}
	return nil, false
}

func partM11(rep *lib.Report) {
	rnd := lib.Rand("c14-m11")
	nFuncs := 60
	if lib.Thorough() {
		nFuncs = 500
	}
	var src strings.Builder
	src.WriteString(gen.PtrPrelude)
	for i := 0; i < nFuncs; i++ {
		src.WriteString("\n" + gen.RandPtrFunc(rnd, fmt.Sprintf("pf%d", i), 4+rnd.Intn(12)))
	}
	dir := lib.WorkDir("C14", "m11")
	lib.WriteProgram(dir, "vc14/m11", map[string]string{"main.go": src.String()})
	prog, _, err := lib.LoadSSA(dir, ssa.InstantiateGenerics, false, ".")
	if err != nil {
		rep.Fail("harness-load:m11", "generated pointer functions do not load: "+err.Error(), []byte(src.String()), true)
		return
	}
	var fns []*ssa.Function
	for _, p := range prog.AllPackages() {
		if p.Pkg.Path() != "vc14/m11" {
			continue
		}
		for _, m := range p.Members {
			if f, ok := m.(*ssa.Function); ok && strings.HasPrefix(f.Name(), "pf") {
				fns = append(fns, f)
			}
		}
	}
	sort.Slice(fns, func(i, j int) bool { return fns[i].Name() < fns[j].Name() })
	type expect struct {
		fn   *ssa.Function
		what string
		real string
	}
	var in strings.Builder
	var exps []expect
	texts := map[*ssa.Function][]string{}
	skipped := 0
	for _, f := range fns {
		s := escape.VerifNewInstrSession(f)
		// collect all commands first (ValueIndex registers nodes), then emit the universe
		type step struct {
			instr ssa.Instruction
			cmds  []string
		}
		var steps []step
		okAll := true
		op := 0
		for _, b := range f.Blocks {
			for _, ins := range b.Instrs {
				op++
				cmds, ok := translate(s, ins, op)
				if !ok {
					okAll = false
				}
				steps = append(steps, step{ins, cmds})
			}
		}
		if !okAll {
			skipped++
			rep.Count("m11:function-with-instruction-outside-the-table")
			continue
		}
		g := s.Initial()
		d, ok := s.U.Desc(g)
		if !ok {
			skipped++
			continue
		}
		var lines []string
		emit := func(l string) { lines = append(lines, l); in.WriteString(l + "\n") }
		emit(fmt.Sprintf("u %d %s", len(s.U.Nodes), gen.KindString(s.U.Kinds())))
		emit(fromDescM11(len(s.U.Nodes), s.U.Kinds(), d).Line("c"))
		for _, st := range steps {
			// A load through a pointer with several pointees makes EnsureLoadNode's choice between
			// re-using a load node of the history and creating a new one depend on the order in
			// which Go iterates over the pointee map: the graphs that follow are order dependent.
			if u, isLoad := st.instr.(*ssa.UnOp); isLoad && u.Op == token.MUL && isPtr(u.Type()) {
				if len(g.Pointees(s.U.Nodes[s.ValueIndex(u.X)])) > 1 {
					rep.Count("m11:stopped-at-load-with-several-pointees")
					break
				}
			}
			// locality verdict before the transfer (as basicBlockInstructionLocality does)
			switch ins := st.instr.(type) {
			case *ssa.Store:
				emit(fmt.Sprintf("local c %d", s.ValueIndex(ins.Addr)))
				exps = append(exps, expect{f, "locality of " + ins.String(), "local " + b01(s.Locality(g, ins))})
				rep.Count("m11:locality:store")
			case *ssa.UnOp:
				if ins.Op == token.MUL {
					emit(fmt.Sprintf("local c %d", s.ValueIndex(ins.X)))
					exps = append(exps, expect{f, "locality of " + ins.String(), "local " + b01(s.Locality(g, ins))})
					rep.Count("m11:locality:load")
				}
			}
			s.Transfer(g, st.instr)
			for _, c := range st.cmds {
				emit(c)
			}
			if len(st.cmds) > 0 {
				emit("show c")
				exps = append(exps, expect{f, "graph after " + st.instr.String(), s.U.Dump(g)})
				rep.Count(fmt.Sprintf("m11:instr:%T", st.instr))
			}
		}
		texts[f] = lines
		rep.Case("m11:" + strings.Join(lines, ";"))
	}
	out, err := lib.RunOracle("oracle_c15", []byte(in.String()))
	if err != nil || len(out) != len(exps) {
		rep.Fail("oracle-run-m11", fmt.Sprintf("oracle failed: %v (%d lines for %d queries)", err, len(out), len(exps)), nil, true)
		return
	}
	reported := map[*ssa.Function]bool{}
	for i, e := range exps {
		if out[i] != e.real && !reported[e.fn] {
			reported[e.fn] = true
			var sb strings.Builder
			fmt.Fprintf(&sb, "function %s of the generated program (tie M11)\nfirst difference: %s\n  real : %s\n  model: %s\n\n# oracle input\n%s\n\n# SSA\n", e.fn.Name(), e.what, e.real, out[i], strings.Join(texts[e.fn], "\n"))
			e.fn.WriteTo(&sb)
			rep.Fail("m11:"+e.what, "escape transferFunction / instructionLocality differs from the model's primitive operations on a call-free function: "+e.what, []byte(sb.String()), true)
		}
	}
	rep.Extra["m11_functions"] = len(fns) - skipped
	rep.Extra["m11_queries"] = len(exps)
}

func b01(b bool) string {
	if b {
		return "1"
	}
	return "0"
}

func fromDescM11(n int, kinds []int, d escape.VerifGraphDesc) *gen.EG {
	g := gen.NewEG(kinds)
	for _, s := range d.Status {
		g.Dom[s[0]] = true
		g.St[s[0]] = s[1]
	}
	for _, e := range d.Edges {
		g.Fl[e[0]][e[1]] = e[2]
	}
	return g
}
