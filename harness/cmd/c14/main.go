// Driver for C14: locality classification of the REAL escape analysis
// (escape.InitializeEscapeAnalysisState + ComputeInstructionLocalityAndCallsites over the contexts
// derived from main / go-callees / deferred callees with arbitrary contexts and call-site contexts
// for their callees) on generated concurrent programs, versus `go run -race` of the same programs.
// A race report one of whose two accesses is a line all of whose memory-accessing instructions are
// classified local in every context is a concrete violation.
// Also: correspondence M11/M5 part for escape-graph primitives is in harness/cmd/c15 (shared oracle).
package main

import (
	"bytes"
	"encoding/json"
	"fmt"
	"go/token"
	"go/types"
	"os"
	"os/exec"
	"path/filepath"
	"regexp"
	"sort"
	"strconv"
	"strings"

	"github.com/awslabs/ar-go-tools/analysis/config"
	"github.com/awslabs/ar-go-tools/analysis/dataflow"
	"github.com/awslabs/ar-go-tools/analysis/escape"
	"golang.org/x/tools/go/ssa"
	"verif/harness/gen"
	"verif/harness/lib"
)

type locInfo struct {
	contexts int
	nonlocal int
	reasons  map[string]bool
}

type analysisResult struct {
	prog     *ssa.Program
	perInstr map[ssa.Instruction]*locInfo
	byLine   map[int][]ssa.Instruction
	notes    []string
}

func loadState(dir, pkg string) (*dataflow.AnalyzerState, error) {
	prog, pkgs, err := lib.LoadSSA(dir, ssa.InstantiateGenerics, true, ".")
	if err != nil {
		return nil, err
	}
	cfg := config.NewDefault()
	cfg.LogLevel = int(config.ErrLevel)
	cfg.SilenceWarn = true
	cfg.EscapeConfigFile = "inline"
	ec, _ := json.Marshal(map[string]any{"functions": map[string]string{}, "pkg-filter": "^" + pkg + "$"})
	if err := config.LoadEscape(cfg, ec); err != nil {
		return nil, err
	}
	cfg.UseEscapeAnalysis = true
	state, err := dataflow.NewInitializedAnalyzerState(prog, pkgs, config.NewLogGroup(cfg), cfg)
	if err != nil {
		return nil, err
	}
	if err := escape.InitializeEscapeAnalysisState(state); err != nil {
		return nil, err
	}
	return state, nil
}

// accessing: instruction kinds that touch memory through a pointer-like operand
func accessing(i ssa.Instruction) bool {
	switch v := i.(type) {
	case *ssa.Store, *ssa.Send, *ssa.Select, *ssa.MapUpdate, *ssa.Lookup, *ssa.Next, *ssa.Range:
		return true
	case *ssa.UnOp:
		return v.Op == token.MUL || v.Op == token.ARROW
	case *ssa.Call:
		_, isBuiltin := v.Call.Value.(*ssa.Builtin)
		return isBuiltin
	case *ssa.Convert:
		// string(byteSlice) / string(runeSlice) read the backing array
		_, fromSlice := v.X.Type().Underlying().(*types.Slice)
		b, toString := v.Type().Underlying().(*types.Basic)
		return fromSlice && toString && b.Info()&types.IsString != 0
	case *ssa.Index:
		// Index on a slice-typed parameterised value / string does not occur here
		_, isSlice := v.X.Type().Underlying().(*types.Slice)
		return isSlice
	}
	return false
}

func analyze(state *dataflow.AnalyzerState, pkg string) *analysisResult {
	res := &analysisResult{prog: state.Program, perInstr: map[ssa.Instruction]*locInfo{}, byLine: map[int][]ssa.Instruction{}}
	eas := state.EscapeAnalysisState
	record := func(loc map[ssa.Instruction]*dataflow.EscapeRationale) {
		for i, r := range loc {
			li := res.perInstr[i]
			if li == nil {
				li = &locInfo{reasons: map[string]bool{}}
				res.perInstr[i] = li
			}
			li.contexts++
			if r != nil {
				li.nonlocal++
				li.reasons[r.String()] = true
			}
		}
	}
	arbitraryDone := map[*ssa.Function]bool{}
	var walk func(f *ssa.Function, ctx dataflow.EscapeCallContext, stack []*ssa.Function)
	var walkArbitrary func(f *ssa.Function)
	walk = func(f *ssa.Function, ctx dataflow.EscapeCallContext, stack []*ssa.Function) {
		if len(f.Blocks) == 0 || !eas.IsSummarized(f) || len(stack) > 8 {
			return
		}
		for _, s := range stack {
			if s == f {
				return
			}
		}
		var loc map[ssa.Instruction]*dataflow.EscapeRationale
		var sites map[*ssa.Call]dataflow.EscapeCallsiteInfo
		func() {
			defer func() {
				if r := recover(); r != nil {
					res.notes = append(res.notes, fmt.Sprintf("panic computing locality of %s: %v", f, r))
				}
			}()
			loc, sites = eas.ComputeInstructionLocalityAndCallsites(f, ctx)
		}()
		if loc == nil {
			return
		}
		record(loc)
		stack = append(stack, f)
		var calls []*ssa.Call
		for c := range sites {
			calls = append(calls, c)
		}
		sort.Slice(calls, func(i, j int) bool { return calls[i].Pos() < calls[j].Pos() })
		for _, c := range calls {
			callees, _ := state.ResolveCallee(c, true)
			for callee := range callees {
				if eas.IsSummarized(callee) {
					func() {
						defer func() {
							if r := recover(); r != nil {
								res.notes = append(res.notes, fmt.Sprintf("panic resolving context of %s at %s: %v", callee, c, r))
							}
						}()
						walk(callee, sites[c].Resolve(callee), stack)
					}()
				}
			}
		}
		// go / defer callees: no call-site context exists for them (the taint visitor falls back to the
		// arbitrary context as well)
		for _, b := range f.Blocks {
			for _, ins := range b.Instrs {
				switch ins.(type) {
				case *ssa.Go, *ssa.Defer:
					callees, _ := state.ResolveCallee(ins.(ssa.CallInstruction), true)
					for callee := range callees {
						walkArbitrary(callee)
					}
				}
			}
		}
	}
	walkArbitrary = func(f *ssa.Function) {
		if arbitraryDone[f] || len(f.Blocks) == 0 || !eas.IsSummarized(f) {
			return
		}
		arbitraryDone[f] = true
		walk(f, eas.ComputeArbitraryContext(f), nil)
	}
	for f := range state.PointerAnalysis.CallGraph.Nodes {
		if f.Pkg != nil && f.Pkg.Pkg.Path() == pkg && f.Name() == "main" {
			walkArbitrary(f)
		}
	}
	for f := range state.PointerAnalysis.CallGraph.Nodes {
		if f.Pkg == nil || f.Pkg.Pkg.Path() != pkg {
			if f.Parent() == nil || f.Parent().Pkg == nil || f.Parent().Pkg.Pkg.Path() != pkg {
				continue
			}
		}
		for _, b := range f.Blocks {
			for _, ins := range b.Instrs {
				if ins.Pos().IsValid() {
					l := state.Program.Fset.Position(ins.Pos()).Line
					res.byLine[l] = append(res.byLine[l], ins)
				}
			}
		}
	}
	return res
}

// lineClass: "local" (≥1 accessing instruction with a computed context, all local in all
// contexts), "nonlocal" (some accessing instruction non-local in some context), "unknown".
func (r *analysisResult) lineClass(line int) (string, []string) {
	var desc []string
	n, local := 0, 0
	for _, ins := range r.byLine[line] {
		if !accessing(ins) {
			continue
		}
		li := r.perInstr[ins]
		if li == nil || li.contexts == 0 {
			desc = append(desc, fmt.Sprintf("%s: no context computed", ins))
			continue
		}
		n++
		if li.nonlocal == 0 {
			local++
		}
		var rs []string
		for k := range li.reasons {
			rs = append(rs, k)
		}
		sort.Strings(rs)
		desc = append(desc, fmt.Sprintf("%T %s: contexts=%d nonlocal=%d %v", ins, ins, li.contexts, li.nonlocal, rs))
	}
	switch {
	case n == 0:
		return "unknown", desc
	case local == n:
		return "local", desc
	}
	return "nonlocal", desc
}

type race struct {
	lines [2]int
	text  string
}

var frameRe = regexp.MustCompile(`^\s+(\S+):(\d+) \+0x`)

// runRace runs the program with the race detector and returns the reports (first frame inside
// the program's own file for each of the two accesses).
func runRace(dir string) ([]race, string, error) {
	cmd := exec.Command("go", "run", "-race", ".")
	cmd.Dir = dir
	cmd.Env = append(os.Environ(), "GOFLAGS=-mod=mod", "GOPROXY=off", "GOSUMDB=off", "GOTOOLCHAIN=local", "GOWORK=off", "GORACE=halt_on_error=0 history_size=3", "GOMAXPROCS=4")
	var out bytes.Buffer
	cmd.Stdout = &out
	cmd.Stderr = &out
	err := cmd.Run()
	text := out.String()
	var races []race
	for _, blk := range strings.Split(text, "==================") {
		if !strings.Contains(blk, "WARNING: DATA RACE") {
			continue
		}
		// sections are separated by blank lines; the first two are the accesses
		secs := strings.Split(strings.TrimSpace(blk), "\n\n")
		if len(secs) < 2 {
			continue
		}
		var r race
		r.text = strings.TrimSpace(blk)
		ok := true
		for k := 0; k < 2; k++ {
			found := false
			for _, l := range strings.Split(secs[k], "\n") {
				if m := frameRe.FindStringSubmatch(l); m != nil && filepath.Dir(m[1]) == dir {
					r.lines[k], _ = strconv.Atoi(m[2])
					found = true
					break
				}
			}
			ok = ok && found
		}
		if ok {
			races = append(races, r)
		}
	}
	if err != nil && len(races) == 0 && !strings.Contains(text, "exit status") {
		return nil, text, err
	}
	return races, text, nil
}

var explore = os.Getenv("VERIF_C14_EXPLORE") != ""
var exploreShapes = map[string]int{}

type raceOut struct {
	races []race
	text  string
	err   error
}

type progCase struct {
	name     string
	dir      string
	pkg      string
	src      string
	scs      []*gen.Scenario
	fixedKey string // known-finding key of a corpus program ("" for generated programs)
	raceCh   chan raceOut
}

var raceSem = make(chan struct{}, 3)

// start writes the program and launches its race-detector run in the background.
func (pc *progCase) start() {
	lib.WriteProgram(pc.dir, pc.pkg, map[string]string{"main.go": pc.src})
	pc.raceCh = make(chan raceOut, 1)
	go func() {
		raceSem <- struct{}{}
		defer func() { <-raceSem }()
		r, t, e := runRace(pc.dir)
		pc.raceCh <- raceOut{r, t, e}
	}()
}

// builtinOnLine: the name of a builtin call that is the only kind of memory-accessing instruction
// classified local on the line ("" if there is none).
func (r *analysisResult) builtinOnLine(line int) string {
	name := ""
	for _, ins := range r.byLine[line] {
		if c, ok := ins.(*ssa.Call); ok {
			if b, ok := c.Call.Value.(*ssa.Builtin); ok {
				name = b.Name()
			}
		}
	}
	return name
}

// violationKey names the specific shape of a violating line: by instruction for builtin calls
// (they are classified local unconditionally), by the recorded key for corpus programs, by the
// scenario shape otherwise (struct-valued receivers and globals accessed in a call-site context are
// the two other shapes known to fail on the pinned tree; everything else is keyed by its full shape).
func violationKey(pc *progCase, res *analysisResult, l int, sc *gen.Scenario) string {
	if b := res.builtinOnLine(l); b != "" {
		return "local-race:builtin:" + b
	}
	for _, ins := range res.byLine[l] {
		if _, ok := ins.(*ssa.Convert); ok && accessing(ins) {
			return "local-race:convert-slice-to-string"
		}
	}
	if pc.fixedKey != "" {
		return pc.fixedKey
	}
	if sc == nil {
		return fmt.Sprintf("local-race:%s:%d", pc.name, l)
	}
	if l == sc.WLine {
		return "local-race:writer-side:share=" + sc.Share
	}
	if sc.Access == "namedptrload" {
		return "local-race:named-pointer-load"
	}
	if sc.Via == "gorunhelper" {
		return "local-race:closure-through-parameter"
	}
	if sc.Via == "method" {
		return "local-race:struct-receiver"
	}
	if (sc.Share == "global" || sc.Share == "publish") && sc.Root != "go" {
		return "local-race:global-in-callsite-context"
	}
	return "local-race:" + sc.Key()
}

func runProgram(rep *lib.Report, pc *progCase) {
	state, err := loadState(pc.dir, pc.pkg)
	ro := <-pc.raceCh
	if err != nil {
		rep.Fail("harness-load:"+pc.name, "generated concurrent program does not load / escape analysis failed: "+err.Error(), []byte(pc.src), true)
		return
	}
	if ro.err != nil {
		rep.Fail("harness-race:"+pc.name, "go run -race failed: "+ro.err.Error()+"\n"+ro.text, []byte(pc.src), true)
		return
	}
	res := analyze(state, pc.pkg)
	for _, n := range res.notes {
		rep.Notes = append(rep.Notes, pc.name+": "+n)
		rep.Count("locality-panic")
	}
	srcLines := strings.Split(pc.src, "\n")
	byLine := map[int]*gen.Scenario{}
	for _, sc := range pc.scs {
		byLine[sc.Line] = sc
		byLine[sc.WLine] = sc
	}
	racedLines := map[int]bool{}
	reported := map[string]bool{}
	for _, rc := range ro.races {
		for _, l := range rc.lines {
			racedLines[l] = true
			class, desc := res.lineClass(l)
			rep.Count("raced-line:" + class)
			if class != "local" {
				continue
			}
			sc := byLine[l]
			if explore {
				if sc != nil {
					side := "access"
					if l == sc.WLine {
						side = "writer"
					}
					exploreShapes[side+":"+sc.Key()]++
				} else {
					exploreShapes[fmt.Sprintf("otherline:%s:%d:%s", pc.name, l, strings.TrimSpace(srcLines[l-1]))]++
				}
				continue
			}
			key := violationKey(pc, res, l, sc)
			if reported[key] {
				continue
			}
			reported[key] = true
			shape := ""
			if sc != nil {
				shape = sc.Key()
			}
			text := ""
			if l-1 < len(srcLines) {
				text = strings.TrimSpace(srcLines[l-1])
			}
			content := fmt.Sprintf("program: %s (go run -race .; classification: VERIF_C14_PROBE=<main.go> .work/bin/c14)\nscenario shape: %s\nline %d: %s\nclassification of the memory-accessing instructions on that line (all contexts from main / go / defer entry points):\n  %s\n\nrace report:\n%s\n\n---- main.go ----\n%s",
				pc.name, shape, l, text, strings.Join(desc, "\n  "), rc.text, pc.src)
			rep.Fail(key, fmt.Sprintf("instruction classified thread-local in every context is one side of a data race reported by the Go race detector (line %d: %s)", l, text), []byte(content), false)
		}
	}
	for _, sc := range pc.scs {
		class, _ := res.lineClass(sc.Line)
		raced := racedLines[sc.Line]
		rep.Case(sc.Key())
		rep.Count(fmt.Sprintf("scenario:raced=%v,class=%s", raced, class))
		rep.Count("share=" + sc.Share)
		rep.Count("access=" + sc.Access)
		rep.Count("via=" + sc.Via)
		rep.Count("root=" + sc.Root)
		if sc.Share != "none" && !raced {
			rep.Count("shared-but-no-race-observed:access=" + sc.Access)
		}
		if sc.ID%37 == 3 {
			rep.Sample(map[string]any{"program": pc.name, "scenario": sc.Key(), "line": sc.Line, "raced": raced, "class": class})
		}
	}
}

// probe: VERIF_C14_PROBE=<main.go> prints the classification of every instruction (replay aid).
func probe(file string) {
	src, err := os.ReadFile(file)
	if err != nil {
		panic(err)
	}
	dir := lib.WorkDir("C14", "probe")
	lib.WriteProgram(dir, "vc14/probe", map[string]string{"main.go": string(src)})
	state, err := loadState(dir, "vc14/probe")
	if err != nil {
		panic(err)
	}
	res := analyze(state, "vc14/probe")
	var lines []int
	for l := range res.byLine {
		lines = append(lines, l)
	}
	sort.Ints(lines)
	for _, l := range lines {
		c, desc := res.lineClass(l)
		if c != "unknown" {
			fmt.Printf("line %d: %s\n  %s\n", l, c, strings.Join(desc, "\n  "))
		}
	}
	if os.Getenv("VERIF_C14_RACE") != "" {
		races, text, err := runRace(dir)
		fmt.Println(len(races), "races", err)
		fmt.Println(text)
	}
}

func main() {
	if f := os.Getenv("VERIF_C14_PROBE"); f != "" {
		probe(f)
		return
	}
	rep := lib.NewReport("C14")
	if os.Getenv("VERIF_C14_ONLY") == "m11" {
		partM11(rep)
		rep.Finish()
		return
	}
	rep.Rule = "generated concurrent programs: scenarios = sharing mechanism (go argument, closure, global, channel, field of shared object, interface, map, slice, publishing callee, function value, none) × access form (store, load, map update/lookup/delete/len/range/clear, slice element store/load, append, copy, struct store/load, pointer chain) × indirection (direct, callee, nested callee, closure, method, interface invoke, deferred closure); distinct = distinct shape"
	var progs []*progCase
	// 1. fixed corpus: replay programs of the known findings first (one run per distinct program)
	seenReplay := map[string]bool{}
	for _, kf := range lib.KnownFindings("C14") {
		// open findings: expected to fail (KNOWN-FINDING); fixed findings: regression inputs, a failure
		// on them is an ordinary VIOLATION
		if seenReplay[kf.Replay] {
			continue
		}
		seenReplay[kf.Replay] = true
		src, err := os.ReadFile(filepath.Join(lib.Root(), kf.Replay))
		if err != nil {
			rep.Notes = append(rep.Notes, "cannot read replay of "+kf.ID+": "+err.Error())
			continue
		}
		name := "corpus-" + kf.ID
		progs = append(progs, &progCase{name: name, dir: lib.WorkDir("C14", name), pkg: "vc14/" + kf.ID, src: string(src), fixedKey: kf.Key})
	}
	// 1b. regression shapes (corpus/c14_shapes/<name>/main.go): racy programs that the unchanged tree classifies
	// correctly; a local classification of a racing line is an ordinary VIOLATION keyed by program and line
	if shapes, err := os.ReadDir(filepath.Join(lib.Root(), "corpus", "c14_shapes")); err == nil {
		for _, d := range shapes {
			src, err := os.ReadFile(filepath.Join(lib.Root(), "corpus", "c14_shapes", d.Name(), "main.go"))
			if err != nil {
				continue
			}
			name := "shape-" + d.Name()
			progs = append(progs, &progCase{name: name, dir: lib.WorkDir("C14", name), pkg: "vc14/" + name, src: string(src)})
			rep.Count("shape-corpus-programs")
		}
	}
	// 2. generated programs
	rnd := lib.Rand("c14-conc")
	nProgs, perProg := 2, 30
	if lib.Thorough() {
		nProgs, perProg = 10, 60
	}
	if explore {
		nProgs, perProg = 10, 120
		fmt.Sscanf(os.Getenv("VERIF_C14_EXPLORE"), "%dx%d", &nProgs, &perProg)
	}
	for p := 0; p < nProgs; p++ {
		scs := gen.RandScenarios(rnd, perProg, nil)
		if p == 0 {
			// systematic part: every access form directly and through a callee on a go-argument share,
			// every sharing mechanism with a plain store, in a goroutine-entry scenario function
			scs = nil
			for _, via := range []string{"direct", "callee"} {
				for _, a := range gen.ConcAccesses {
					scs = append(scs, &gen.Scenario{ID: len(scs), Share: "goarg", Access: a, Via: via, Root: "go"})
				}
			}
			// two holders of one shared object passed to a callee (access through the second holder),
			// delayed hand-off through a loop-carried variable
			for _, sh := range []string{"goarg", "closure", "field"} {
				scs = append(scs, &gen.Scenario{ID: len(scs), Share: sh, Access: "store", Via: "twoholders", Root: "go"})
				scs = append(scs, &gen.Scenario{ID: len(scs), Share: sh, Access: "lookup", Via: "twoholders", Root: "call"})
			}
			for _, a := range []string{"store", "load", "mapupdate"} {
				scs = append(scs, &gen.Scenario{ID: len(scs), Share: "goarg", Access: a, Via: "direct", Root: "delayed"})
			}
			for _, sh := range gen.ConcShares {
				scs = append(scs, &gen.Scenario{ID: len(scs), Share: sh, Access: "store", Via: "direct", Root: "go"})
				scs = append(scs, &gen.Scenario{ID: len(scs), Share: sh, Access: "lookup", Via: "callee", Root: "call"})
			}
		}
		name := fmt.Sprintf("gen%d", p)
		progs = append(progs, &progCase{name: name, dir: lib.WorkDir("C14", name), pkg: "vc14/" + name, src: gen.RenderConc(scs), scs: scs})
	}
	for _, pc := range progs {
		pc.start()
	}
	for _, pc := range progs {
		runProgram(rep, pc)
		if pc.fixedKey != "" {
			rep.Case("corpus:" + pc.name)
		}
	}
	partM11(rep)
	rep.Extra["programs"] = nProgs
	if explore {
		var ks []string
		for k := range exploreShapes {
			ks = append(ks, k)
		}
		sort.Strings(ks)
		for _, k := range ks {
			fmt.Println("EXPLORE", k, exploreShapes[k])
		}
	}
	rep.Finish()
}
