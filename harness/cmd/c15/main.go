// Driver for C15: the real escape.EscapeGraph operations (through the verif hook
// analysis/escape/hooks_verif.go) versus the Lean model `EGraph.*` (compiled oracle)   — tie M5
//   A. generated well-formed graph triples + weakened variants over small node universes
//   B. graphs captured from real runs on the repository's escape test programs (+ weakened variants)
//   C. the repository's own per-instruction monotonicity self-check, switched on, violations collected
//   D. the real analysis re-run with permuted block/function worklists; final summaries compared
// On every input the lattice laws themselves are also evaluated on the REAL code (idempotence,
// commutativity, associativity, upper bound, least upper bound, monotonicity of the primitives):
// a failing law is a concrete violating input of the property.
package main

import (
	"fmt"
	"os"
	"path/filepath"
	"sort"
	"strings"

	"github.com/awslabs/ar-go-tools/analysis/escape"
	"verif/harness/gen"
	"verif/harness/lib"
)

// expectation: one oracle output line and what the real code produced for the same query
type expectation struct {
	sess  *session
	what  string
	real  string
	isLaw bool // the real value is also a law instance that must be "… 1"
}

type session struct {
	id     string
	u      *escape.VerifUniverse
	n      int
	regs   map[string]*escape.EscapeGraph
	text   []string // input lines (for the replay file)
	laws   []string // law instances that failed on the real code
	broken bool
}

type run struct {
	in      strings.Builder
	expects []expectation
	rep     *lib.Report
}

func (r *run) newSession(id string, u *escape.VerifUniverse) *session {
	s := &session{id: id, u: u, n: len(u.Nodes), regs: map[string]*escape.EscapeGraph{}}
	s.emit(r, fmt.Sprintf("u %d %s", len(u.Nodes), gen.KindString(u.Kinds())))
	return s
}

func (s *session) emit(r *run, line string) {
	r.in.WriteString(line + "\n")
	s.text = append(s.text, line)
}

func (s *session) def(r *run, name string, g *gen.EG) {
	s.regs[name] = s.u.Build(toDesc(g))
	s.emit(r, g.Line(name))
}

func (s *session) defReal(r *run, name string, g *escape.EscapeGraph) bool {
	d, ok := s.u.Desc(g)
	if !ok {
		return false
	}
	s.regs[name] = g
	s.emit(r, fromDesc(len(s.u.Nodes), s.u.Kinds(), d).Line(name))
	return true
}

func toDesc(g *gen.EG) escape.VerifGraphDesc {
	var d escape.VerifGraphDesc
	for i := 0; i < g.N; i++ {
		if g.Dom[i] {
			d.Status = append(d.Status, [2]int{i, g.St[i]})
			d.Out = append(d.Out, i)
		}
		for j := 0; j < g.N; j++ {
			if g.Fl[i][j] != 0 {
				d.Edges = append(d.Edges, [3]int{i, j, g.Fl[i][j]})
			}
		}
	}
	return d
}

// fromDesc: only for descriptions whose Out set equals the status set (checked by caller through wf)
func fromDesc(n int, kinds []int, d escape.VerifGraphDesc) *gen.EG {
	g := gen.NewEG(kinds)
	for _, s := range d.Status {
		g.Dom[s[0]] = true
		g.St[s[0]] = s[1]
	}
	for _, e := range d.Edges {
		g.Fl[e[0]][e[1]] = e[2]
	}
	return g
}

func (s *session) show(r *run, name string) {
	s.emit(r, "show "+name)
	r.expects = append(r.expects, expectation{s, "show " + name, s.u.Dump(s.regs[name]), false})
}

func b01(b bool) string {
	if b {
		return "1"
	}
	return "0"
}

func (s *session) le(r *run, a, b string, law string) bool {
	v, _ := s.regs[a].LessEqual(s.regs[b])
	s.emit(r, fmt.Sprintf("le %s %s", a, b))
	r.expects = append(r.expects, expectation{s, fmt.Sprintf("le %s %s", a, b), "le " + b01(v), law != ""})
	if law != "" && !v {
		s.laws = append(s.laws, law)
	}
	return v
}

func (s *session) matches(r *run, a, b string, law string) bool {
	v := s.regs[a].Matches(s.regs[b])
	s.emit(r, fmt.Sprintf("matches %s %s", a, b))
	r.expects = append(r.expects, expectation{s, fmt.Sprintf("matches %s %s", a, b), "matches " + b01(v), law != ""})
	if law != "" && !v {
		s.laws = append(s.laws, law)
	}
	return v
}

func (s *session) merge(r *run, res, a, b string) {
	g := s.regs[a].Clone()
	g.Merge(s.regs[b])
	s.regs[res] = g
	s.emit(r, fmt.Sprintf("merge %s %s %s", res, a, b))
}

func (s *session) addEdge(r *run, res, a string, x, y, f int) {
	g := s.regs[a].Clone()
	s.u.AddEdge(g, x, y, f)
	s.regs[res] = g
	s.emit(r, fmt.Sprintf("addedge %s %s %d %d %d", res, a, x, y, f))
}

func (s *session) addNode(r *run, res, a string, x int) {
	g := s.regs[a].Clone()
	s.u.AddNode(g, x)
	s.regs[res] = g
	s.emit(r, fmt.Sprintf("addnode %s %s %d", res, a, x))
}

func (s *session) mns(r *run, res, a string, x, v int) {
	g := s.regs[a].Clone()
	s.u.MergeNodeStatus(g, x, v)
	s.regs[res] = g
	s.emit(r, fmt.Sprintf("mns %s %s %d %d", res, a, x, v))
}

func (s *session) weakAssign(r *run, res, a string, d, sr int) {
	g := s.regs[a].Clone()
	s.u.WeakAssign(g, d, sr)
	s.regs[res] = g
	s.emit(r, fmt.Sprintf("wa %s %s %d %d", res, a, d, sr))
}

func fieldArg(f int) (string, string) {
	if f < 0 {
		return "", "-"
	}
	return fmt.Sprintf("f%d", f), fmt.Sprint(f)
}

func (s *session) storeField(r *run, res, a string, addr, val, f int) {
	g := s.regs[a].Clone()
	name, arg := fieldArg(f)
	s.u.StoreField(g, addr, val, name)
	s.regs[res] = g
	s.emit(r, fmt.Sprintf("store %s %s %d %d %s", res, a, addr, val, arg))
}

func (s *session) loadField(r *run, res, a string, val, addr, op, f int) {
	g := s.regs[a].Clone()
	name, arg := fieldArg(f)
	s.u.LoadField(g, val, addr, fmt.Sprintf("op%d", op), name)
	s.regs[res] = g
	s.emit(r, fmt.Sprintf("load %s %s %d %d %d %s", res, a, val, addr, op, arg))
}

func (s *session) cloneReach(r *run, res, a string, roots []int) {
	s.regs[res] = s.u.CloneReachable(s.regs[a], roots)
	parts := []string{}
	for _, x := range roots {
		parts = append(parts, fmt.Sprint(x))
	}
	arg := strings.Join(parts, ",")
	if arg == "" {
		arg = "-"
	}
	s.emit(r, fmt.Sprintf("clonereach %s %s %s", res, a, arg))
}

func (s *session) simplify(r *run, res, a string) {
	s.regs[res] = s.u.SimplifySummary(s.regs[a])
	s.emit(r, fmt.Sprintf("simplify %s %s", res, a))
}

// simplifyDirected: the decisive inputs of simplifySummary's candidate filter, for every registered LOAD-kind
// subnode relation (p, c): {p -sub-> c} with (st p, st c) in {(1,2), (2,2), (1,1)} — the Leaked subnode is kept
// while its parent is only Escaped and removed when both are Leaked (Props/C15Simplify.simplify_not_monotone_removal,
// replayed here on the real code) — and the same with an internal edge into c from an Escaped third node.
func (s *session) simplifyDirected(r *run, kinds []int, subs []gen.SubRel) {
	done := 0
	for _, sr := range subs {
		if kinds[sr.Parent] != 2 || done >= 2 {
			continue
		}
		done++
		for vi, st := range [][2]int{{1, 2}, {2, 2}, {1, 1}} {
			for _, extra := range []bool{false, true} {
				eg := gen.NewEG(kinds)
				eg.Dom[sr.Parent], eg.Dom[sr.Child] = true, true
				eg.St[sr.Parent], eg.St[sr.Child] = st[0], st[1]
				eg.Fl[sr.Parent][sr.Child] = 4
				if extra {
					x := -1
					for c := 0; c < eg.N; c++ {
						if c != sr.Parent && c != sr.Child && gen.Intrinsic(kinds[c]) <= st[1] {
							x = c
							break
						}
					}
					if x < 0 {
						continue
					}
					eg.Dom[x] = true
					eg.St[x] = gen.Intrinsic(kinds[x])
					eg.Fl[x][sr.Child] = 1
				}
				name := fmt.Sprintf("sd%d_%d_%v", done, vi, extra)
				s.def(r, name, eg)
				s.simplify(r, name+"s", name)
				s.show(r, name+"s")
				s.le(r, name+"s", name, "simplifySummary shrinking")
				after := 0
				if g2, ok := egOf(s.u, s.regs[name+"s"]); ok && g2 != nil {
					after = g2.Nodes()
				}
				r.rep.Count(fmt.Sprintf("simplifyDirected:st=%d%d,internal-in=%v,removed=%d", st[0], st[1], extra, eg.Nodes()-after))
			}
		}
	}
}

func (s *session) callUnknown(r *run, res, a string, args []int) {
	g := s.regs[a].Clone()
	s.u.CallUnknown(g, args)
	s.regs[res] = g
	var parts []string
	for _, x := range args {
		parts = append(parts, fmt.Sprint(x))
	}
	s.emit(r, fmt.Sprintf("callunknown %s %s %s", res, a, strings.Join(parts, ",")))
}

// battery2: the composite operations on g and on w ≤ g (same arguments, in the same order on both
// sides: they share and extend one node group). Arguments are chosen with disjoint subnode trees:
// when the destination tree overlaps the source tree the Go code reads edges it is adding, and its
// result depends on the map iteration order.
func (s *session) battery2(r *run, rnd interface{ Intn(int) int }, g, w *gen.EG, subs []gen.SubRel) {
	n := g.N
	// prefer nodes that point to something
	var withOut []int
	for a := 0; a < n; a++ {
		if len(g.Pointees(a)) > 0 {
			withOut = append(withOut, a)
		}
	}
	pick := func() int {
		if len(withOut) > 0 && rnd.Intn(4) != 0 {
			return withOut[rnd.Intn(len(withOut))]
		}
		return rnd.Intn(n)
	}
	for i := 0; i < 2; i++ {
		d, sr := rnd.Intn(n), pick()
		if gen.Root(subs, d) == gen.Root(subs, sr) {
			continue
		}
		gn, wn := fmt.Sprintf("gwa%d", i), fmt.Sprintf("wwa%d", i)
		s.weakAssign(r, gn, "g", d, sr)
		s.weakAssign(r, wn, "w", d, sr)
		s.show(r, gn)
		s.show(r, wn)
		s.le(r, wn, gn, fmt.Sprintf("WeakAssign(%d,%d) monotone", d, sr))
		s.le(r, "g", gn, "WeakAssign extensive")
		r.rep.Count("op:weakAssign")
	}
	okArgs := func(addr, val int) bool {
		roots := map[int]bool{gen.Root(subs, val): true}
		for _, eg := range []*gen.EG{g, w} {
			seen := map[int]bool{}
			for _, p := range eg.Pointees(addr) {
				rt := gen.Root(subs, p)
				if roots[rt] || seen[rt] {
					return false
				}
				seen[rt] = true
			}
		}
		return true
	}
	for i := 0; i < 2; i++ {
		addr, val, f := pick(), pick(), rnd.Intn(3)-1
		if !okArgs(addr, val) {
			continue
		}
		gn, wn := fmt.Sprintf("gst%d", i), fmt.Sprintf("wst%d", i)
		s.storeField(r, gn, "g", addr, val, f)
		s.storeField(r, wn, "w", addr, val, f)
		s.show(r, gn)
		s.show(r, wn)
		s.le(r, wn, gn, fmt.Sprintf("StoreField(%d,%d,%d) monotone", addr, val, f))
		r.rep.Count(fmt.Sprintf("op:storeField,field=%v,pointees=%d", f >= 0, len(g.Pointees(addr))))
	}
	for i := 0; i < 2; i++ {
		addr, val, f, op := pick(), rnd.Intn(n), rnd.Intn(3)-1, rnd.Intn(2)
		// LoadField with several pointees is order dependent in the Go code itself: the weak
		// assignments of earlier pointees can raise the status of later ones, which decides whether
		// EnsureLoadNode gives them a load node, and the history look-up sees the load nodes of
		// earlier pointees. Only single-pointee loads have one result.
		if !okArgs(addr, val) || len(g.Pointees(addr)) > 1 {
			continue
		}
		gn, wn := fmt.Sprintf("gld%d", i), fmt.Sprintf("wld%d", i)
		s.loadField(r, gn, "g", val, addr, op, f)
		s.loadField(r, wn, "w", val, addr, op, f)
		s.show(r, gn)
		s.show(r, wn)
		s.le(r, wn, gn, fmt.Sprintf("LoadField(%d,%d,op%d,%d) monotone", val, addr, op, f))
		r.rep.Count(fmt.Sprintf("op:loadField,field=%v,pointees=%d", f >= 0, len(g.Pointees(addr))))
	}
	args := []int{rnd.Intn(n), rnd.Intn(n)}
	s.callUnknown(r, "gcu", "g", args)
	s.callUnknown(r, "wcu", "w", args)
	s.show(r, "gcu")
	s.le(r, "wcu", "gcu", "CallUnknown monotone")
	r.rep.Count("op:callUnknown")
}

func (s *session) chk(r *run, name string, want string) {
	// the same on the real graph: status closed along edges, ≥ intrinsic, edge rows = nodes
	if eg, ok := egOf(s.u, s.regs[name]); eg != nil && !(ok && isWF(eg)) {
		s.laws = append(s.laws, "result "+name+" of the real operations is not well-formed (status not closed along edges / below intrinsic / edge rows differ from nodes)")
	}
	s.emit(r, "chk "+name)
	r.expects = append(r.expects, expectation{s, "chk " + name, want, false})
}

// lawsAndOps: the standard battery on registers g,h,k (well-formed) and w (w ≤ g, well-formed)
func (s *session) battery(r *run, rnd interface{ Intn(int) int }, present func(int) bool) {
	for _, x := range []string{"g", "h", "k", "w"} {
		s.chk(r, x, "chk rep=1 closed=1 wf=1")
	}
	// order and equivalence on all ordered pairs
	names := []string{"g", "h", "k", "w"}
	for _, a := range names {
		for _, b := range names {
			law := ""
			if a == b {
				law = "reflexive " + a
			}
			if a == "w" && b == "g" {
				law = "generator: w ≤ g"
			}
			ab := s.le(r, a, b, law)
			if a < b {
				ba := s.le(r, b, a, "")
				m := s.matches(r, a, b, "")
				if (ab && ba) != m {
					s.laws = append(s.laws, fmt.Sprintf("antisymmetry: %s ≤ %s ≤ %s but Matches=%v", a, b, a, m))
				}
			}
		}
	}
	s.matches(r, "g", "g", "matches reflexive")
	// merge laws
	s.merge(r, "gh", "g", "h")
	s.merge(r, "hg", "h", "g")
	s.merge(r, "gh_k", "gh", "k")
	s.merge(r, "hk", "h", "k")
	s.merge(r, "g_hk", "g", "hk")
	s.merge(r, "gg", "g", "g")
	s.merge(r, "gw", "g", "w")
	for _, x := range []string{"gh", "hg", "gh_k", "g_hk", "gg", "gw"} {
		s.show(r, x)
		s.chk(r, x, "chk rep=1 closed=1 wf=1")
	}
	s.matches(r, "gh", "hg", "merge commutative")
	s.matches(r, "gh_k", "g_hk", "merge associative")
	s.matches(r, "gg", "g", "merge idempotent")
	s.matches(r, "gw", "g", "w ≤ g ⇒ merge g w = g")
	s.le(r, "g", "gh", "g ≤ merge g h")
	s.le(r, "h", "gh", "h ≤ merge g h")
	// least upper bound: gh_k is an upper bound of g and h, so merge g h ≤ it
	s.le(r, "gh", "gh_k", "merge g h ≤ upper bound")
	if s.regs["g"] != nil {
		if gk, _ := s.regs["g"].LessEqual(s.regs["k"]); gk {
			if hk, _ := s.regs["h"].LessEqual(s.regs["k"]); hk {
				s.le(r, "gh", "k", "lub: g ≤ k, h ≤ k ⇒ merge g h ≤ k")
			}
		}
	}
	// monotonicity of merge in the left argument: w ≤ g ⇒ merge w h ≤ merge g h
	s.merge(r, "wh", "w", "h")
	s.show(r, "wh")
	s.le(r, "wh", "gh", "merge monotone (left)")
	s.merge(r, "hw", "h", "w")
	s.le(r, "hw", "hg", "merge monotone (right)")
	// primitives on g and on w, same arguments
	for i := 0; i < 3; i++ {
		x, y, f := rnd.Intn(s.n), rnd.Intn(s.n), 1+rnd.Intn(7)
		if rnd.Intn(3) > 0 {
			f = 1 << rnd.Intn(3)
		}
		ge, we := fmt.Sprintf("ge%d", i), fmt.Sprintf("we%d", i)
		s.addEdge(r, ge, "g", x, y, f)
		s.addEdge(r, we, "w", x, y, f)
		s.show(r, ge)
		s.show(r, we)
		s.chk(r, ge, "chk rep=1 closed=1 wf=1")
		s.le(r, we, ge, fmt.Sprintf("AddEdge(%d,%d,%d) monotone", x, y, f))
		s.le(r, "g", ge, "AddEdge extensive")
		r.rep.Count(fmt.Sprintf("addedge:src-present=%v,dst-present=%v", present(x), present(y)))
	}
	for i := 0; i < 3; i++ {
		x, v := rnd.Intn(s.n), 1+rnd.Intn(2)
		gm, wm := fmt.Sprintf("gm%d", i), fmt.Sprintf("wm%d", i)
		// MergeNodeStatus on an absent node leaves a status without an edge row (not well-formed
		// for the repository's own wellFormedEscapeGraph); the analysis always calls AddNode first
		// (Merge) or applies it to pointees. Mirror that.
		s.addNode(r, gm+"n", "g", x)
		s.addNode(r, wm+"n", "w", x)
		s.mns(r, gm, gm+"n", x, v)
		s.mns(r, wm, wm+"n", x, v)
		s.show(r, gm)
		s.show(r, wm)
		s.chk(r, gm, "chk rep=1 closed=1 wf=1")
		s.le(r, wm, gm, fmt.Sprintf("MergeNodeStatus(%d,%d) monotone", x, v))
		s.le(r, "g", gm, "MergeNodeStatus extensive")
		r.rep.Count(fmt.Sprintf("mns:present=%v,status=%d", present(x), v))
	}
	// CloneReachable (the trim of Resummarize) on g and on w ≤ g from the same roots, from a subset of them,
	// and twice: exact result, well-formed, shrinking, monotone in graph and roots, idempotent
	for i := 0; i < 2; i++ {
		var roots []int
		var have []int
		for x := 0; x < s.n; x++ {
			if present(x) {
				have = append(have, x)
			}
		}
		for k := rnd.Intn(4); k > 0; k-- {
			if len(have) > 0 && rnd.Intn(5) > 0 {
				roots = append(roots, have[rnd.Intn(len(have))]) // mostly nodes of g; sometimes absent ones
			} else {
				roots = append(roots, rnd.Intn(s.n))
			}
		}
		if i == 1 && len(roots) > 1 && rnd.Intn(2) == 0 {
			roots = append(roots, roots[0]) // a root listed twice is pushed twice
		}
		gc, wc, gcc, gsub := fmt.Sprintf("gcr%d", i), fmt.Sprintf("wcr%d", i), fmt.Sprintf("gcrr%d", i), fmt.Sprintf("gcrs%d", i)
		s.cloneReach(r, gc, "g", roots)
		s.cloneReach(r, wc, "w", roots)
		s.cloneReach(r, gcc, gc, roots)
		sub := roots
		if len(roots) > 0 {
			sub = roots[:len(roots)-1]
		}
		s.cloneReach(r, gsub, "g", sub)
		s.show(r, gc)
		s.show(r, wc)
		s.show(r, gsub)
		s.chk(r, gc, "chk rep=1 closed=1 wf=1")
		s.le(r, gc, "g", "CloneReachable shrinking")
		s.le(r, wc, gc, fmt.Sprintf("CloneReachable(%v) monotone", roots))
		s.le(r, gsub, gc, fmt.Sprintf("CloneReachable monotone in the roots (%v ⊆ %v)", sub, roots))
		s.matches(r, gcc, gc, "CloneReachable idempotent")
		kept := 0
		for x := 0; x < s.n; x++ {
			if present(x) {
				kept++
			}
		}
		now := 0
		if eg, ok := egOf(s.u, s.regs[gc]); ok && eg != nil {
			for x := range eg.Dom {
				if eg.Dom[x] {
					now++
				}
			}
		}
		r.rep.Count(fmt.Sprintf("cloneReachable:roots=%d,trimmed=%v,empty=%v", len(roots), now < kept, now == 0))
	}
	// simplifySummary (after the trim in Resummarize) on g, on w ≤ g and on a trimmed graph: exact result,
	// well-formed, shrinking. It is NOT monotone (Props/C15Simplify.simplify_not_monotone): whether w ≤ g is
	// preserved is counted, not demanded.
	for _, x := range []string{"g", "w", "gcr0"} {
		res := "simp_" + x
		s.simplify(r, res, x)
		s.show(r, res)
		s.chk(r, res, "chk rep=1 closed=1 wf=1")
		s.le(r, res, x, "simplifySummary shrinking")
		before, after := 0, 0
		if eg, ok := egOf(s.u, s.regs[x]); ok && eg != nil {
			before = eg.Nodes()
		}
		if eg, ok := egOf(s.u, s.regs[res]); ok && eg != nil {
			after = eg.Nodes()
		}
		r.rep.Count(fmt.Sprintf("simplifySummary:removed-nodes=%v", after < before))
	}
	mono := s.le(r, "simp_w", "simp_g", "")
	r.rep.Count(fmt.Sprintf("simplifySummary:order-preserved=%v", mono))
}

func (r *run) finish(label string) {
	dir := filepath.Join(lib.Root(), ".work", "C15")
	os.MkdirAll(dir, 0o755)
	os.WriteFile(filepath.Join(dir, "oracle_in_"+label+".txt"), []byte(r.in.String()), 0o644)
	out, err := lib.RunOracle("oracle_c15", []byte(r.in.String()))
	if err != nil || len(out) != len(r.expects) {
		r.rep.Fail("oracle-run-"+label, fmt.Sprintf("oracle failed: %v (%d lines for %d queries)", err, len(out), len(r.expects)), nil, true)
		return
	}
	type bad struct{ what, real, model string }
	diffs := map[*session][]bad{}
	var order []*session
	seen := map[*session]bool{}
	for i, e := range r.expects {
		if !seen[e.sess] {
			seen[e.sess] = true
			order = append(order, e.sess)
		}
		if out[i] != e.real {
			diffs[e.sess] = append(diffs[e.sess], bad{e.what, e.real, out[i]})
		}
	}
	for _, s := range order {
		if len(s.laws) == 0 && len(diffs[s]) == 0 {
			continue
		}
		var sb strings.Builder
		fmt.Fprintf(&sb, "session %s (%s)\n# oracle input (replay: pipe into lean/.lake/build/bin/oracle_c15; real side: harness/cmd/c15)\n%s\n", s.id, label, strings.Join(s.text, "\n"))
		for _, l := range s.laws {
			fmt.Fprintf(&sb, "LAW FAILS ON THE REAL CODE: %s\n", l)
		}
		for _, d := range diffs[s] {
			fmt.Fprintf(&sb, "DIFF %s\n  real : %s\n  model: %s\n", d.what, d.real, d.model)
		}
		if len(s.laws) > 0 {
			r.rep.Fail("law:"+label+":"+s.laws[0], "lattice law fails on the real EscapeGraph code: "+strings.Join(s.laws, "; "), []byte(sb.String()), false)
		} else {
			r.rep.Fail("model:"+label+":"+diffs[s][0].what, fmt.Sprintf("correspondence EGraph model vs real EscapeGraph broken (%d queries differ, first: %s); the lattice laws still hold on the real code for this input", len(diffs[s]), diffs[s][0].what), []byte(sb.String()), true)
		}
	}
}

func partA(rep *lib.Report) {
	rnd := lib.Rand("c15-gen")
	n := 300
	if lib.Thorough() {
		n = 2500
	}
	r := &run{rep: rep}
	for i := 0; i < n; i++ {
		size := 2 + rnd.Intn(7)
		if lib.Thorough() && i%10 == 0 {
			size = 8 + rnd.Intn(8)
		}
		kinds := gen.RandKinds(rnd, size)
		subs := gen.RandSubs(rnd, kinds)
		u := escape.VerifNewUniverse(kinds)
		s := r.newSession(fmt.Sprintf("A%d", i), u)
		for _, sr := range subs {
			u.AddFieldSubnode(sr.Parent, fmt.Sprintf("f%d", sr.Field), sr.Child)
			s.emit(r, fmt.Sprintf("sub %d %d %d", sr.Parent, sr.Field, sr.Child))
		}
		g, h, k := gen.RandWF(rnd, kinds), gen.RandWF(rnd, kinds), gen.RandWF(rnd, kinds)
		g.FixSubFlags(rnd, subs)
		h.FixSubFlags(rnd, subs)
		k.FixSubFlags(rnd, subs)
		if rnd.Intn(4) == 0 {
			h = g.Weaken(rnd) // comparable pairs
		}
		if rnd.Intn(4) == 0 {
			// k an upper bound of g and h, so the lub law is exercised
			k = g.Clone()
			for a := 0; a < k.N; a++ {
				k.Dom[a] = k.Dom[a] || h.Dom[a]
				if h.St[a] > k.St[a] {
					k.St[a] = h.St[a]
				}
				for b := 0; b < k.N; b++ {
					k.Fl[a][b] |= h.Fl[a][b]
				}
			}
			k.Close()
		}
		w := g.Weaken(rnd)
		s.def(r, "g", g)
		s.def(r, "h", h)
		s.def(r, "k", k)
		s.def(r, "w", w)
		s.battery(r, rnd, func(x int) bool { return g.Dom[x] })
		s.battery2(r, rnd, g, w, subs)
		s.simplifyDirected(r, kinds, subs)
		rep.Count(fmt.Sprintf("A:subnode-relations<=%d", bucket(len(subs))))
		key := g.Line("g") + h.Line("h") + k.Line("k") + w.Line("w")
		if g.Edges()+h.Edges() == 0 {
			key = ""
		}
		rep.Case(key)
		rep.Count(fmt.Sprintf("A:nodes<=%d", bucket(size)))
		rep.Count(fmt.Sprintf("A:edges(g)<=%d", bucket(g.Edges())))
		rep.Count(fmt.Sprintf("A:g≤h=%v,h≤g=%v", g.Leq(h), h.Leq(g)))
		if i%97 == 5 {
			rep.Sample(map[string]any{"part": "A", "universe": gen.KindString(kinds), "g": g.Line("g"), "h": h.Line("h"), "k": k.Line("k"), "w": w.Line("w")})
		}
	}
	r.finish("A")
	rep.Extra["A_sessions"] = n
	rep.Extra["A_queries"] = len(r.expects)
}

func bucket(n int) int {
	for _, b := range []int{0, 2, 4, 8, 16, 32, 64, 128} {
		if n <= b {
			return b
		}
	}
	return 1 << 30
}

func main() {
	rep := lib.NewReport("C15")
	rep.Rule = "A: random well-formed escape-graph triples (g,h,k) + a weakened w ≤ g over universes of 2..8 (thorough ..15) nodes of random kinds; B: every initial/block-end/final graph of every function of the repository's escape test programs, pairs and weakened variants; distinct = distinct text of the input graphs; non-trivial = at least one edge"
	partA(rep)
	partB(rep)
	partC(rep)
	partD(rep)
	sortNotes(rep)
	rep.Finish()
}

func sortNotes(rep *lib.Report) { sort.Strings(rep.Notes) }
