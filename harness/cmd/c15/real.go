package main

// Parts B, C, D of the C15 driver: graphs of real runs, the repository's own monotonicity
// self-check, permuted worklists.

import (
	"encoding/json"
	"fmt"
	"os"
	"path/filepath"
	"sort"
	"strings"

	"github.com/awslabs/ar-go-tools/analysis/config"
	"github.com/awslabs/ar-go-tools/analysis/dataflow"
	"github.com/awslabs/ar-go-tools/analysis/escape"
	"golang.org/x/tools/go/ssa"
	"verif/harness/gen"
	"verif/harness/lib"
)

type loaded struct {
	name  string
	state *dataflow.AnalyzerState
	pkg   string
}

var loadCache = map[string]*loaded{}

// loadTestProgram copies analysis/escape/testdata/<name>/main.go of the tree under verification
// into a scratch module and builds an initialised analyzer state for it (escape summaries for the
// program's own package only; `unknownFunc` is configured "unknown" as in the repository's tests).
func loadTestProgram(name string) (*loaded, error) {
	if l, ok := loadCache[name]; ok {
		return l, nil
	}
	src, err := os.ReadFile(filepath.Join(lib.RepoDir(), "analysis", "escape", "testdata", name, "main.go"))
	if err != nil {
		return nil, err
	}
	dir := lib.WorkDir("C15", "prog-"+name)
	pkg := "vt/" + name
	lib.WriteProgram(dir, pkg, map[string]string{"main.go": string(src)})
	l, err := loadDir(name, dir, pkg)
	if err == nil {
		loadCache[name] = l
	}
	return l, err
}

func loadDir(name, dir, pkg string) (*loaded, error) {
	prog, pkgs, err := lib.LoadSSA(dir, ssa.InstantiateGenerics, true, ".")
	if err != nil {
		return nil, err
	}
	cfg := config.NewDefault()
	cfg.LogLevel = int(config.ErrLevel)
	cfg.SilenceWarn = true
	cfg.EscapeConfigFile = "inline"
	ec, _ := json.Marshal(map[string]any{
		"functions":  map[string]string{pkg + ".unknownFunc": "unknown"},
		"pkg-filter": "^" + pkg + "$",
	})
	if err := config.LoadEscape(cfg, ec); err != nil {
		return nil, err
	}
	cfg.UseEscapeAnalysis = true
	state, err := dataflow.NewInitializedAnalyzerState(prog, pkgs, config.NewLogGroup(cfg), cfg)
	if err != nil {
		return nil, err
	}
	return &loaded{name: name, state: state, pkg: pkg}, nil
}

func programs() []string {
	ps := []string{"simple-escape", "escape-locality", "interprocedural-escape", "builtins-escape"}
	if lib.Thorough() {
		ps = append(ps, "stdlib-escape")
	}
	return ps
}

func egOf(u *escape.VerifUniverse, g *escape.EscapeGraph) (*gen.EG, bool) {
	d, ok := u.Desc(g)
	if !ok {
		return nil, false
	}
	eg := fromDesc(len(u.Nodes), u.Kinds(), d)
	// the edge-row set must equal the status set (the repository's wellFormedEscapeGraph)
	if len(d.Out) != len(d.Status) {
		return eg, false
	}
	for i := range d.Out {
		if d.Out[i] != d.Status[i][0] {
			return eg, false
		}
	}
	return eg, true
}

func isWF(g *gen.EG) bool {
	for a := 0; a < g.N; a++ {
		if g.Dom[a] && (g.St[a] > 2 || g.St[a] < gen.Intrinsic(g.Kinds[a])) {
			return false
		}
		if !g.Dom[a] && g.St[a] != 0 {
			return false
		}
		for b := 0; b < g.N; b++ {
			if g.Fl[a][b] != 0 && (!g.Dom[a] || !g.Dom[b] || g.St[a] > g.St[b]) {
				return false
			}
		}
	}
	return true
}

func partB(rep *lib.Report) {
	rnd := lib.Rand("c15-captured")
	r := &run{rep: rep}
	maxNodes, maxSessionsPerFn := 40, 3
	if lib.Thorough() {
		maxNodes, maxSessionsPerFn = 90, 10
	}
	total, notWF, tooBig, sessions := 0, 0, 0, 0
	for _, name := range programs() {
		l, err := loadTestProgram(name)
		if err != nil {
			rep.Notes = append(rep.Notes, "B: cannot load "+name+": "+err.Error())
			rep.Fail("harness-load-"+name, "escape test program does not load: "+err.Error(), nil, true)
			continue
		}
		prog, err := escape.EscapeAnalysis(l.state, l.state.PointerAnalysis.CallGraph.Root)
		if err != nil {
			rep.Fail("escape-analysis-"+name, "EscapeAnalysis failed: "+err.Error(), nil, true)
			continue
		}
		for _, c := range escape.VerifCapture(prog) {
			var gs []*escape.EscapeGraph
			for _, g := range append([]*escape.EscapeGraph{c.Initial, c.Final}, c.BlockEnd...) {
				if g != nil {
					gs = append(gs, g)
				}
			}
			u := escape.VerifUniverseOf(c.Group, gs...)
			// distinct well-formed graphs
			seen := map[string]bool{}
			var egs []*gen.EG
			var reals []*escape.EscapeGraph
			for _, g := range gs {
				total++
				if err := escape.VerifWellFormed(g); err != nil {
					rep.Count("B:repo-wellFormedEscapeGraph-fails")
				}
				eg, ok := egOf(u, g)
				if !ok || !isWF(eg) {
					notWF++
					rep.Count("B:captured-not-WF")
					if len(rep.Notes) < 6 {
						rep.Notes = append(rep.Notes, fmt.Sprintf("B: captured graph of %s is not WF (status closed/intrinsic/rows): %s", c.Function, u.Dump(g)))
					}
					continue
				}
				t := eg.Line("x")
				if !seen[t] {
					seen[t] = true
					egs = append(egs, eg)
					reals = append(reals, g)
				}
			}
			if len(u.Nodes) > maxNodes {
				tooBig++
				continue
			}
			if len(egs) == 0 || len(u.Nodes) == 0 {
				continue
			}
			for k := 0; k < maxSessionsPerFn && k < len(egs)*2; k++ {
				i, j, m := rnd.Intn(len(egs)), rnd.Intn(len(egs)), rnd.Intn(len(egs))
				s := r.newSession(fmt.Sprintf("B:%s:%s:%d", name, c.Function.Name(), k), u)
				for x := range u.Nodes {
					if u.IsSubnode(x) {
						s.emit(r, fmt.Sprintf("issub %d", x))
					}
				}
				s.defReal(r, "g", reals[i])
				s.defReal(r, "h", reals[j])
				s.defReal(r, "k", reals[m])
				w := egs[i].Weaken(rnd)
				s.def(r, "w", w)
				s.battery(r, rnd, func(x int) bool { return egs[i].Dom[x] })
				sessions++
				key := egs[i].Line("g") + egs[j].Line("h") + egs[m].Line("k") + w.Line("w")
				if egs[i].Edges() == 0 {
					key = ""
				}
				rep.Case(key)
				rep.Count(fmt.Sprintf("B:nodes<=%d", bucket(len(u.Nodes))))
				rep.Count(fmt.Sprintf("B:edges(g)<=%d", bucket(egs[i].Edges())))
				if sessions%23 == 1 {
					rep.Sample(map[string]any{"part": "B", "program": name, "function": c.Function.String(), "g": egs[i].Line("g")})
				}
			}
		}
	}
	r.finish("B")
	rep.Extra["B_captured_graphs"] = total
	rep.Extra["B_captured_not_wf"] = notWF
	rep.Extra["B_functions_over_node_limit"] = tooBig
	rep.Extra["B_sessions"] = sessions
	rep.Extra["B_queries"] = len(r.expects)
}

// partC: the repository's own monotonicity self-check, switched on.
func partC(rep *lib.Report) {
	pairs, instrs, nv := 0, 0, 0
	for _, name := range programs() {
		l, err := loadTestProgram(name)
		if err != nil {
			continue
		}
		escape.VerifSetMonoCheck(true)
		// one analysis (node identities must not be mixed), then the in-context re-analyses used
		// for instruction locality, which go through the same ProcessBlock
		l.state.EscapeAnalysisState = nil
		if err := escape.InitializeEscapeAnalysisState(l.state); err == nil {
			eas := l.state.EscapeAnalysisState
			for f := range l.state.PointerAnalysis.CallGraph.Nodes {
				if eas.IsSummarized(f) && len(f.Blocks) > 0 {
					func() {
						defer func() { recover() }()
						eas.ComputeInstructionLocalityAndCallsites(f, eas.ComputeArbitraryContext(f))
					}()
				}
			}
		}
		p, n, vs := escape.VerifMonoViolations(50)
		escape.VerifSetMonoCheck(false)
		pairs += p
		instrs += n
		rep.Count(fmt.Sprintf("C:%s:comparable-pairs<=%d", name, bucket(p)))
		for _, v := range vs {
			nv++
			content := fmt.Sprintf("program: analysis/escape/testdata/%s/main.go\ninstruction: %s\nfunction: %s\nreason: %s\nA (earlier input):  %s\nB (later input):    %s\nC (output for A):   %s\nD (output for B):   %s\nA <= B holds and C <= D does not (real LessEqual).\n",
				name, v.Instr, v.Function, v.Reason, v.A, v.B, v.C, v.D)
			rep.Fail("mono:"+name+":"+v.Instr, "transfer function not monotone on graphs of a real run (repository's own self-check): "+v.Instr+" — "+v.Reason, []byte(content), false)
		}
		rep.Case("C:" + name)
	}
	rep.Extra["C_instructions_recorded"] = instrs
	rep.Extra["C_comparable_pairs"] = pairs
	rep.Extra["C_violations"] = nv
}

// partD: real analysis versus the same analysis with permuted worklists.
func partD(rep *lib.Report) {
	seeds := 3
	if lib.Thorough() {
		seeds = 12
	}
	compared := 0
	for _, name := range programs() {
		l, err := loadTestProgram(name)
		if err != nil {
			continue
		}
		base, err := escape.EscapeAnalysis(l.state, l.state.PointerAnalysis.CallGraph.Root)
		if err != nil {
			continue
		}
		want := escape.VerifSummaryFingerprints(base)
		for s := 0; s < seeds; s++ {
			seed := lib.Seed()*131 + int64(s)
			perm, err := escape.VerifEscapeAnalysisPermuted(l.state, seed)
			if err != nil {
				rep.Fail("perm-run:"+name, "permuted analysis failed: "+err.Error(), []byte(fmt.Sprintf("program %s seed %d", name, seed)), false)
				continue
			}
			got := escape.VerifSummaryFingerprints(perm)
			var fns []string
			for f := range want {
				fns = append(fns, f)
			}
			sort.Strings(fns)
			var diffs []string
			for _, f := range fns {
				compared++
				if want[f] != got[f] {
					diffs = append(diffs, fmt.Sprintf("%s: default order %s / permuted %s", f, want[f], got[f]))
				}
			}
			if len(got) != len(want) {
				diffs = append(diffs, fmt.Sprintf("number of summaries %d vs %d", len(want), len(got)))
			}
			rep.Case(fmt.Sprintf("D:%s:%d", name, seed))
			if len(diffs) > 0 {
				var sb strings.Builder
				fmt.Fprintf(&sb, "program: analysis/escape/testdata/%s/main.go\npermutation seed: %d (escape.VerifEscapeAnalysisPermuted)\n", name, seed)
				for _, d := range diffs {
					sb.WriteString(d + "\n")
				}
				for _, c := range escape.VerifCapture(base) {
					if want[c.Function.String()] != got[c.Function.String()] {
						fmt.Fprintf(&sb, "\n== default-order summary of %s\n%s\n", c.Function, escape.VerifReadable(c.Final))
					}
				}
				for _, c := range escape.VerifCapture(perm) {
					if want[c.Function.String()] != got[c.Function.String()] {
						fmt.Fprintf(&sb, "\n== permuted-order summary of %s\n%s\n", c.Function, escape.VerifReadable(c.Final))
					}
				}
				first := strings.SplitN(diffs[0], ":", 2)[0]
				rep.Fail("perm:"+name+":"+first, fmt.Sprintf("final escape summaries depend on the worklist order (%d functions differ, first %s)", len(diffs), first), []byte(sb.String()), false)
			}
		}
	}
	rep.Extra["D_summary_comparisons"] = compared
	rep.Extra["D_seeds_per_program"] = seeds
}
