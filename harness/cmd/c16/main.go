// Driver for C16: defers.AnalyzeFunction on SSA built from generated functions (and, in the
// thorough tier, the functions of a set of standard-library packages) versus
//   (1) the Lean model `Defers.analyze` (compiled oracle) on the dumped CFG  — correspondence M1
//   (2) an independent path-enumeration ground truth on the same CFG       — concrete search
package main

import (
	"fmt"
	"os"
	"path/filepath"
	"regexp"
	"sort"
	"strings"
	"time"

	"github.com/awslabs/ar-go-tools/analysis/config"
	"github.com/awslabs/ar-go-tools/analysis/defers"
	"golang.org/x/tools/go/ssa"
	"golang.org/x/tools/go/ssa/ssautil"
	"verif/harness/gen"
	"verif/harness/lib"
)

type blk struct {
	kinds string
	succs []int
}

type fnCase struct {
	id     string
	src    string
	blocks []blk
	ord    []int
	real   string // canonical result of the real analysis
	fn     *ssa.Function
}

func dumpCFG(fn *ssa.Function) ([]blk, []int) {
	var bs []blk
	for _, b := range fn.Blocks {
		var sb strings.Builder
		for _, ins := range b.Instrs {
			switch ins.(type) {
			case *ssa.Defer:
				sb.WriteByte('d')
			case *ssa.RunDefers:
				sb.WriteByte('r')
			default:
				sb.WriteByte('o')
			}
		}
		var ss []int
		for _, s := range b.Succs {
			ss = append(ss, s.Index)
		}
		bs = append(bs, blk{sb.String(), ss})
	}
	var ord []int
	for _, b := range fn.DomPreorder() {
		ord = append(ord, b.Index)
	}
	return bs, ord
}

func showStack(s defers.Stack) string {
	if len(s) == 0 {
		return "e"
	}
	var parts []string
	for _, i := range s {
		parts = append(parts, fmt.Sprintf("%d-%d", i.Block, i.Ins))
	}
	return strings.Join(parts, ".")
}

func showSet(ss defers.StackSet) string {
	if len(ss) == 0 {
		return "empty"
	}
	var parts []string
	for _, s := range ss {
		parts = append(parts, showStack(s))
	}
	return strings.Join(parts, "|")
}

// canonical real result, same format as the oracle's `res` line (without wf/conv)
func realResult(fn *ssa.Function, res defers.Results) (bounded bool, sets string) {
	var parts []string
	for _, b := range fn.Blocks {
		for j, ins := range b.Instrs {
			if r, ok := ins.(*ssa.RunDefers); ok {
				v, present := res.RunDeferSets[r]
				s := "none"
				if present {
					s = showSet(v)
				}
				parts = append(parts, fmt.Sprintf("%d,%d:%s", b.Index, j, s))
			}
		}
	}
	return res.DeferStackBounded, strings.Join(parts, ";")
}

// ---- independent ground truth: simple-path enumeration + "defer on a reachable cycle" ----

func reachableFrom(bs []blk, start int) map[int]bool {
	seen := map[int]bool{start: true}
	st := []int{start}
	for len(st) > 0 {
		b := st[len(st)-1]
		st = st[:len(st)-1]
		for _, s := range bs[b].succs {
			if !seen[s] {
				seen[s] = true
				st = append(st, s)
			}
		}
	}
	return seen
}

// deferOnCycle: some block reachable from the entry contains a defer and can reach itself.
func deferOnCycle(bs []blk) bool {
	if len(bs) == 0 {
		return false
	}
	reach := reachableFrom(bs, 0)
	for b := range bs {
		if !reach[b] || !strings.Contains(bs[b].kinds, "d") {
			continue
		}
		for _, s := range bs[b].succs {
			if s == b || reachableFrom(bs, s)[b] {
				return true
			}
		}
	}
	return false
}

// groundSets: for a CFG with no defer on a cycle, the stacks at each RunDefers over all simple
// paths (cycles do not change the stack then, so simple paths are enough). budget bounds work.
func groundSets(bs []blk, budget *int) (map[string]map[string]bool, bool) {
	out := map[string]map[string]bool{}
	onPath := make([]bool, len(bs))
	ok := true
	var dfs func(b int, stack []string)
	dfs = func(b int, stack []string) {
		if *budget <= 0 {
			ok = false
			return
		}
		*budget--
		onPath[b] = true
		for j, k := range bs[b].kinds {
			switch k {
			case 'd':
				stack = append(stack[:len(stack):len(stack)], fmt.Sprintf("%d-%d", b, j))
			case 'r':
				key := fmt.Sprintf("%d,%d", b, j)
				if out[key] == nil {
					out[key] = map[string]bool{}
				}
				s := "e"
				if len(stack) > 0 {
					s = strings.Join(stack, ".")
				}
				out[key][s] = true
				stack = nil
			}
		}
		for _, s := range bs[b].succs {
			if !onPath[s] {
				dfs(s, stack)
			}
		}
		onPath[b] = false
	}
	dfs(0, nil)
	return out, ok
}

func setOf(s string) map[string]bool {
	m := map[string]bool{}
	if s == "empty" || s == "none" {
		return m
	}
	for _, x := range strings.Split(s, "|") {
		m[x] = true
	}
	return m
}

func sameSet(a, b map[string]bool) bool {
	if len(a) != len(b) {
		return false
	}
	for k := range a {
		if !b[k] {
			return false
		}
	}
	return true
}

// checkGround compares the real result with the ground truth. Returns "" if they agree.
func checkGround(c *fnCase, bounded bool, sets string) string {
	cyc := deferOnCycle(c.blocks)
	if cyc == bounded {
		return fmt.Sprintf("bounded=%v but defer-on-reachable-cycle=%v", bounded, cyc)
	}
	if !bounded {
		return ""
	}
	budget := 200000
	gt, ok := groundSets(c.blocks, &budget)
	if !ok {
		return "" // too many paths for the search; the model comparison still applies
	}
	if sets == "" {
		if len(gt) > 0 {
			return "real reports no RunDefers but ground truth has some"
		}
		return ""
	}
	for _, part := range strings.Split(sets, ";") {
		kv := strings.SplitN(part, ":", 2)
		real := setOf(kv[1])
		want := gt[kv[0]]
		if want == nil {
			want = map[string]bool{}
		}
		if !sameSet(real, want) {
			var w []string
			for k := range want {
				w = append(w, k)
			}
			sort.Strings(w)
			return fmt.Sprintf("at RunDefers %s real={%s} paths={%s}", kv[0], kv[1], strings.Join(w, "|"))
		}
	}
	return ""
}

func main() {
	rep := lib.NewReport("C16")
	rep.Rule = "functions generated from control-flow skeletons (if/else/for/switch/range/goto/return/break/continue/panic, defers anywhere): exhaustive up to a node bound, random beyond, plus structured families (deep if/else nests, long defer sequences followed by branches, single-block loops); distinct = distinct dumped CFG text; non-trivial = has at least one Defer and one RunDefers"
	r := lib.Rand("c16")
	maxExh, nRand, randMax := 4, 1500, 14
	if lib.Thorough() {
		maxExh, nRand, randMax = 5, 12000, 22
	}
	var bodies [][]gen.Stmt
	for n := 0; n <= maxExh; n++ {
		gen.EnumBodies(n, false, func(b []gen.Stmt) { bodies = append(bodies, append([]gen.Stmt(nil), b...)) })
	}
	nExh := len(bodies)
	for i := 0; i < nRand; i++ {
		bodies = append(bodies, gen.RandBody(r, 3+r.Intn(randMax), false, 0))
	}
	nFam := 800
	if lib.Thorough() {
		nFam = 4000
	}
	for i := 0; i < nFam; i++ {
		switch i % 4 {
		case 3:
			bodies = append(bodies, gen.SparseNestBody(r, 2+r.Intn(6), 1+r.Intn(2)))
		case 0:
			bodies = append(bodies, gen.NestBody(r, 1+r.Intn(6)))
		case 1:
			bodies = append(bodies, gen.SeqBody(r, r.Intn(9)))
		default:
			bodies = append(bodies, gen.LoopBody(r))
		}
	}
	rep.Extra["family_bodies"] = nFam
	rep.Extra["exhaustive_bodies"] = nExh
	rep.Extra["exhaustive_up_to_nodes"] = maxExh
	rep.Extra["random_bodies"] = nRand

	dir := lib.WorkDir("C16", "prog")
	var src strings.Builder
	src.WriteString(gen.Prelude)
	src.WriteString("\nfunc main() {}\n")
	srcs := map[string]string{}
	for i, b := range bodies {
		name := fmt.Sprintf("f%d", i)
		s := gen.Render(name, b, i%5 == 4)
		srcs[name] = s
		src.WriteString("\n" + s)
	}
	lib.WriteProgram(dir, "vprog", map[string]string{"main.go": src.String()})
	prog, _, err := lib.LoadSSA(dir, ssa.BuilderMode(0), false, ".")
	if err != nil {
		fmt.Println("load error:", err)
		rep.Fail("harness-load", "generated defer program does not load: "+err.Error(), nil, true)
		rep.Finish()
		return
	}
	logger := config.NewLogGroup(config.NewDefault())
	var cases []*fnCase
	all := ssautil.AllFunctions(prog)
	var fns []*ssa.Function
	for f := range all {
		if f.Pkg != nil && f.Pkg.Pkg.Path() == "vprog" && f.Blocks != nil {
			fns = append(fns, f)
		}
	}
	if lib.Thorough() || os.Getenv("VERIF_C16_STD") == "1" {
		for f := range all {
			if f.Blocks != nil && (f.Pkg == nil || f.Pkg.Pkg.Path() != "vprog") {
				fns = append(fns, f)
			}
		}
	}
	if lib.Thorough() || os.Getenv("VERIF_C16_STD") == "1" {
		sdir := lib.WorkDir("C16", "std")
		var sb strings.Builder
		sb.WriteString("package main\n\nimport (\n")
		for _, p := range stdPkgs {
			fmt.Fprintf(&sb, "\t_ %q\n", p)
		}
		sb.WriteString(")\n\nfunc main() {}\n")
		lib.WriteProgram(sdir, "vstd", map[string]string{"main.go": sb.String()})
		sprog, _, err := lib.LoadSSA(sdir, ssa.BuilderMode(0), false, ".")
		if err != nil {
			rep.Notes = append(rep.Notes, "std sweep skipped: "+err.Error())
		} else {
			n := 0
			for f := range ssautil.AllFunctions(sprog) {
				if f.Blocks != nil {
					fns = append(fns, f)
					n++
				}
			}
			rep.Extra["std_functions"] = n
		}
	}
	sort.Slice(fns, func(i, j int) bool { return fns[i].String() < fns[j].String() })
	for i, f := range fns {
		c := &fnCase{id: fmt.Sprintf("%d", i), fn: f, src: srcs[f.Name()]}
		c.blocks, c.ord = dumpCFG(f)
		cases = append(cases, c)
	}
	// oracle input
	var in strings.Builder
	for _, c := range cases {
		fmt.Fprintf(&in, "fn %s\nord", c.id)
		for _, o := range c.ord {
			fmt.Fprintf(&in, " %d", o)
		}
		in.WriteString("\n")
		for _, b := range c.blocks {
			k := b.kinds
			if k == "" {
				k = "-"
			}
			s := "-"
			if len(b.succs) > 0 {
				var ps []string
				for _, x := range b.succs {
					ps = append(ps, fmt.Sprint(x))
				}
				s = strings.Join(ps, ",")
			}
			fmt.Fprintf(&in, "blk %s %s\n", k, s)
		}
		// fuel: generous; convergence is reported by the model and demanded below
		fmt.Fprintf(&in, "go %d\n", 10000)
	}
	os.WriteFile(filepath.Join(dir, "oracle_in.txt"), []byte(in.String()), 0o644)
	outLines, err := lib.RunOracle("oracle_c16", []byte(in.String()))
	if err != nil || len(outLines) != len(cases) {
		rep.Fail("oracle-run", fmt.Sprintf("oracle failed: %v (%d lines for %d cases)", err, len(outLines), len(cases)), nil, true)
		rep.Finish()
		return
	}
	mismatches := 0
	timeouts := 0
	for i, c := range cases {
		res, finished := analyzeWithTimeout(c.fn, logger, 20*time.Second)
		if !finished {
			timeouts++
			content := fmt.Sprintf("function: %s\n%s\ncfg: %s\nmodel: %s\nreal : AnalyzeFunction did not return within 20 s\n", c.fn.String(), c.src, cfgString(c), outLines[i])
			rep.Fail("defers-diverge:"+cfgString(c), "defers.AnalyzeFunction does not terminate on this function (the model converges: "+outLines[i]+")", []byte(content), false)
			if timeouts >= 3 {
				rep.Notes = append(rep.Notes, "aborted after 3 non-terminating functions")
				rep.Finish()
				return
			}
			continue
		}
		bounded, sets := realResult(c.fn, res)
		b := "0"
		if bounded {
			b = "1"
		}
		want := fmt.Sprintf("res %s wf=1 conv=1 bounded=%s sets=%s", c.id, b, sets)
		cfgText := cfgString(c)
		nd, nr := strings.Count(cfgText, "d"), strings.Count(cfgText, "r")
		key := ""
		if nd > 0 && nr > 0 {
			key = cfgText
		}
		rep.Case(key)
		rep.Count(fmt.Sprintf("bounded=%v", bounded))
		rep.Count(fmt.Sprintf("blocks<=%d", bucket(len(c.blocks))))
		rep.Count(fmt.Sprintf("defers=%d", min(nd, 6)))
		if i%997 == 3 {
			rep.Sample(map[string]any{"function": c.fn.String(), "cfg": cfgText, "real": want})
		}
		g := checkGround(c, bounded, sets)
		if outLines[i] != want || g != "" {
			mismatches++
			content := fmt.Sprintf("function: %s\n%s\ncfg: %s\nreal : %s\nmodel: %s\nground-truth: %s\n", c.fn.String(), c.src, cfgText, want, outLines[i], g)
			if g != "" {
				rep.Fail("defers:"+cfgText, "real defer analysis differs from path semantics: "+g, []byte(content), false)
			} else {
				rep.Fail("defers-model:"+cfgText, "correspondence Defers.analyze vs AnalyzeFunction broken (theorems analyze_exact / unbounded_iff_repeats no longer describe the code); real result still equals path-enumeration ground truth on this input", []byte(content), true)
			}
		}
	}
	nativeCheck(rep, dir, cases, srcs, logger)
	rep.Extra["functions"] = len(cases)
	rep.Extra["mismatches"] = mismatches
	rep.Finish()
}

var stdPkgs = []string{"fmt", "os", "strings", "bytes", "bufio", "io", "sort", "strconv", "encoding/json", "encoding/xml",
	"net/http", "net/url", "regexp", "text/template", "html/template", "database/sql", "crypto/tls", "archive/zip", "archive/tar",
	"compress/gzip", "go/parser", "go/types", "math/big", "path/filepath", "os/exec", "sync", "context", "time", "log", "flag",
	"encoding/csv", "encoding/gob", "mime/multipart", "net/mail", "net/rpc", "image/png", "testing", "reflect", "runtime/pprof"}

// analyzeWithTimeout runs the real analysis in a goroutine; a run that does not come back is
// reported (the goroutine cannot be killed; the driver aborts after a few of them).
func analyzeWithTimeout(fn *ssa.Function, logger *config.LogGroup, d time.Duration) (defers.Results, bool) {
	ch := make(chan defers.Results, 1)
	go func() { ch <- defers.AnalyzeFunction(fn, logger) }()
	select {
	case r := <-ch:
		return r, true
	case <-time.After(d):
		return defers.Results{}, false
	}
}

func bucket(n int) int {
	for _, b := range []int{1, 2, 4, 8, 16, 32, 64} {
		if n <= b {
			return b
		}
	}
	return 1000
}

func cfgString(c *fnCase) string {
	var ps []string
	for _, b := range c.blocks {
		var ss []string
		for _, x := range b.succs {
			ss = append(ss, fmt.Sprint(x))
		}
		ps = append(ps, b.kinds+">"+strings.Join(ss, ","))
	}
	return strings.Join(ps, " ")
}

// nativeCheck validates "real executions are instances of the path semantics": generated functions
// are executed natively for several valuations of the opaque conditions; on a normal return the
// sequence of executed deferred calls, reversed, must be one of the stacks reported at some
// RunDefers of that function (bounded functions only).
func nativeCheck(rep *lib.Report, dir string, cases []*fnCase, srcs map[string]string, logger *config.LogGroup) {
	limit := 1200
	if lib.Thorough() {
		limit = 6000
	}
	var sel []*fnCase
	for _, c := range cases {
		if c.src == "" || c.fn.Parent() != nil || !strings.Contains(cfgString(c), "d") {
			continue
		}
		res := defers.AnalyzeFunction(c.fn, logger)
		if !res.DeferStackBounded {
			continue
		}
		sel = append(sel, c)
		if len(sel) >= limit {
			break
		}
	}
	if len(sel) == 0 {
		return
	}
	ndir := lib.WorkDir("C16", "native")
	var sb strings.Builder
	sb.WriteString(nativePrelude)
	for _, c := range sel {
		sb.WriteString("\n" + c.src)
	}
	sb.WriteString("\nvar fs = []func(){\n")
	for _, c := range sel {
		fmt.Fprintf(&sb, "\tfunc() { %s() },\n", c.fn.Name())
	}
	sb.WriteString("}\n")
	lib.WriteProgram(ndir, "vnative", map[string]string{"main.go": sb.String()})
	out, err := lib.GoRun(ndir, 300)
	if err != nil {
		rep.Notes = append(rep.Notes, "native run failed: "+err.Error())
		rep.Fail("native-run", "generated defer program does not run natively: "+err.Error(), []byte(out), true)
		return
	}
	runs, normal, checked := 0, 0, 0
	for _, line := range strings.Split(out, "\n") {
		f := strings.Fields(line)
		if len(f) < 3 || f[0] != "R" {
			continue
		}
		runs++
		if f[2] != "ok" {
			continue
		}
		normal++
		var idx int
		fmt.Sscan(f[1], &idx)
		c := sel[idx]
		// executed order -> stack order (reverse), as defer ids
		var ids []string
		for i := len(f) - 1; i >= 3; i-- {
			ids = append(ids, f[i])
		}
		// map SSA defer sites to defer ids through source lines: the k-th Defer in source order is d(k)
		siteID := deferIDs(c)
		res := defers.AnalyzeFunction(c.fn, logger)
		found := false
		var rendered []string
		for _, set := range res.RunDeferSets {
			for _, st := range set {
				var got []string
				for _, ii := range st {
					got = append(got, siteID[[2]int{ii.Block, ii.Ins}])
				}
				rendered = append(rendered, strings.Join(got, "."))
				if strings.Join(got, ".") == strings.Join(ids, ".") {
					found = true
				}
			}
		}
		checked++
		if !found {
			sort.Strings(rendered)
			content := fmt.Sprintf("function %s\n%s\nnative run (cond word %s) executed deferred calls (stack order): %s\nreported stacks (as defer ids): %v\n", c.fn.Name(), c.src, f[1], strings.Join(ids, "."), rendered)
			rep.Fail("defers-native:"+cfgString(c), "a native execution produced a defer stack that the analysis does not report", []byte(content), false)
		}
	}
	rep.Extra["native_runs"] = runs
	rep.Extra["native_normal_returns_checked"] = checked
	_ = normal
}

// deferIDs maps (block, instr) of each Defer to the id k of `d(k)` on its source line
// (unreachable defers are absent from the SSA, so source order cannot be used).
func deferIDs(c *fnCase) map[[2]int]string {
	m := map[[2]int]string{}
	for _, b := range c.fn.Blocks {
		for j, ins := range b.Instrs {
			if d, ok := ins.(*ssa.Defer); ok {
				pos := c.fn.Prog.Fset.Position(d.Pos())
				m[[2]int{b.Index, j}] = idOnLine(pos.Filename, pos.Line)
			}
		}
	}
	return m
}

var fileLines = map[string][]string{}
var dRe = regexp.MustCompile(`d\((\d+)\)`)

func idOnLine(file string, line int) string {
	ls, ok := fileLines[file]
	if !ok {
		b, _ := os.ReadFile(file)
		ls = strings.Split(string(b), "\n")
		fileLines[file] = ls
	}
	if line-1 < len(ls) {
		if mm := dRe.FindStringSubmatch(ls[line-1]); mm != nil {
			return mm[1]
		}
	}
	return "?"
}

const nativePrelude = `package main

import (
	"fmt"
	"os"
	"bufio"
)

var cond, cnt, steps int
var log []int

func tick() {
	steps++
	if steps > 400 {
		panic("budget")
	}
}

//go:noinline
func c() bool { tick(); cnt++; return (cond>>(uint(cnt)%30))&1 == 1 }

//go:noinline
func always() bool { return c() }

//go:noinline
func n() int { tick(); cnt++; return (cond >> (uint(cnt) % 30)) & 3 }

//go:noinline
func nop() { tick() }

//go:noinline
func d(k int) { log = append(log, k) }

func run(i int, w int, out *bufio.Writer) {
	cond, cnt, steps, log = w, 0, 0, nil
	status := "ok"
	func() {
		defer func() {
			if r := recover(); r != nil {
				status = "panic"
			}
		}()
		fs[i]()
	}()
	fmt.Fprintf(out, "R %d %s", i, status)
	for _, k := range log {
		fmt.Fprintf(out, " %d", k)
	}
	fmt.Fprintln(out)
}

func main() {
	out := bufio.NewWriter(os.Stdout)
	defer out.Flush()
	words := []int{0, -1, 0x2AAAAAAA, 0x15555555, 0x0F0F0F0F, 0x33333333, 0x1234567, 0x7654321, 0x5A5A5A5, 0x3C3C3C3C, 0x11111111, 0x6DB6DB6D}
	for i := range fs {
		for _, w := range words {
			run(i, w, out)
		}
	}
}
`
