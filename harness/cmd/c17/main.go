// Driver for C17 (tie V4): the decidable invariant `SGraph.inv` — proved to hold on every graph
// reachable by the modelled operations — is evaluated by the compiled Lean oracle on every REAL
// inter-procedural graph, dumped
//   - after the eager intra-procedural pass,
//   - after BuildGraph (before the first entry point is visited) and after every visited entry point,
//   - with on-demand summarisation: at the start of every on-demand construction (i.e. after the
//     previous construction step completed) and after every visited entry point,
// during REAL taint and backtrace runs over generated (µGo) programs, programs of the repository's
// testdata and the fixed corpus. The pipelines are the ones of taint.Analyze / backtrace.Analyze,
// re-assembled from their public pieces so that the visitor and the tracking predicate can be wrapped.
package main

import (
	"fmt"
	"os"
	"path/filepath"
	"runtime"
	"runtime/debug"
	"sort"
	"strconv"
	"strings"
	"sync"

	"github.com/awslabs/ar-go-tools/analysis"
	"github.com/awslabs/ar-go-tools/analysis/backtrace"
	"github.com/awslabs/ar-go-tools/analysis/config"
	"github.com/awslabs/ar-go-tools/analysis/dataflow"
	"github.com/awslabs/ar-go-tools/analysis/taint"
	"golang.org/x/tools/go/ssa"
	"verif/harness/lib"
	"verif/harness/mugo"
	"verif/harness/taintrun"
)

const prop = "C17"

// ---- dumping -----------------------------------------------------------------------------------

type dumper struct {
	nodes     map[dataflow.GraphNode]int
	order     []dataflow.GraphNode
	summaries map[*dataflow.SummaryGraph]int
	instrs    map[ssa.Instruction]int
	globals   map[*dataflow.GlobalNode]int
	b         strings.Builder
	kinds     map[string]int
	orphans   []string
}

func (d *dumper) node(n dataflow.GraphNode) int {
	if id, ok := d.nodes[n]; ok {
		return id
	}
	id := len(d.nodes) + 1
	d.nodes[n] = id
	d.order = append(d.order, n)
	return id
}

func (d *dumper) summary(s *dataflow.SummaryGraph) int {
	if id, ok := d.summaries[s]; ok {
		return id
	}
	id := len(d.summaries) + 1
	d.summaries[s] = id
	return id
}

func (d *dumper) instr(i ssa.Instruction) int {
	if id, ok := d.instrs[i]; ok {
		return id
	}
	id := len(d.instrs) + 1
	d.instrs[i] = id
	return id
}

func (d *dumper) global(g *dataflow.GlobalNode) int {
	if id, ok := d.globals[g]; ok {
		return id
	}
	id := len(d.globals) + 1
	d.globals[g] = id
	return id
}

// dump serialises every summary graph reachable from the state.
func dump(id string, st *dataflow.AnalyzerState) (string, map[string]int) {
	d := &dumper{nodes: map[dataflow.GraphNode]int{}, summaries: map[*dataflow.SummaryGraph]int{},
		instrs: map[ssa.Instruction]int{}, globals: map[*dataflow.GlobalNode]int{}, kinds: map[string]int{}}
	fmt.Fprintf(&d.b, "begin\t%s\n", id)
	var todo []*dataflow.SummaryGraph
	seen := map[*dataflow.SummaryGraph]bool{}
	linkedDone := map[*dataflow.CallNode]bool{}
	inCallees := map[*dataflow.CallNode]bool{}
	// CalleeSummary is a field of the call node: it is dumped once per node, wherever the node is found
	linked := func(cn *dataflow.CallNode) {
		if linkedDone[cn] {
			return
		}
		linkedDone[cn] = true
		nid := d.node(cn)
		fmt.Fprintf(&d.b, "site\t%d\t%d\n", nid, d.instr(cn.CallSite()))
		if cn.CalleeSummary != nil {
			fmt.Fprintf(&d.b, "callee\t%d\t%d\n", nid, d.summary(cn.CalleeSummary))
		}
	}
	push := func(g *dataflow.SummaryGraph) {
		if g != nil && !seen[g] {
			seen[g] = true
			todo = append(todo, g)
		}
	}
	// deterministic order: by function name
	var fs []*ssa.Function
	for f := range st.FlowGraph.Summaries {
		fs = append(fs, f)
	}
	sort.Slice(fs, func(i, j int) bool { return fs[i].String() < fs[j].String() })
	for _, f := range fs {
		push(st.FlowGraph.Summaries[f])
	}
	var keys []string
	for k := range st.DataFlowContracts {
		keys = append(keys, k)
	}
	sort.Strings(keys)
	for _, k := range keys {
		push(st.DataFlowContracts[k])
	}
	var registered []*dataflow.CallNode
	for len(todo) > 0 {
		g := todo[0]
		todo = todo[1:]
		sid := d.summary(g)
		if g.Constructed && !g.IsPreSummarized {
			fmt.Fprintf(&d.b, "constructed\t%d\n", sid)
		}
		g.ForAllNodes(func(n dataflow.GraphNode) { d.node(n) })
		for _, n := range g.Ifs {
			d.node(n)
		}
		for _, callees := range g.Callees {
			for _, cn := range callees {
				inCallees[cn] = true
				if cn.Graph() == g {
					// node ownership (Model/SGraphConv.lean Owned): the call node is a node of its own summary
					fmt.Fprintf(&d.b, "owncall\t%d\n", d.node(cn))
				}
				linked(cn)
				push(cn.CalleeSummary)
			}
		}
		for site, cn := range g.Callsites {
			if cn == nil {
				continue
			}
			// a registered call node may live in a summary that is not in the maps: it is still a node
			nid := d.node(cn)
			push(cn.Graph())
			registered = append(registered, cn)
			fmt.Fprintf(&d.b, "callsite\t%d\t%d\t%d\n", sid, d.instr(site), nid)
		}
		for _, cl := range g.CreatedClosures {
			cid := d.node(cl)
			if cl.Graph() == g {
				fmt.Fprintf(&d.b, "ownclosure\t%d\n", cid)
			}
			if cl.Instr() != nil {
				fmt.Fprintf(&d.b, "cinstr\t%d\t%d\n", cid, d.instr(cl.Instr()))
			}
			if cl.ClosureSummary != nil {
				push(cl.ClosureSummary)
				fmt.Fprintf(&d.b, "closure\t%d\t%d\n", cid, d.summary(cl.ClosureSummary))
			}
		}
		for ins, cl := range g.ReferringMakeClosures {
			if cl == nil {
				continue
			}
			cid := d.node(cl)
			push(cl.Graph())
			fmt.Fprintf(&d.b, "referring\t%d\t%d\t%d\n", sid, d.instr(ins), cid)
			if cl.Instr() != nil {
				fmt.Fprintf(&d.b, "cinstr\t%d\t%d\n", cid, d.instr(cl.Instr()))
			}
		}
		for _, group := range g.AccessGlobalNodes {
			for _, a := range group {
				w := 0
				if a.IsWrite {
					w = 1
				}
				fmt.Fprintf(&d.b, "access\t%d\t%d\t%d\t%d\n", d.node(a), d.summary(a.Graph()), d.global(a.Global), w)
			}
		}
	}
	for _, cn := range registered {
		linked(cn)
		if !inCallees[cn] {
			// registered as a call site of its callee, but no longer a node of its own summary
			// (PopulateGraphFromSummary resets Callees of a summary whose call nodes were already linked)
			d.kinds["orphan-registered-call-node"]++
			if par := cn.Graph(); par == nil || !par.IsPreSummarized {
				d.kinds["orphan-registered-call-node:caller-not-pre-summarized"]++
			}
			{
				par := cn.Graph()
				pn, pre, cons, cal := "?", false, false, "?"
				if par != nil {
					pre, cons = par.IsPreSummarized, par.Constructed
					if par.Parent != nil {
						pn = par.Parent.String()
					}
				}
				if cn.CalleeSummary != nil && cn.CalleeSummary.Parent != nil {
					cal = cn.CalleeSummary.Parent.String()
				}
				d.orphans = append(d.orphans, fmt.Sprintf("%s (pre-summarized=%v constructed=%v) calls %s at %s", pn, pre, cons, cal, cn.CallSite().String()))
			}
		}
	}
	// edges of every node discovered (following out / in maps to nodes not enumerated above)
	for k := 0; k < len(d.order); k++ {
		n := d.order[k]
		d.kinds[strings.TrimPrefix(fmt.Sprintf("%T", n), "*dataflow.")]++
		nid := d.nodes[n]
		for dst, infos := range n.Out() {
			for _, ei := range infos {
				fmt.Fprintf(&d.b, "out\t%d\t%d\t%d\n", nid, d.node(dst), ei.Index)
			}
		}
		for src, ei := range n.In() {
			fmt.Fprintf(&d.b, "in\t%d\t%d\t%d\n", nid, d.node(src), ei.Index)
		}
	}
	var gs []*dataflow.GlobalNode
	for _, g := range st.Globals {
		gs = append(gs, g)
	}
	for _, g := range gs {
		gid := d.global(g)
		for n := range g.ReadLocations {
			fmt.Fprintf(&d.b, "read\t%d\t%d\n", gid, d.node(n))
		}
		for n := range g.WriteLocations {
			fmt.Fprintf(&d.b, "write\t%d\t%d\n", gid, d.node(n))
		}
	}
	d.b.WriteString("end\n")
	lastOrphans = d.orphans
	return d.b.String(), d.kinds
}

// descriptions of the orphan registrations of the last dumped graph (single-threaded use)
var lastOrphans []string

// ---- real pipelines with observation points ----------------------------------------------------

type observer struct {
	name      string
	snaps     []string // serialised graphs
	orphans   [][]string // per snapshot: the orphan registrations (who calls whom)
	ids       []string
	kinds     map[string]int
	st        *dataflow.AnalyzerState
	inter     bool // the inter-procedural phase has started (single goroutine from here on)
	mu        sync.Mutex
	curFn     *ssa.Function
	nOnDemand int
	nVisits   int
	maxSnaps  int
	large     bool
	unbuiltLater int
}

func (o *observer) snap(tag string) {
	if o.st == nil || (len(o.snaps) >= o.maxSnaps && tag != "end") {
		return
	}
	id := fmt.Sprintf("%s#%d:%s", o.name, len(o.snaps), tag)
	s, kinds := dump(id, o.st)
	o.orphans = append(o.orphans, lastOrphans)
	if strings.Count(s, "\nout\t") > 3500 && o.maxSnaps > 5 {
		// a large graph: keep the eager, linked and final observation points (+ two in between)
		o.maxSnaps = 5
		o.large = true
	}
	o.snaps = append(o.snaps, s)
	o.ids = append(o.ids, id)
	for k, v := range kinds {
		if v > o.kinds[k] {
			o.kinds[k] = v
		}
	}
}

func (o *observer) snapForce(tag string) {
	saved := o.maxSnaps
	o.maxSnaps = len(o.snaps) + 1
	o.snap(tag)
	o.maxSnaps = saved
}

// track wraps the tracking predicate: during the inter-procedural phase it is only called from
// RunIntraProcedural, i.e. from an on-demand construction; the first call for a new function marks
// the start of a construction step.
func (o *observer) track(inner func(*dataflow.AnalyzerState, ssa.Node) bool) func(*dataflow.AnalyzerState, ssa.Node) bool {
	return func(s *dataflow.AnalyzerState, n ssa.Node) bool {
		if o.inter {
			if ins, ok := n.(ssa.Instruction); ok && ins.Parent() != o.curFn {
				o.curFn = ins.Parent()
				o.nOnDemand++
				if o.nOnDemand <= 12 || o.nOnDemand%9 == 0 {
					o.snap("on-demand-start:" + o.curFn.Name())
				}
			}
		}
		return inner(s, n)
	}
}

type wrapVisitor struct {
	inner dataflow.Visitor
	o     *observer
}

func (w *wrapVisitor) Visit(s *dataflow.AnalyzerState, entry dataflow.NodeWithTrace) {
	if w.o.nVisits == 0 {
		w.o.snap("after-BuildGraph")
	}
	w.o.nVisits++
	w.inner.Visit(s, entry)
	w.o.curFn = nil
	if w.o.nVisits <= 6 || w.o.nVisits%7 == 0 {
		w.o.snap(fmt.Sprintf("after-visit-%d", w.o.nVisits))
	}
}

var stdoutMu sync.Mutex

// quiet runs f with os.Stdout redirected (the analysis logs there) and recovers panics.
func quiet(dir string, f func()) (panicked string) {
	stdoutMu.Lock()
	saved := os.Stdout
	sink, err := os.Create(filepath.Join(dir, ".c17.log"))
	if err == nil {
		os.Stdout = sink
	}
	defer func() {
		os.Stdout = saved
		if err == nil {
			sink.Close()
		}
		stdoutMu.Unlock()
		if p := recover(); p != nil {
			panicked = fmt.Sprintf("%v\n%s", p, debug.Stack())
		}
	}()
	f()
	return ""
}

func numRoutines() int {
	n := runtime.NumCPU() - 1
	if n <= 0 {
		n = 1
	}
	return n
}

// excluded: the functions a custom ShouldBuildSummary leaves unbuilt in the `unbuilt` mode (about a third
// of the user functions, never the entry points of the cases)
func excluded(f *ssa.Function) bool {
	if f == nil || f.Pkg == nil || f.Name() == "main" || f.Name() == "init" || strings.HasPrefix(f.Name(), "case_") {
		return false
	}
	h := 0
	for _, c := range f.String() {
		h = h*31 + int(c)
	}
	if h < 0 {
		h = -h
	}
	return h%3 == 0
}

// runTaint is taint.Analyze with observation points.
func runTaint(o *observer, l *taintrun.Loaded, cfg *config.Config, unbuilt bool) error {
	state, err := dataflow.NewInitializedAnalyzerState(l.Prog, l.Pkgs, config.NewLogGroup(cfg), cfg)
	if err != nil {
		return err
	}
	o.st = state
	if err := taint.AnalysisPreamble(state); err != nil {
		return err
	}
	should := dataflow.ShouldBuildSummary
	if unbuilt {
		should = func(s *dataflow.AnalyzerState, f *ssa.Function) bool {
			return !excluded(f) && dataflow.ShouldBuildSummary(s, f)
		}
	}
	analysis.RunIntraProceduralPass(state, numRoutines(), analysis.IntraAnalysisParams{
		ShouldBuildSummary: should, ShouldTrack: o.track(taint.IsNodeOfInterest)})
	o.snap("after-intra-pass")
	o.inter = true
	for _, spec := range state.Config.TaintTrackingProblems {
		spec := spec
		v := &wrapVisitor{inner: taint.NewVisitor(&spec), o: o}
		analysis.RunInterProcedural(state, v, analysis.InterProceduralParams{
			IsEntrypoint: func(n ssa.Node) bool { return taint.IsSourceNode(state, &spec, n) }})
	}
	if unbuilt {
		// the linked graph with created-but-unbuilt callees, even when no entry point was visited
		if o.nVisits == 0 {
			o.snap("after-BuildGraph")
		}
		o.inter = false
		var later []*ssa.Function
		for f, g := range state.FlowGraph.Summaries {
			if g != nil && !g.Constructed && excluded(f) {
				later = append(later, f)
			}
		}
		sort.Slice(later, func(i, j int) bool { return later[i].String() < later[j].String() })
		for _, f := range later {
			dataflow.BuildSummary(state, f)
		}
		o.unbuiltLater = len(later)
		o.snapForce("after-late-summaries")
		state.FlowGraph.Sync()
		o.snapForce("after-Sync")
		state.FlowGraph.BuildGraph()
		o.snapForce("after-BuildGraph-2")
		// and the traversal again on the now complete graph
		o.inter = true
		for _, spec := range state.Config.TaintTrackingProblems {
			spec := spec
			v := &wrapVisitor{inner: taint.NewVisitor(&spec), o: o}
			state.FlowGraph.RunVisitorOnEntryPoints(v, func(n ssa.Node) bool { return taint.IsSourceNode(state, &spec, n) }, nil)
		}
	}
	o.snap("end")
	return nil
}

// runBacktrace is backtrace.Analyze with observation points.
func runBacktrace(o *observer, l *taintrun.Loaded, cfg *config.Config) error {
	state, err := dataflow.NewInitializedAnalyzerState(l.Prog, l.Pkgs, config.NewLogGroup(cfg), cfg)
	if err != nil {
		return err
	}
	o.st = state
	isSome := func(s *dataflow.AnalyzerState, n ssa.Node) bool {
		for i := range s.Config.SlicingProblems {
			if backtrace.IsInterProceduralEntryPoint(s, &s.Config.SlicingProblems[i], n) {
				return true
			}
		}
		return false
	}
	analysis.RunIntraProceduralPass(state, numRoutines(), analysis.IntraAnalysisParams{
		ShouldBuildSummary: dataflow.ShouldBuildSummary, ShouldTrack: o.track(isSome)})
	o.snap("after-intra-pass")
	o.inter = true
	for i := range cfg.SlicingProblems {
		ps := cfg.SlicingProblems[i]
		bv := &backtrace.Visitor{SlicingSpec: &ps, Traces: make(map[dataflow.GraphNode][]backtrace.Trace)}
		v := &wrapVisitor{inner: bv, o: o}
		analysis.RunInterProcedural(state, v, analysis.InterProceduralParams{
			IsEntrypoint: func(n ssa.Node) bool { return backtrace.IsInterProceduralEntryPoint(state, bv.SlicingSpec, n) }})
	}
	o.snap("end")
	return nil
}

// ---- inputs ------------------------------------------------------------------------------------

type input struct {
	name     string
	dir      string
	yaml     string // "" = use dir/config.yaml
	onDemand bool
	back     bool
	replay   string // content for replay files
	corpus   bool
	// unbuilt: unsafe-ignore-non-summarized with a custom ShouldBuildSummary that leaves some callees
	// created-but-unbuilt at link time; they are summarised afterwards, then Sync + BuildGraph again
	// (the argot-cli summarize / buildgraph sequence)
	unbuilt bool
}

func taintYAML(onDemand bool) string {
	return taintrun.ConfigYAML(taintrun.Options{OnDemand: onDemand})
}

func backYAML(onDemand bool) string {
	return fmt.Sprintf("options:\n  log-level: 1\n  summarize-on-demand: %v\nslicing-problems:\n  - backtracepoints:\n      - method: \"^sink_?\\\\d*$\"\n", onDemand)
}

const f10Program = `package main

func source_1() string { return "tainted" }
func sink_1(x string)  {}

// both results of one call flow to one argument of the next call: the call node of two() has two
// out entries to the argument node (tuple index 0 and 1), the argument node keeps ONE in entry.
func two() (string, string) { return source_1(), "clean" }

func main() {
	a, b := two()
	sink_1(a + b)
}
`

func main() {
	rep := lib.NewReport(prop)
	rep.Rule = "one case per dumped real graph (observation point of a real taint/backtrace run); distinct = distinct (program, mode, observation point); non-trivial = the graph has at least one edge and one linked call node"
	r := lib.Rand("c17")
	var inputs []input

	// fixed corpus first: the F10 shape
	cdir := lib.WorkDir(prop, "corpus_f10")
	lib.WriteProgram(cdir, "vprog", map[string]string{"main.go": f10Program})
	inputs = append(inputs, input{name: "corpus/F10_two_results_one_argument", dir: cdir, yaml: taintYAML(false), replay: f10Program, corpus: true})
	inputs = append(inputs, input{name: "corpus/F10_two_results_one_argument/backtrace", dir: cdir, yaml: backYAML(false), back: true, replay: f10Program, corpus: true})

	// fixed corpus: the stale call-site registration (orphaned call nodes of a pre-summarized caller)
	if src, err := os.ReadFile(filepath.Join(lib.Root(), "corpus", "findings", "C17_stale_registration", "main.go")); err == nil {
		sdir := lib.WorkDir(prop, "corpus_stale")
		lib.WriteProgram(sdir, "vprog", map[string]string{"main.go": string(src)})
		inputs = append(inputs, input{name: "corpus/C17_stale_registration", dir: sdir, yaml: taintYAML(false), replay: string(src), corpus: true})
		inputs = append(inputs, input{name: "corpus/C17_stale_registration/backtrace", dir: sdir, yaml: backYAML(false), back: true, replay: string(src), corpus: true})
	} else {
		rep.Notes = append(rep.Notes, "corpus replay missing: C17_stale_registration")
	}

	// generated programs
	// many small programs rather than few large ones: the oracle evaluates the (quadratic) Lean definition
	nProg, nCases := 3, 36
	if lib.Thorough() {
		nProg, nCases = 20, 24
	}
	for k := 0; k < nProg; k++ {
		dir := lib.WorkDir(prop, fmt.Sprintf("mugo%d", k))
		feats := mugo.Options{Cases: nCases}
		p := mugo.Generate(r, feats)
		if err := p.Write(dir); err != nil {
			rep.Fail("harness-gen", "cannot write generated program: "+err.Error(), nil, true)
			continue
		}
		src, _ := os.ReadFile(filepath.Join(dir, "main.go"))
		for _, od := range []bool{false, true} {
			inputs = append(inputs, input{name: fmt.Sprintf("mugo%d/taint/od=%v", k, od), dir: dir, yaml: taintYAML(od), onDemand: od, replay: string(src)})
		}
		inputs = append(inputs, input{name: fmt.Sprintf("mugo%d/backtrace/od=%v", k, k%2 == 1), dir: dir, yaml: backYAML(k%2 == 1), onDemand: k%2 == 1, back: true, replay: string(src)})
		inputs = append(inputs, input{name: fmt.Sprintf("mugo%d/taint/ignore-unbuilt", k), dir: dir, unbuilt: true, replay: string(src),
			yaml: taintrun.ConfigYAML(taintrun.Options{ExtraYAML: "  unsafe-ignore-non-summarized: true\n"})})
	}
	// the repository's own test programs (their own configuration files)
	tds := []string{"taint/testdata/closures", "taint/testdata/globals", "taint/testdata/tuples", "taint/testdata/parameters"}
	if lib.Thorough() {
		tds = append(tds, "taint/testdata/basic", "taint/testdata/interfaces", "taint/testdata/fields", "taint/testdata/example1",
			"taint/testdata/closures_paper", "taint/testdata/defers", "taint/testdata/interface-summaries", "taint/testdata/builtins",
			"backtrace/testdata/closures", "backtrace/testdata/globals", "backtrace/testdata/basic")
	}
	for _, td := range tds {
		dir := filepath.Join(lib.RepoDir(), "analysis", td)
		if _, err := os.Stat(filepath.Join(dir, "config.yaml")); err != nil {
			continue
		}
		inputs = append(inputs, input{name: "testdata/" + td, dir: dir, back: strings.HasPrefix(td, "backtrace/")})
	}

	loaded := map[string]*taintrun.Loaded{}
	var oracleIn strings.Builder
	var obs []*observer
	var obsInput []input
	for _, in := range inputs {
		l := loaded[in.dir]
		if l == nil {
			var err error
			l, err = taintrun.Load(in.dir, false)
			if err != nil {
				if strings.HasPrefix(in.name, "testdata/") {
					rep.Count("testdata-not-loadable")
					continue
				}
				rep.Fail("harness-load:"+in.name, "program does not load: "+err.Error(), []byte(in.replay), true)
				continue
			}
			loaded[in.dir] = l
		}
		var cfg *config.Config
		var err error
		if in.yaml != "" {
			cfg, err = config.Load(filepath.Join(in.dir, "verif-config.yaml"), []byte(in.yaml))
		} else {
			var b []byte
			b, err = os.ReadFile(filepath.Join(in.dir, "config.yaml"))
			if err == nil {
				cfg, err = config.Load(filepath.Join(in.dir, "config.yaml"), b)
			}
			if err == nil {
				cfg.LogLevel = 1
				cfg.ReportsDir = lib.WorkDir(prop, "reports")
				cfg.ReportSummaries, cfg.ReportPaths, cfg.ReportCoverage, cfg.ReportNoCalleeSites = false, false, false, false
			}
		}
		if err != nil {
			rep.Fail("harness-config:"+in.name, "configuration does not load: "+err.Error(), nil, true)
			continue
		}
		o := &observer{name: in.name, kinds: map[string]int{}, maxSnaps: 40}
		scratch := lib.WorkDir(prop, "log")
		var runErr error
		p := quiet(scratch, func() {
			if in.back {
				runErr = runBacktrace(o, l, cfg)
			} else {
				runErr = runTaint(o, l, cfg, in.unbuilt)
			}
		})
		if p != "" {
			// a crash of the analysis is C07's subject; the graphs dumped before it are still checked
			rep.Count("analysis-panicked")
			rep.Notes = append(rep.Notes, in.name+": analysis panicked: "+strings.SplitN(p, "\n", 2)[0])
		}
		if runErr != nil {
			rep.Count("analysis-error")
		}
		for _, s := range o.snaps {
			oracleIn.WriteString(s)
		}
		for range o.snaps {
			obs = append(obs, o)
			obsInput = append(obsInput, in)
		}
		rep.Count(fmt.Sprintf("runs:back=%v,onDemand=%v,ignoreUnbuilt=%v", in.back, in.onDemand, in.unbuilt))
		if in.unbuilt {
			rep.Count(fmt.Sprintf("ignore-unbuilt:late-summaries<=%d", bucket(o.unbuiltLater)))
		}
		rep.Count(fmt.Sprintf("on-demand-constructions<=%d", bucket(o.nOnDemand)))
		for k, v := range o.kinds {
			if v > 0 {
				rep.Count("node-kind:" + k)
			}
		}
	}
	work := lib.WorkDir(prop, "oracle")
	os.WriteFile(filepath.Join(work, "oracle_in.txt"), []byte(oracleIn.String()), 0o644)
	lines, err := lib.RunOracle("oracle_c17", []byte(oracleIn.String()))
	if err != nil || len(lines) != len(obs) {
		rep.Fail("oracle-run", fmt.Sprintf("oracle failed: %v (%d lines for %d graphs)", err, len(lines), len(obs)), nil, true)
		rep.Finish()
		return
	}
	idx := map[*observer]int{}
	conv := map[string]map[string]*[2]int{} // kind -> observation point -> (entries, graphs)
	convAt := func(kind, point string) *[2]int {
		if conv[kind] == nil {
			conv[kind] = map[string]*[2]int{}
		}
		if conv[kind][point] == nil {
			conv[kind][point] = &[2]int{}
		}
		return conv[kind][point]
	}
	convFirst := map[string]string{}
	var orphanLog strings.Builder
	convTotal := map[string]int{}
	for k, line := range lines {
		o, in := obs[k], obsInput[k]
		snapNo := idx[o]
		idx[o]++
		f := strings.Split(line, "\t")
		get := func(name string) string {
			for _, x := range f {
				if strings.HasPrefix(x, name+"=") {
					return x[len(name)+1:]
				}
			}
			return ""
		}
		id := o.ids[snapNo]
		key := ""
		if get("nOut") != "0" && get("nCallee") != "0" {
			key = id
		}
		rep.Case(key)
		point := id[strings.LastIndex(id, ":")+1:]
		if i := strings.Index(id, "#"); i >= 0 {
			point = strings.SplitN(id[i+1:], ":", 3)[1]
		}
		rep.Count("point:" + strings.TrimRight(point, "0123456789-"))
		if get("single") == "0" {
			rep.Count("graphs-with-multi-index-pair(outside inv_index_partial)")
		}
		content := []byte(fmt.Sprintf("program: %s\nobservation point: %s\noracle: %s\n\n%s\n", in.name, id, line, in.replay))
		if f[0] != "res" {
			rep.Fail("oracle-answer:"+id, "bad oracle answer: "+line, content, true)
			continue
		}
		if get("inv") != "1" {
			var which []string
			for _, c := range []string{"edges", "calls", "closures", "globals", "maps"} {
				if get(c) != "1" {
					which = append(which, c)
				}
			}
			// the dumped graph IS the failing input: the real structure is inconsistent
			rep.Fail("inv:"+strings.Join(which, "+")+":"+in.name, fmt.Sprintf("real graph violates the structural invariant (%s) at %s: %s", strings.Join(which, ","), id, f[len(f)-1]), content, false)
			continue
		}
		if get("index") != "1" {
			if get("single") == "0" {
				// F10: the shape outside inv_index_partial (a pair connected with two tuple indices)
				rep.Fail("inv-index:multi-index-pair", "out and in disagree on the tuple index for a pair of nodes connected under two indices (the in map keeps one EdgeInfo per source): "+get("nOut")+" out entries, "+f[len(f)-1], content, false)
			} else {
				rep.Fail("inv-index-single:"+in.name, "index inconsistency on a graph whose pairs carry a single index (inv_index_partial broken)", content, true)
			}
		}
		// the converse registrations (Props/C17Conv.lean): stale = the registered node does not point back
		// (staleSite is part of inv), orphan = the registered node is no longer a node of its own summary
		for _, c := range []string{"staleRef", "staleSite", "orphanRef", "orphanSite"} {
			n, _ := strconv.Atoi(get(c))
			convAt(c, point)[0] += n
			if n > 0 {
				convAt(c, point)[1]++
				rep.Count("graphs-with-" + c)
				if convFirst[c] == "" {
					convFirst[c] = id + ": " + f[len(f)-1]
				}
			}
		}
		if n, _ := strconv.Atoi(get("staleRef")); n > 0 || get("convc") == "0" {
			// the state of conv_not_invariant / conv_witness on the real tool: backward sees a closure link forward does not
			rep.Fail("converse:stale-referring-make-closure:"+in.name, fmt.Sprintf("ReferringMakeClosures has %d entr(y/ies) whose closure node does not point back (ClosureSummary is another summary or nil) at %s: %s", n, id, f[len(f)-1]), content, false)
		}
		if n, _ := strconv.Atoi(get("staleSite")); n > 0 {
			rep.Fail("converse:stale-callsite:"+in.name, fmt.Sprintf("Callsites has %d entr(y/ies) whose call node is not linked to the summary at %s: %s", n, id, f[len(f)-1]), content, false)
		}
		if n, _ := strconv.Atoi(get("orphanRef")); n > 0 {
			rep.Fail("converse:orphan-referring-make-closure:"+in.name, fmt.Sprintf("ReferringMakeClosures has %d entr(y/ies) whose closure node is no longer in CreatedClosures of its summary at %s: %s", n, id, f[len(f)-1]), content, false)
		}
		if n, _ := strconv.Atoi(get("orphanSite")); n > 0 {
			desc := ""
			notPre := 0
			if snapNo < len(o.orphans) {
				for _, x := range o.orphans[snapNo] {
					if !strings.Contains(x, "(pre-summarized=true ") {
						notPre++
					}
				}
				if len(o.orphans[snapNo]) > 0 {
					desc = o.orphans[snapNo][0]
				}
			}
			oc := []byte(fmt.Sprintf("%s\norphaned registrations:\n%s\n", content, strings.Join(o.orphans[snapNo], "\n")))
			if notPre == 0 && len(o.orphans[snapNo]) == n {
				// known shape: call nodes created from the body of a function with a predefined summary, linked, then
				// dropped from Callees by PopulateGraphFromSummary
				rep.Fail("converse:orphan-callsite:pre-summarized-caller", fmt.Sprintf("%d call node(s) registered in their callee's Callsites are no longer in Callees of their own (pre-summarized) summary at %s, e.g. %s", n, id, desc), oc, false)
			} else {
				rep.Fail("converse:orphan-callsite:"+in.name, fmt.Sprintf("%d call node(s) registered in their callee's Callsites are no longer in Callees of their own summary, %d of them outside the pre-summarized shape, at %s", n, notPre, id), oc, false)
			}
		}
		if snapNo < len(o.orphans) && len(o.orphans[snapNo]) > 0 {
			fmt.Fprintf(&orphanLog, "== %s\n%s\n", id, strings.Join(o.orphans[snapNo], "\n"))
		}
		nr, _ := strconv.Atoi(get("nReferring"))
		ns, _ := strconv.Atoi(get("nCallsite"))
		convTotal["referring-entries"] += nr
		convTotal["callsite-entries"] += ns
		if k%17 == 3 {
			rep.Sample(map[string]any{"graph": id, "oracle": strings.Join(f[2:16], " ")})
		}
	}
	perPoint := func(kinds ...string) map[string]any {
		out := map[string]any{}
		total := 0
		for _, kind := range kinds {
			for point, c := range conv[kind] {
				p := strings.TrimRight(point, "0123456789-")
				m, _ := out[p].(map[string]int)
				if m == nil {
					m = map[string]int{}
					out[p] = m
				}
				m[kind+"-entries"] += c[0]
				m[kind+"-graphs"] += c[1]
				total += c[0]
			}
		}
		out["total"] = total
		return out
	}
	os.WriteFile(filepath.Join(work, "orphans.txt"), []byte(orphanLog.String()), 0o644)
	rep.Extra["closure_converse_violations"] = perPoint("staleRef", "orphanRef")
	rep.Extra["callsite_converse_violations"] = perPoint("staleSite", "orphanSite")
	rep.Extra["converse_entries_checked"] = convTotal
	rep.Extra["converse_first_examples"] = convFirst
	rep.Extra["inputs"] = len(inputs)
	rep.Extra["graphs"] = len(obs)
	rep.Finish()
}

func bucket(n int) int {
	for _, b := range []int{0, 1, 2, 4, 8, 16, 32, 64, 128} {
		if n <= b {
			return b
		}
	}
	return 1000
}
