// SSA fact dumper for C18: functions, instructions with named operand fields, interface conversions with
// method sets, invoke sites, interface type nodes.
package main

import (
	"bytes"
	"fmt"
	"go/types"
	"sort"
	"strings"

	"golang.org/x/tools/go/ssa"
	"golang.org/x/tools/go/ssa/ssautil"
)

type opnd struct {
	field string
	v     ssa.Value
}

// operandFields lists the operands of an instruction by the field names of the x/tools ssa structs
// (the names the translator T3 reads off value_visitor.go). ok=false: unknown instruction type.
func operandFields(ins ssa.Instruction) (kind string, ops []opnd, ok bool) {
	call := func(c *ssa.CallCommon) []opnd {
		r := []opnd{{"Value", c.Value}}
		for _, a := range c.Args {
			r = append(r, opnd{"Args", a})
		}
		return r
	}
	switch x := ins.(type) {
	case *ssa.Alloc:
		return "Alloc", nil, true
	case *ssa.BinOp:
		return "BinOp", []opnd{{"X", x.X}, {"Y", x.Y}}, true
	case *ssa.Call:
		return "Call", call(&x.Call), true
	case *ssa.ChangeInterface:
		return "ChangeInterface", []opnd{{"X", x.X}}, true
	case *ssa.ChangeType:
		return "ChangeType", []opnd{{"X", x.X}}, true
	case *ssa.Convert:
		return "Convert", []opnd{{"X", x.X}}, true
	case *ssa.DebugRef:
		return "DebugRef", []opnd{{"X", x.X}}, true
	case *ssa.Defer:
		return "Defer", call(&x.Call), true
	case *ssa.Extract:
		return "Extract", []opnd{{"Tuple", x.Tuple}}, true
	case *ssa.Field:
		return "Field", []opnd{{"X", x.X}}, true
	case *ssa.FieldAddr:
		return "FieldAddr", []opnd{{"X", x.X}}, true
	case *ssa.Go:
		return "Go", call(&x.Call), true
	case *ssa.If:
		return "If", []opnd{{"Cond", x.Cond}}, true
	case *ssa.Index:
		return "Index", []opnd{{"X", x.X}, {"Index", x.Index}}, true
	case *ssa.IndexAddr:
		return "IndexAddr", []opnd{{"X", x.X}, {"Index", x.Index}}, true
	case *ssa.Jump:
		return "Jump", nil, true
	case *ssa.Lookup:
		return "Lookup", []opnd{{"X", x.X}, {"Index", x.Index}}, true
	case *ssa.MakeChan:
		return "MakeChan", []opnd{{"Size", x.Size}}, true
	case *ssa.MakeClosure:
		r := []opnd{{"Fn", x.Fn}}
		for _, b := range x.Bindings {
			r = append(r, opnd{"Bindings", b})
		}
		return "MakeClosure", r, true
	case *ssa.MakeInterface:
		return "MakeInterface", []opnd{{"X", x.X}}, true
	case *ssa.MakeMap:
		return "MakeMap", []opnd{{"Reserve", x.Reserve}}, true
	case *ssa.MakeSlice:
		return "MakeSlice", []opnd{{"Len", x.Len}, {"Cap", x.Cap}}, true
	case *ssa.MapUpdate:
		return "MapUpdate", []opnd{{"Map", x.Map}, {"Key", x.Key}, {"Value", x.Value}}, true
	case *ssa.MultiConvert:
		return "MultiConvert", []opnd{{"X", x.X}}, true
	case *ssa.Next:
		return "Next", []opnd{{"Iter", x.Iter}}, true
	case *ssa.Panic:
		return "Panic", []opnd{{"X", x.X}}, true
	case *ssa.Phi:
		var r []opnd
		for _, e := range x.Edges {
			r = append(r, opnd{"Edges", e})
		}
		return "Phi", r, true
	case *ssa.Range:
		return "Range", []opnd{{"X", x.X}}, true
	case *ssa.Return:
		var r []opnd
		for _, e := range x.Results {
			r = append(r, opnd{"Results", e})
		}
		return "Return", r, true
	case *ssa.RunDefers:
		return "RunDefers", nil, true
	case *ssa.Select:
		var r []opnd
		for _, s := range x.States {
			r = append(r, opnd{"Chan", s.Chan}, opnd{"Send", s.Send})
		}
		return "Select", r, true
	case *ssa.Send:
		return "Send", []opnd{{"Chan", x.Chan}, {"X", x.X}}, true
	case *ssa.Slice:
		return "Slice", []opnd{{"X", x.X}, {"Low", x.Low}, {"High", x.High}, {"Max", x.Max}}, true
	case *ssa.SliceToArrayPointer:
		return "SliceToArrayPointer", []opnd{{"X", x.X}}, true
	case *ssa.Store:
		return "Store", []opnd{{"Addr", x.Addr}, {"Val", x.Val}}, true
	case *ssa.TypeAssert:
		return "TypeAssert", []opnd{{"X", x.X}}, true
	case *ssa.UnOp:
		return "UnOp", []opnd{{"X", x.X}}, true
	}
	return fmt.Sprintf("%T", ins), nil, false
}

type fnFacts struct {
	id     int
	fn     *ssa.Function
	instrs []ssa.Instruction
	idx    map[ssa.Instruction]int
	// syntax range for the ground-truth mapping
	sfile        string
	sline, eline int
}

type facts struct {
	prog       *ssa.Program
	fns        []*fnFacts
	byFn       map[*ssa.Function]*fnFacts
	typeIDs    map[types.Type]int
	typeRows   []string
	problems   []string
	funcOps    map[string]int // positions (kind.field) at which a *ssa.Function operand occurs
	nInstr     int
	outsideAll int // anonymous functions not listed by ssautil.AllFunctions
}

func isNilValue(v ssa.Value) bool {
	if v == nil {
		return true
	}
	// typed nil pointers inside the interface
	switch x := v.(type) {
	case *ssa.Function:
		return x == nil
	}
	return false
}

// typeNode interns the structure findInterfaceMethods walks: Named -> underlying, Interface -> explicit
// method names + embedded types, anything else -> other.
func (F *facts) typeNode(t types.Type) int {
	if id, ok := F.typeIDs[t]; ok {
		return id
	}
	id := len(F.typeRows)
	F.typeIDs[t] = id
	F.typeRows = append(F.typeRows, "") // reserve
	switch x := t.(type) {
	case *types.Named:
		u := F.typeNode(x.Underlying())
		F.typeRows[id] = fmt.Sprintf("type named %d", u)
	case *types.Interface:
		var names []string
		for i := 0; i < x.NumExplicitMethods(); i++ {
			names = append(names, x.ExplicitMethod(i).Name())
		}
		var emb []string
		for i := 0; i < x.NumEmbeddeds(); i++ {
			emb = append(emb, fmt.Sprint(F.typeNode(x.EmbeddedType(i))))
		}
		F.typeRows[id] = fmt.Sprintf("type iface %s %s", joinOrDash(names), joinOrDash(emb))
	default:
		F.typeRows[id] = "type other"
	}
	return id
}

func joinOrDash(xs []string) string {
	if len(xs) == 0 {
		return "-"
	}
	return strings.Join(xs, ",")
}

func ifaceMethodNames(t types.Type) []string {
	it, ok := t.Underlying().(*types.Interface)
	if !ok {
		return nil
	}
	var names []string
	for i := 0; i < it.NumMethods(); i++ {
		names = append(names, it.Method(i).Name())
	}
	sort.Strings(names)
	return names
}

func dumpFacts(prog *ssa.Program) *facts {
	F := &facts{prog: prog, byFn: map[*ssa.Function]*fnFacts{}, typeIDs: map[types.Type]int{}, funcOps: map[string]int{}}
	all := ssautil.AllFunctions(prog)
	var fs []*ssa.Function
	for f := range all {
		fs = append(fs, f)
	}
	// The universe is ssautil.AllFunctions closed under AnonFuncs: an anonymous function that no instruction
	// mentions (`_ = func() {...}`) is a function of the program (and the value visitor reaches it through
	// Function.AnonFuncs) although the linker-style ssautil.AllFunctions does not list it.
	for i := 0; i < len(fs); i++ {
		for _, a := range fs[i].AnonFuncs {
			if !all[a] {
				all[a] = true
				fs = append(fs, a)
				F.outsideAll++
			}
		}
	}
	key := func(f *ssa.Function) string {
		p := prog.Fset.Position(f.Pos())
		return fmt.Sprintf("%s@%s:%d:%d#%s", f.String(), p.Filename, p.Line, p.Column, f.Synthetic)
	}
	sort.SliceStable(fs, func(i, j int) bool { return key(fs[i]) < key(fs[j]) })
	for i, f := range fs {
		ff := &fnFacts{id: i, fn: f, idx: map[ssa.Instruction]int{}}
		for _, b := range f.Blocks {
			for _, ins := range b.Instrs {
				ff.idx[ins] = len(ff.instrs)
				ff.instrs = append(ff.instrs, ins)
			}
		}
		if syn := f.Syntax(); syn != nil {
			a, b := prog.Fset.Position(syn.Pos()), prog.Fset.Position(syn.End())
			ff.sfile, ff.sline, ff.eline = a.Filename, a.Line, b.Line
		}
		F.fns = append(F.fns, ff)
		F.byFn[f] = ff
	}
	return F
}

// oracleInput renders the facts in the oracle's line protocol.
func (F *facts) oracleInput(id string, noexec bool) []byte {
	var b bytes.Buffer
	var body bytes.Buffer
	for _, ff := range F.fns {
		f := ff.fn
		hasPkg, pkgName := 0, "-"
		if f.Pkg != nil {
			hasPkg, pkgName = 1, f.Pkg.Pkg.Name()
		}
		var anon []string
		for _, a := range f.AnonFuncs {
			if af := F.byFn[a]; af != nil {
				anon = append(anon, fmt.Sprint(af.id))
			} else {
				F.problems = append(F.problems, "anonymous function outside AllFunctions: "+a.String())
			}
		}
		fmt.Fprintf(&body, "fn %s %d %s %s\n", strings.ReplaceAll(f.Name(), " ", "_"), hasPkg, pkgName, joinOrDash(anon))
		for _, ins := range ff.instrs {
			F.nInstr++
			kind, ops, ok := operandFields(ins)
			if !ok {
				F.problems = append(F.problems, "unknown instruction type "+kind)
			}
			// cross-check with Operands()
			n1 := 0
			for _, o := range ops {
				if !isNilValue(o.v) {
					n1++
				}
			}
			n2 := 0
			for _, p := range ins.Operands(nil) {
				if *p != nil {
					n2++
				}
			}
			if n1 != n2 {
				F.problems = append(F.problems, fmt.Sprintf("operand listing of %s differs from Operands(): %d vs %d", kind, n1, n2))
			}
			var os []string
			for _, o := range ops {
				if isNilValue(o.v) {
					continue
				}
				switch v := o.v.(type) {
				case *ssa.Function:
					if t := F.byFn[v]; t != nil {
						os = append(os, fmt.Sprintf("%s=F%d", o.field, t.id))
						F.funcOps[kind+"."+o.field]++
					} else {
						F.problems = append(F.problems, "function operand outside AllFunctions: "+v.String())
					}
				default:
					if vi, isInstr := o.v.(ssa.Instruction); isInstr {
						if j, mine := ff.idx[vi]; mine {
							os = append(os, fmt.Sprintf("%s=I%d", o.field, j))
						} else {
							F.problems = append(F.problems, "operand is an instruction of another function in "+f.String())
						}
					} else {
						os = append(os, o.field+"=O")
					}
				}
			}
			callS, convS, widen := "-", "-", 0
			if ci, isCall := ins.(ssa.CallInstruction); isCall {
				c := ci.Common()
				if c.IsInvoke() {
					callS = fmt.Sprintf("i:%s:%s", c.Method.Name(), joinOrDash(ifaceMethodNames(c.Value.Type())))
				} else {
					callS = "s"
				}
			}
			if mi, isMk := ins.(*ssa.MakeInterface); isMk {
				tn := F.typeNode(mi.Type())
				ms := F.prog.MethodSets.MethodSet(mi.X.Type())
				var es []string
				for i := 0; i < ms.Len(); i++ {
					sel := ms.At(i)
					mf := F.prog.MethodValue(sel)
					if mf == nil {
						continue // abstract method (type parameter / interface operand): nothing to call
					}
					if t := F.byFn[mf]; t != nil {
						es = append(es, fmt.Sprintf("%s=%d", sel.Obj().Name(), t.id))
					} else {
						F.problems = append(F.problems, "method outside AllFunctions: "+mf.String())
					}
				}
				convS = fmt.Sprintf("%d:%s", tn, joinOrDash(es))
			}
			if ta, isTA := ins.(*ssa.TypeAssert); isTA {
				if it, isI := ta.AssertedType.Underlying().(*types.Interface); isI && it.NumMethods() > 0 {
					widen = 1
				}
			}
			fmt.Fprintf(&body, "i %s %s %s %s %d\n", kind, joinOrDash(os), callS, convS, widen)
		}
	}
	fmt.Fprintf(&b, "prog %s\n", id)
	if noexec {
		b.WriteString("opt noexec\n")
	}
	for _, r := range F.typeRows {
		b.WriteString(r + "\n")
	}
	b.Write(body.Bytes())
	b.WriteString("end\n")
	return b.Bytes()
}

// candidates: the SSA functions whose syntax is the innermost one containing file:line.
func (F *facts) candidates(file string, line int) []*fnFacts {
	best := -1
	var out []*fnFacts
	for _, ff := range F.fns {
		if ff.sfile != file || line < ff.sline || line > ff.eline {
			continue
		}
		sz := ff.eline - ff.sline
		if best < 0 || sz < best {
			best, out = sz, []*fnFacts{ff}
		} else if sz == best {
			out = append(out, ff)
		}
	}
	return out
}
