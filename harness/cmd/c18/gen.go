// Generator of import-free multi-package Go programs for C18.  Every function logs its entry with
// println("E", id) (stderr); `main` runs a list of scenarios, each of which makes one fresh target function
// reachable through exactly one shape of call / function-value flow / interface dispatch.
package main

import (
	"fmt"
	"math/rand"
	"sort"
	"strings"
)

// shapes through which the target function becomes reachable
var shapes = []string{
	"static", "callArg", "deferStatic", "deferArg", "goStatic", "goArg", "global", "field", "sliceLit", "mapValue",
	"returned", "captured", "phi", "chanSend", "selectSend", "anyFunc", "changeType", "litCalled", "litStored",
	"nestedLit", "method", "ptrMethod", "iface", "ifacePtr", "ifaceEmbedded", "anyThenAssert", "narrowing",
	"methodValue", "methodExpr", "ifaceMethodValue", "generic", "genericArg", "pkgInit", "varInit", "goLit",
	"deferLit", "recursion", "unusedRef", "promoted", "deferInvoke", "goInvoke", "deferMethodValue", "dead",
	"calleeOfTarget", "deferArgLitInRoot", "goArgLitInRoot", "widening", "typeSwitchWiden",
}

// shapes that are an open known finding (F8, interface widening): kept rare and keyed by their root cause.
// The Defer/Go argument shapes (deferArg, goArg, …LitInRoot) were findings until repository commit 3c101cd;
// they are ordinary shapes now (regression cases).
var knownBadShapes = map[string]string{
	"widening": "widening", "typeSwitchWiden": "widening",
}

var c18PkgNames = []string{"main", "a", "b"}

type c18Pkg struct {
	decls strings.Builder
	uses  map[int]bool
	inits strings.Builder // body of an init() function of the package
}

type c18Gen struct {
	r      *rand.Rand
	module string
	pkgs   [3]*c18Pkg
	nextID int
	mainB  strings.Builder // body of main
	rootB  strings.Builder // statements placed directly in main (root function, never referenced as a value)
	scen   []scenario
}

type scenario struct {
	k       int
	shape   string
	hostPkg int
	tgtPkg  int
	targets []int // ids of the functions that MUST execute in the native run
}

func (g *c18Gen) id() int { g.nextID++; return g.nextID }

func (g *c18Gen) ref(from, to int, name string) string {
	if from == to {
		return name
	}
	if to < from || to == 0 {
		panic(fmt.Sprintf("bad reference %d -> %d", from, to))
	}
	g.pkgs[from].uses[to] = true
	return c18PkgNames[to] + "." + name
}

func (g *c18Gen) below(p int) int {
	if p == 2 {
		return 2
	}
	return p + g.r.Intn(3-p)
}

func logLine(id int) string { return fmt.Sprintf("\tprintln(\"E\", %d)\n", id) }

// target: a fresh exported function `T<id>` in package p with the given parameter list; returns its id.
func (g *c18Gen) target(p int, params string, extra string) int {
	id := g.id()
	fmt.Fprintf(&g.pkgs[p].decls, "\nfunc T%d(%s) {\n%s%s}\n", id, params, logLine(id), extra)
	return id
}

func c18Support() string {
	return `
// C is never set: opaque to a static analysis, false at run time.
var C bool

type FT func()

type Small interface{ A() }

type Big interface {
	A()
	B()
}

type Emb interface {
	Small
	N()
}

func Apply(f func()) { f() }

func Apply2(n int, f func()) {
	_ = n
	f()
}

func ApplyDone(f func(), d chan bool) {
	f()
	d <- true
}
`
}

// addScenario emits host function S<k> in package hp and its call from main.
func (g *c18Gen) addScenario(shape string) {
	k := len(g.scen)
	hp := g.r.Intn(3)
	tp := g.below(hp)
	H := g.pkgs[hp]
	sc := scenario{k: k, shape: shape, hostPkg: hp, tgtPkg: tp}
	hostID := g.id()
	var body []string
	T := func(id int) string { return g.ref(hp, tp, fmt.Sprintf("T%d", id)) }
	sup := func(name string) string { return g.ref(hp, g.below(hp), name) }
	inRoot := false
	// a type with methods A (and B, N) in package tp, each logging
	typ := func(ptr bool) (name string, a, b, n int) {
		tid := g.id()
		a, b, n = g.id(), g.id(), g.id()
		recv := fmt.Sprintf("t X%d", tid)
		if ptr {
			recv = fmt.Sprintf("t *X%d", tid)
		}
		fmt.Fprintf(&g.pkgs[tp].decls, "\ntype X%d struct{ V int }\n\nfunc (%s) A() {\n%s}\n\nfunc (%s) B() {\n%s}\n\nfunc (%s) N() {\n%s}\n",
			tid, recv, logLine(a), recv, logLine(b), recv, logLine(n))
		return fmt.Sprintf("X%d", tid), a, b, n
	}
	switch shape {
	case "static":
		t := g.target(tp, "", "")
		body = []string{T(t) + "()"}
		sc.targets = []int{t}
	case "callArg":
		t := g.target(tp, "", "")
		body = []string{sup("Apply") + "(" + T(t) + ")"}
		sc.targets = []int{t}
	case "deferStatic":
		t := g.target(tp, "", "")
		body = []string{"defer " + T(t) + "()"}
		sc.targets = []int{t}
	case "deferArg":
		t := g.target(tp, "", "")
		if g.r.Intn(2) == 0 {
			body = []string{"defer " + sup("Apply") + "(" + T(t) + ")"}
		} else {
			body = []string{"defer " + sup("Apply2") + "(1, " + T(t) + ")"}
		}
		sc.targets = []int{t}
	case "goStatic":
		t := g.target(tp, "d chan bool", "\td <- true\n")
		body = []string{"d := make(chan bool)", "go " + T(t) + "(d)", "<-d"}
		sc.targets = []int{t}
	case "goArg":
		t := g.target(tp, "", "")
		body = []string{"d := make(chan bool)", "go " + sup("ApplyDone") + "(" + T(t) + ", d)", "<-d"}
		sc.targets = []int{t}
	case "global":
		t := g.target(tp, "", "")
		fmt.Fprintf(&g.pkgs[tp].decls, "\nvar G%d = T%d\n", t, t)
		body = []string{g.ref(hp, tp, fmt.Sprintf("G%d", t)) + "()"}
		sc.targets = []int{t}
	case "field":
		t := g.target(tp, "", "")
		body = []string{"s := &struct{ f func() }{" + T(t) + "}", "s.f()"}
		sc.targets = []int{t}
	case "sliceLit":
		t := g.target(tp, "", "")
		body = []string{"fs := []func(){" + T(t) + "}", "fs[0]()"}
		sc.targets = []int{t}
	case "mapValue":
		t := g.target(tp, "", "")
		body = []string{"m := map[int]func(){}", "m[1] = " + T(t), "m[1]()"}
		sc.targets = []int{t}
	case "returned":
		t := g.target(tp, "", "")
		gid := g.id()
		fmt.Fprintf(&g.pkgs[tp].decls, "\nfunc Get%d() func() {\n%s\treturn T%d\n}\n", t, logLine(gid), t)
		body = []string{g.ref(hp, tp, fmt.Sprintf("Get%d", t)) + "()()"}
		sc.targets = []int{t, gid}
	case "captured":
		t := g.target(tp, "", "")
		lid := g.id()
		body = []string{"f := " + T(t), "if " + sup("C") + " {", "\tf = nil", "}", "g := func() {", strings.TrimRight(logLine(lid), "\n"), "\tf()", "}", "g()"}
		sc.targets = []int{t, lid}
	case "phi":
		t := g.target(tp, "", "")
		t2 := g.target(tp, "", "")
		body = []string{"f := " + T(t), "if " + sup("C") + " {", "\tf = " + T(t2), "}", "f()"}
		sc.targets = []int{t}
	case "chanSend":
		t := g.target(tp, "", "")
		body = []string{"ch := make(chan func(), 1)", "ch <- " + T(t), "(<-ch)()"}
		sc.targets = []int{t}
	case "selectSend":
		t := g.target(tp, "", "")
		body = []string{"ch := make(chan func(), 1)", "select {", "case ch <- " + T(t) + ":", "default:", "}", "(<-ch)()"}
		sc.targets = []int{t}
	case "anyFunc":
		t := g.target(tp, "", "")
		body = []string{"var x any = " + T(t), "x.(func())()"}
		sc.targets = []int{t}
	case "changeType":
		t := g.target(tp, "", "")
		body = []string{"ft := " + sup("FT") + "(" + T(t) + ")", "ft()"}
		sc.targets = []int{t}
	case "litCalled":
		lid := g.id()
		body = []string{"func() {", strings.TrimRight(logLine(lid), "\n"), "}()"}
		sc.targets = []int{lid}
	case "litStored":
		lid := g.id()
		nid := g.id()
		body = []string{"x := " + fmt.Sprint(k), "f := func() {", strings.TrimRight(logLine(lid), "\n"), "\t_ = x", "}", "never := func() {", strings.TrimRight(logLine(nid), "\n"), "}", "_ = never", "f()"}
		sc.targets = []int{lid}
	case "nestedLit":
		l1, l2 := g.id(), g.id()
		body = []string{"func() {", strings.TrimRight(logLine(l1), "\n"), "\tfunc() {", "\t" + strings.TrimRight(logLine(l2), "\n"), "\t}()", "}()"}
		sc.targets = []int{l1, l2}
	case "method":
		name, a, _, _ := typ(false)
		body = []string{"t := " + g.ref(hp, tp, name) + "{}", "t.A()"}
		sc.targets = []int{a}
	case "ptrMethod":
		name, a, _, _ := typ(true)
		body = []string{"t := &" + g.ref(hp, tp, name) + "{}", "t.A()"}
		sc.targets = []int{a}
	case "iface":
		name, a, _, _ := typ(false)
		body = []string{"var i " + sup("Small") + " = " + g.ref(hp, tp, name) + "{}", "i.A()"}
		sc.targets = []int{a}
	case "ifacePtr":
		name, a, b, _ := typ(true)
		body = []string{"var i " + sup("Big") + " = &" + g.ref(hp, tp, name) + "{}", "i.A()", "i.B()"}
		sc.targets = []int{a, b}
	case "ifaceEmbedded":
		name, a, _, n := typ(false)
		body = []string{"var i " + sup("Emb") + " = " + g.ref(hp, tp, name) + "{}", "i.A()", "i.N()"}
		sc.targets = []int{a, n}
	case "anyThenAssert":
		name, a, b, _ := typ(false)
		body = []string{"var x any = " + g.ref(hp, tp, name) + "{}", "bg := x.(" + sup("Big") + ")", "bg.A()", "bg.B()"}
		sc.targets = []int{a, b}
	case "narrowing":
		name, a, _, _ := typ(false)
		body = []string{"var bg " + sup("Big") + " = " + g.ref(hp, tp, name) + "{}", "var s " + sup("Small") + " = bg", "s.A()"}
		sc.targets = []int{a}
	case "widening":
		name, a, b, _ := typ(false)
		body = []string{"var s " + sup("Small") + " = " + g.ref(hp, tp, name) + "{}", "s.A()", "s.(" + sup("Big") + ").B()"}
		sc.targets = []int{a, b}
	case "typeSwitchWiden":
		name, _, b, _ := typ(false)
		body = []string{"var s " + sup("Small") + " = " + g.ref(hp, tp, name) + "{}", "switch v := s.(type) {", "case " + sup("Big") + ":", "\tv.B()", "}"}
		sc.targets = []int{b}
	case "methodValue":
		name, a, _, _ := typ(g.r.Intn(2) == 0)
		body = []string{"t := &" + g.ref(hp, tp, name) + "{}", "f := t.A", "f()"}
		sc.targets = []int{a}
	case "methodExpr":
		name, a, _, _ := typ(false)
		body = []string{"f := " + g.ref(hp, tp, name) + ".A", "f(" + g.ref(hp, tp, name) + "{})"}
		sc.targets = []int{a}
	case "ifaceMethodValue":
		name, a, _, _ := typ(false)
		body = []string{"var i " + sup("Small") + " = " + g.ref(hp, tp, name) + "{}", "f := i.A", "f()"}
		sc.targets = []int{a}
	case "generic":
		id := g.id()
		fmt.Fprintf(&g.pkgs[tp].decls, "\nfunc Gen%d[X any](x X) X {\n%s\treturn x\n}\n", id, logLine(id))
		body = []string{"_ = " + g.ref(hp, tp, fmt.Sprintf("Gen%d", id)) + "[int](1)"}
		sc.targets = []int{id}
	case "genericArg":
		t := g.target(tp, "", "")
		id := g.id()
		fmt.Fprintf(&g.pkgs[tp].decls, "\nfunc GenA%d[F ~func()](f F) {\n%s\tf()\n}\n", id, logLine(id))
		body = []string{g.ref(hp, tp, fmt.Sprintf("GenA%d", id)) + "(" + T(t) + ")"}
		sc.targets = []int{t, id}
	case "pkgInit":
		t := g.target(tp, "", "")
		fmt.Fprintf(&g.pkgs[tp].inits, "\tT%d()\n", t)
		sc.targets = []int{t}
	case "varInit":
		id := g.id()
		fmt.Fprintf(&g.pkgs[tp].decls, "\nfunc Mk%d() int {\n%s\treturn %d\n}\n\nvar V%d = Mk%d()\n", id, logLine(id), id, id, id)
		sc.targets = []int{id}
	case "goLit":
		t := g.target(tp, "", "")
		lid := g.id()
		body = []string{"d := make(chan bool)", "go func() {", strings.TrimRight(logLine(lid), "\n"), "\t" + T(t) + "()", "\td <- true", "}()", "<-d"}
		sc.targets = []int{t, lid}
	case "deferLit":
		t := g.target(tp, "", "")
		lid := g.id()
		body = []string{"defer func() {", strings.TrimRight(logLine(lid), "\n"), "\t" + T(t) + "()", "}()"}
		sc.targets = []int{t, lid}
	case "recursion":
		a, b := g.id(), g.id()
		fmt.Fprintf(&g.pkgs[tp].decls, "\nfunc R%d(n int) {\n%s\tif n > 0 {\n\t\tR%d(n - 1)\n\t}\n}\n\nfunc R%d(n int) {\n%s\tif n > 0 {\n\t\tR%d(n - 1)\n\t}\n}\n", a, logLine(a), b, b, logLine(b), a)
		body = []string{g.ref(hp, tp, fmt.Sprintf("R%d", a)) + "(2)"}
		sc.targets = []int{a, b}
	case "unusedRef":
		t := g.target(tp, "", "")
		t2 := g.target(tp, "", "")
		fmt.Fprintf(&g.pkgs[tp].decls, "\nvar U%d = T%d\n", t2, t2)
		body = []string{T(t) + "()"}
		sc.targets = []int{t}
	case "promoted":
		name, a, _, _ := typ(false)
		eid := g.id()
		fmt.Fprintf(&H.decls, "\ntype E%d struct{ %s }\n", eid, g.ref(hp, tp, name))
		body = []string{"var i " + sup("Small") + " = " + fmt.Sprintf("E%d{}", eid), "i.A()"}
		sc.targets = []int{a}
	case "deferInvoke":
		name, a, _, _ := typ(false)
		body = []string{"var i " + sup("Small") + " = " + g.ref(hp, tp, name) + "{}", "defer i.A()"}
		sc.targets = []int{a}
	case "goInvoke":
		tid := g.id()
		a := g.id()
		fmt.Fprintf(&g.pkgs[tp].decls, "\ntype Y%d struct{ D chan bool }\n\nfunc (t Y%d) A() {\n%s\tt.D <- true\n}\n", tid, tid, logLine(a))
		body = []string{"d := make(chan bool)", "var i " + sup("Small") + " = " + g.ref(hp, tp, fmt.Sprintf("Y%d", tid)) + "{d}", "go i.A()", "<-d"}
		sc.targets = []int{a}
	case "deferMethodValue":
		name, a, _, _ := typ(false)
		body = []string{"t := " + g.ref(hp, tp, name) + "{}", "f := t.A", "defer f()"}
		sc.targets = []int{a}
	case "dead":
		g.target(tp, "", "")
		t := g.target(tp, "", "")
		body = []string{T(t) + "()"}
		sc.targets = []int{t}
	case "calleeOfTarget":
		t2 := g.target(tp, "", "")
		t := g.target(tp, "", fmt.Sprintf("\tT%d()\n", t2))
		body = []string{sup("Apply") + "(" + T(t) + ")"}
		sc.targets = []int{t, t2}
	case "deferArgLitInRoot":
		// a capture-free literal passed as an argument of a deferred call, directly in main (a root is never
		// referenced as a value, so its anonymous functions are not found through AnonFuncs)
		lid := g.id()
		inRoot = true
		g.pkgs[0].uses[2] = true
		fmt.Fprintf(&g.rootB, "\tdefer b.Apply(func() {\n%s\t})\n", "\t"+logLine(lid))
		sc.hostPkg, sc.tgtPkg = 0, 0
		sc.targets = []int{lid}
	case "goArgLitInRoot":
		lid := g.id()
		inRoot = true
		g.pkgs[0].uses[2] = true
		fmt.Fprintf(&g.rootB, "\td%d := make(chan bool)\n\tgo b.ApplyDone(func() {\n%s\t}, d%d)\n\t<-d%d\n", lid, "\t"+logLine(lid), lid, lid)
		sc.hostPkg, sc.tgtPkg = 0, 0
		sc.targets = []int{lid}
	default:
		panic("unknown shape " + shape)
	}
	if !inRoot && shape != "pkgInit" && shape != "varInit" {
		var b strings.Builder
		for _, l := range body {
			b.WriteString("\t" + l + "\n")
		}
		fmt.Fprintf(&H.decls, "\nfunc S%d() {\n%s%s}\n", k, logLine(hostID), b.String())
		call := fmt.Sprintf("S%d()", k)
		if hp != 0 {
			g.pkgs[0].uses[hp] = true
			call = c18PkgNames[hp] + "." + call
		}
		fmt.Fprintf(&g.mainB, "\t%s\n", call)
		sc.targets = append(sc.targets, hostID)
	}
	g.scen = append(g.scen, sc)
}

// genC18Program renders a program with the given scenario shapes.
func genC18Program(module string, r *rand.Rand, shapeList []string) (map[string]string, []scenario) {
	g := &c18Gen{r: r, module: module}
	for i := range g.pkgs {
		g.pkgs[i] = &c18Pkg{uses: map[int]bool{}}
	}
	for _, s := range shapeList {
		g.addScenario(s)
	}
	files := map[string]string{}
	for p := 2; p >= 0; p-- {
		var b strings.Builder
		fmt.Fprintf(&b, "package %s\n\n", c18PkgNames[p])
		var us []int
		for u := range g.pkgs[p].uses {
			us = append(us, u)
		}
		sort.Ints(us)
		if len(us) > 0 {
			b.WriteString("import (\n")
			for _, u := range us {
				fmt.Fprintf(&b, "\t%s %q\n", c18PkgNames[u], module+"/"+c18PkgNames[u])
			}
			b.WriteString(")\n")
		}
		b.WriteString(c18Support())
		b.WriteString(g.pkgs[p].decls.String())
		if g.pkgs[p].inits.Len() > 0 {
			iid := g.id()
			fmt.Fprintf(&b, "\nfunc init() {\n%s%s}\n", logLine(iid), g.pkgs[p].inits.String())
		}
		if p == 0 {
			mid := g.id()
			fmt.Fprintf(&b, "\nfunc main() {\n%s%s%s}\n", logLine(mid), g.rootB.String(), g.mainB.String())
		}
		name := "main.go"
		if p != 0 {
			name = c18PkgNames[p] + "/" + c18PkgNames[p] + ".go"
		}
		files[name] = b.String()
	}
	return files, g.scen
}
