// Driver for C18: reachability.FindReachable (the real analysis, in-process, all four root selections) on
// generated import-free multi-package programs versus
//
//	(1) the Lean model `Reach.findReachable` with the regenerated tables (compiled oracle) on the dumped SSA
//	    facts — correspondence M8, exact, for the four selections;
//	(2) set relations the property states, on the REAL sets: ⊇ functions reachable in the pointer-analysis
//	    call graph (dataflow.CallGraphReachable), ⊆ ssautil.AllFunctions, monotone across the four selections;
//	(3) the per-program criterion: the oracle's stable RTA execution set ⊆ the reachable set
//	    (theorem sound_of_criterion);
//	(4) ground truth: a native run logs every function entry; each executed function must be in the real
//	    default-roots set.
package main

import (
	"bytes"
	"fmt"
	"os"
	"os/exec"
	"path/filepath"
	"sort"
	"strconv"
	"strings"
	"time"

	"github.com/awslabs/ar-go-tools/analysis"
	"github.com/awslabs/ar-go-tools/analysis/config"
	"github.com/awslabs/ar-go-tools/analysis/dataflow"
	"github.com/awslabs/ar-go-tools/analysis/reachability"
	"github.com/awslabs/ar-go-tools/analysis/summaries"
	"golang.org/x/tools/go/packages"
	"golang.org/x/tools/go/ssa"
	"golang.org/x/tools/go/ssa/ssautil"
	"verif/harness/lib"
)

const prop = "C18"

var timing = map[string]float64{}

func timed(k string, t0 time.Time) { timing[k] += time.Since(t0).Seconds() }

func sourceOf(dir string, files map[string]string) string {
	var names []string
	for n := range files {
		names = append(names, n)
	}
	sort.Strings(names)
	var b strings.Builder
	for _, n := range names {
		fmt.Fprintf(&b, "==== %s/%s\n%s\n", dir, n, files[n])
	}
	return b.String()
}

func parseSet(s string) map[int]bool {
	m := map[int]bool{}
	if s == "" {
		return m
	}
	for _, x := range strings.Split(s, ",") {
		n, _ := strconv.Atoi(x)
		m[n] = true
	}
	return m
}

func showSet(m map[int]bool) string {
	var xs []int
	for k := range m {
		xs = append(xs, k)
	}
	sort.Ints(xs)
	var ps []string
	for _, x := range xs {
		ps = append(ps, strconv.Itoa(x))
	}
	return strings.Join(ps, ",")
}

type oracleRes struct {
	wf, known, complete, widening, stable bool
	r                                     [4]string // r00 r01 r10 r11 (exMain, exInit)
	exec                                  map[int]bool
	missing                               map[int]string
	prov                                  string // "-" or "<#edges>:<unjustified f/s/g;..>" (Reach.provOK, Props/C18Ptr)
}

func parseOracle(line, id string) (*oracleRes, error) {
	ws := strings.Split(line, " ")
	if len(ws) != 14 || ws[0] != "res" || ws[1] != id {
		return nil, fmt.Errorf("unexpected oracle answer %.300q", line)
	}
	get := func(i int, k string) string { return strings.TrimPrefix(ws[i], k+"=") }
	r := &oracleRes{wf: get(2, "wf") == "1", known: get(3, "known") == "1", complete: get(4, "complete") == "1",
		widening: get(5, "widening") == "1", stable: get(11, "stable") == "1", exec: parseSet(get(10, "exec")),
		missing: map[int]string{}}
	r.r = [4]string{get(6, "r00"), get(7, "r01"), get(8, "r10"), get(9, "r11")}
	r.prov = get(13, "prov")
	if m := get(12, "missing"); m != "" {
		for _, e := range strings.Split(m, ";") {
			kv := strings.SplitN(e, ":", 2)
			g, _ := strconv.Atoi(kv[0])
			r.missing[g] = kv[1]
		}
	}
	return r, nil
}

func loadState(dir string, withPointer bool) (*dataflow.AnalyzerState, error) {
	cfg := config.NewDefault()
	cfg.LogLevel = int(config.ErrLevel)
	pcfg := &packages.Config{Mode: analysis.PkgLoadMode, Tests: false, Dir: dir,
		Env: append(os.Environ(), "GOFLAGS=-mod=mod", "GOPROXY=off", "GOSUMDB=off", "GOTOOLCHAIN=local", "GOWORK=off")}
	prog, pkgs, err := analysis.LoadProgram(analysis.LoadProgramOptions{BuildMode: ssa.InstantiateGenerics, ApplyRewrites: true, PackageConfig: pcfg}, []string{"./..."})
	if err != nil {
		return nil, err
	}
	var steps []func(*dataflow.AnalyzerState)
	if withPointer {
		steps = append(steps, func(s *dataflow.AnalyzerState) { s.PopulatePointersVerbose(summaries.IsUserDefinedFunction) })
	}
	return dataflow.NewAnalyzerState(prog, pkgs, config.NewLogGroup(cfg), cfg, steps)
}

// the four selections, in the order of the oracle: (exMain, exInit)
var selections = [4][2]bool{{false, false}, {false, true}, {true, false}, {true, true}}

func selName(i int) string {
	return fmt.Sprintf("nomain=%v,noinit=%v", selections[i][0], selections[i][1])
}

func checkProgram(rep *lib.Report, name, dir, module string, files map[string]string, scen []scenario, native bool) {
	lib.WriteProgram(dir, module, files)
	t0 := time.Now()
	// native == false: a program with standard-library imports, used for the model correspondence and the
	// set relations only (no execution-set criterion: too large; no native run: nothing is logged)
	state, err := loadState(dir, true)
	timed("load_s", t0)
	if err != nil {
		rep.Fail("harness-load:"+name, "generated program does not load: "+err.Error(), []byte(sourceOf(dir, files)), true)
		return
	}
	prog := state.Program
	t0 = time.Now()
	F := dumpFacts(prog)
	id := name
	in := F.oracleInput(id, !native)
	timed("dump_s", t0)
	os.WriteFile(filepath.Join(dir, "oracle_in.txt"), in, 0o644)
	if len(F.problems) > 0 {
		rep.Fail("harness-dump:"+name, "fact dumper problem: "+F.problems[0], []byte(strings.Join(F.problems, "\n")+"\n"+sourceOf(dir, files)), true)
		return
	}
	rep.Count("programs")
	rep.Dist["anonymous-functions-not-in-ssautil.AllFunctions"] += F.outsideAll
	rep.Count(fmt.Sprintf("functions<=%d", bucket(len(F.fns))))
	for k, v := range F.funcOps {
		rep.Dist["function-operand-at:"+k] += v
	}
	// real analysis, four selections
	t0 = time.Now()
	var real [4]map[int]bool
	var realPanic any
	func() {
		defer func() { realPanic = recover() }()
		for i, s := range selections {
			m := reachability.FindReachable(state, s[0], s[1], nil)
			real[i] = map[int]bool{}
			for f := range m {
				ff := F.byFn[f]
				if ff == nil {
					rep.Fail("outside-all-functions", fmt.Sprintf("reported function %v is not in ssautil.AllFunctions (%s)", f, selName(i)), []byte(sourceOf(dir, files)), false)
					continue
				}
				real[i][ff.id] = true
			}
		}
	}()
	timed("real_s", t0)
	if realPanic != nil {
		rep.Fail("real-run:"+name, fmt.Sprintf("FindReachable panicked: %v", realPanic), []byte(sourceOf(dir, files)), true)
		return
	}
	// ⊆ AllFunctions is checked above (every reported function has an id). Monotonicity across selections:
	sub := func(a, b map[int]bool) (int, bool) {
		for k := range a {
			if !b[k] {
				return k, false
			}
		}
		return 0, true
	}
	for _, pr := range [][2]int{{3, 1}, {3, 2}, {1, 0}, {2, 0}} {
		if k, ok := sub(real[pr[0]], real[pr[1]]); !ok {
			rep.Fail("not-monotone", fmt.Sprintf("%s reports %s but %s does not", selName(pr[0]), F.fns[k].fn.String(), selName(pr[1])), []byte(sourceOf(dir, files)), false)
		}
	}
	rep.Count("monotonicity-checks")
	// edges of the real pointer call graph (callers reachable in it, default roots) for the provenance criterion
	// of Props/C18Ptr.ptr_reach_subset; small programs only (the criterion is list-based)
	nEdges := 0
	if native && state.PointerAnalysis != nil && state.PointerAnalysis.CallGraph != nil {
		var el []string
		seenE := map[string]bool{}
		for f := range dataflow.CallGraphReachable(state.PointerAnalysis.CallGraph, false, false) {
			ff, node := F.byFn[f], state.PointerAnalysis.CallGraph.Nodes[f]
			if ff == nil || node == nil {
				continue
			}
			for _, e := range node.Out {
				if e == nil || e.Site == nil || e.Callee == nil {
					continue
				}
				gf := F.byFn[e.Callee.Func]
				si, okSite := ff.idx[e.Site]
				if gf == nil || !okSite {
					rep.Count("ptr-provenance:edge-outside-facts")
					continue
				}
				l := fmt.Sprintf("edge %d %d %d\n", ff.id, si, gf.id)
				if !seenE[l] {
					seenE[l] = true
					el = append(el, l)
				}
			}
		}
		sort.Strings(el)
		nEdges = len(el)
		if nEdges > 0 {
			in = append(bytes.TrimSuffix(in, []byte("end\n")), []byte(strings.Join(el, "")+"end\n")...)
			os.WriteFile(filepath.Join(dir, "oracle_in.txt"), in, 0o644)
		}
	}
	// oracle
	t0 = time.Now()
	lines, err := lib.RunOracle("oracle_c18", in)
	timed("oracle_s", t0)
	if err != nil || len(lines) != 1 {
		rep.Fail("oracle-run", fmt.Sprintf("oracle failed: %v (%d lines)", err, len(lines)), nil, true)
		return
	}
	or, err := parseOracle(lines[0], id)
	if err != nil {
		rep.Fail("oracle-run", err.Error(), []byte(lines[0]), true)
		return
	}
	if !or.wf {
		rep.Fail("harness-wf:"+name, "dumped facts are not well-formed: a function operand at a position outside Spec canHoldFunc, or a dangling reference (dumper / spec table)", in, true)
		return
	}
	if !or.known {
		rep.Count("tables-not-understood")
	}
	rep.Extra["operand_table_complete"] = or.complete
	if or.widening {
		rep.Count("programs-with-interface-widening")
	}
	if or.complete && !or.widening {
		rep.Count("inside-reach_sound-hypotheses")
	} else {
		rep.Count("outside-reach_sound-hypotheses")
	}
	// provenance criterion on the real call graph (recorded, not demanded: the demanded relation is the set
	// inclusion below; ptr_reach_subset proves the inclusion from the criterion inside its hypotheses)
	if nEdges > 0 {
		kv := strings.SplitN(or.prov, ":", 2)
		switch {
		case len(kv) != 2 || kv[0] != fmt.Sprint(nEdges):
			rep.Count("ptr-provenance:not-evaluated")
		case kv[1] == "":
			rep.Count("ptr-provenance:all-edges-justified")
			rep.Dist["ptr-provenance:edges"] += nEdges
		default:
			rep.Count("ptr-provenance:unjustified-edges")
			rep.Dist["ptr-provenance:edges"] += nEdges
			for _, u := range strings.Split(kv[1], ";") {
				var a, b, c int
				why := "other"
				if n, _ := fmt.Sscanf(u, "%d/%d/%d", &a, &b, &c); n == 3 && a < len(F.fns) && c < len(F.fns) {
					if or.widening {
						why = "program-with-widening"
					}
					if l, _ := rep.Extra["ptr_provenance_unjustified"].([]string); len(l) < 10 {
						rep.Extra["ptr_provenance_unjustified"] = append(l, fmt.Sprintf("%s: %s -> %s (%s)", name, F.fns[a].fn.String(), F.fns[c].fn.String(), why))
					}
				}
				rep.Count("ptr-provenance:unjustified:" + why)
			}
		}
	}
	// ⊇ pointer-analysis call graph reachability
	if state.PointerAnalysis != nil && state.PointerAnalysis.CallGraph != nil {
		for i, s := range selections {
			pr := dataflow.CallGraphReachable(state.PointerAnalysis.CallGraph, s[0], s[1])
			n := 0
			for f := range pr {
				ff := F.byFn[f]
				if ff == nil {
					continue // synthetic root etc.
				}
				n++
				if !real[i][ff.id] {
					why, has := or.missing[ff.id]
					if !has {
						why = classifyMiss(F, real[0], ff)
					}
					rep.Count(fmt.Sprintf("ptr-cg-miss(%s):%s", selName(i), why))
					if i != 0 {
						// The property's inclusion is about the reported (default-roots) set, the one
						// state.ReachableFunctions uses.  Under -noinit / -nomain the pointer call graph (built
						// from the whole program) keeps edges that exist only because of the excluded root
						// (e.g. a function stored in a global by init and called from main): counted, not demanded.
						continue
					}
					rep.Fail("reach-miss:"+why, fmt.Sprintf("%s is reachable in the pointer-analysis call graph (%s) but not reported", f.String(), selName(i)), []byte(sourceOf(dir, files)), false)
				}
			}
			if i == 0 {
				rep.Count(fmt.Sprintf("ptr-cg-reachable<=%d", bucket(n)))
			}
		}
		rep.Count("pointer-cg-inclusion-checks")
	} else {
		rep.Count("no-pointer-analysis")
	}
	mismatch := false
	execIDs := map[int]bool{}
	staticMiss := map[int]string{}
	for i := range selections {
		rs := showSet(real[i])
		if rs != or.r[i] {
			mismatch = true
			m := parseSet(or.r[i])
			var diff []string
			for k := range real[i] {
				if !m[k] {
					diff = append(diff, "only real: "+F.fns[k].fn.String())
				}
			}
			for k := range m {
				if !real[i][k] {
					diff = append(diff, "only model: "+F.fns[k].fn.String())
				}
			}
			sort.Strings(diff)
			content := fmt.Sprintf("selection %s\nreal : %s\nmodel: %s\n%s\n%s", selName(i), rs, or.r[i], strings.Join(diff, "\n"), sourceOf(dir, files))
			// is a function of the execution semantics missing from the REAL set?
			if i == 0 {
				for g := range or.exec {
					if !real[0][g] && or.missing[g] == "" {
						rep.Fail("reach-miss:"+reasonOfFn(F, F.fns[g]), "real reachable set misses "+F.fns[g].fn.String()+", which the abstract execution semantics reaches and the model reports", []byte(content), false)
					}
				}
			}
			rep.Fail("model-mismatch:"+name, "correspondence M8 broken (Reach.findReachable vs reachability.FindReachable, "+selName(i)+")", []byte(content), true)
		}
	}
	rep.Count("correspondence-checks")
	if !or.stable {
		rep.Fail("harness-exec:"+name, "the oracle's execution set did not stabilise", in, true)
	}
	for g, why := range or.missing {
		rep.Count("criterion-miss:" + why)
		_ = g
	}
	if len(or.missing) == 0 {
		rep.Count("criterion-holds(exec⊆reach)")
	}
	// scenario accounting
	for _, sc := range scen {
		rep.Case(fmt.Sprintf("%s/%d>%d", sc.shape, sc.hostPkg, sc.tgtPkg))
		rep.Count("shape:" + sc.shape)
	}
	_ = mismatch
	if !native {
		rep.Count("std-programs(correspondence-only)")
		return
	}
	// criterion misses with an unknown cause (the known causes are reported when a native run confirms them)
	for g, why := range or.missing {
		if !knownReason(why) {
			staticMiss[g] = why
		}
	}
	// native ground truth
	t0 = time.Now()
	bin := filepath.Join(dir, "prog.bin")
	cmd := exec.Command("go", "build", "-o", bin, ".")
	cmd.Dir = dir
	cmd.Env = append(os.Environ(), "GOFLAGS=-mod=mod", "GOPROXY=off", "GOSUMDB=off", "GOTOOLCHAIN=local", "GOWORK=off")
	if out, err := cmd.CombinedOutput(); err != nil {
		rep.Fail("harness-build:"+name, fmt.Sprintf("go build: %v\n%s", err, out), []byte(sourceOf(dir, files)), true)
		return
	}
	timed("build_s", t0)
	t0 = time.Now()
	run := exec.Command(bin)
	var errb bytes.Buffer
	run.Stderr = &errb
	run.Stdout = &errb
	done := make(chan error, 1)
	run.Start()
	go func() { done <- run.Wait() }()
	select {
	case err = <-done:
	case <-time.After(30 * time.Second):
		run.Process.Kill()
		err = fmt.Errorf("timeout")
	}
	timed("native_s", t0)
	if err != nil {
		rep.Fail("harness-native:"+name, fmt.Sprintf("native run failed: %v\n%.2000s", err, errb.String()), []byte(sourceOf(dir, files)), true)
		return
	}
	executed := map[int]bool{}
	for _, l := range strings.Split(errb.String(), "\n") {
		if strings.HasPrefix(l, "E ") {
			if n, err := strconv.Atoi(strings.TrimSpace(l[2:])); err == nil {
				executed[n] = true
			}
		}
	}
	// id -> source position of its println
	pos := map[int][2]string{}
	for fname, content := range files {
		for i, l := range strings.Split(content, "\n") {
			l = strings.TrimSpace(l)
			if strings.HasPrefix(l, "println(\"E\", ") {
				n, _ := strconv.Atoi(strings.TrimSuffix(strings.TrimPrefix(l, "println(\"E\", "), ")"))
				pos[n] = [2]string{filepath.Join(dir, fname), strconv.Itoa(i + 1)}
			}
		}
	}
	for _, sc := range scen {
		for _, t := range sc.targets {
			if !executed[t] {
				rep.Notes = append(rep.Notes, fmt.Sprintf("%s: scenario %d (%s): target %d did not execute (generator expectation)", name, sc.k, sc.shape, t))
				rep.Count("generator-target-not-executed")
			}
		}
	}
	nExec := 0
	for n := range executed {
		p, ok := pos[n]
		if !ok {
			continue
		}
		line, _ := strconv.Atoi(p[1])
		cands := F.candidates(p[0], line)
		if len(cands) == 0 {
			rep.Fail("harness-map:"+name, fmt.Sprintf("cannot map executed function %d (%s:%d) to an SSA function", n, p[0], line), []byte(sourceOf(dir, files)), true)
			continue
		}
		nExec++
		ok = false
		for _, c := range cands {
			execIDs[c.id] = true
			if real[0][c.id] {
				ok = true
			}
		}
		if ok {
			rep.Count("native:executed-and-reported")
			continue
		}
		// executed, not reported: why?
		why := "unexplained"
		inExec := false
		for _, c := range cands {
			if or.exec[c.id] {
				inExec = true
			}
			if w, has := or.missing[c.id]; has {
				why = w
			}
		}
		rep.Count("native:executed-not-reported:" + why)
		what := fmt.Sprintf("function %s executes in a native run (entry logged, %s:%d) but is not in the set reported by reachability.FindReachable (default roots); cause: %s", cands[0].fn.String(), p[0], line, why)
		if !inExec {
			what += " [not in the abstract execution semantics either: Spec.Exec does not cover this execution]"
		}
		rep.Fail("reach-miss:"+why, what, []byte(what+"\n"+sourceOf(dir, files)), false)
	}
	rep.Count(fmt.Sprintf("native-executed-functions<=%d", bucket(nExec)))
	var sm []string
	for g, why := range staticMiss {
		if !execIDs[g] {
			sm = append(sm, fmt.Sprintf("%s (%s)", F.fns[g].fn.String(), why))
		}
	}
	if len(sm) > 0 {
		sort.Strings(sm)
		rep.Fail("criterion-miss:"+name, "the execution-set criterion fails for a cause that is not a known finding and the native run did not execute the function: "+sm[0],
			[]byte(strings.Join(sm, "\n")+"\n"+sourceOf(dir, files)), true)
	}
}

// classifyMiss names the shape of a miss when the oracle gave no cause (programs analysed without the
// execution set): an unvisited operand position of a reported function that holds the function, or a
// conversion to an interface in a reported function whose method set contains it (it can then only have been
// invoked after an interface-to-interface widening).
func classifyMiss(F *facts, reported map[int]bool, g *fnFacts) string {
	for id := range reported {
		for _, ins := range F.fns[id].instrs {
			kind, ops, _ := operandFields(ins)
			for _, o := range ops {
				if fn, ok := o.v.(*ssa.Function); ok && fn == g.fn {
					return kind + "." + o.field
				}
			}
		}
	}
	for id := range reported {
		for _, ins := range F.fns[id].instrs {
			mi, ok := ins.(*ssa.MakeInterface)
			if !ok {
				continue
			}
			ms := F.prog.MethodSets.MethodSet(mi.X.Type())
			names := ifaceMethodNames(mi.Type())
			for i := 0; i < ms.Len(); i++ {
				if F.prog.MethodValue(ms.At(i)) == g.fn {
					// a method the conversion's interface names (or any method, for the empty interface) must
					// have been reported at the conversion: then the mechanism is broken, not widened around
					listed := len(names) == 0
					for _, n := range names {
						if n == ms.At(i).Obj().Name() {
							listed = true
						}
					}
					if listed {
						return "MakeInterface-not-applied"
					}
					return "widening"
				}
			}
		}
	}
	return "unexplained:" + reasonOfFn(F, g)
}

func knownReason(why string) bool {
	return why == "widening"
}

func reasonOfFn(F *facts, ff *fnFacts) string {
	_ = F
	if ff.fn.Synthetic != "" {
		return "synthetic"
	}
	return "function"
}

func bucket(n int) int {
	for _, b := range []int{16, 64, 256, 1024, 4096, 16384} {
		if n <= b {
			return b
		}
	}
	return 1 << 20
}

func main() {
	rep := lib.NewReport(prop)
	rep.Rule = "case = one scenario (shape through which a fresh function becomes reachable × host package × target package) of a generated import-free 3-package program; distinct = distinct (shape, packages) tuples; every shape occurs in every run; each program: 4 root selections compared exactly with the model, inclusion of the pointer call graph, monotonicity, execution-set criterion, one native run logging every function entry"
	r := lib.Rand("c18")
	_ = ssautil.AllFunctions

	// 1. fixed corpus: F8 (defer_arg, go_arg: repaired in 3c101cd, regression cases; widening: open)
	corpus := filepath.Join(lib.Root(), "corpus", "findings", "F08_reach_defer_go_args")
	for _, sub := range []string{"defer_arg", "go_arg", "widening"} {
		src, err := os.ReadFile(filepath.Join(corpus, sub, "main.go"))
		if err != nil {
			rep.Notes = append(rep.Notes, "corpus replay missing: "+sub)
			continue
		}
		dir := lib.WorkDir(prop, "corpus_"+sub)
		checkProgram(rep, "corpus_"+sub, dir, "vcorpus", map[string]string{"main.go": string(src)}, nil, true)
	}

	// 2. generated programs
	nProg, perProg := 6, 40
	if lib.Thorough() {
		nProg, perProg = 60, 60
	}
	var good []string
	for _, s := range shapes {
		if _, bad := knownBadShapes[s]; !bad {
			good = append(good, s)
		}
	}
	var bad []string
	for s := range knownBadShapes {
		bad = append(bad, s)
	}
	sort.Strings(bad)
	for pi := 0; pi < nProg; pi++ {
		var list []string
		// every good shape at least once over two consecutive programs, random fill
		for i, s := range good {
			if i%2 == pi%2 {
				list = append(list, s)
			}
		}
		for len(list) < perProg {
			list = append(list, good[r.Intn(len(good))])
		}
		// known-bad shapes: only in every third program, one each
		if pi%3 == 2 {
			list = append(list, bad...)
		}
		r.Shuffle(len(list), func(i, j int) { list[i], list[j] = list[j], list[i] })
		files, scen := genC18Program("vprog", r, list)
		name := fmt.Sprintf("p%d", pi)
		dir := lib.WorkDir(prop, name)
		checkProgram(rep, name, dir, "vprog", files, scen, true)
	}
	// 3. a program over standard-library packages: many more instruction kinds and operand positions
	{
		dir := lib.WorkDir(prop, "std")
		checkProgram(rep, "std", dir, "vstd", map[string]string{"main.go": stdProgram}, nil, false)
	}
	rep.Extra["shapes"] = len(shapes)
	rep.Extra["timing"] = timing
	rep.Finish()
}

const stdProgram = `package main

import (
	"errors"
	"sort"
	"strings"
	"sync"
)

type shape interface {
	Area() int
	Name() string
}

type sq struct{ s int }

func (q sq) Area() int    { return q.s * q.s }
func (q sq) Name() string { return "sq" }

type rect struct{ w, h int }

func (r *rect) Area() int    { return r.w * r.h }
func (r *rect) Name() string { return "rect" }

type byArea []shape

func (b byArea) Len() int           { return len(b) }
func (b byArea) Less(i, j int) bool { return b[i].Area() < b[j].Area() }
func (b byArea) Swap(i, j int)      { b[i], b[j] = b[j], b[i] }

var errNope = errors.New("nope")

var once sync.Once

var registry = map[string]func(int) shape{
	"sq":   func(n int) shape { return sq{n} },
	"rect": func(n int) shape { return &rect{n, n + 1} },
}

func build(names []string) ([]shape, error) {
	var out []shape
	for i, n := range names {
		mk, ok := registry[n]
		if !ok {
			return nil, errNope
		}
		out = append(out, mk(i))
	}
	return out, nil
}

func describe(ss []shape) string {
	var b strings.Builder
	for _, s := range ss {
		switch v := s.(type) {
		case sq:
			b.WriteString(strings.ToUpper(v.Name()))
		case *rect:
			b.WriteString(v.Name())
		}
	}
	return b.String()
}

func worker(in <-chan int, out chan<- int, wg *sync.WaitGroup) {
	defer wg.Done()
	for {
		select {
		case n, ok := <-in:
			if !ok {
				return
			}
			out <- n * 2
		}
	}
}

func safe(f func()) (err error) {
	defer func() {
		if r := recover(); r != nil {
			err = errNope
		}
	}()
	f()
	return nil
}

func main() {
	once.Do(func() { println("once") })
	ss, err := build([]string{"sq", "rect", "sq"})
	if err != nil {
		panic(err)
	}
	sort.Sort(byArea(ss))
	sort.Slice(ss, func(i, j int) bool { return ss[i].Name() < ss[j].Name() })
	println(describe(ss))
	in, out := make(chan int), make(chan int, 8)
	var wg sync.WaitGroup
	wg.Add(1)
	go worker(in, out, &wg)
	in <- 1
	close(in)
	wg.Wait()
	f := strings.NewReplacer("a", "b").Replace
	println(f("aa"), <-out)
	_ = safe(func() { panic("x") })
	var arr [3]func() int
	for i := range arr {
		i := i
		arr[i] = func() int { return i }
	}
	sl := arr[:]
	println(sl[1](), len(strings.Fields(" a b ")))
}
` + ""
