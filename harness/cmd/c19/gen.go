// Generator of multi-package Go programs for C19: every form of `go` statement × every form of deferred
// (non-)recovering function × package placement.  One host function per go statement; `main` runs the
// host selected by os.Args[1] and then blocks, so that a native run exercises exactly one go statement.
package main

import (
	"fmt"
	"math/rand"
	"sort"
	"strings"
)

// launch forms (source level; the SSA-level form is decided by the dumper, not assumed here)
var launchForms = []string{
	"static", "staticArg", "generic", "method", "methodPtr", "embedded", "lit", "litCapture", "litArg",
	"bound", "methodExpr", "invoke", "ifaceBound", "globalVar", "param", "field", "callResult", "phi",
	"mkClosure", "sliceElem", "builtin", "shared",
}

// forms of (non-)recovering prologue of the launched function
var recForms = []string{
	"none", "named", "lit", "litCapture", "nested", "helper", "method", "iface", "condRecover", "condDefer",
	"deferRecoverBuiltin", "globalVar", "bound", "repanic", "noopDefer", "recoverNotDeferred", "namedArg",
	"generic", "ptrMethod", "otherPkgLit", "ifaceNoop", "globalVarNoop", "boundNoop", "litNoop",
}

type progSpec struct {
	module string
	dirs   [3]string // directories of packages a, ab, b ("" root is main)
}

var progSpecs = []progSpec{
	{"vprog", [3]string{"a", "ab", "b"}},
	{"golang.org", [3]string{"x", "xa", "x/b"}},
	{"sort/v", [3]string{"a", "ab", "b"}},
	{"mathx/v", [3]string{"a", "ab", "b"}},
	{"vprog/w", [3]string{"a", "ab/c", "b"}},
}

var pkgNames = []string{"main", "a", "ab", "b"}

type combo struct{ launch, rec string }

type pkgOut struct {
	idx   int
	decls strings.Builder
	uses  map[int]bool
}

type progGen struct {
	spec  progSpec
	r     *rand.Rand
	pkgs  [4]*pkgOut
	cases strings.Builder // body of main's switch
	nHost int
	hosts []hostInfo
}

type hostInfo struct {
	k           int
	launch, rec string
	hostPkg     int
	workerPkg   int
	viaBoom     bool
}

// ref renders a reference from package `from` to the exported name `name` of package `to`.
func (g *progGen) ref(from, to int, name string) string {
	if from == to {
		return name
	}
	if to < from || to == 0 {
		panic(fmt.Sprintf("bad reference %d -> %d", from, to))
	}
	g.pkgs[from].uses[to] = true
	return pkgNames[to] + "." + name
}

// pick a package index >= p (p itself allowed), never main unless p is main.
func (g *progGen) atOrBelow(p int) int {
	if p == 3 {
		return 3
	}
	return p + g.r.Intn(4-p)
}

// recStmts: the prologue of a launched function living in package p (unique suffix id).
func (g *progGen) recStmts(form string, p int, id string) []string {
	q := g.atOrBelow(p)
	switch form {
	case "none":
		return nil
	case "named":
		return []string{"defer " + g.ref(p, q, "Rec") + "()"}
	case "lit":
		return []string{"defer func() {", "\trecover()", "}()"}
	case "litCapture":
		return []string{"x" + id + " := 1", "defer func() {", "\tif recover() != nil {", "\t\tx" + id + "++", "\t}", "}()"}
	case "nested":
		return []string{"defer func() {", "\tfunc() {", "\t\trecover()", "\t}()", "}()"}
	case "helper":
		return []string{"defer func() {", "\t" + g.ref(p, q, "Rec") + "()", "}()"}
	case "method":
		return []string{"defer " + g.ref(p, q, "RT") + "{}.Rec()"}
	case "ptrMethod":
		return []string{"rt" + id + " := &" + g.ref(p, q, "RT") + "{}", "defer rt" + id + ".RecP()"}
	case "iface":
		return []string{"var rr" + id + " " + g.ref(p, q, "Recoverer") + " = " + g.ref(p, q, "RT") + "{}", "defer rr" + id + ".Rec()"}
	case "condRecover":
		return []string{"defer func() {", "\tif " + g.ref(p, q, "Cond") + "() {", "\t\trecover()", "\t}", "}()"}
	case "condDefer":
		return []string{"if " + g.ref(p, q, "Cond") + "() {", "\tdefer " + g.ref(p, q, "Rec") + "()", "}"}
	case "deferRecoverBuiltin":
		return []string{"defer recover()"}
	case "globalVar":
		return []string{"defer " + g.ref(p, q, "RecV") + "()"}
	case "bound":
		return []string{"m" + id + " := " + g.ref(p, q, "RT") + "{}.Rec", "defer m" + id + "()"}
	case "repanic":
		return []string{"defer func() {", "\tr := recover()", "\tpanic(r)", "}()"}
	case "noopDefer":
		return []string{"defer " + g.ref(p, q, "Noop") + "()"}
	case "recoverNotDeferred":
		return []string{"recover()"}
	case "namedArg":
		return []string{"defer " + g.ref(p, q, "RecA") + "(1)"}
	case "generic":
		return []string{"defer " + g.ref(p, q, "RecG") + "[int]()"}
	case "ifaceNoop":
		// a deferred interface method that does NOT recover
		return []string{"var nn" + id + " " + g.ref(p, q, "Nooper") + " = " + g.ref(p, q, "RT") + "{}", "defer nn" + id + ".Nop()"}
	case "globalVarNoop":
		return []string{"defer " + g.ref(p, q, "NoopV") + "()"}
	case "boundNoop":
		return []string{"n" + id + " := " + g.ref(p, q, "RT") + "{}.Nop", "defer n" + id + "()"}
	case "litNoop":
		return []string{"z" + id + " := 1", "defer func() {", "	_ = z" + id, "}()"}
	case "otherPkgLit":
		// a deferred literal that calls recover directly AND a helper
		return []string{"defer func() {", "\t" + g.ref(p, q, "Noop") + "()", "\trecover()", "}()"}
	}
	panic("unknown rec form " + form)
}

func indent(lines []string, n int) string {
	var b strings.Builder
	for _, l := range lines {
		b.WriteString(strings.Repeat("\t", n) + l + "\n")
	}
	return b.String()
}

// body of a launched function in package p.
func (g *progGen) body(rec string, p int, id string, viaBoom bool, n int) string {
	lines := g.recStmts(rec, p, id)
	if viaBoom {
		lines = append(lines, g.ref(p, g.atOrBelow(p), "Boom")+"(\"P"+id+"\")")
	} else {
		lines = append(lines, "panic(\"P"+id+"\")")
	}
	return indent(lines, n)
}

func support(p int) string {
	_ = p
	return `
// C is never set: Cond is opaque to a static analysis and false at run time.
var C bool

func Cond() bool { return C }

func Boom(s string) { panic(s) }

func Rec() { recover() }

func RecA(n int) {
	if n >= 0 {
		recover()
	}
}

func RecG[X any]() { recover() }

func Noop() {}

type RT struct{ X int }

func (RT) Rec() { recover() }

func (*RT) RecP() { recover() }

func (RT) Nop() {}

type Recoverer interface{ Rec() }

type Nooper interface{ Nop() }

var RecV = Rec

var NoopV = Noop

type Runner interface{ Run() }
`
}

// addHost adds one host (one go statement) with its launched function.
func (g *progGen) addHost(c combo) {
	k := g.nHost
	g.nHost++
	id := fmt.Sprint(k)
	hp := g.r.Intn(4)
	wp := g.atOrBelow(hp)
	viaBoom := g.r.Intn(4) == 0
	H := g.pkgs[hp]
	hi := hostInfo{k: k, launch: c.launch, rec: c.rec, hostPkg: hp, workerPkg: wp, viaBoom: viaBoom}
	hostName := "H" + id
	call := hostName + "()"
	var hostBody []string
	W := func() *pkgOut { return g.pkgs[wp] }
	// launched named function / method in package wp
	namedWorker := func(params string) {
		fmt.Fprintf(&W().decls, "\nfunc W%s(%s) {\n%s}\n", id, params, g.body(c.rec, wp, id, viaBoom, 1))
	}
	methodWorker := func(ptr bool) {
		recv := "t T" + id
		if ptr {
			recv = "t *T" + id
		}
		fmt.Fprintf(&W().decls, "\ntype T%s struct{ X int }\n\nfunc (%s) Run() {\n%s}\n", id, recv, g.body(c.rec, wp, id, viaBoom, 1))
	}
	switch c.launch {
	case "static":
		namedWorker("")
		hostBody = []string{"go " + g.ref(hp, wp, "W"+id) + "()"}
	case "staticArg":
		namedWorker("n int, s string")
		hostBody = []string{"go " + g.ref(hp, wp, "W"+id) + "(" + id + ", \"x\")"}
	case "generic":
		fmt.Fprintf(&W().decls, "\nfunc W%s[X any]() {\n%s}\n", id, g.body(c.rec, wp, id, viaBoom, 1))
		hostBody = []string{"go " + g.ref(hp, wp, "W"+id) + "[int]()"}
	case "method":
		methodWorker(false)
		hostBody = []string{"t := " + g.ref(hp, wp, "T"+id) + "{}", "go t.Run()"}
	case "methodPtr":
		methodWorker(true)
		hostBody = []string{"t := &" + g.ref(hp, wp, "T"+id) + "{}", "go t.Run()"}
	case "embedded":
		methodWorker(false)
		fmt.Fprintf(&H.decls, "\ntype E%s struct{ %s }\n", id, g.ref(hp, wp, "T"+id))
		hostBody = []string{"e := E" + id + "{}", "go e.Run()"}
	case "lit":
		wp = hp
		hi.workerPkg = hp
		hostBody = []string{"go func() {", strings.TrimRight(g.body(c.rec, hp, id, viaBoom, 1), "\n"), "}()"}
	case "litCapture":
		wp = hp
		hi.workerPkg = hp
		hostBody = []string{"y := " + id, "go func() {", "\t_ = y", strings.TrimRight(g.body(c.rec, hp, id, viaBoom, 1), "\n"), "}()"}
	case "litArg":
		wp = hp
		hi.workerPkg = hp
		hostBody = []string{"go func(n int) {", "\t_ = n", strings.TrimRight(g.body(c.rec, hp, id, viaBoom, 1), "\n"), "}(" + id + ")"}
	case "bound":
		methodWorker(g.r.Intn(2) == 0)
		hostBody = []string{"t := &" + g.ref(hp, wp, "T"+id) + "{}", "f := t.Run", "go f()"}
	case "methodExpr":
		methodWorker(false)
		hostBody = []string{"f := " + g.ref(hp, wp, "T"+id) + ".Run", "go f(" + g.ref(hp, wp, "T"+id) + "{})"}
	case "invoke":
		ptr := g.r.Intn(2) == 0
		methodWorker(ptr)
		amp := ""
		if ptr {
			amp = "&"
		}
		hostBody = []string{"var r " + g.ref(hp, g.atOrBelow(hp), "Runner") + " = " + amp + g.ref(hp, wp, "T"+id) + "{}", "go r.Run()"}
	case "ifaceBound":
		methodWorker(false)
		hostBody = []string{"var r Runner = " + g.ref(hp, wp, "T"+id) + "{}", "f := r.Run", "go f()"}
	case "globalVar":
		namedWorker("")
		fmt.Fprintf(&W().decls, "\nvar FV%s = W%s\n", id, id)
		hostBody = []string{"go " + g.ref(hp, wp, "FV"+id) + "()"}
	case "param":
		namedWorker("")
		hostName = "H" + id
		// main passes the function: the reference is from main (package 0)
		call = hostName + "(" + g.refFromMain(wp, "W"+id) + ")"
		fmt.Fprintf(&H.decls, "\nfunc H%s(f func()) {\n\tgo f()\n}\n", id)
		g.emitCase(hi, hp, call)
		return
	case "field":
		namedWorker("")
		hostBody = []string{"s := struct{ f func() }{" + g.ref(hp, wp, "W"+id) + "}", "go s.f()"}
	case "callResult":
		namedWorker("")
		fmt.Fprintf(&W().decls, "\nfunc Get%s() func() { return W%s }\n", id, id)
		hostBody = []string{"go " + g.ref(hp, wp, "Get"+id) + "()()"}
	case "phi":
		namedWorker("")
		hostBody = []string{"f := " + g.ref(hp, wp, "W"+id), "if Cond() {", "\tf = Noop", "}", "go f()"}
	case "mkClosure":
		fmt.Fprintf(&W().decls, "\nfunc Mk%s(n int) func() {\n\treturn func() {\n\t\t_ = n\n%s\t}\n}\n", id, g.body(c.rec, wp, id, viaBoom, 2))
		hostBody = []string{"go " + g.ref(hp, wp, "Mk"+id) + "(1)()"}
	case "sliceElem":
		namedWorker("")
		hostBody = []string{"fs := []func(){" + g.ref(hp, wp, "W"+id) + "}", "go fs[0]()"}
	case "builtin":
		hostBody = []string{"go println(\"b" + id + "\")"}
	case "shared":
		// a second (and third) go statement for one function: several creators
		namedWorker("")
		hostBody = []string{"if Cond() {", "\tgo " + g.ref(hp, wp, "W"+id) + "()", "}", "go " + g.ref(hp, wp, "W"+id) + "()"}
	default:
		panic("unknown launch form " + c.launch)
	}
	fmt.Fprintf(&H.decls, "\nfunc %s() {\n%s}\n", hostName, indent(hostBody, 1))
	g.emitCase(hi, hp, call)
}

func (g *progGen) refFromMain(to int, name string) string {
	if to == 0 {
		return name
	}
	g.pkgs[0].uses[to] = true
	return pkgNames[to] + "." + name
}

func (g *progGen) emitCase(hi hostInfo, hp int, call string) {
	g.hosts = append(g.hosts, hi)
	if hp != 0 {
		g.pkgs[0].uses[hp] = true
		call = pkgNames[hp] + "." + call
	}
	fmt.Fprintf(&g.cases, "\tcase %d:\n\t\t%s\n", hi.k, call)
}

func (g *progGen) importPath(p int) string { return g.spec.module + "/" + g.spec.dirs[p-1] }

func (g *progGen) fileOf(p int) string {
	if p == 0 {
		return "main.go"
	}
	return g.spec.dirs[p-1] + "/" + pkgNames[p] + ".go"
}

// genProgram renders the program for the given combos.
func genProgram(spec progSpec, r *rand.Rand, combos []combo) (map[string]string, []hostInfo) {
	g := &progGen{spec: spec, r: r}
	for i := range g.pkgs {
		g.pkgs[i] = &pkgOut{idx: i, uses: map[int]bool{}}
	}
	for _, c := range combos {
		g.addHost(c)
	}
	files := map[string]string{}
	for p := 3; p >= 0; p-- {
		var b strings.Builder
		fmt.Fprintf(&b, "package %s\n\n", pkgNames[p])
		var imps []string
		if p == 0 {
			imps = append(imps, "\t\"os\"")
		}
		var us []int
		for u := range g.pkgs[p].uses {
			us = append(us, u)
		}
		sort.Ints(us)
		for _, u := range us {
			imps = append(imps, fmt.Sprintf("\t%s %q", pkgNames[u], g.importPath(u)))
		}
		if len(imps) > 0 {
			b.WriteString("import (\n" + strings.Join(imps, "\n") + "\n)\n")
		}
		b.WriteString(support(p))
		b.WriteString(g.pkgs[p].decls.String())
		if p == 0 {
			b.WriteString(`
func sel() int {
	n := -1
	if len(os.Args) > 1 {
		n = 0
		for _, c := range os.Args[1] {
			n = n*10 + int(c-'0')
		}
	}
	return n
}

func main() {
	switch sel() {
` + g.cases.String() + `	}
	select {}
}
`)
		}
		files[g.fileOf(p)] = b.String()
	}
	return files, g.hosts
}
