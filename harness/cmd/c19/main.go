// Driver for C19: maypanic.MayPanicAnalyzer (the real analysis, in-process, JSON output) on generated
// multi-package programs (every form of go statement × every form of deferred recovering function ×
// packages / allow-list / -exclude) versus
//
//	(1) the Lean model `MayPanic.report` with the regenerated tables (compiled oracle) on the dumped
//	    SSA facts — correspondence M9, exact;
//	(2) ground truth: native runs of the same program, one per go statement, that panic inside the
//	    goroutine; the crash trace gives the entry function (bottom frame) and the creation site
//	    (`created by` frame).  If the entry function has no recovering defer and is not excluded it must
//	    be in the REAL report with that creation site.
package main

import (
	"bytes"
	"encoding/json"
	"fmt"
	"go/token"
	"io"
	"os"
	"os/exec"
	"path/filepath"
	"regexp"
	"sort"
	"strconv"
	"strings"
	"sync"
	"time"

	"github.com/awslabs/ar-go-tools/analysis/maypanic"
	"golang.org/x/tools/go/callgraph"
	"golang.org/x/tools/go/callgraph/cha"
	"golang.org/x/tools/go/ssa"
	"golang.org/x/tools/go/ssa/ssautil"
	"verif/harness/lib"
)

const prop = "C19"

type site struct {
	pos     int    // id of the position (go sites only)
	posStr  string // file:line:col
	file    string
	line    int
	form    string
	target  int
	builtin string
	callees []int
}

type fnInfo struct {
	id     int
	class  int // functions the tool's output cannot tell apart (same RelString and position) share a class
	fn     *ssa.Function
	pkg    string
	file   string
	gos    []*site
	defers []*site
	calls  []*site
	// source range of the syntax (0 if none)
	sfile        string
	sline, eline int
}

type program struct {
	dir     string
	prog    *ssa.Program
	fns     []*fnInfo
	byFn    map[*ssa.Function]*fnInfo
	posID   map[string]int
	posStrs []string
	classOf map[string]int // "RelString@file:line:col" -> class
	members map[int][]*fnInfo
	cg      *callgraph.Graph
	problem string
}

func posString(prog *ssa.Program, p token.Pos) string {
	q := prog.Fset.Position(p)
	return fmt.Sprintf("%s:%d:%d", q.Filename, q.Line, q.Column)
}

func classify(c *ssa.CallCommon) (form string, target *ssa.Function, builtin string) {
	if c.IsInvoke() {
		return "invoke", nil, ""
	}
	switch v := c.Value.(type) {
	case *ssa.Function:
		return "fn", v, ""
	case *ssa.MakeClosure:
		if fn, ok := v.Fn.(*ssa.Function); ok {
			return "closure", fn, ""
		}
		return "value", nil, ""
	case *ssa.Builtin:
		return "builtin", nil, v.Name()
	}
	return "value", nil, ""
}

// dump builds the facts of the loaded program.
func dump(dir string, prog *ssa.Program) *program {
	P := &program{dir: dir, prog: prog, byFn: map[*ssa.Function]*fnInfo{}, posID: map[string]int{}}
	all := ssautil.AllFunctions(prog)
	var fs []*ssa.Function
	for f := range all {
		fs = append(fs, f)
	}
	key := func(f *ssa.Function) string { return f.String() + "@" + posString(prog, f.Pos()) + "#" + f.Synthetic }
	sort.Slice(fs, func(i, j int) bool { return key(fs[i]) < key(fs[j]) })
	for i, f := range fs {
		fi := &fnInfo{id: i, fn: f}
		if f.Pkg != nil {
			fi.pkg = f.Pkg.Pkg.Path()
		}
		fi.file = prog.Fset.Position(f.Pos()).Filename
		if syn := f.Syntax(); syn != nil {
			a, b := prog.Fset.Position(syn.Pos()), prog.Fset.Position(syn.End())
			fi.sfile, fi.sline, fi.eline = a.Filename, a.Line, b.Line
		}
		P.fns = append(P.fns, fi)
		P.byFn[f] = fi
	}
	P.classOf, P.members = map[string]int{}, map[int][]*fnInfo{}
	for _, fi := range P.fns {
		k := fi.fn.RelString(nil) + "@" + posString(prog, fi.fn.Pos())
		c, ok := P.classOf[k]
		if !ok {
			c = len(P.classOf)
			P.classOf[k] = c
		}
		fi.class = c
		P.members[c] = append(P.members[c], fi)
	}
	P.cg = cha.CallGraph(prog)
	calleesOf := map[ssa.CallInstruction][]int{}
	for f, n := range P.cg.Nodes {
		if P.byFn[f] == nil {
			continue
		}
		for _, e := range n.Out {
			if e.Site == nil {
				continue
			}
			if c := P.byFn[e.Callee.Func]; c != nil {
				calleesOf[e.Site] = append(calleesOf[e.Site], c.id)
			} else {
				P.problem = "call-graph callee outside AllFunctions: " + e.Callee.Func.String()
			}
		}
	}
	posSet := map[string]bool{}
	for _, fi := range P.fns {
		for _, b := range fi.fn.Blocks {
			for _, ins := range b.Instrs {
				ci, ok := ins.(ssa.CallInstruction)
				if !ok {
					continue
				}
				form, tgt, bn := classify(ci.Common())
				s := &site{form: form, target: -1, builtin: bn}
				switch form {
				case "fn", "closure":
					t := P.byFn[tgt]
					if t == nil {
						P.problem = "call target outside AllFunctions: " + tgt.String()
						continue
					}
					s.target = t.id
					s.callees = []int{t.id}
				case "invoke", "value":
					cs := append([]int(nil), calleesOf[ci]...)
					sort.Ints(cs)
					for i, c := range cs {
						if i == 0 || c != cs[i-1] {
							s.callees = append(s.callees, c)
						}
					}
				}
				switch ins.(type) {
				case *ssa.Go:
					q := prog.Fset.Position(ins.Pos())
					s.posStr, s.file, s.line = posString(prog, ins.Pos()), q.Filename, q.Line
					posSet[s.posStr] = true
					fi.gos = append(fi.gos, s)
				case *ssa.Defer:
					fi.defers = append(fi.defers, s)
				case *ssa.Call:
					fi.calls = append(fi.calls, s)
				}
			}
		}
	}
	for p := range posSet {
		P.posStrs = append(P.posStrs, p)
	}
	sort.Strings(P.posStrs)
	for i, p := range P.posStrs {
		P.posID[p] = i
	}
	for _, fi := range P.fns {
		for _, s := range fi.gos {
			s.pos = P.posID[s.posStr]
		}
	}
	return P
}

func dashIfEmpty(s string) string {
	if s == "" {
		return "-"
	}
	return s
}

func ints(xs []int) string {
	if len(xs) == 0 {
		return "-"
	}
	var ps []string
	for _, x := range xs {
		ps = append(ps, strconv.Itoa(x))
	}
	return strings.Join(ps, ",")
}

func (P *program) oracleInput(id string, excl []string) []byte {
	var b bytes.Buffer
	fmt.Fprintf(&b, "prog %s\n", id)
	for _, e := range excl {
		fmt.Fprintf(&b, "excl %s\n", e)
	}
	w := func(tag string, s *site) {
		t := "-"
		if s.target >= 0 {
			t = strconv.Itoa(s.target)
		}
		fmt.Fprintf(&b, "%s %d %s %s %s %s\n", tag, s.pos, s.form, t, dashIfEmpty(s.builtin), ints(s.callees))
	}
	for _, fi := range P.fns {
		fmt.Fprintf(&b, "fn %s %s\n", dashIfEmpty(fi.pkg), dashIfEmpty(fi.file))
		for _, s := range fi.gos {
			w("g", s)
		}
		for _, s := range fi.defers {
			w("d", s)
		}
		for _, s := range fi.calls {
			w("c", s)
		}
	}
	b.WriteString("end\n")
	return b.Bytes()
}

// captureStdout runs f with os.Stdout redirected into a buffer.
func captureStdout(f func()) string {
	old := os.Stdout
	r, w, err := os.Pipe()
	if err != nil {
		panic(err)
	}
	os.Stdout = w
	done := make(chan string)
	go func() {
		var buf bytes.Buffer
		io.Copy(&buf, r)
		done <- buf.String()
	}()
	func() {
		defer func() {
			w.Close()
			os.Stdout = old
		}()
		f()
	}()
	return <-done
}

type location struct {
	Function string
	Filename string
	Line     int
	Column   int
}

type finding struct {
	Description string
	GoRoutine   location
	Creators    []location
}

// canonReport: entries "class:p,p" sorted (a multiset: indistinguishable functions compare as such).
func canonReport(entries []string) string {
	sort.Strings(entries)
	return strings.Join(entries, ";")
}

// realReport runs the real analysis and canonicalises its findings.
func (P *program) realReport(excl []string) (canon string, pairs map[[2]int]bool, raw string, err error) {
	var panicked any
	raw = captureStdout(func() {
		defer func() { panicked = recover() }()
		maypanic.MayPanicAnalyzer(P.prog, excl, true)
	})
	if panicked != nil {
		return "", nil, raw, fmt.Errorf("MayPanicAnalyzer panicked: %v", panicked)
	}
	var fs []finding
	if e := json.Unmarshal([]byte(strings.TrimSpace(raw)), &fs); e != nil {
		return "", nil, raw, fmt.Errorf("cannot parse the JSON output: %v", e)
	}
	pairs = map[[2]int]bool{}
	var parts []string
	for _, f := range fs {
		if f.Description != "unrecovered panic" {
			return "", nil, raw, fmt.Errorf("unexpected description %q", f.Description)
		}
		k := fmt.Sprintf("%s@%s:%d:%d", f.GoRoutine.Function, f.GoRoutine.Filename, f.GoRoutine.Line, f.GoRoutine.Column)
		class, ok := P.classOf[k]
		if !ok {
			return "", nil, raw, fmt.Errorf("reported function %s is not a function of the program", k)
		}
		var ps []int
		for _, c := range f.Creators {
			id, ok := P.posID[fmt.Sprintf("%s:%d:%d", c.Filename, c.Line, c.Column)]
			if !ok {
				return "", nil, raw, fmt.Errorf("creator %v of %s is not the position of a go statement", c, k)
			}
			ps = append(ps, id)
			pairs[[2]int{class, id}] = true
		}
		sort.Ints(ps)
		parts = append(parts, fmt.Sprintf("%d:%s", class, strings.TrimPrefix(ints(ps), "-")))
	}
	return canonReport(parts), pairs, raw, nil
}

// modelReport: the oracle's report (by function id) in the same canonical form.
func (P *program) modelReport(report string) string {
	var parts []string
	if report != "" {
		for _, part := range strings.Split(report, ";") {
			kv := strings.SplitN(part, ":", 2)
			f, _ := strconv.Atoi(kv[0])
			parts = append(parts, fmt.Sprintf("%d:%s", P.fns[f].class, kv[1]))
		}
	}
	return canonReport(parts)
}

type oracleRes struct {
	wf, known                   bool
	tables, report, missing     string
	launched, excluded, specrec map[int]bool
	missingList                 [][3]string
}

func parseSet(s string) map[int]bool {
	m := map[int]bool{}
	if s == "" {
		return m
	}
	for _, x := range strings.Split(s, ",") {
		n, _ := strconv.Atoi(x)
		m[n] = true
	}
	return m
}

func parseOracle(line, id string) (*oracleRes, error) {
	ws := strings.Split(line, " ")
	if len(ws) != 10 || ws[0] != "res" || ws[1] != id {
		return nil, fmt.Errorf("unexpected oracle answer %q", line)
	}
	get := func(i int, k string) string { return strings.TrimPrefix(ws[i], k+"=") }
	r := &oracleRes{wf: get(2, "wf") == "1", known: get(3, "known") == "1", tables: get(4, "tables"),
		report: get(5, "report"), missing: get(6, "missing"), launched: parseSet(get(7, "launched")),
		excluded: parseSet(get(8, "excluded")), specrec: parseSet(get(9, "specrec"))}
	if r.missing != "" {
		for _, m := range strings.Split(r.missing, ";") {
			p := strings.Split(m, ":")
			r.missingList = append(r.missingList, [3]string{p[0], p[1], p[2]})
		}
	}
	return r, nil
}

// ---- native ground truth ----

type crash struct {
	panicked   bool
	deadlock   bool
	entryFile  string
	entryLine  int
	entryFunc  string
	createFile string
	createLine int
	out        string
}

var frameLoc = regexp.MustCompile(`^\t(.+):(\d+)( \+0x[0-9a-f]+)?$`)

func runNative(bin, dir string, arg string) crash {
	var args []string
	if arg != "" {
		args = []string{arg}
	}
	cmd := exec.Command(bin, args...)
	cmd.Env = append(os.Environ(), "GOTRACEBACK=single", "GOMAXPROCS=2")
	var out bytes.Buffer
	cmd.Stdout = &out
	cmd.Stderr = &out
	done := make(chan error, 1)
	if err := cmd.Start(); err != nil {
		return crash{out: "start: " + err.Error()}
	}
	go func() { done <- cmd.Wait() }()
	select {
	case <-done:
	case <-time.After(20 * time.Second):
		cmd.Process.Kill()
		<-done
		return crash{out: "timeout\n" + out.String()}
	}
	c := crash{out: out.String()}
	lines := strings.Split(c.out, "\n")
	c.deadlock = strings.Contains(c.out, "all goroutines are asleep")
	if !strings.HasPrefix(c.out, "panic: ") {
		return c
	}
	// the first goroutine block is the panicking goroutine
	start := -1
	for i, l := range lines {
		if strings.HasPrefix(l, "goroutine ") && strings.HasSuffix(l, "[running]:") {
			start = i + 1
			break
		}
	}
	if start < 0 {
		return c
	}
	for i := start; i+1 < len(lines) && lines[i] != ""; i += 2 {
		fn := lines[i]
		m := frameLoc.FindStringSubmatch(lines[i+1])
		if m == nil {
			break
		}
		ln, _ := strconv.Atoi(m[2])
		if strings.HasPrefix(fn, "created by ") {
			c.createFile, c.createLine = m[1], ln
			c.panicked = true
			break
		}
		if strings.HasPrefix(m[1], dir+"/") && !strings.Contains(fn, ".gowrap") {
			// frames are listed innermost first: the last one kept is the bottom frame = the entry function
			c.entryFile, c.entryLine, c.entryFunc = m[1], ln, fn
		}
	}
	return c
}

// candidates: the SSA functions whose syntax is the innermost one containing file:line.
func (P *program) candidates(file string, line int) []*fnInfo {
	best := -1
	var out []*fnInfo
	for _, fi := range P.fns {
		if fi.sfile != file || line < fi.sline || line > fi.eline {
			continue
		}
		sz := fi.eline - fi.sline
		if best < 0 || sz < best {
			best, out = sz, []*fnInfo{fi}
		} else if sz == best {
			out = append(out, fi)
		}
	}
	return out
}

// wraps: f is a synthetic wrapper ($bound, $thunk, promoted-method wrapper) that may call g.
func (P *program) wraps(f, g *fnInfo) bool {
	if f.fn.Synthetic == "" {
		return false
	}
	n := P.cg.Nodes[f.fn]
	if n == nil {
		return false
	}
	for _, e := range n.Out {
		if e.Callee.Func == g.fn {
			return true
		}
	}
	return false
}

func contains(xs []int, x int) bool {
	for _, y := range xs {
		if x == y {
			return true
		}
	}
	return false
}

func buildNative(dir string) (string, error) {
	bin := filepath.Join(dir, "prog.bin")
	cmd := exec.Command("go", "build", "-o", bin, ".")
	cmd.Dir = dir
	cmd.Env = append(os.Environ(), "GOFLAGS=-mod=mod", "GOPROXY=off", "GOSUMDB=off", "GOTOOLCHAIN=local", "GOWORK=off")
	out, err := cmd.CombinedOutput()
	if err != nil {
		return "", fmt.Errorf("go build: %v\n%s", err, out)
	}
	return bin, nil
}

func sourceOf(dir string, files map[string]string) string {
	var names []string
	for n := range files {
		names = append(names, n)
	}
	sort.Strings(names)
	var b strings.Builder
	for _, n := range names {
		fmt.Fprintf(&b, "==== %s/%s\n%s\n", dir, n, files[n])
	}
	return b.String()
}

type runCtx struct {
	rep      *lib.Report
	P        *program
	name     string
	files    map[string]string
	module   string
	mismatch int
}

// checkProgram: correspondence for each exclusion list, then native ground truth against the real report
// for the empty exclusion list and for `exclNative`.
var timing = map[string]float64{}

func timed(k string, t0 time.Time) { timing[k] += time.Since(t0).Seconds() }

func checkProgram(rep *lib.Report, name, dir, module string, files map[string]string, exclLists [][]string, nativeArgs []string, hosts []hostInfo) {
	lib.WriteProgram(dir, module, files)
	t0 := time.Now()
	prog, _, err := lib.LoadSSA(dir, ssa.InstantiateGenerics, true, "./...")
	timed("load_s", t0)
	if err != nil {
		rep.Fail("harness-load:"+name, "generated program does not load: "+err.Error(), []byte(sourceOf(dir, files)), true)
		return
	}
	t0 = time.Now()
	P := dump(dir, prog)
	timed("dump_s", t0)
	if P.problem != "" {
		rep.Fail("harness-dump:"+name, P.problem, []byte(sourceOf(dir, files)), true)
		return
	}
	rep.Count("programs")
	rep.Count(fmt.Sprintf("functions<=%d", bucket(len(P.fns))))
	type evalRes struct {
		excl  []string
		pairs map[[2]int]bool
		or    *oracleRes
	}
	var evals []evalRes
	for xi, excl := range exclLists {
		id := fmt.Sprintf("%s.%d", name, xi)
		t0 = time.Now()
		canon, pairs, raw, err := P.realReport(excl)
		timed("real_s", t0)
		if err != nil {
			rep.Fail("real-run:"+name, "the real analysis failed: "+err.Error(), []byte(raw+"\n"+sourceOf(dir, files)), true)
			return
		}
		in := P.oracleInput(id, excl)
		os.WriteFile(filepath.Join(dir, fmt.Sprintf("oracle_in.%d.txt", xi)), in, 0o644)
		t0 = time.Now()
		lines, err := lib.RunOracle("oracle_c19", in)
		timed("oracle_s", t0)
		if err != nil || len(lines) != 1 {
			rep.Fail("oracle-run", fmt.Sprintf("oracle failed: %v (%d lines)", err, len(lines)), nil, true)
			return
		}
		or, err := parseOracle(lines[0], id)
		if err != nil {
			rep.Fail("oracle-run", err.Error(), []byte(lines[0]), true)
			return
		}
		if !or.wf {
			rep.Fail("harness-wf:"+name, "dumped facts are not well-formed (dumper bug)", in, true)
			return
		}
		if !or.known {
			rep.Count("tables-not-understood")
		}
		rep.Extra["tables(goFn,goClosure,goInvoke,goValue,deferFn,deferClosure,recoverBuiltin)"] = or.tables
		evals = append(evals, evalRes{excl, pairs, or})
		rep.Count(fmt.Sprintf("excl-entries=%d", len(excl)))
		rep.Count("analysis-runs")
		if model := P.modelReport(or.report); canon != model {
			// M9 broken: which pairs differ?
			what := fmt.Sprintf("real report differs from MayPanic.report on the dumped facts (exclude=%v)\nreal : %s\nmodel: %s", excl, canon, model)
			content := what + "\n" + P.describe(canon, model) + "\n" + sourceOf(dir, files)
			// is something the property demands missing from the real report?
			var demanded []demand
			for _, d := range P.demandedButMissing(or, pairs) {
				// launch forms the code does not handle at all are the known findings, reported when a
				// native run confirms them; here: a handled form whose demanded function is missing
				if d.form == "fn" || d.form == "closure" {
					demanded = append(demanded, d)
				}
			}
			if len(demanded) > 0 {
				rep.Fail("report-misses:"+demanded[0].form, "real report misses a launched, non-excluded, non-recovering function: "+demanded[0].text, []byte(content), false)
			} else {
				rep.Fail("model-mismatch:"+name, "correspondence M9 broken (MayPanic.report vs MayPanicAnalyzer); no demanded function is missing from the real report on this input", []byte(content), true)
			}
		}
		// static demand (full-strength statement evaluated on this program), against the REAL report
		for _, d := range P.demandedButMissing(or, pairs) {
			rep.Count("static-missing:" + d.form)
			if d.form == "fn" || d.form == "closure" || d.form == "builtin" {
				rep.Fail("report-misses:"+d.form, "static: "+d.text, []byte(d.text+"\n"+sourceOf(dir, files)), false)
			}
		}
	}
	// per go statement: case accounting
	for _, fi := range P.fns {
		if !strings.HasPrefix(fi.file, dir+"/") {
			for range fi.gos {
				rep.Count("go-sites-in-dependencies")
			}
			continue
		}
		for _, s := range fi.gos {
			rep.Count("go-form:" + s.form)
		}
		for _, s := range fi.defers {
			rep.Count("defer-form:" + s.form)
		}
	}
	// native ground truth
	t0 = time.Now()
	bin, err := buildNative(dir)
	timed("build_s", t0)
	t0 = time.Now()
	defer func() { timed("native_s", t0) }()
	if err != nil {
		rep.Fail("harness-build:"+name, err.Error(), []byte(sourceOf(dir, files)), true)
		return
	}
	siteAt := map[string]*site{}
	for _, fi := range P.fns {
		for _, s := range fi.gos {
			siteAt[fmt.Sprintf("%s:%d", s.file, s.line)] = s
		}
	}
	crashes := make([]crash, len(nativeArgs))
	{
		var wg sync.WaitGroup
		sem := make(chan struct{}, 6)
		for ai, arg := range nativeArgs {
			wg.Add(1)
			sem <- struct{}{}
			go func(ai int, arg string) {
				defer func() { <-sem; wg.Done() }()
				crashes[ai] = runNative(bin, dir, arg)
			}(ai, arg)
		}
		wg.Wait()
	}
	for ai, arg := range nativeArgs {
		c := crashes[ai]
		var h *hostInfo
		if ai < len(hosts) {
			h = &hosts[ai]
		}
		caseKey := ""
		if h != nil {
			caseKey = fmt.Sprintf("%s/%s/%d>%d/boom=%v", h.launch, h.rec, h.hostPkg, h.workerPkg, h.viaBoom)
			rep.Count("launch:" + h.launch)
			rep.Count("rec:" + h.rec)
		}
		rep.Case(caseKey)
		if !c.panicked {
			switch {
			case c.deadlock:
				rep.Count("native:recovered-or-no-goroutine-panic")
			default:
				rep.Count("native:other-outcome")
				rep.Notes = append(rep.Notes, fmt.Sprintf("%s arg %s: unexpected native outcome: %.300s", name, arg, c.out))
			}
			continue
		}
		rep.Count("native:goroutine-panic")
		s := siteAt[fmt.Sprintf("%s:%d", c.createFile, c.createLine)]
		cands := P.candidates(c.entryFile, c.entryLine)
		if s == nil || len(cands) == 0 {
			rep.Fail("harness-trace:"+name, fmt.Sprintf("cannot map the crash trace to the program (created by %s:%d, entry %s %s:%d)", c.createFile, c.createLine, c.entryFunc, c.entryFile, c.entryLine),
				[]byte(c.out+"\n"+sourceOf(dir, files)), true)
			continue
		}
		rep.Count("native-go-form:" + s.form)
		// semantic assumption: the entry function is one of the launched functions of the statement
		// (L = the call-graph callees of the statement that are the crashed entry function, or a synthetic
		// wrapper of it: $bound / $thunk / promoted-method wrapper)
		var L []*fnInfo
		for _, cid := range s.callees {
			f := P.fns[cid]
			for _, g := range cands {
				if f == g || P.wraps(f, g) {
					L = append(L, f)
					break
				}
			}
		}
		if len(L) == 0 {
			rep.Fail("harness-launched:"+name, fmt.Sprintf("the entry function %s of the goroutine created at %s is not among the call-graph callees of that go statement (semantic assumption / call graph)", c.entryFunc, s.posStr),
				[]byte(c.out+"\n"+sourceOf(dir, files)), true)
			continue
		}
		if len(nativeArgs) > 0 && ai%37 == 5 {
			rep.Sample(map[string]any{"program": name, "go_statement": s.posStr, "form": s.form, "entry": c.entryFunc, "launch": hostLaunch(h), "rec": hostRec(h)})
		}
		for _, ev := range evals {
			demand, ok := false, true
			for _, f := range L {
				if !ev.or.excluded[f.id] && !ev.or.specrec[f.id] {
					demand = true
					if !ev.pairs[[2]int{f.class, s.pos}] {
						ok = false
					}
				}
			}
			if !demand {
				rep.Count("native:entry-recovers-statically-or-excluded")
				continue
			}
			rep.Count("native:demanded")
			if ok {
				rep.Count("native:demanded-and-reported")
				continue
			}
			what := fmt.Sprintf("a run is terminated by a panic in the goroutine created at %s (go statement of form %q); its entry function %s has no recovering defer and is not excluded (exclude=%v) but is not in the report", s.posStr, s.form, c.entryFunc, ev.excl)
			content := what + "\nrun: prog.bin " + arg + "\n" + c.out + "\n" + sourceOf(dir, files)
			rep.Fail("go-form:"+s.form, what, []byte(content), false)
		}
	}
}

func hostLaunch(h *hostInfo) string {
	if h == nil {
		return ""
	}
	return h.launch
}

func hostRec(h *hostInfo) string {
	if h == nil {
		return ""
	}
	return h.rec
}

type demand struct{ form, text string }

// demandedButMissing: pairs the full-strength statement demands (oracle `needed`, via `missing` computed
// against the model's report, re-evaluated here against the REAL report).
func (P *program) demandedButMissing(or *oracleRes, real map[[2]int]bool) []demand {
	var out []demand
	seen := map[string]bool{}
	add := func(f, pos int, form string) {
		if real[[2]int{P.fns[f].class, pos}] {
			return
		}
		k := fmt.Sprintf("%d:%d", f, pos)
		if seen[k] {
			return
		}
		seen[k] = true
		out = append(out, demand{form, fmt.Sprintf("go statement at %s (form %s) may launch %s, which is not excluded and has no recovering defer; not reported with that creation site",
			P.posStrs[pos], form, P.fns[f].fn.String())})
	}
	for _, m := range or.missingList {
		f, _ := strconv.Atoi(m[0])
		p, _ := strconv.Atoi(m[1])
		add(f, p, m[2])
	}
	// pairs the model reports (hence demanded or over-reported) that the real report lacks
	if or.report != "" {
		for _, part := range strings.Split(or.report, ";") {
			kv := strings.SplitN(part, ":", 2)
			f, _ := strconv.Atoi(kv[0])
			if or.specrec[f] || or.excluded[f] {
				continue
			}
			for _, ps := range strings.Split(kv[1], ",") {
				p, _ := strconv.Atoi(ps)
				form := "?"
				for _, fi := range P.fns {
					for _, s := range fi.gos {
						if s.pos == p {
							form = s.form
						}
					}
				}
				add(f, p, form)
			}
		}
	}
	return out
}

func (P *program) describe(real, model string) string {
	set := func(s string) map[string]bool {
		m := map[string]bool{}
		if s != "" {
			for _, p := range strings.Split(s, ";") {
				m[p] = true
			}
		}
		return m
	}
	r, m := set(real), set(model)
	var b strings.Builder
	name := func(p string) string {
		c, _ := strconv.Atoi(strings.SplitN(p, ":", 2)[0])
		if m := P.members[c]; len(m) > 0 {
			return fmt.Sprintf("%s ×%d", m[0].fn.String(), len(m))
		}
		return "?"
	}
	for p := range r {
		if !m[p] {
			fmt.Fprintf(&b, "only real : %s (%s)\n", p, name(p))
		}
	}
	for p := range m {
		if !r[p] {
			fmt.Fprintf(&b, "only model: %s (%s)\n", p, name(p))
		}
	}
	return b.String()
}

func bucket(n int) int {
	for _, b := range []int{64, 256, 1024, 4096, 16384} {
		if n <= b {
			return b
		}
	}
	return 1 << 20
}

func exclVariants(dir string, spec progSpec, r interface{ Intn(int) int }) [][]string {
	d := func(i int) string { return filepath.Join(dir, spec.dirs[i]) }
	all := [][]string{
		{d(0)},
		{d(0) + "/"},
		{filepath.Join(d(1), "ab.go")},
		{d(2), filepath.Join(dir, "main.go")},
		{filepath.Join(dir, "a.go")},
		{dir + "/"},
		{d(2) + "/", d(0)},
		{filepath.Join(d(0), "a.go"), filepath.Join(d(1), "nothere.go")},
		{d(0)[:len(d(0))-0] + "x"},
	}
	return [][]string{nil, all[r.Intn(len(all))], all[r.Intn(len(all))]}
}

func main() {
	rep := lib.NewReport(prop)
	rep.Rule = "case = one go statement of a generated program executed natively (launch form × recover form × host/worker package × panic directly or via helper); distinct = distinct (launch, rec, packages, helper) tuples; every (launch form × recover form) combination occurs in every run; each program is analysed under 3 exclusion lists"
	r := lib.Rand("c19")

	// 1. fixed corpus: replays of the known findings (F9), then of earlier failures
	corpus := filepath.Join(lib.Root(), "corpus", "findings", "F09_maypanic_launch_forms")
	for _, sub := range []string{"invoke", "value"} {
		src, err := os.ReadFile(filepath.Join(corpus, sub, "main.go"))
		if err != nil {
			rep.Notes = append(rep.Notes, "corpus replay missing: "+sub)
			continue
		}
		dir := lib.WorkDir(prop, "corpus_"+sub)
		checkProgram(rep, "corpus_"+sub, dir, "vcorpus", map[string]string{"main.go": string(src)}, [][]string{nil}, []string{""}, nil)
	}

	// 2. generated programs
	var combos []combo
	for _, l := range launchForms {
		for _, rc := range recForms {
			combos = append(combos, combo{l, rc})
		}
	}
	r.Shuffle(len(combos), func(i, j int) { combos[i], combos[j] = combos[j], combos[i] })
	rounds := 1
	if lib.Thorough() {
		rounds = 6
	}
	rep.Extra["launch_forms"] = len(launchForms)
	rep.Extra["recover_forms"] = len(recForms)
	n := 0
	for round := 0; round < rounds; round++ {
		if round > 0 {
			r.Shuffle(len(combos), func(i, j int) { combos[i], combos[j] = combos[j], combos[i] })
		}
		specs := progSpecs
		if !lib.Thorough() {
			specs = progSpecs[:3]
		}
		np := len(specs)
		for pi, spec := range specs {
			var mine []combo
			for ci, c := range combos {
				if ci%np == pi {
					mine = append(mine, c)
				}
			}
			files, hosts := genProgram(spec, r, mine)
			name := fmt.Sprintf("p%d", n)
			n++
			dir := lib.WorkDir(prop, name)
			var args []string
			for _, h := range hosts {
				args = append(args, strconv.Itoa(h.k))
			}
			checkProgram(rep, name, dir, spec.module, files, exclVariants(dir, spec, r), args, hosts)
		}
	}
	rep.Extra["timing"] = timing
	rep.Finish()
}
