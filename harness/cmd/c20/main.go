// Driver for C20 — the analyzer's own parallelism.
//
//	M2   the REAL funcutil.MapParallel (through the verif re-export analysis/verifhooks) with an
//	     instrumented f, in a child process (a crash or deadlock of the real code must not take
//	     the driver down): result == sequential Map, observed event trace accepted by the Lean LTS
//	     (oracle_c20 replays it transition by transition and runs the model to its terminal state),
//	     model result == real result, goroutine count back to baseline, forced schedules realised.
//	T9   the verdict of the regenerated go-statement table (is BuildGraph's writer joined).
//	race a `go build -race` binary (harness/cmd/c20race) running the REAL taint analysis under
//	     report-summaries / report-coverage / report-paths / summarize-on-demand combinations;
//	     every race-detector report and every report file that is incomplete when the analysis
//	     returns is a concrete replay.
package main

import (
	"bufio"
	"bytes"
	"crypto/sha1"
	"fmt"
	"os"
	"os/exec"
	"path/filepath"
	"runtime"
	"sort"
	"strconv"
	"strings"
	"sync"
	"time"

	"github.com/awslabs/ar-go-tools/analysis/verifhooks"
	"verif/harness/lib"
	"verif/harness/mugo"
)

const f6Key = "F6-report-summaries-writer-unjoined"

// ---------------------------------------------------------------------------------------------
// M2 child: run the real MapParallel

type scen struct {
	id      string
	length  int
	n       int
	pattern int
	pseed   int64
}

func (s scen) String() string {
	return fmt.Sprintf("%s %d %d %d %d", s.id, s.length, s.n, s.pattern, s.pseed)
}

func parseScen(l string) (scen, bool) {
	f := strings.Fields(l)
	if len(f) != 5 {
		return scen{}, false
	}
	a, e1 := strconv.Atoi(f[1])
	b, e2 := strconv.Atoi(f[2])
	c, e3 := strconv.Atoi(f[3])
	d, e4 := strconv.ParseInt(f[4], 10, 64)
	if e1 != nil || e2 != nil || e3 != nil || e4 != nil {
		return scen{}, false
	}
	return scen{f[0], a, b, c, d}, true
}

func effWorkers(n int) int {
	if n <= 0 {
		return 1
	}
	return n
}

func goid() int64 {
	var buf [64]byte
	n := runtime.Stack(buf[:], false)
	// "goroutine 123 [running]:"
	f := strings.Fields(string(buf[:n]))
	if len(f) < 2 {
		return -1
	}
	id, _ := strconv.ParseInt(f[1], 10, 64)
	return id
}

// mapParGoroutines counts the goroutines that were created by (or are running) funcutil.MapParallel:
// their stack dump mentions it in a frame or in the "created by" line. Unrelated goroutines (runtime,
// timers, finalizers, the harness) are not counted.
func mapParGoroutines() int {
	buf := make([]byte, 1<<20)
	for {
		n := runtime.Stack(buf, true)
		if n < len(buf) {
			buf = buf[:n]
			break
		}
		buf = make([]byte, 2*len(buf))
	}
	c := 0
	for _, blk := range strings.Split(string(buf), "\n\n") {
		if strings.Contains(blk, "funcutil.MapParallel") {
			c++
		}
	}
	return c
}

type event struct {
	kind byte
	idx  int
	slot int
}

const (
	patNone = iota
	patReverseSleep
	patGosched
	patBarrier
	patRandSleep
	patHoldFirst
	numPatterns
)

var patName = []string{"none", "reverse-sleep", "gosched", "barrier", "rand-sleep", "hold-first"}

func runScenario(s scen, w *bufio.Writer) {
	fmt.Fprintf(w, "begin %s\n", s)
	w.Flush()
	eff := effWorkers(s.n)
	a := make([]int, s.length)
	for i := range a {
		a[i] = i
	}
	var mu sync.Mutex
	var events []event
	slots := map[int64]int{}
	inflight, maxc := 0, 0
	started := make([]bool, s.length)
	nStarted := 0
	forcedTimeout := false
	cond := sync.NewCond(&mu)
	party := eff
	if s.length < party {
		party = s.length
	}
	// waitUntil blocks (holding no lock while sleeping) until pred holds or 60 s passed
	waitUntil := func(pred func() bool) {
		deadline := time.Now().Add(60 * time.Second)
		timer := time.AfterFunc(61*time.Second, func() { mu.Lock(); cond.Broadcast(); mu.Unlock() })
		defer timer.Stop()
		mu.Lock()
		for !pred() {
			if time.Now().After(deadline) {
				forcedTimeout = true
				break
			}
			cond.Wait()
		}
		mu.Unlock()
	}
	f := func(x int) int {
		g := goid()
		mu.Lock()
		slot, ok := slots[g]
		if !ok {
			slot = len(slots)
			slots[g] = slot
		}
		events = append(events, event{'s', x, slot})
		inflight++
		if inflight > maxc {
			maxc = inflight
		}
		if x >= 0 && x < len(started) && !started[x] {
			started[x] = true
			nStarted++
		}
		cond.Broadcast()
		mu.Unlock()
		switch s.pattern {
		case patReverseSleep:
			time.Sleep(time.Duration(s.length-x) * 30 * time.Microsecond)
		case patGosched:
			for k := 0; k < int((int64(x)*7+s.pseed)%6); k++ {
				runtime.Gosched()
			}
		case patBarrier:
			if x < party {
				waitUntil(func() bool { return nStarted >= party })
			}
		case patRandSleep:
			h := uint64(s.pseed)*6364136223846793005 + uint64(x)*1442695040888963407
			h ^= h >> 29
			time.Sleep(time.Duration(h%200) * time.Microsecond)
		case patHoldFirst:
			if x == 0 && eff >= 2 && s.length >= 2 {
				waitUntil(func() bool { return started[s.length-1] })
			}
		}
		mu.Lock()
		events = append(events, event{'e', x, slot})
		inflight--
		mu.Unlock()
		return 3*x + 1
	}
	var res []int
	done := make(chan struct{})
	go func() {
		res = verifhooks.MapParallel(a, f, s.n)
		close(done)
	}()
	select {
	case <-done:
	case <-time.After(240 * time.Second):
		buf := make([]byte, 1<<20)
		n := runtime.Stack(buf, true)
		fmt.Fprintf(w, "deadlock %s\n", s.id)
		w.Flush()
		os.Stderr.Write(buf[:n])
		os.Exit(3)
	}
	// no goroutine of MapParallel survives its return (exits are asynchronous after close(out): poll)
	leak := 0
	for k := 0; k < 3000; k++ {
		leak = mapParGoroutines()
		if leak <= 0 {
			break
		}
		time.Sleep(5 * time.Millisecond)
	}
	seq := verifhooks.Map(a, func(x int) int { return 3*x + 1 })
	seqok := len(seq) == len(res)
	if seqok {
		for i := range seq {
			if seq[i] != res[i] {
				seqok = false
			}
		}
	}
	fmt.Fprintf(w, "case %s %d %d\n", s.id, s.length, s.n)
	mu.Lock()
	for _, e := range events {
		fmt.Fprintf(w, "ev %c %d %d\n", e.kind, e.idx, e.slot)
	}
	mu.Unlock()
	if len(res) == 0 {
		fmt.Fprintf(w, "res -\n")
	} else {
		parts := make([]string, len(res))
		for i, v := range res {
			parts[i] = strconv.Itoa(v)
		}
		fmt.Fprintf(w, "res %s\n", strings.Join(parts, ","))
	}
	fmt.Fprintf(w, "go\n")
	ooo := 0 // completions out of index order
	last := -1
	for _, e := range events {
		if e.kind == 'e' {
			if e.idx < last {
				ooo++
			}
			if e.idx > last {
				last = e.idx
			}
		}
	}
	fmt.Fprintf(w, "meta %s seqok=%v leak=%d maxc=%d slots=%d forcedTimeout=%v ooo=%d\n",
		s.id, seqok, leak, maxc, len(slots), forcedTimeout, ooo)
	w.Flush()
}

// stressChild: many plain calls of the real MapParallel (cheap f, no instrumentation, many workers): every
// element processed exactly once, in place. A lost or duplicated element under a rare interleaving shows here.
func stressChild(calls, length, n int) {
	a := make([]int, length)
	for i := range a {
		a[i] = i
	}
	f := func(x int) int { return 3*x + 1 }
	for c := 0; c < calls; c++ {
		var res []int
		done := make(chan struct{})
		go func() { res = verifhooks.MapParallel(a, f, n); close(done) }()
		select {
		case <-done:
		case <-time.After(240 * time.Second):
			fmt.Printf("stress deadlock call=%d\n", c)
			os.Exit(3)
		}
		if len(res) != length {
			fmt.Printf("stress bad call=%d len=%d want=%d\n", c, len(res), length)
			return
		}
		for i, v := range res {
			if v != 3*i+1 {
				fmt.Printf("stress bad call=%d index=%d got=%d want=%d\n", c, i, v, 3*i+1)
				return
			}
		}
	}
	fmt.Printf("stress ok calls=%d\n", calls)
}

func m2Child(file string) {
	b, err := os.ReadFile(file)
	if err != nil {
		fmt.Fprintln(os.Stderr, err)
		os.Exit(2)
	}
	w := bufio.NewWriter(os.Stdout)
	for _, l := range strings.Split(string(b), "\n") {
		if s, ok := parseScen(l); ok {
			runScenario(s, w)
		}
	}
	fmt.Fprintln(w, "end")
	w.Flush()
}

// ---------------------------------------------------------------------------------------------
// parent

func kv(fields []string) map[string]string {
	m := map[string]string{}
	for _, f := range fields {
		if i := strings.IndexByte(f, '='); i > 0 {
			m[f[:i]] = f[i+1:]
		}
	}
	return m
}

func runM2(rep *lib.Report) {
	r := lib.Rand("c20-m2")
	maxLen, maxN, seedsPer := 40, 8, 1
	if lib.Thorough() {
		maxLen, maxN, seedsPer = 130, 20, 3
	}
	var scens []scen
	k := 0
	add := func(l, n, p int) {
		scens = append(scens, scen{fmt.Sprintf("s%d", k), l, n, p, r.Int63n(1 << 30)})
		k++
	}
	for l := 0; l <= maxLen; l++ {
		for n := -1; n <= maxN; n++ {
			for p := 0; p < numPatterns; p++ {
				// sleeping patterns only on a sample of the larger sizes (time)
				if (p == patReverseSleep || p == patRandSleep) && l > 12 && r.Intn(4) != 0 {
					continue
				}
				for q := 0; q < seedsPer; q++ {
					add(l, n, p)
					if p == patNone || p == patBarrier || p == patHoldFirst {
						break
					}
				}
			}
		}
	}
	// a few large ones
	for _, l := range []int{257, 1000} {
		for _, n := range []int{1, 3, 16, 64} {
			add(l, n, patGosched)
			add(l, n, patHoldFirst)
		}
	}
	// large inputs, len 65..5000 x workers -1..8 (an implementation that partitions the input into batches
	// is only exercised when len is large compared with the number of workers, and not a multiple of anything)
	for n := -1; n <= 8; n++ {
		e := effWorkers(n)
		ls := []int{64*e + 1, 65 + r.Intn(1400), 1500 + r.Intn(3500)}
		if lib.Thorough() {
			ls = append(ls, 64*e+33, 128*e+7, 65+r.Intn(4900), 65+r.Intn(4900), 4999, 5000)
		}
		for k, l := range ls {
			if k%2 == 0 {
				add(l, n, patNone)
			} else {
				add(l, n, patGosched)
			}
		}
	}
	work := lib.WorkDir("C20", "m2")
	sf := filepath.Join(work, "scenarios.txt")
	var sb strings.Builder
	byID := map[string]scen{}
	for _, s := range scens {
		sb.WriteString(s.String() + "\n")
		byID[s.id] = s
	}
	os.WriteFile(sf, []byte(sb.String()), 0o644)

	self, _ := os.Executable()
	cmd := exec.Command(self, "m2child", sf)
	var out, errb bytes.Buffer
	cmd.Stdout, cmd.Stderr = &out, &errb
	t0 := time.Now()
	err := cmd.Run()
	rep.Extra["m2_child_wall_s"] = time.Since(t0).Seconds()
	lines := strings.Split(out.String(), "\n")
	lastBegin := ""
	var oracleIn bytes.Buffer
	metas := map[string]map[string]string{}
	ended := false
	for _, l := range lines {
		switch {
		case strings.HasPrefix(l, "begin "):
			lastBegin = strings.TrimPrefix(l, "begin ")
		case strings.HasPrefix(l, "meta "):
			f := strings.Fields(l)
			metas[f[1]] = kv(f[2:])
		case strings.HasPrefix(l, "case "), strings.HasPrefix(l, "ev "), strings.HasPrefix(l, "res "), l == "go":
			oracleIn.WriteString(l + "\n")
		case l == "end":
			ended = true
		}
	}
	if err != nil || !ended {
		what := "the real MapParallel crashed"
		if strings.Contains(out.String(), "deadlock ") {
			what = "the real MapParallel did not return within 240 s (deadlock)"
		}
		content := fmt.Sprintf("scenario (id length numRoutines pattern pseed): %s\npattern: see harness/cmd/c20 (a[i]=i, f(x)=3x+1 instrumented)\nexit: %v\n--- stderr of the child ---\n%s\n",
			lastBegin, err, tail(errb.String(), 6000))
		rep.Fail("m2-crash-"+strings.ReplaceAll(lastBegin, " ", "_"), what+" on scenario "+lastBegin, []byte(content), false)
	}
	ans, oerr := lib.RunOracle("oracle_c20", oracleIn.Bytes())
	if oerr != nil {
		rep.Fail("oracle", "oracle_c20 failed: "+oerr.Error(), nil, true)
		return
	}
	verdict := map[string]string{}
	for _, l := range ans {
		f := strings.Fields(l)
		if len(f) >= 2 {
			verdict[f[1]] = l
		}
	}
	oooTotal, accepted := 0, 0
	for _, s := range scens {
		m, ok := metas[s.id]
		if !ok {
			continue // not reached (child died); already reported
		}
		eff := effWorkers(s.n)
		key := fmt.Sprintf("len=%d,n=%d,pat=%s", s.length, s.n, patName[s.pattern])
		triv := ""
		if s.length > 0 {
			triv = key
		}
		rep.Case(triv)
		rep.Count("pattern/" + patName[s.pattern])
		switch {
		case s.n <= 0:
			rep.Count("workers/<=0")
		case s.n == 1:
			rep.Count("workers/1")
		case s.n <= 4:
			rep.Count("workers/2-4")
		default:
			rep.Count("workers/>4")
		}
		switch {
		case s.length == 0:
			rep.Count("length/0")
		case s.length < eff:
			rep.Count("length/<workers")
		default:
			rep.Count("length/>=workers")
		}
		replay := func(extra string) []byte {
			return []byte(fmt.Sprintf("scenario (id length numRoutines pattern pseed): %s  pattern=%s\nmeta: %v\noracle: %s\n%s\nreplay: VERIF_SEED=%d ./check C20 %s (scenario list in .work/C20/m2/scenarios.txt; child: <driver> m2child <file>)\n",
				s, patName[s.pattern], m, verdict[s.id], extra, lib.Seed(), lib.Tier()))
		}
		if m["seqok"] != "true" {
			rep.Fail("m2-result-"+key, "MapParallel result differs from the sequential Map for "+key, replay(""), false)
			continue
		}
		if lk, _ := strconv.Atoi(m["leak"]); lk > 0 {
			rep.Fail("m2-leak-"+key, fmt.Sprintf("%d goroutine(s) created by MapParallel still alive 15 s after it returned (%s)", lk, key), replay(""), false)
			continue
		}
		v := verdict[s.id]
		switch {
		case strings.HasPrefix(v, "ok "):
			accepted++
		case strings.HasPrefix(v, "reject "), strings.HasPrefix(v, "resdiff "):
			// the real result is right (seqok) but the run is not a run of the model
			rep.Fail("m2-trace-"+key, "observed event trace of the real MapParallel is not a run of the MapPar LTS ("+key+"): "+v, replay(""), true)
			continue
		default:
			rep.Fail("m2-oracle-"+key, "no oracle verdict for "+s.id+": "+v, replay(""), true)
			continue
		}
		// model admits: numRoutines workers busy at once / element 0 finishing last
		party := eff
		if s.length < party {
			party = s.length
		}
		if m["forcedTimeout"] == "true" {
			rep.Fail("m2-forced-"+key, "a schedule the LTS admits ("+patName[s.pattern]+") was not realised by the real code within 60 s: fewer than numRoutines workers are running ("+key+")", replay(""), true)
			continue
		}
		if s.pattern == patBarrier {
			if mc, _ := strconv.Atoi(m["maxc"]); mc != party {
				rep.Fail("m2-conc-"+key, fmt.Sprintf("barrier pattern: %d calls of f in flight, model has %d (%s)", mc, party, key), replay(""), true)
				continue
			}
		}
		o, _ := strconv.Atoi(m["ooo"])
		oooTotal += o
		if o > 0 {
			rep.Count("out-of-order-completion")
		}
		if len(rep.Samples) < 4 && o > 0 {
			rep.Sample(map[string]any{"scenario": key, "out_of_order_completions": o, "oracle": v, "max_in_flight": m["maxc"]})
		}
	}
	// stress: 2000 jobs, 16 workers, many calls
	{
		calls := 2500
		if lib.Thorough() {
			calls = 12000
		}
		for _, cfg := range [][2]int{{2000, 16}, {257, 5}} {
			nc := calls
			if cfg[0] < 2000 {
				nc = calls / 2
			}
			c := exec.Command(self, "stress", strconv.Itoa(nc), strconv.Itoa(cfg[0]), strconv.Itoa(cfg[1]))
			out, err := c.CombinedOutput()
			o := strings.TrimSpace(string(out))
			key := fmt.Sprintf("stress-len=%d,n=%d", cfg[0], cfg[1])
			rep.Case(key)
			rep.Count("stress-calls/" + key)
			if !strings.HasPrefix(lastLine(o), "stress ok") {
				rep.Fail("m2-"+key, fmt.Sprintf("MapParallel(len=%d, numRoutines=%d) repeated %d times: %s (%v)", cfg[0], cfg[1], nc, lastLine(o), err),
					[]byte(fmt.Sprintf("replay: <driver> stress %d %d %d   (a[i]=i, f(x)=3x+1; every call must return [1,4,7,…])\n%s\n", nc, cfg[0], cfg[1], tail(o, 4000))), false)
			}
		}
		rep.Extra["stress_calls"] = calls
	}
	rep.Extra["m2_scenarios"] = len(scens)
	rep.Extra["m2_traces_accepted_by_lts"] = accepted
	rep.Extra["m2_out_of_order_completions"] = oooTotal
}

func lastLine(s string) string {
	if i := strings.LastIndexByte(s, '\n'); i >= 0 {
		return s[i+1:]
	}
	return s
}

func tail(s string, n int) string {
	if len(s) > n {
		return "…" + s[len(s)-n:]
	}
	return s
}

// ---------------------------------------------------------------------------------------------
// race-detector part

func goEnv() []string {
	return append(os.Environ(), "GOFLAGS=-mod=mod", "GOPROXY=off", "GOSUMDB=off", "GOTOOLCHAIN=local", "GOWORK=off")
}

// modfileArg mirrors ./check: a harness go.mod whose replace points at $VERIF_REPO.
func modfileArg() []string {
	repo := lib.RepoDir()
	if repo == "/repo" {
		return nil
	}
	h := fmt.Sprintf("%x", sha1.Sum([]byte(repo)))[:10]
	return []string{"-modfile=" + filepath.Join(lib.Root(), ".work", "mod", "go."+h+".mod")}
}

const progConfig = `options:
  log-level: 1
taint-tracking-problems:
  - sources:
      - method: "^source_?\\d*$"
    sinks:
      - method: "^sink_?\\d*$"
`

func runRace(rep *lib.Report, joinCode int) {
	work := lib.WorkDir("C20", "race")
	// program: import-free µGo (the race build of the pointer analysis is slow on the standard library)
	cases := 60
	if lib.Thorough() {
		cases = 150
	}
	p := mugo.Generate(lib.Rand("c20-prog"), mugo.Options{Cases: cases})
	pdir := filepath.Join(work, "prog")
	os.MkdirAll(pdir, 0o755)
	if err := p.Write(pdir); err != nil {
		rep.Fail("race-gen", "cannot write the generated program: "+err.Error(), nil, true)
		return
	}
	os.Remove(filepath.Join(pdir, "rt_gt.go"))
	os.WriteFile(filepath.Join(pdir, "config.yaml"), []byte(progConfig), 0o644)

	bin := filepath.Join(lib.Root(), ".work", "C20", "c20race.bin")
	args := append([]string{"build"}, modfileArg()...)
	args = append(args, "-race", "-tags", "verif", "-o", bin, "./cmd/c20race")
	b := exec.Command("go", args...)
	b.Dir = filepath.Join(lib.Root(), "harness")
	b.Env = goEnv()
	t0 := time.Now()
	if out, err := b.CombinedOutput(); err != nil {
		// no race detector in this environment (cgo / C compiler missing, …): the memory-level search cannot run.
		// (If the harness itself no longer built, ./check has already reported it.)
		rep.Notes = append(rep.Notes, "go build -race failed, race-detector part skipped: "+tail(string(out), 600))
		rep.Extra["race_part"] = "skipped: go build -race failed"
		return
	}
	rep.Extra["race_build_s"] = time.Since(t0).Seconds()

	// a program in which many functions read and write the same globals (the summary workers then
	// register read / write locations on the same GlobalNode concurrently)
	gdir := filepath.Join(work, "sharedglobal")
	os.MkdirAll(gdir, 0o755)
	{
		var b strings.Builder
		b.WriteString("package main\n\nfunc source_1() string { return \"t\" }\nfunc sink_1(x string)  {}\n\nvar G string\nvar H string\nvar K []string\n\n")
		nf := 160
		for i := 0; i < nf; i++ {
			fmt.Fprintf(&b, "func f%d(s string) string {\n\tH = s + G\n\tK = append(K, G)\n\tif len(K) > %d {\n\t\treturn H\n\t}\n\treturn G + K[0]\n}\n\n", i, i)
		}
		b.WriteString("func main() {\n\tG = source_1()\n\tx := \"\"\n")
		for i := 0; i < nf; i++ {
			fmt.Fprintf(&b, "\tx = f%d(x)\n", i)
		}
		b.WriteString("\tsink_1(x)\n\tsink_1(H)\n}\n")
		os.WriteFile(filepath.Join(gdir, "main.go"), []byte(b.String()), 0o644)
		os.WriteFile(filepath.Join(gdir, "go.mod"), []byte("module vprog\n\ngo 1.22\n"), 0o644)
		os.WriteFile(filepath.Join(gdir, "config.yaml"), []byte(progConfig), 0o644)
	}
	progs := []string{"dir:" + pdir, "dir:" + gdir}
	reps := "1"
	masks := "0,1,7,9,15"
	if lib.Thorough() {
		reps = "2"
		masks = "0,1,2,3,4,5,6,7,8,9,10,11,12,13,14,15"
	}
	logPrefix := filepath.Join(work, "racelog")
	// worker counts: the tool uses NumCPU-1 workers; NumCPU is the affinity mask at start-up
	cpuSets := []string{""}
	if _, err := exec.LookPath("taskset"); err == nil {
		cpuSets = []string{"", "0-1"}
		if lib.Thorough() {
			cpuSets = append(cpuSets, "0-3")
		}
	}
	type runLine struct {
		cpus string
		f    map[string]string
		raw  string
	}
	var runs []runLine
	var childErr []string
	type raceRun struct {
		cpus, reps, masks string
		progs             []string
	}
	var rruns []raceRun
	for _, cs := range cpuSets {
		rruns = append(rruns, raceRun{cs, reps, masks, progs})
	}
	if lib.Thorough() {
		// one program that imports the standard library (the race build of the pointer analysis is slow)
		rruns = append(rruns, raceRun{"", "1", "1,9", []string{"testdata:taint/closures"}})
	}
	for ci, rr := range rruns {
		cs := rr.cpus
		cargs := append([]string{bin, work, rr.reps, rr.masks}, rr.progs...)
		var c *exec.Cmd
		if cs == "" {
			c = exec.Command(cargs[0], cargs[1:]...)
		} else {
			c = exec.Command("taskset", append([]string{"-c", cs}, cargs...)...)
		}
		c.Env = append(goEnv(), fmt.Sprintf("GORACE=log_path=%s.%d halt_on_error=0 history_size=3", logPrefix, ci))
		var out, errb bytes.Buffer
		c.Stdout, c.Stderr = &out, &errb
		done := make(chan error, 1)
		go func() { done <- c.Run() }()
		var err error
		select {
		case err = <-done:
		case <-time.After(20 * time.Minute):
			c.Process.Kill()
			err = fmt.Errorf("timeout")
		}
		// exit status 66 = the race detector reported something; that is handled through the log files
		if err != nil && !strings.Contains(err.Error(), "exit status 66") {
			childErr = append(childErr, fmt.Sprintf("cpus=%q: %v\n%s", cs, err, tail(errb.String(), 3000)))
		}
		for _, l := range strings.Split(out.String(), "\n") {
			if strings.HasPrefix(l, "run ") {
				runs = append(runs, runLine{cs, kv(strings.Fields(l)[1:]), l})
			}
			if strings.HasPrefix(l, "loaderr ") {
				childErr = append(childErr, l)
			}
		}
	}
	for _, e := range childErr {
		if strings.Contains(e, "all goroutines are asleep") {
			rep.Fail("analysis-deadlock", "the real analysis deadlocked (Go runtime: all goroutines are asleep): "+strings.SplitN(e, "\n", 2)[0], []byte(e), false)
		} else if strings.Contains(e, "fatal error: concurrent map") {
			key := "race-fatal-concurrent-map"
			if strings.Contains(e, "BuildGraph") {
				key = f6Key
			}
			rep.Fail(key, "the Go runtime aborted the real analysis: concurrent map access: "+strings.SplitN(e, "\n", 2)[0], []byte(e), false)
		} else {
			// time-out on a loaded machine, missing tool, … : inconclusive, not evidence
			rep.Notes = append(rep.Notes, "race-detector child did not complete (inconclusive): "+strings.SplitN(e, "\n", 2)[0])
		}
	}
	// (a) report file complete when the analysis returns
	incomplete := 0
	var firstIncomplete string
	flowsBy := map[string]map[string]bool{}
	for _, r := range runs {
		rep.Case("race-run/" + r.f["prog"] + "/mask=" + r.f["mask"] + "/cpus=" + r.cpus)
		rep.Count("race-run/mask=" + r.f["mask"])
		if r.f["panic"] != "" || r.f["cfgerr"] != "" {
			rep.Fail("race-run-failed-"+r.f["mask"], "analysis did not run under the race build: "+r.raw, []byte(r.raw), true)
			continue
		}
		k := r.f["prog"]
		if flowsBy[k] == nil {
			flowsBy[k] = map[string]bool{}
		}
		flowsBy[k][r.f["canon"]] = true
		if exp, ok := r.f["expected"]; ok {
			pr, _ := strconv.Atoi(r.f["present"])
			ex, _ := strconv.Atoi(exp)
			late, _ := strconv.Atoi(r.f["late"])
			if pr < ex || late != 0 {
				incomplete++
				if firstIncomplete == "" {
					firstIncomplete = r.raw
				}
			}
		}
	}
	rep.Extra["race_runs"] = len(runs)
	rep.Extra["summaries_report_incomplete_runs"] = incomplete
	f6Replay := func(extra string) []byte {
		return []byte(fmt.Sprintf("program: %s (generated, µGo seed stream c20-prog) with config\n%s\noptions: report-summaries: true (mask bit 0), see harness/cmd/c20race\nrebuild: cd /verif/harness && go build -race -tags verif -o c20race.bin ./cmd/c20race && GORACE=log_path=racelog ./c20race.bin <workdir> 1 1,9 dir:%s\nmodel witness: Argot.ReportWriter.unjoined_incomplete / unjoined_race (Lean), T9 join code = %d\n%s\n",
			pdir, progConfig, pdir, joinCode, extra))
	}
	if incomplete > 0 {
		what := fmt.Sprintf("report-summaries file incomplete when the analysis returns in %d run(s): the writer goroutine of BuildGraph is not joined and the file is closed by defer; first: %s", incomplete, cut(firstIncomplete, 300))
		if joinCode == 0 {
			rep.Fail(f6Key, what, f6Replay(firstIncomplete), false)
		} else {
			rep.Fail("report-summaries-incomplete-although-joined", what, f6Replay(firstIncomplete), false)
		}
	}
	// (b) race reports
	logs, _ := filepath.Glob(logPrefix + ".*")
	nRaces := 0
	otherKeys := map[string]string{}
	f6Races := 0
	var f6First string
	for _, lf := range logs {
		bts, _ := os.ReadFile(lf)
		for _, blk := range strings.Split(string(bts), "==================") {
			if !strings.Contains(blk, "WARNING: DATA RACE") {
				continue
			}
			nRaces++
			if strings.Contains(blk, "BuildGraph.func1") {
				f6Races++
				if f6First == "" {
					f6First = blk
				}
				continue
			}
			otherKeys[raceKey(blk)] = blk
		}
	}
	rep.Extra["race_reports"] = nRaces
	rep.Extra["race_reports_writer_goroutine"] = f6Races
	if f6Races > 0 {
		what := fmt.Sprintf("race detector: %d data race(s) involving the unjoined report-summaries writer goroutine (BuildGraph.func1)", f6Races)
		if joinCode == 1 {
			rep.Fail("report-summaries-race-although-joined", what, f6Replay(f6First), false)
		} else {
			rep.Fail(f6Key, what, f6Replay(f6First), false)
		}
	}
	if joinCode == 2 {
		// the model's verdict (Argot.ReportWriter.late_join_race): joined, but only after STEP 3 wrote the map
		rep.Fail("report-writer-joined-after-link", "T9: BuildGraph waits for its writer goroutine only after STEP 3; the map insertions of STEP 3 overlap the writer's iteration (model: late_join_race)",
			f6Replay(fmt.Sprintf("race reports involving the writer in this run: %d", f6Races)), f6Races == 0)
	}
	var oks []string
	for k := range otherKeys {
		oks = append(oks, k)
	}
	sort.Strings(oks)
	for _, k := range oks {
		rep.Fail("race-"+k, "race detector: unsynchronised concurrent access in the analyzer: "+k, []byte(fmt.Sprintf("program: %s\n%s\n%s", pdir, progConfig, otherKeys[k])), false)
	}
	// (c) the report options and worker counts do not change the flows (same program, same on-demand bit
	// is not required here: C05 owns that) — only recorded
	for k, m := range flowsBy {
		rep.Extra["distinct_flow_sets/"+filepath.Base(k)] = len(m)
	}
}

func cut(s string, n int) string {
	if len(s) > n {
		return s[:n] + "…"
	}
	return s
}

// raceKey: the two top user frames of a race report (stable across runs)
func raceKey(blk string) string {
	var frames []string
	lines := strings.Split(blk, "\n")
	for i, l := range lines {
		t := strings.TrimSpace(l)
		if (strings.HasPrefix(t, "Write at") || strings.HasPrefix(t, "Read at") || strings.HasPrefix(t, "Previous write at") || strings.HasPrefix(t, "Previous read at")) && i+1 < len(lines) {
			fr := strings.TrimSpace(lines[i+1])
			if j := strings.IndexByte(fr, '('); j > 0 {
				fr = fr[:j]
			}
			frames = append(frames, fr)
		}
	}
	sort.Strings(frames)
	return strings.Join(frames, "~")
}

func main() {
	if len(os.Args) >= 3 && os.Args[1] == "m2child" {
		m2Child(os.Args[2])
		return
	}
	if len(os.Args) >= 5 && os.Args[1] == "stress" {
		c, _ := strconv.Atoi(os.Args[2])
		l, _ := strconv.Atoi(os.Args[3])
		n, _ := strconv.Atoi(os.Args[4])
		stressChild(c, l, n)
		return
	}
	rep := lib.NewReport("C20")
	rep.Rule = "M2: scenario = (slice length 0..N) x (numRoutines -1..M) x (delay pattern: none / index-reversed sleeps / Gosched bursts / barrier forcing numRoutines calls in flight / random sleeps / element 0 held until the last element started); distinct = (length, numRoutines, pattern); non-trivial = length > 0. Race part: one run of the real taint analysis (race-detector build) per (program, option mask over report-summaries/report-coverage/report-paths/summarize-on-demand, CPU set)"

	// T9 verdict
	joinCode := -1
	ans, err := lib.RunOracle("oracle_c20", []byte("t9\n"))
	if err == nil && len(ans) == 1 && strings.HasPrefix(ans[0], "t9 ") {
		m := kv(strings.Fields(ans[0])[1:])
		joinCode, _ = strconv.Atoi(m["join"])
		rep.Extra["t9_buildgraph_join_code"] = joinCode
		rep.Extra["t9_buildgraph_go_statements"] = m["gos"]
	} else {
		rep.Fail("t9", fmt.Sprintf("oracle_c20 gave no T9 verdict: %v %v", ans, err), nil, true)
	}

	runM2(rep)
	if os.Getenv("C20_SKIP_RACE") == "" {
		runRace(rep, joinCode)
	}
	if joinCode == 0 && rep.Known == 0 && os.Getenv("C20_SKIP_RACE") == "" {
		rep.Notes = append(rep.Notes, "T9 says the report writer is not joined but neither an incomplete file nor a race was observed in this run")
	}
	rep.Finish()
}
