// c20race is built by the C20 driver with `go build -race` and run as a child process: it runs the
// REAL taint analysis on programs under every combination of
// report-summaries / report-coverage / report-paths / summarize-on-demand, and reports per run
//   - what the summaries report file contained at the moment taint.Analyze returned
//     (headers of main-package summaries present / expected; bytes written after the return);
//
// the race detector's own reports go to the files named by GORACE=log_path (parsed by the parent).
//
//	c20race <workdir> <reps> <combo-mask-list> <prog>...     prog = testdata:<analysis>/<name> | dir:<path>
package main

import (
	"fmt"
	"os"
	"path/filepath"
	"sort"
	"strconv"
	"strings"
	"time"

	"verif/harness/optrun"
)

func b(x bool) string {
	if x {
		return "true"
	}
	return "false"
}

func main() {
	if len(os.Args) < 5 {
		fmt.Fprintln(os.Stderr, "usage: c20race <workdir> <reps> <masks> <prog>...")
		os.Exit(2)
	}
	optrun.KeepState = true
	work := os.Args[1]
	reps, _ := strconv.Atoi(os.Args[2])
	var masks []int
	for _, m := range strings.Split(os.Args[3], ",") {
		v, err := strconv.Atoi(m)
		if err != nil {
			fmt.Fprintln(os.Stderr, "bad mask", m)
			os.Exit(2)
		}
		masks = append(masks, v)
	}
	for _, spec := range os.Args[4:] {
		var p *optrun.Program
		var err error
		switch {
		case strings.HasPrefix(spec, "testdata:"):
			parts := strings.SplitN(strings.TrimPrefix(spec, "testdata:"), "/", 2)
			p, err = optrun.LoadTestdata(parts[0], parts[1])
		case strings.HasPrefix(spec, "dir:"):
			dir := strings.TrimPrefix(spec, "dir:")
			var y []byte
			y, err = os.ReadFile(filepath.Join(dir, "config.yaml"))
			if err == nil {
				p, err = optrun.Load(filepath.Base(dir), dir, filepath.Join(dir, "config.yaml"), string(y), true)
			}
		default:
			err = fmt.Errorf("bad program spec")
		}
		if err != nil {
			fmt.Printf("loaderr prog=%s err=%q\n", spec, err.Error())
			continue
		}
		for _, m := range masks {
			for rep := 0; rep < reps; rep++ {
				rs, rc, rp, od := m&1 != 0, m&2 != 0, m&4 != 0, m&8 != 0
				rdir := filepath.Join(work, fmt.Sprintf("reports-%s-%d-%d", strings.ReplaceAll(p.Name, "/", "_"), m, rep))
				os.RemoveAll(rdir)
				o := optrun.Opts{
					"report-summaries": b(rs), "report-coverage": b(rc), "report-paths": b(rp),
					"summarize-on-demand": b(od), "reports-dir": strconv.Quote(rdir),
				}
				res := p.Taint(o)
				line := fmt.Sprintf("run prog=%s mask=%d rep=%d flows=%d", spec, m, rep, len(res.Flows))
				if res.CfgErr != nil {
					fmt.Printf("%s cfgerr=%q\n", line, res.CfgErr.Error())
					continue
				}
				if res.Panic != "" {
					fmt.Printf("%s panic=%q\n", line, strings.SplitN(res.Panic, "\n", 2)[0])
					continue
				}
				if rs && res.State != nil {
					// the file as it is when the analysis has returned
					files, _ := filepath.Glob(filepath.Join(rdir, "summaries-*.out"))
					var content []byte
					if len(files) > 0 {
						content, _ = os.ReadFile(files[0])
					}
					mainPkgs := map[string]bool{}
					for _, pk := range p.Pkgs {
						mainPkgs[pk.PkgPath] = true
					}
					var missing []string
					expected := 0
					for fn, s := range res.State.FlowGraph.Summaries {
						if s == nil || fn.Pkg == nil || !mainPkgs[fn.Pkg.Pkg.Path()] {
							continue
						}
						expected++
						if !strings.Contains(string(content), fn.String()+":\n") {
							missing = append(missing, fn.String())
						}
					}
					sort.Strings(missing)
					time.Sleep(200 * time.Millisecond)
					var later []byte
					if len(files) > 0 {
						later, _ = os.ReadFile(files[0])
					}
					first := ""
					if len(missing) > 0 {
						first = missing[0]
					}
					line += fmt.Sprintf(" sumfiles=%d bytes=%d present=%d expected=%d late=%d firstmissing=%q",
						len(files), len(content), expected-len(missing), expected, len(later)-len(content), first)
				}
				fmt.Println(line + " canon=" + strconv.Quote(strings.Join(res.Flows, ";")))
			}
		}
	}
}
