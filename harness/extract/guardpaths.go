// Shared helper of T3 (reachability) and T4 (maypanic): "guard paths".
//
// For a function body and a predicate that recognises *action* statements (a call of a given
// function, `return true`, `m[k] = true`, …) gpPaths returns, for every action statement, the list of
// guards that enclose it, outermost first, followed by the action's source text:
//
//	range X                  a for/range loop over X
//	E:*ssa.Go|*ssa.Defer     a type-switch case on expression E (case list joined with |; "default")
//	E==v1|v2                 an expression-switch case
//	C  /  !(C)               the then / else arm of `if C`; an identifier condition defined just before by
//	                         `_, ok := M[K]` or `x, ok := V.(T)` is rendered ok{M[K]} / ok{V.(T)}
//	func NAME                the body of a function literal bound to NAME
//
// An EMPTY case clause (`case *ssa.Call:` directly followed by the next `case`) contains no action and
// therefore yields no path: Go's switch does not fall through.  Statement kinds the walker does not know
// (labels, goto, select, fallthrough, …) produce a path starting with "UNPARSED:" so that the Lean side
// rejects the table instead of guessing.
package main

import (
	"fmt"
	"go/ast"
	"go/parser"
	"go/printer"
	"go/token"
	"sort"
	"strings"
)

type gpWalker struct {
	fset     *token.FileSet
	isAction func(w *gpWalker, s ast.Stmt) (string, bool)
	out      [][]string
}

func gpText(fset *token.FileSet, n ast.Node) string {
	var b strings.Builder
	printer.Fprint(&b, fset, n)
	return strings.Join(strings.Fields(b.String()), " ")
}

func (w *gpWalker) text(n ast.Node) string { return gpText(w.fset, n) }

// defs: identifier -> defining expression text (for `_, ok := m[k]`, `x, ok := v.(T)`, `n := e`)
type gpDefs map[string]string

func (d gpDefs) clone() gpDefs {
	c := gpDefs{}
	for k, v := range d {
		c[k] = v
	}
	return c
}

func (w *gpWalker) recordDefs(d gpDefs, s ast.Stmt) {
	as, ok := s.(*ast.AssignStmt)
	if !ok || len(as.Rhs) != 1 {
		return
	}
	rhs := w.text(as.Rhs[0])
	for _, l := range as.Lhs {
		if id, ok := l.(*ast.Ident); ok && id.Name != "_" {
			d[id.Name] = rhs
		}
	}
}

func (w *gpWalker) cond(d gpDefs, e ast.Expr) string {
	if id, ok := e.(*ast.Ident); ok {
		if def, ok := d[id.Name]; ok {
			return id.Name + "{" + def + "}"
		}
	}
	return w.text(e)
}

func (w *gpWalker) emit(guards []string, action string) {
	p := append(append([]string(nil), guards...), action)
	w.out = append(w.out, p)
}

func with(guards []string, g string) []string {
	return append(append([]string(nil), guards...), g)
}

// funcLits walks function literals occurring in the expressions of a simple statement.
func (w *gpWalker) funcLits(guards []string, d gpDefs, s ast.Stmt) {
	name := ""
	if as, ok := s.(*ast.AssignStmt); ok && len(as.Lhs) == 1 && len(as.Rhs) == 1 {
		if id, ok := as.Lhs[0].(*ast.Ident); ok {
			if _, isLit := as.Rhs[0].(*ast.FuncLit); isLit {
				name = id.Name
			}
		}
	}
	ast.Inspect(s, func(n ast.Node) bool {
		if fl, ok := n.(*ast.FuncLit); ok {
			g := "func literal"
			if name != "" {
				g = "func " + name
			}
			w.block(with(guards, g), d.clone(), fl.Body.List)
			return false
		}
		return true
	})
}

func (w *gpWalker) block(guards []string, d gpDefs, list []ast.Stmt) {
	for _, s := range list {
		w.stmt(guards, d, s)
		w.recordDefs(d, s)
	}
}

func (w *gpWalker) stmt(guards []string, d gpDefs, s ast.Stmt) {
	if a, ok := w.isAction(w, s); ok {
		w.emit(guards, a)
		return
	}
	switch x := s.(type) {
	case nil:
	case *ast.BlockStmt:
		w.block(guards, d.clone(), x.List)
	case *ast.IfStmt:
		d2 := d.clone()
		if x.Init != nil {
			w.stmt(guards, d2, x.Init)
			w.recordDefs(d2, x.Init)
		}
		c := w.cond(d2, x.Cond)
		w.block(with(guards, c), d2.clone(), x.Body.List)
		if x.Else != nil {
			w.stmt(with(guards, "!("+c+")"), d2, x.Else)
		}
	case *ast.TypeSwitchStmt:
		d2 := d.clone()
		if x.Init != nil {
			w.recordDefs(d2, x.Init)
		}
		var tag string
		switch a := x.Assign.(type) {
		case *ast.AssignStmt:
			if ta, ok := a.Rhs[0].(*ast.TypeAssertExpr); ok {
				tag = w.text(ta.X)
			}
		case *ast.ExprStmt:
			if ta, ok := a.X.(*ast.TypeAssertExpr); ok {
				tag = w.text(ta.X)
			}
		}
		if tag == "" {
			w.emit(guards, "UNPARSED:typeswitch")
			return
		}
		for _, c := range x.Body.List {
			cc := c.(*ast.CaseClause)
			var ts []string
			for _, t := range cc.List {
				ts = append(ts, w.text(t))
			}
			g := tag + ":default"
			if cc.List != nil {
				g = tag + ":" + strings.Join(ts, "|")
			}
			w.block(with(guards, g), d2.clone(), cc.Body)
		}
	case *ast.SwitchStmt:
		d2 := d.clone()
		if x.Init != nil {
			w.recordDefs(d2, x.Init)
		}
		tag := "true"
		if x.Tag != nil {
			tag = w.cond(d2, x.Tag)
		}
		for _, c := range x.Body.List {
			cc := c.(*ast.CaseClause)
			var vs []string
			for _, v := range cc.List {
				vs = append(vs, w.text(v))
			}
			g := tag + "==default"
			if cc.List != nil {
				g = tag + "==" + strings.Join(vs, "|")
			}
			w.block(with(guards, g), d2.clone(), cc.Body)
		}
	case *ast.RangeStmt:
		w.block(with(guards, "range "+w.text(x.X)), d.clone(), x.Body.List)
	case *ast.ForStmt:
		g := "for"
		if x.Cond != nil {
			g = "for " + w.text(x.Cond)
		}
		w.block(with(guards, g), d.clone(), x.Body.List)
	case *ast.AssignStmt, *ast.ExprStmt, *ast.ReturnStmt, *ast.DeclStmt, *ast.IncDecStmt, *ast.DeferStmt, *ast.GoStmt, *ast.SendStmt:
		w.funcLits(guards, d, s)
	case *ast.EmptyStmt:
	case *ast.BranchStmt:
		// break/continue/goto change which statements run after this point: do not guess
		w.emit(guards, "UNPARSED:"+x.Tok.String())
	default:
		w.emit(guards, fmt.Sprintf("UNPARSED:%T", s))
	}
}

// gpFile parses one Go file of the repository.
func gpFile(path string) (*token.FileSet, *ast.File, error) {
	fset := token.NewFileSet()
	f, err := parser.ParseFile(fset, path, nil, parser.SkipObjectResolution)
	return fset, f, err
}

func gpFunc(f *ast.File, name string) *ast.FuncDecl {
	for _, d := range f.Decls {
		if fd, ok := d.(*ast.FuncDecl); ok && fd.Recv == nil && fd.Name.Name == name && fd.Body != nil {
			return fd
		}
	}
	return nil
}

// gpPaths: guard paths of the actions of function `name`; nil,false if the function is gone.
func gpPaths(fset *token.FileSet, f *ast.File, name string, isAction func(w *gpWalker, s ast.Stmt) (string, bool)) ([][]string, bool) {
	fd := gpFunc(f, name)
	if fd == nil {
		return nil, false
	}
	w := &gpWalker{fset: fset, isAction: isAction}
	w.block(nil, gpDefs{}, fd.Body.List)
	sort.Slice(w.out, func(i, j int) bool { return strings.Join(w.out[i], "\x00") < strings.Join(w.out[j], "\x00") })
	return w.out, true
}

// ---- action recognisers ----

// gpCallOf: an expression statement that calls one of the named functions.
func gpCallOf(names ...string) func(w *gpWalker, s ast.Stmt) (string, bool) {
	return func(w *gpWalker, s ast.Stmt) (string, bool) {
		es, ok := s.(*ast.ExprStmt)
		if !ok {
			return "", false
		}
		call, ok := es.X.(*ast.CallExpr)
		if !ok {
			return "", false
		}
		fn := w.text(call.Fun)
		for _, n := range names {
			if fn == n {
				return w.text(call), true
			}
		}
		return "", false
	}
}

// gpReturnTrue: `return true`.
func gpReturnTrue(w *gpWalker, s ast.Stmt) (string, bool) {
	rs, ok := s.(*ast.ReturnStmt)
	if !ok || len(rs.Results) != 1 {
		return "", false
	}
	if id, ok := rs.Results[0].(*ast.Ident); ok && id.Name == "true" {
		return "return true", true
	}
	return "", false
}

// gpSetTrue: `m[k] = true`.
func gpSetTrue(w *gpWalker, s ast.Stmt) (string, bool) {
	as, ok := s.(*ast.AssignStmt)
	if !ok || len(as.Lhs) != 1 || len(as.Rhs) != 1 || as.Tok != token.ASSIGN {
		return "", false
	}
	if _, ok := as.Lhs[0].(*ast.IndexExpr); !ok {
		return "", false
	}
	if id, ok := as.Rhs[0].(*ast.Ident); ok && id.Name == "true" {
		return w.text(as), true
	}
	return "", false
}

// gpLeanPaths renders [][]string as a Lean `List (List String)` literal.
func gpLeanPaths(ps [][]string) string {
	if len(ps) == 0 {
		return "[]"
	}
	var b strings.Builder
	b.WriteString("[\n")
	for i, p := range ps {
		b.WriteString("  [")
		for j, g := range p {
			if j > 0 {
				b.WriteString(", ")
			}
			b.WriteString(LeanString(g))
		}
		b.WriteString("]")
		if i+1 < len(ps) {
			b.WriteString(",")
		}
		b.WriteString("\n")
	}
	b.WriteString("]")
	return b.String()
}
