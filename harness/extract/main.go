// Command extract is the translator of tie kind T: it reads table-like Go code of the repository
// under verification (go/ast, go/types) and writes Lean data into lean/Argot/Gen/*.lean.
// The generated files are never committed; they are regenerated on every check run.
//
//	extract T6        regenerate one table
//	extract T5 T6     several
//	extract all       every registered table
//
// One file per table (t5_builtins.go, t6_stdtable.go, …); each registers itself from init():
//
//	func init() { register("T6", "summaries/standard_library.go -> Gen/StdTable.lean", genT6) }
//
// A table generator never guesses: when it cannot parse the (changed) source it returns an error
// (exit status 1) or emits a `…_unparsed := true` datum that makes the Lean obligation fail.
package main

import (
	"bytes"
	"fmt"
	"os"
	"path/filepath"
	"sort"
	"strings"
)

// Ctx is what a table generator gets.
type Ctx struct {
	RepoDir string // tree under verification ($VERIF_REPO or /repo)
	Root    string // /verif
	OutDir  string // <Root>/lean/Argot/Gen
}

// WriteLean writes OutDir/name (only when the content changed, so lake does not rebuild needlessly).
func (c *Ctx) WriteLean(name, content string) error {
	if err := os.MkdirAll(c.OutDir, 0o755); err != nil {
		return err
	}
	p := filepath.Join(c.OutDir, name)
	if old, err := os.ReadFile(p); err == nil && bytes.Equal(old, []byte(content)) {
		return nil
	}
	tmp := p + ".tmp"
	if err := os.WriteFile(tmp, []byte(content), 0o644); err != nil {
		return err
	}
	return os.Rename(tmp, p)
}

// RepoFile returns the absolute path of a file of the repository under verification.
func (c *Ctx) RepoFile(rel string) string { return filepath.Join(c.RepoDir, rel) }

// LeanString renders a Go string as a Lean string literal.
func LeanString(s string) string {
	var b strings.Builder
	b.WriteByte('"')
	for _, r := range s {
		switch r {
		case '"':
			b.WriteString("\\\"")
		case '\\':
			b.WriteString("\\\\")
		case '\n':
			b.WriteString("\\n")
		case '\t':
			b.WriteString("\\t")
		default:
			b.WriteRune(r)
		}
	}
	b.WriteByte('"')
	return b.String()
}

type table struct {
	id, what string
	gen      func(*Ctx) error
}

var registry = map[string]table{}

func register(id, what string, gen func(*Ctx) error) {
	if _, dup := registry[id]; dup {
		panic("extract: table registered twice: " + id)
	}
	registry[id] = table{id, what, gen}
}

func env(k, def string) string {
	if v := os.Getenv(k); v != "" {
		return v
	}
	return def
}

func main() {
	root := env("VERIF_ROOT", "/verif")
	ctx := &Ctx{RepoDir: env("VERIF_REPO", "/repo"), Root: root, OutDir: filepath.Join(root, "lean", "Argot", "Gen")}
	var ids []string
	for _, a := range os.Args[1:] {
		if a == "all" {
			for id := range registry {
				ids = append(ids, id)
			}
			continue
		}
		if _, ok := registry[a]; !ok {
			fmt.Fprintf(os.Stderr, "extract: unknown table id %q\n", a)
			os.Exit(2)
		}
		ids = append(ids, a)
	}
	if len(ids) == 0 {
		fmt.Fprintln(os.Stderr, "usage: extract <table id>... | all")
		var known []string
		for id, t := range registry {
			known = append(known, id+"  "+t.what)
		}
		sort.Strings(known)
		fmt.Fprintln(os.Stderr, strings.Join(known, "\n"))
		os.Exit(2)
	}
	sort.Strings(ids)
	failed := false
	seen := map[string]bool{}
	for _, id := range ids {
		if seen[id] {
			continue
		}
		seen[id] = true
		if err := registry[id].gen(ctx); err != nil {
			fmt.Fprintf(os.Stderr, "extract %s: %v\n", id, err)
			failed = true
		} else {
			fmt.Printf("extract %s: ok (%s)\n", id, registry[id].what)
		}
	}
	if failed {
		os.Exit(1)
	}
}
