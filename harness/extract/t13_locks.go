// T13 (C20, memory-level part): the lock discipline of the structs shared by the parallel workers.
//
// For every named struct of the repository that has a field of type sync.Mutex / sync.RWMutex
// (value or pointer) — today dataflow.GlobalNode (`mutex`) and dataflow.AnalyzerState (`errorMutex`) —
// and every function of the repository (non-test, no build tags) that reads or writes a field
// guarded by that mutex, one row per access site:
//
//	(function, line, guarded field, mutex, access = read|write, lock held = none|RLock|Lock, conc)
//
// Guarded fields of struct S with mutex field m (a naming convention, checked on every run):
//   - m is named mutex / mu / mtx / lock / lk        -> every other field of S
//   - m is named <p>Mutex / <p>Mu / <p>Lock           -> the fields of S whose name starts with <p>
//     (errorMutex -> errors); no such field = unparsed
//   - plus every field of S that some function accesses while holding m.
//
// access = write: the field (or an element/sub-field reached through value-typed index/selector
// steps) is the target of an assignment, op-assignment, ++/--, range key/value, delete(), clear();
// everything else is a read. `&x.f` and implicit address-taking by a pointer-receiver method call on a
// value-typed guarded field cannot be classified -> unparsed.
//
// lock held (syntactic, per function body / function literal body, same receiver text as the access):
//
//	x.m.Lock()            as a statement of the function's top-level statement list, followed in
//	defer x.m.Unlock()    that list by the deferred unlock: held from the Lock to the end of the body
//	x.m.Lock() … x.m.Unlock()   both statements of one statement list: held between the two
//
// (RLock/RUnlock likewise). Every other mention of a mutex field (TryLock, address taken, a Lock whose
// unlock is not found in the same list, a deferred unlock below the top level, an unlock inside a
// function literal, goto/labels in a function that locks, an embedded or second mutex, an access
// inside a function literal that is textually inside another function's locked region) -> unparsed.
//
// conc = the function (or function literal) containing the access may run while another goroutine of
// the analyzer runs: it is reachable, in an over-approximated call graph of the repository (static
// references to functions and literals; interface calls resolved by method name; calls through
// function values resolved to every address-taken function/literal with an identical signature),
// from a function that contains a `go` statement or a call of funcutil.MapParallel. That confines
// concurrency to the callees of the spawning function, which is what C20's join theorems
// (MapPar.no_leak, StepGroup.steps_joined, current_writer_joined over T9) establish.
//
// -> lean/Argot/Gen/T13Locks.lean (namespace Argot.Gen.T13). Used by Argot/Props/C20Locks.lean.
package main

import (
	"fmt"
	"go/ast"
	"go/token"
	"go/types"
	"os"
	"sort"
	"strings"

	"golang.org/x/tools/go/packages"
)

func init() {
	register("T13", "accesses to mutex-guarded struct fields and the lock held at each -> Gen/T13Locks.lean", genT13)
}

const t13Repo = "github.com/awslabs/ar-go-tools"

type t13Struct struct {
	name    string
	mutex   *types.Var
	rw      bool
	guarded map[*types.Var]bool
	fields  []*types.Var
}

type t13Region struct {
	owner    interface{}
	mvar     *types.Var
	recv     string
	mode     int // 1 RLock, 2 Lock
	from, to token.Pos
}

type t13Site struct {
	fn    string
	pkg   string
	file  string
	line  int
	pos   token.Pos
	recv  string
	field *types.Var
	st    *t13Struct
	write bool
	owner interface{}
	// filled after the regions of the function are known
	held    int
	regions []t13Region
	unclass string
}

func t13IsMutex(t types.Type) (isMutex, rw bool) {
	if p, ok := t.(*types.Pointer); ok {
		t = p.Elem()
	}
	n, ok := t.(*types.Named)
	if !ok || n.Obj().Pkg() == nil || n.Obj().Pkg().Path() != "sync" {
		return false, false
	}
	switch n.Obj().Name() {
	case "Mutex":
		return true, false
	case "RWMutex":
		return true, true
	}
	return false, false
}

func t13Unparen(e ast.Expr) ast.Expr {
	for {
		p, ok := e.(*ast.ParenExpr)
		if !ok {
			return e
		}
		e = p.X
	}
}

type t13Gen struct {
	problems []string
	structs  map[*types.Var]*t13Struct // by mutex field
	byField  map[*types.Var]*t13Struct // candidate guarded field -> struct (every non-mutex field)
	sites    []*t13Site
	// call graph
	edges     map[interface{}][]interface{}
	addrTaken []t13Taken
	dynCalls  map[interface{}][]*types.Signature
	roots     map[interface{}]string
	byName    map[string][]*types.Func
	declared  map[*types.Func]bool
}

type t13Taken struct {
	node interface{}
	sig  *types.Signature
}

func (g *t13Gen) problem(format string, a ...interface{}) {
	g.problems = append(g.problems, fmt.Sprintf(format, a...))
}

func t13FuncName(p *packages.Package, fd *ast.FuncDecl) string {
	short := p.Name
	if fd.Recv != nil && len(fd.Recv.List) == 1 {
		return short + ".(" + gpText(p.Fset, fd.Recv.List[0].Type) + ")." + fd.Name.Name
	}
	return short + "." + fd.Name.Name
}

// mutexSel: e is `r.m` with m a registered mutex field; returns the receiver text and the field
func (g *t13Gen) mutexSel(p *packages.Package, e ast.Expr) (*ast.SelectorExpr, string, *types.Var) {
	s, ok := t13Unparen(e).(*ast.SelectorExpr)
	if !ok {
		return nil, "", nil
	}
	sel := p.TypesInfo.Selections[s]
	if sel == nil || sel.Kind() != types.FieldVal {
		return nil, "", nil
	}
	v, ok := sel.Obj().(*types.Var)
	if !ok || g.structs[v] == nil {
		return nil, "", nil
	}
	return s, gpText(p.Fset, s.X), v
}

// lockCall: call is `r.m.Lock()` etc.
func (g *t13Gen) lockCall(p *packages.Package, call *ast.CallExpr) (sel *ast.SelectorExpr, recv string, v *types.Var, method string) {
	f, ok := t13Unparen(call.Fun).(*ast.SelectorExpr)
	if !ok || len(call.Args) != 0 {
		return nil, "", nil, ""
	}
	switch f.Sel.Name {
	case "Lock", "Unlock", "RLock", "RUnlock":
	default:
		return nil, "", nil, ""
	}
	sel, recv, v = g.mutexSel(p, f.X)
	return sel, recv, v, f.Sel.Name
}

func (g *t13Gen) doFunc(p *packages.Package, fd *ast.FuncDecl) {
	info := p.TypesInfo
	fobj, _ := info.Defs[fd.Name].(*types.Func)
	if fobj == nil {
		return
	}
	fname := t13FuncName(p, fd)
	parents := map[ast.Node]ast.Node{}
	var stack []ast.Node
	ast.Inspect(fd.Body, func(n ast.Node) bool {
		if n == nil {
			stack = stack[:len(stack)-1]
			return false
		}
		if len(stack) > 0 {
			parents[n] = stack[len(stack)-1]
		}
		stack = append(stack, n)
		return true
	})
	// the function literal (or the declaration) whose body directly contains n
	ownerOf := func(n ast.Node) interface{} {
		for q := parents[n]; q != nil; q = parents[q] {
			if fl, ok := q.(*ast.FuncLit); ok {
				return fl
			}
		}
		return fobj
	}
	bodyOf := func(o interface{}) *ast.BlockStmt {
		if fl, ok := o.(*ast.FuncLit); ok {
			return fl.Body
		}
		return fd.Body
	}

	// ---- call graph
	isFuncUse := func(e ast.Expr) *types.Func {
		e = t13Unparen(e)
		if ix, ok := e.(*ast.IndexExpr); ok {
			e = t13Unparen(ix.X)
		}
		if ix, ok := e.(*ast.IndexListExpr); ok {
			e = t13Unparen(ix.X)
		}
		switch x := e.(type) {
		case *ast.Ident:
			f, _ := info.Uses[x].(*types.Func)
			return f
		case *ast.SelectorExpr:
			f, _ := info.Uses[x.Sel].(*types.Func)
			return f
		}
		return nil
	}
	targets := func(f *types.Func) []interface{} {
		f = f.Origin()
		if sig, ok := f.Type().(*types.Signature); ok && sig.Recv() != nil {
			if _, isIface := sig.Recv().Type().Underlying().(*types.Interface); isIface {
				var out []interface{}
				for _, m := range g.byName[f.Name()] {
					out = append(out, m)
				}
				return out
			}
		}
		return []interface{}{f}
	}
	ast.Inspect(fd.Body, func(n ast.Node) bool {
		switch x := n.(type) {
		case *ast.FuncLit:
			o := ownerOf(x)
			g.edges[o] = append(g.edges[o], x)
			if sig, ok := info.TypeOf(x).(*types.Signature); ok {
				g.addrTaken = append(g.addrTaken, t13Taken{x, sig})
			}
		case *ast.GoStmt:
			g.roots[ownerOf(x)] = fname
		case *ast.Ident:
			f, ok := info.Uses[x].(*types.Func)
			if !ok {
				return true
			}
			o := ownerOf(x)
			var e ast.Node = x
			if s, ok := parents[x].(*ast.SelectorExpr); ok && s.Sel == x {
				e = s
			}
			for {
				q := parents[e]
				if _, ok := q.(*ast.ParenExpr); ok {
					e = q
					continue
				}
				if ix, ok := q.(*ast.IndexExpr); ok && ix.X == e {
					e = q
					continue
				}
				if ix, ok := q.(*ast.IndexListExpr); ok && ix.X == e {
					e = q
					continue
				}
				break
			}
			call, isCall := parents[e].(*ast.CallExpr)
			isCall = isCall && call.Fun == e
			for _, t := range targets(f) {
				g.edges[o] = append(g.edges[o], t)
				if !isCall {
					if tf, ok := t.(*types.Func); ok {
						if sig, ok := tf.Type().(*types.Signature); ok {
							g.addrTaken = append(g.addrTaken, t13Taken{tf, sig})
						}
					}
				}
			}
			if isCall && f.Name() == "MapParallel" && f.Pkg() != nil && strings.HasSuffix(f.Pkg().Path(), "internal/funcutil") {
				g.roots[o] = fname
			}
		case *ast.CallExpr:
			if isFuncUse(x.Fun) != nil {
				return true
			}
			fun := t13Unparen(x.Fun)
			if tv, ok := info.Types[fun]; ok && (tv.IsType() || tv.IsBuiltin()) {
				return true
			}
			if t := info.TypeOf(fun); t != nil {
				if sig, ok := t.Underlying().(*types.Signature); ok {
					o := ownerOf(x)
					g.dynCalls[o] = append(g.dynCalls[o], sig)
				}
			}
		}
		return true
	})

	// ---- lock regions
	accounted := map[*ast.SelectorExpr]bool{}
	var regions []t13Region
	stmtLock := func(s ast.Stmt) (sel *ast.SelectorExpr, recv string, v *types.Var, method string, deferred bool) {
		switch x := s.(type) {
		case *ast.ExprStmt:
			if c, ok := x.X.(*ast.CallExpr); ok {
				sel, recv, v, method = g.lockCall(p, c)
			}
		case *ast.DeferStmt:
			sel, recv, v, method = g.lockCall(p, x.Call)
			deferred = true
		}
		return
	}
	scanList := func(holder ast.Node, list []ast.Stmt) {
		owner := ownerOf(holder)
		body := bodyOf(owner)
		top := holder == ast.Node(body)
		for i, s := range list {
			sel, recv, v, method, deferred := stmtLock(s)
			if sel == nil || deferred || (method != "Lock" && method != "RLock") {
				continue
			}
			want, mode := "Unlock", 2
			if method == "RLock" {
				want, mode = "RUnlock", 1
			}
			found := false
			for j := i + 1; j < len(list) && !found; j++ {
				sel2, recv2, v2, method2, deferred2 := stmtLock(list[j])
				if sel2 == nil || v2 != v || recv2 != recv || method2 != want {
					continue
				}
				found = true
				if deferred2 {
					if !top {
						g.problem("%s: %s: deferred %s.%s below the top-level statement list", fname, p.Fset.Position(list[j].Pos()), recv2, method2)
						break
					}
					regions = append(regions, t13Region{owner, v, recv, mode, s.End(), body.End()})
				} else {
					regions = append(regions, t13Region{owner, v, recv, mode, s.End(), list[j].Pos()})
				}
				accounted[sel] = true
				accounted[sel2] = true
			}
			if !found {
				g.problem("%s: %s: no matching %s for %s.%s in the same statement list", fname, p.Fset.Position(s.Pos()), want, recv, method)
			}
		}
	}
	scanList(fd.Body, fd.Body.List)
	hasGoto := false
	ast.Inspect(fd.Body, func(n ast.Node) bool {
		switch x := n.(type) {
		case *ast.BlockStmt:
			if x != fd.Body {
				scanList(x, x.List)
			}
		case *ast.CaseClause:
			scanList(x, x.Body)
		case *ast.CommClause:
			scanList(x, x.Body)
		case *ast.LabeledStmt:
			hasGoto = true
		case *ast.BranchStmt:
			if x.Tok == token.GOTO {
				hasGoto = true
			}
		}
		return true
	})
	if hasGoto && len(regions) > 0 {
		g.problem("%s: labels/goto in a function that locks", fname)
	}
	ast.Inspect(fd.Body, func(n ast.Node) bool {
		if s, ok := n.(*ast.SelectorExpr); ok {
			if ms, _, v := g.mutexSel(p, s); ms != nil && !accounted[ms] {
				g.problem("%s: %s: use of mutex field %s outside the recognised Lock/Unlock patterns", fname, p.Fset.Position(s.Pos()), v.Name())
			}
		}
		return true
	})

	// ---- accesses
	isContainer := func(e ast.Expr) bool {
		t := info.TypeOf(e)
		if t == nil {
			return false
		}
		switch u := t.Underlying().(type) {
		case *types.Map, *types.Slice, *types.Array:
			return true
		case *types.Pointer:
			_, ok := u.Elem().Underlying().(*types.Array)
			return ok
		}
		return false
	}
	isStructVal := func(e ast.Expr) bool {
		t := info.TypeOf(e)
		if t == nil {
			return false
		}
		_, ok := t.Underlying().(*types.Struct)
		return ok
	}
	ast.Inspect(fd.Body, func(n ast.Node) bool {
		s, ok := n.(*ast.SelectorExpr)
		if !ok {
			return true
		}
		sel := info.Selections[s]
		if sel == nil || sel.Kind() != types.FieldVal {
			return true
		}
		v, ok := sel.Obj().(*types.Var)
		if !ok {
			return true
		}
		st := g.byField[v]
		if st == nil {
			return true
		}
		// climb through parens, element/sub-field steps that stay inside the field's own storage
		var cur ast.Expr = s
		for {
			q := parents[cur]
			if pe, ok := q.(*ast.ParenExpr); ok {
				cur = pe
				continue
			}
			if ix, ok := q.(*ast.IndexExpr); ok && ix.X == cur && isContainer(cur) {
				cur = ix
				continue
			}
			if se, ok := q.(*ast.SelectorExpr); ok && se.X == cur && isStructVal(cur) {
				if ss := info.Selections[se]; ss != nil && ss.Kind() == types.FieldVal {
					cur = se
					continue
				}
			}
			break
		}
		write := false
		unclassified := ""
		switch q := parents[cur].(type) {
		case *ast.AssignStmt:
			for _, l := range q.Lhs {
				if l == cur {
					write = true
				}
			}
		case *ast.IncDecStmt:
			write = true
		case *ast.RangeStmt:
			if q.Key == cur || q.Value == cur {
				write = true
			}
		case *ast.UnaryExpr:
			if q.Op == token.AND {
				unclassified = "address taken"
			}
		case *ast.CallExpr:
			if id, ok := t13Unparen(q.Fun).(*ast.Ident); ok && len(q.Args) > 0 && q.Args[0] == cur {
				if b, ok := info.Uses[id].(*types.Builtin); ok && (b.Name() == "delete" || b.Name() == "clear") {
					write = true
				}
			}
		case *ast.SelectorExpr:
			if ms := info.Selections[q]; ms != nil && ms.Kind() == types.MethodVal && q.X == cur {
				if sig, ok := ms.Obj().Type().(*types.Signature); ok && sig.Recv() != nil {
					_, ptrRecv := sig.Recv().Type().(*types.Pointer)
					_, isPtr := info.TypeOf(cur).Underlying().(*types.Pointer)
					_, isIface := info.TypeOf(cur).Underlying().(*types.Interface)
					if ptrRecv && !isPtr && !isIface {
						unclassified = "pointer-receiver method call takes the address"
					}
				}
			}
		}
		pos := p.Fset.Position(s.Pos())
		site := &t13Site{fn: fname, pkg: p.PkgPath, file: pos.Filename, line: pos.Line, pos: s.Pos(), recv: gpText(p.Fset, s.X),
			field: v, st: st, write: write, owner: ownerOf(s)}
		if unclassified != "" {
			site.write = true
			site.unclass = unclassified
		}
		g.sites = append(g.sites, site)
		site.regions = regions
		return true
	})
}

func (s *t13Site) resolve(g *t13Gen) {
	s.held = 0
	for _, r := range s.regions {
		if r.mvar != s.st.mutex || s.pos < r.from || s.pos >= r.to {
			continue
		}
		if r.owner != s.owner {
			if s.st.guarded[s.field] {
				g.problem("%s: line %d: access to %s.%s inside a function literal within another function's locked region", s.fn, s.line, s.st.name, s.field.Name())
			}
			continue
		}
		if r.recv == s.recv && r.mode > s.held {
			s.held = r.mode
		}
	}
}

func genT13(ctx *Ctx) error {
	cfg := &packages.Config{
		Mode: packages.NeedName | packages.NeedFiles | packages.NeedSyntax | packages.NeedTypes | packages.NeedTypesInfo | packages.NeedImports | packages.NeedDeps,
		Env:  append(os.Environ(), "GOFLAGS=-mod=mod", "GOPROXY=off", "GOSUMDB=off", "GOTOOLCHAIN=local", "GOWORK=off"),
		Dir:  ctx.RepoDir,
	}
	g := &t13Gen{structs: map[*types.Var]*t13Struct{}, byField: map[*types.Var]*t13Struct{}, edges: map[interface{}][]interface{}{},
		dynCalls: map[interface{}][]*types.Signature{}, roots: map[interface{}]string{}, byName: map[string][]*types.Func{}, declared: map[*types.Func]bool{}}
	pkgs, err := packages.Load(cfg, "./analysis/...", "./cmd/...", "./internal/...")
	if err != nil {
		g.problem("packages.Load: %v", err)
	}
	sort.Slice(pkgs, func(i, j int) bool { return pkgs[i].PkgPath < pkgs[j].PkgPath })
	var repoPkgs []*packages.Package
	for _, p := range pkgs {
		if !strings.HasPrefix(p.PkgPath, t13Repo) || p.Types == nil || p.TypesInfo == nil {
			continue
		}
		for _, e := range p.Errors {
			g.problem("%s: %s", p.PkgPath, e.Msg)
			break
		}
		repoPkgs = append(repoPkgs, p)
	}

	// ---- 1. structs with a mutex field
	var structs []*t13Struct
	for _, p := range repoPkgs {
		scope := p.Types.Scope()
		for _, name := range scope.Names() {
			tn, ok := scope.Lookup(name).(*types.TypeName)
			if !ok || tn.IsAlias() {
				continue
			}
			su, ok := tn.Type().Underlying().(*types.Struct)
			if !ok {
				continue
			}
			var st *t13Struct
			for i := 0; i < su.NumFields(); i++ {
				f := su.Field(i)
				isM, rw := t13IsMutex(f.Type())
				if !isM {
					continue
				}
				if st != nil {
					g.problem("%s.%s has more than one mutex field", p.Name, name)
					continue
				}
				if f.Embedded() {
					g.problem("%s.%s embeds its mutex (unsupported)", p.Name, name)
				}
				st = &t13Struct{name: p.Name + "." + name, mutex: f, rw: rw, guarded: map[*types.Var]bool{}}
			}
			if st == nil {
				continue
			}
			mname := st.mutex.Name()
			prefix, all := "", false
			switch strings.ToLower(mname) {
			case "mutex", "mu", "mtx", "lock", "lk":
				all = true
			default:
				for _, suf := range []string{"Mutex", "Mu", "Lock"} {
					if strings.HasSuffix(mname, suf) && len(mname) > len(suf) {
						prefix = strings.TrimSuffix(mname, suf)
						break
					}
				}
				if prefix == "" {
					g.problem("%s: mutex field %s follows no known naming convention", st.name, mname)
				}
			}
			for i := 0; i < su.NumFields(); i++ {
				f := su.Field(i)
				if f == st.mutex {
					continue
				}
				st.fields = append(st.fields, f)
				g.byField[f] = st
				if all || (prefix != "" && strings.HasPrefix(f.Name(), prefix)) {
					st.guarded[f] = true
				}
			}
			if len(st.guarded) == 0 {
				g.problem("%s: no field is guarded by %s under the naming convention", st.name, mname)
			}
			g.structs[st.mutex] = st
			structs = append(structs, st)
		}
	}
	haveGlobalNode := false
	for _, st := range structs {
		if st.name == "dataflow.GlobalNode" {
			haveGlobalNode = true
		}
	}
	if !haveGlobalNode {
		g.problem("dataflow.GlobalNode with a mutex field not found (the anchor of the model)")
	}

	// ---- 2. functions
	type fdecl struct {
		p  *packages.Package
		fd *ast.FuncDecl
	}
	var decls []fdecl
	for _, p := range repoPkgs {
		for _, file := range p.Syntax {
			for _, d := range file.Decls {
				fd, ok := d.(*ast.FuncDecl)
				if !ok || fd.Body == nil {
					continue
				}
				fobj, _ := p.TypesInfo.Defs[fd.Name].(*types.Func)
				if fobj == nil {
					continue
				}
				g.declared[fobj] = true
				if fd.Recv != nil {
					g.byName[fd.Name.Name] = append(g.byName[fd.Name.Name], fobj)
				}
				decls = append(decls, fdecl{p, fd})
			}
		}
	}
	for _, d := range decls {
		g.doFunc(d.p, d.fd)
	}

	// ---- 3. guarded = convention ∪ "accessed at least once while the mutex is held"
	for _, s := range g.sites {
		for _, r := range s.regions {
			if r.mvar == s.st.mutex && r.owner == s.owner && r.recv == s.recv && s.pos >= r.from && s.pos < r.to {
				s.st.guarded[s.field] = true
			}
		}
	}
	var rows []*t13Site
	for _, s := range g.sites {
		if !s.st.guarded[s.field] {
			continue
		}
		s.resolve(g)
		if s.unclass != "" {
			g.problem("%s: line %d: access to %s.%s cannot be classified (%s)", s.fn, s.line, s.st.name, s.field.Name(), s.unclass)
		}
		if s.held == 1 && !s.st.rw {
			g.problem("%s: line %d: RLock on a plain Mutex", s.fn, s.line)
		}
		rows = append(rows, s)
	}

	// ---- 4. concurrency: reachability from the spawning functions
	for o, sigs := range g.dynCalls {
		for _, sig := range sigs {
			for _, t := range g.addrTaken {
				if t.sig.TypeParams() != nil || types.Identical(sig, t.sig) {
					g.edges[o] = append(g.edges[o], t.node)
				}
			}
		}
	}
	conc := map[interface{}]bool{}
	var work []interface{}
	for r := range g.roots {
		conc[r] = true
		work = append(work, r)
	}
	for len(work) > 0 {
		n := work[len(work)-1]
		work = work[:len(work)-1]
		for _, m := range g.edges[n] {
			if !conc[m] {
				conc[m] = true
				work = append(work, m)
			}
		}
	}
	if len(g.roots) == 0 {
		g.problem("no `go` statement / MapParallel call found in the repository")
	}
	var rootNames []string
	seenRoot := map[string]bool{}
	for _, n := range g.roots {
		if !seenRoot[n] {
			seenRoot[n] = true
			rootNames = append(rootNames, n)
		}
	}
	sort.Strings(rootNames)

	// ---- 5. emit
	sort.SliceStable(rows, func(i, j int) bool {
		if rows[i].file != rows[j].file {
			return rows[i].file < rows[j].file
		}
		if rows[i].line != rows[j].line {
			return rows[i].line < rows[j].line
		}
		return rows[i].pos < rows[j].pos
	})
	fieldID := map[*types.Var]int{}
	var fieldNames, muNames []string
	muID := map[*t13Struct]int{}
	sort.Slice(structs, func(i, j int) bool { return structs[i].name < structs[j].name })
	for _, st := range structs {
		muID[st] = len(muNames)
		kind := "sync.Mutex"
		if st.rw {
			kind = "sync.RWMutex"
		}
		muNames = append(muNames, st.name+"."+st.mutex.Name()+" ("+kind+")")
		for _, f := range st.fields {
			if st.guarded[f] {
				fieldID[f] = len(fieldNames)
				fieldNames = append(fieldNames, st.name+"."+f.Name())
			}
		}
	}
	var b strings.Builder
	b.WriteString("-- GENERATED by harness/extract (T13). Do not edit.\nimport Argot.Model.LockDisc\nnamespace Argot.Gen.T13\nopen Argot.LockDisc\n\n")
	q := func(xs []string) string {
		var o []string
		for _, x := range xs {
			o = append(o, LeanString(x))
		}
		return "[" + strings.Join(o, ", ") + "]"
	}
	fmt.Fprintf(&b, "/-- guarded fields; the index is the `field` id of a row -/\ndef fieldNames : List String := %s\n\n", q(fieldNames))
	fmt.Fprintf(&b, "/-- mutexes; the index is the `mu` id of a row -/\ndef muNames : List String := %s\n\n", q(muNames))
	fmt.Fprintf(&b, "/-- functions that spawn goroutines (`go`, funcutil.MapParallel): the roots of `conc` -/\ndef concRoots : List String := %s\n\n", q(rootNames))
	b.WriteString("/-- one row per access site: function, line, ⟨field, mutex, access, lock held⟩, conc -/\ndef rows : List Row := [\n")
	held := []string{".none", ".rlock", ".lock"}
	for i, s := range rows {
		acc := ".read"
		if s.write {
			acc = ".write"
		}
		sep := ","
		if i == len(rows)-1 {
			sep = ""
		}
		rel := strings.TrimPrefix(s.file, ctx.RepoDir+"/")
		fmt.Fprintf(&b, "  ⟨%s, %d, ⟨%d, %d, %s, %s⟩, %v⟩%s  -- %s %s\n", LeanString(s.fn), s.line, fieldID[s.field], muID[s.st], acc, held[s.held],
			conc[s.owner], sep, rel, s.st.name+"."+s.field.Name())
	}
	b.WriteString("]\n\n")
	fmt.Fprintf(&b, "def unparsed : Bool := %v\n", len(g.problems) > 0)
	for _, p := range g.problems {
		fmt.Fprintf(&b, "-- problem: %s\n", strings.ReplaceAll(p, "\n", " "))
	}
	b.WriteString("\nend Argot.Gen.T13\n")
	return ctx.WriteLean("T13Locks.lean", b.String())
}
