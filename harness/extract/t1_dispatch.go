// T1: instruction dispatch.
//
//	analysis/lang/instructions.go: the case list of `InstrSwitch` (which cases exist, which have an empty
//	body, whether the default panics), the method set of the `InstrOp` interface;
//	golang.org/x/tools/go/ssa (the version the repository's go.mod pins, loaded with go/types from the
//	module cache): every named type whose pointer implements ssa.Instruction, which of them are also
//	ssa.Value, and the operand fields read off each one's `Operands` method body.
//
// -> lean/Argot/Gen/T1Dispatch.lean, namespace Argot.Gen.T1. Used by C07 (`dispatch_total`), C08, C18, C05.
package main

import (
	"fmt"
	"go/ast"
	"go/parser"
	"go/token"
	"go/types"
	"os"
	"sort"
	"strings"

	"golang.org/x/tools/go/packages"
)

func init() {
	register("T1", "lang/instructions.go InstrSwitch + x/tools ssa.Instruction implementers -> Gen/T1Dispatch.lean", genT1)
}

func leanStrList(xs []string) string {
	var q []string
	for _, x := range xs {
		q = append(q, LeanString(x))
	}
	return "[" + strings.Join(q, ", ") + "]"
}

// typeName renders `*ssa.X` / `ssa.X` / `*X` as "X"; anything else as its source text prefixed by "?".
func typeName(e ast.Expr) string {
	if st, ok := e.(*ast.StarExpr); ok {
		e = st.X
	}
	switch t := e.(type) {
	case *ast.SelectorExpr:
		return t.Sel.Name
	case *ast.Ident:
		return t.Name
	}
	return "?" + fmt.Sprintf("%T", e)
}

func isPanicCall(s ast.Stmt) bool {
	es, ok := s.(*ast.ExprStmt)
	if !ok {
		return false
	}
	c, ok := es.X.(*ast.CallExpr)
	if !ok {
		return false
	}
	id, ok := c.Fun.(*ast.Ident)
	return ok && id.Name == "panic"
}

func genT1(c *Ctx) error {
	// ---- 1. InstrSwitch and InstrOp from the repository source (go/ast only)
	fset := token.NewFileSet()
	src := c.RepoFile("analysis/lang/instructions.go")
	f, err := parser.ParseFile(fset, src, nil, parser.ParseComments)
	if err != nil {
		return err
	}
	var cases, noop, opMethods []string
	hasDefault, defaultPanics, found := false, false, false
	unparsed := false
	for _, d := range f.Decls {
		switch d := d.(type) {
		case *ast.FuncDecl:
			if d.Name.Name != "InstrSwitch" || d.Recv != nil || d.Body == nil {
				continue
			}
			// exactly one statement: the type switch
			var ts *ast.TypeSwitchStmt
			for _, s := range d.Body.List {
				if t, ok := s.(*ast.TypeSwitchStmt); ok && ts == nil {
					ts = t
				} else {
					unparsed = true // something else happens in InstrSwitch: do not guess
				}
			}
			if ts == nil {
				unparsed = true
				continue
			}
			found = true
			for _, cl := range ts.Body.List {
				cc := cl.(*ast.CaseClause)
				if cc.List == nil {
					hasDefault = true
					for _, s := range cc.Body {
						if isPanicCall(s) {
							defaultPanics = true
						}
					}
					continue
				}
				for _, e := range cc.List {
					n := typeName(e)
					cases = append(cases, n)
					if len(cc.Body) == 0 {
						noop = append(noop, n)
					}
					for _, s := range cc.Body {
						if isPanicCall(s) {
							// a case that panics is not a dispatch: list it as not handled
							cases = cases[:len(cases)-1]
						}
					}
				}
			}
		case *ast.GenDecl:
			for _, sp := range d.Specs {
				tsp, ok := sp.(*ast.TypeSpec)
				if !ok || tsp.Name.Name != "InstrOp" {
					continue
				}
				it, ok := tsp.Type.(*ast.InterfaceType)
				if !ok {
					unparsed = true
					continue
				}
				for _, m := range it.Methods.List {
					for _, n := range m.Names {
						opMethods = append(opMethods, n.Name)
					}
				}
			}
		}
	}
	if !found {
		unparsed = true
	}
	sort.Strings(cases)
	sort.Strings(noop)
	sort.Strings(opMethods)

	// ---- 2. x/tools ssa as the repository's go.mod resolves it (go/types + syntax of the ssa package)
	cfg := &packages.Config{
		Mode: packages.NeedName | packages.NeedTypes | packages.NeedSyntax | packages.NeedTypesInfo | packages.NeedFiles | packages.NeedModule,
		Dir:  c.RepoDir,
		Env:  append(os.Environ(), "GOFLAGS=-mod=mod", "GOPROXY=off", "GOSUMDB=off", "GOTOOLCHAIN=local", "GOWORK=off"),
	}
	pkgs, err := packages.Load(cfg, "golang.org/x/tools/go/ssa")
	if err != nil {
		return err
	}
	if len(pkgs) != 1 || pkgs[0].Types == nil || len(pkgs[0].Errors) > 0 {
		return fmt.Errorf("cannot load golang.org/x/tools/go/ssa from %s: %v", c.RepoDir, pkgs[0].Errors)
	}
	ssaPkg := pkgs[0]
	version := "?"
	if ssaPkg.Module != nil {
		version = ssaPkg.Module.Version
	}
	scope := ssaPkg.Types.Scope()
	lookupIface := func(name string) (*types.Interface, error) {
		o := scope.Lookup(name)
		if o == nil {
			return nil, fmt.Errorf("ssa.%s not found", name)
		}
		i, ok := o.Type().Underlying().(*types.Interface)
		if !ok {
			return nil, fmt.Errorf("ssa.%s is not an interface", name)
		}
		return i, nil
	}
	instrI, err := lookupIface("Instruction")
	if err != nil {
		return err
	}
	valueI, err := lookupIface("Value")
	if err != nil {
		return err
	}
	callI, err := lookupIface("CallInstruction")
	if err != nil {
		return err
	}
	var kinds, valueKinds, callKinds []string
	for _, name := range scope.Names() {
		tn, ok := scope.Lookup(name).(*types.TypeName)
		if !ok || tn.IsAlias() {
			continue
		}
		if _, isStruct := tn.Type().Underlying().(*types.Struct); !isStruct {
			continue
		}
		pt := types.NewPointer(tn.Type())
		if types.Implements(pt, instrI) {
			kinds = append(kinds, name)
			if types.Implements(pt, valueI) {
				valueKinds = append(valueKinds, name)
			}
			if types.Implements(pt, callI) {
				callKinds = append(callKinds, name)
			}
		}
	}
	sort.Strings(kinds)
	sort.Strings(valueKinds)
	sort.Strings(callKinds)
	isKind := map[string]bool{}
	for _, k := range kinds {
		isKind[k] = true
	}

	// operand fields: `&v.F`, `&v.F[i]`, `&v.F[i].G`, and delegation `v.Call.Operands(rands)` -> "Call.*"
	operands := map[string][]string{}
	for _, file := range ssaPkg.Syntax {
		for _, d := range file.Decls {
			fd, ok := d.(*ast.FuncDecl)
			if !ok || fd.Name.Name != "Operands" || fd.Recv == nil || fd.Body == nil || len(fd.Recv.List) != 1 {
				continue
			}
			recvT := typeName(fd.Recv.List[0].Type)
			if !isKind[recvT] || len(fd.Recv.List[0].Names) != 1 {
				continue
			}
			recv := fd.Recv.List[0].Names[0].Name
			var fields []string
			var render func(e ast.Expr) (string, bool)
			render = func(e ast.Expr) (string, bool) {
				switch x := e.(type) {
				case *ast.Ident:
					if x.Name == recv {
						return "", true
					}
					return "", false
				case *ast.SelectorExpr:
					p, ok := render(x.X)
					if !ok {
						return "", false
					}
					if p == "" {
						return x.Sel.Name, true
					}
					return p + "." + x.Sel.Name, true
				case *ast.IndexExpr:
					p, ok := render(x.X)
					if !ok {
						return "", false
					}
					return p + "[*]", true
				}
				return "", false
			}
			ast.Inspect(fd.Body, func(n ast.Node) bool {
				switch x := n.(type) {
				case *ast.UnaryExpr:
					if x.Op == token.AND {
						if s, ok := render(x.X); ok && s != "" {
							fields = append(fields, s)
						}
					}
				case *ast.CallExpr:
					if sel, ok := x.Fun.(*ast.SelectorExpr); ok && sel.Sel.Name == "Operands" {
						if s, ok := render(sel.X); ok && s != "" {
							fields = append(fields, s+".*")
						}
					}
				}
				return true
			})
			operands[recvT] = fields
		}
	}

	var b strings.Builder
	b.WriteString("/- GENERATED by /verif/harness/extract (table T1) from analysis/lang/instructions.go and\n")
	b.WriteString("   golang.org/x/tools/go/ssa as pinned by the repository's go.mod. Do not edit; never committed. -/\n")
	b.WriteString("namespace Argot.Gen.T1\n\n")
	fmt.Fprintf(&b, "def xtoolsVersion : String := %s\n\n", LeanString(version))
	fmt.Fprintf(&b, "/-- translator could not read `InstrSwitch` / `InstrOp` in the shape it knows -/\ndef unparsed : Bool := %v\n\n", unparsed)
	fmt.Fprintf(&b, "/-- every struct type of x/tools/go/ssa whose pointer implements `ssa.Instruction` -/\ndef ssaInstrKinds : List String :=\n  %s\n\n", leanStrList(kinds))
	fmt.Fprintf(&b, "/-- those that are also `ssa.Value` -/\ndef ssaValueInstrKinds : List String :=\n  %s\n\n", leanStrList(valueKinds))
	fmt.Fprintf(&b, "/-- those that are `ssa.CallInstruction` -/\ndef ssaCallInstrKinds : List String :=\n  %s\n\n", leanStrList(callKinds))
	fmt.Fprintf(&b, "/-- case list of `lang.InstrSwitch` (cases whose body panics are left out) -/\ndef dispatchKinds : List String :=\n  %s\n\n", leanStrList(cases))
	fmt.Fprintf(&b, "/-- cases of `lang.InstrSwitch` with an empty body -/\ndef dispatchNoop : List String :=\n  %s\n\n", leanStrList(noop))
	fmt.Fprintf(&b, "def dispatchHasDefault : Bool := %v\ndef dispatchDefaultPanics : Bool := %v\n\n", hasDefault, defaultPanics)
	fmt.Fprintf(&b, "/-- methods of the `lang.InstrOp` interface -/\ndef instrOpMethods : List String :=\n  %s\n\n", leanStrList(opMethods))
	b.WriteString("/-- operand fields read off each instruction's `Operands` method (`F[*]` = every element, `Call.*` = delegated) -/\n")
	b.WriteString("def ssaOperands : List (String × List String) := [\n")
	for i, k := range kinds {
		sep := ","
		if i == len(kinds)-1 {
			sep = ""
		}
		fmt.Fprintf(&b, "  (%s, %s)%s\n", LeanString(k), leanStrList(operands[k]), sep)
	}
	b.WriteString("]\n\nend Argot.Gen.T1\n")
	return c.WriteLean("T1Dispatch.lean", b.String())
}
