// Tables of C05.
//
// T2:  analysis/lang/instructions.go FnReadsFrom / FnWritesTo -> (instruction kind, operand field)
//
//	pairs through which the function recognises "instr uses val", plus whether the function scans
//	`Operands()` generically.  -> lean/Argot/Gen/T2FnReads.lean (namespace Argot.Gen.T2)
//
// T9b: every field of config.Options (analysis/config/config.go) and, through go/types use-sites
//
//	over the non-test packages of the repository, the functions that read it.
//	-> lean/Argot/Gen/T9bOptionReaders.lean (namespace Argot.Gen.T9b)
package main

import (
	"fmt"
	"go/ast"
	"go/parser"
	"go/token"
	"go/types"
	"os"
	"sort"
	"strings"

	"golang.org/x/tools/go/packages"
)

func init() {
	register("T2", "lang/instructions.go FnReadsFrom/FnWritesTo (kind, operand) pairs -> Gen/T2FnReads.lean", genT2)
	register("T9b", "config.Options fields and the functions reading each (go/types use-sites) -> Gen/T9bOptionReaders.lean", genT9b)
}

// ---- T2

type t2Result struct {
	pairs   [][2]string // (kind, field) compared with the value parameter
	nested  [][3]string // (kind, field, innerKind.innerField): `switch a := instr.F.(type) { case *ssa.K2: a.G == val }`
	generic bool        // a range over instr.Operands(...) comparing with val
	found   bool
	problem string
}

func t2Scan(fset *token.FileSet, f *ast.File, fn string) t2Result {
	var r t2Result
	fd := t9FindFunc(f, fn)
	if fd == nil {
		r.problem = "function " + fn + " not found"
		return r
	}
	r.found = true
	if fd.Type.Params == nil || len(fd.Type.Params.List) != 2 || len(fd.Type.Params.List[1].Names) != 1 {
		r.problem = fn + ": unexpected parameter list"
		return r
	}
	val := fd.Type.Params.List[1].Names[0].Name
	// comparisons `<recv>.<F> == val` inside body, attributed to the case clause kinds
	var cmpFields func(n ast.Node, recv string) []string
	cmpFields = func(n ast.Node, recv string) []string {
		var out []string
		ast.Inspect(n, func(x ast.Node) bool {
			if _, ok := x.(*ast.TypeSwitchStmt); ok && x != n {
				return false // nested switches are handled separately
			}
			be, ok := x.(*ast.BinaryExpr)
			if !ok || be.Op != token.EQL {
				return true
			}
			for _, pair := range [][2]ast.Expr{{be.X, be.Y}, {be.Y, be.X}} {
				if id, ok := pair[1].(*ast.Ident); ok && id.Name == val {
					if se, ok := pair[0].(*ast.SelectorExpr); ok {
						if rid, ok := se.X.(*ast.Ident); ok && rid.Name == recv {
							out = append(out, se.Sel.Name)
						}
					}
				}
			}
			return true
		})
		return out
	}
	kindsOf := func(cc *ast.CaseClause) []string {
		var ks []string
		for _, e := range cc.List {
			t := gpText(fset, e)
			if strings.HasPrefix(t, "*ssa.") {
				ks = append(ks, strings.TrimPrefix(t, "*ssa."))
			} else {
				r.problem = fn + ": case type " + t
			}
		}
		return ks
	}
	switchVar := func(ts *ast.TypeSwitchStmt) (bound string, subject string) {
		if as, ok := ts.Assign.(*ast.AssignStmt); ok && len(as.Lhs) == 1 && len(as.Rhs) == 1 {
			if ta, ok := as.Rhs[0].(*ast.TypeAssertExpr); ok {
				return gpText(fset, as.Lhs[0]), gpText(fset, ta.X)
			}
		}
		return "", ""
	}
	ast.Inspect(fd.Body, func(n ast.Node) bool {
		switch s := n.(type) {
		case *ast.RangeStmt:
			if strings.Contains(gpText(fset, s.X), ".Operands(") {
				// generic scan: some comparison with val in the body
				ast.Inspect(s.Body, func(x ast.Node) bool {
					if be, ok := x.(*ast.BinaryExpr); ok && be.Op == token.EQL &&
						(gpText(fset, be.X) == val || gpText(fset, be.Y) == val) {
						r.generic = true
					}
					return true
				})
			}
		case *ast.TypeSwitchStmt:
			bound, subject := switchVar(s)
			if bound == "" {
				r.problem = fn + ": type switch without binding"
				return true
			}
			if strings.Contains(subject, ".") {
				return true // nested switch on a field: handled from its parent clause below
			}
			for _, st := range s.Body.List {
				cc := st.(*ast.CaseClause)
				ks := kindsOf(cc)
				for _, b := range cc.Body {
					for _, fld := range cmpFields(b, bound) {
						for _, k := range ks {
							r.pairs = append(r.pairs, [2]string{k, fld})
						}
					}
					// nested: switch a := instr.Addr.(type) { case *ssa.FieldAddr: a.X == val }
					ast.Inspect(b, func(x ast.Node) bool {
						ns, ok := x.(*ast.TypeSwitchStmt)
						if !ok {
							return true
						}
						nb, nsub := switchVar(ns)
						if nb == "" || !strings.HasPrefix(nsub, bound+".") {
							return true
						}
						outerField := strings.TrimPrefix(nsub, bound+".")
						for _, nst := range ns.Body.List {
							ncc := nst.(*ast.CaseClause)
							for _, nk := range kindsOf(ncc) {
								for _, nbody := range ncc.Body {
									for _, nf := range cmpFields(nbody, nb) {
										for _, k := range ks {
											r.nested = append(r.nested, [3]string{k, outerField, nk + "." + nf})
										}
									}
								}
							}
						}
						return false
					})
				}
			}
			return false
		}
		return true
	})
	return r
}

func genT2(ctx *Ctx) error {
	var b strings.Builder
	b.WriteString("-- GENERATED by harness/extract (T2) from analysis/lang/instructions.go. Do not edit.\nnamespace Argot.Gen.T2\n\n")
	fset := token.NewFileSet()
	f, err := parser.ParseFile(fset, ctx.RepoFile("analysis/lang/instructions.go"), nil, parser.SkipObjectResolution)
	var problems []string
	emit := func(lean, fn string) {
		var r t2Result
		if err != nil {
			r.problem = err.Error()
		} else {
			r = t2Scan(fset, f, fn)
		}
		if r.problem != "" {
			problems = append(problems, r.problem)
		}
		var ps []string
		for _, p := range r.pairs {
			ps = append(ps, fmt.Sprintf("(%s, %s)", LeanString(p[0]), LeanString(p[1])))
		}
		var ns []string
		for _, p := range r.nested {
			ns = append(ns, fmt.Sprintf("(%s, %s, %s)", LeanString(p[0]), LeanString(p[1]), LeanString(p[2])))
		}
		fmt.Fprintf(&b, "/-- `%s`: (instruction kind, operand field) compared with the value -/\ndef %s : List (String × String) :=\n  [%s]\n\n", fn, lean, strings.Join(ps, ", "))
		fmt.Fprintf(&b, "/-- `%s`: (kind, field, kind.field of the instruction found in that field) -/\ndef %sNested : List (String × String × String) :=\n  [%s]\n\n", fn, lean, strings.Join(ns, ", "))
		fmt.Fprintf(&b, "/-- `%s` compares every element of `instr.Operands(..)` with the value -/\ndef %sGeneric : Bool := %v\n\n", fn, lean, r.generic)
	}
	emit("fnReads", "FnReadsFrom")
	emit("fnWrites", "FnWritesTo")
	fmt.Fprintf(&b, "def unparsed : Bool := %v\n", len(problems) > 0)
	for _, p := range problems {
		fmt.Fprintf(&b, "-- problem: %s\n", strings.ReplaceAll(p, "\n", " "))
	}
	b.WriteString("\nend Argot.Gen.T2\n")
	return ctx.WriteLean("T2FnReads.lean", b.String())
}

// ---- T9b

func genT9b(ctx *Ctx) error {
	cfg := &packages.Config{
		Mode: packages.NeedName | packages.NeedFiles | packages.NeedSyntax | packages.NeedTypes | packages.NeedTypesInfo | packages.NeedImports | packages.NeedDeps,
		Env:  append(os.Environ(), "GOFLAGS=-mod=mod", "GOPROXY=off", "GOSUMDB=off", "GOTOOLCHAIN=local", "GOWORK=off"),
		Dir:  ctx.RepoDir,
	}
	pkgs, err := packages.Load(cfg, "./analysis/...", "./cmd/...", "./internal/...")
	var problems []string
	if err != nil {
		problems = append(problems, err.Error())
	}
	// the Options struct
	var optFields []string
	fieldObj := map[*types.Var]string{}
	for _, p := range pkgs {
		if p.PkgPath != "github.com/awslabs/ar-go-tools/analysis/config" || p.Types == nil {
			continue
		}
		obj := p.Types.Scope().Lookup("Options")
		if obj == nil {
			problems = append(problems, "config.Options not found")
			continue
		}
		st, ok := obj.Type().Underlying().(*types.Struct)
		if !ok {
			problems = append(problems, "config.Options is not a struct")
			continue
		}
		for i := 0; i < st.NumFields(); i++ {
			fv := st.Field(i)
			if fv.Exported() {
				optFields = append(optFields, fv.Name())
				fieldObj[fv] = fv.Name()
			}
		}
	}
	if len(optFields) == 0 {
		problems = append(problems, "no option fields found")
	}
	type use struct {
		field, fn string
		write     bool
	}
	seen := map[use]bool{}
	// functions of package analysis/config that read an option field (accessors): object -> fields
	accessor := map[types.Object]map[string]bool{}
	accName := map[types.Object]string{}
	for _, p := range pkgs {
		if p.TypesInfo == nil {
			continue
		}
		if len(p.Errors) > 0 && strings.HasPrefix(p.PkgPath, "github.com/awslabs/ar-go-tools") {
			problems = append(problems, p.PkgPath+": "+p.Errors[0].Msg)
		}
		for _, file := range p.Syntax {
			fname := p.Fset.Position(file.Pos()).Filename
			if strings.HasSuffix(fname, "_test.go") || strings.HasSuffix(fname, "_verif.go") {
				continue
			}
			// assignment targets (writes)
			writes := map[*ast.SelectorExpr]bool{}
			ast.Inspect(file, func(n ast.Node) bool {
				if as, ok := n.(*ast.AssignStmt); ok {
					for _, l := range as.Lhs {
						if se, ok := l.(*ast.SelectorExpr); ok {
							writes[se] = true
						}
					}
				}
				return true
			})
			for _, d := range file.Decls {
				fd, ok := d.(*ast.FuncDecl)
				if !ok || fd.Body == nil {
					continue
				}
				name := fd.Name.Name
				if fd.Recv != nil && len(fd.Recv.List) == 1 {
					rt := gpText(p.Fset, fd.Recv.List[0].Type)
					name = "(" + rt + ")." + name
				}
				full := strings.TrimPrefix(p.PkgPath, "github.com/awslabs/ar-go-tools/") + "." + name
				fobj := p.TypesInfo.Defs[fd.Name]
				isCfgPkg := p.PkgPath == "github.com/awslabs/ar-go-tools/analysis/config"
				ast.Inspect(fd.Body, func(n ast.Node) bool {
					se, ok := n.(*ast.SelectorExpr)
					if !ok {
						return true
					}
					if sel := p.TypesInfo.Selections[se]; sel != nil && sel.Kind() == types.FieldVal {
						if v, ok := sel.Obj().(*types.Var); ok {
							if fname, ok := fieldObj[v]; ok {
								seen[use{fname, full, writes[se]}] = true
								if isCfgPkg && fobj != nil && !writes[se] {
									if accessor[fobj] == nil {
										accessor[fobj] = map[string]bool{}
									}
									accessor[fobj][fname] = true
									accName[fobj] = full
								}
							}
						}
					}
					return true
				})
			}
		}
	}
	// second level: callers of the accessors
	type via struct{ field, acc, caller string }
	viaSeen := map[via]bool{}
	for _, p := range pkgs {
		if p.TypesInfo == nil {
			continue
		}
		for _, file := range p.Syntax {
			fname := p.Fset.Position(file.Pos()).Filename
			if strings.HasSuffix(fname, "_test.go") || strings.HasSuffix(fname, "_verif.go") {
				continue
			}
			for _, d := range file.Decls {
				fd, ok := d.(*ast.FuncDecl)
				if !ok || fd.Body == nil {
					continue
				}
				name := fd.Name.Name
				if fd.Recv != nil && len(fd.Recv.List) == 1 {
					name = "(" + gpText(p.Fset, fd.Recv.List[0].Type) + ")." + name
				}
				full := strings.TrimPrefix(p.PkgPath, "github.com/awslabs/ar-go-tools/") + "." + name
				ast.Inspect(fd.Body, func(n ast.Node) bool {
					call, ok := n.(*ast.CallExpr)
					if !ok {
						return true
					}
					var obj types.Object
					switch fun := call.Fun.(type) {
					case *ast.SelectorExpr:
						obj = p.TypesInfo.Uses[fun.Sel]
					case *ast.Ident:
						obj = p.TypesInfo.Uses[fun]
					}
					if obj != nil {
						for f := range accessor[obj] {
							viaSeen[via{f, accName[obj], full}] = true
						}
					}
					return true
				})
			}
		}
	}
	var vias []via
	for v := range viaSeen {
		vias = append(vias, v)
	}
	sort.Slice(vias, func(i, j int) bool {
		a, b := vias[i], vias[j]
		if a.field != b.field {
			return a.field < b.field
		}
		if a.acc != b.acc {
			return a.acc < b.acc
		}
		return a.caller < b.caller
	})
	var uses []use
	for u := range seen {
		uses = append(uses, u)
	}
	sort.Slice(uses, func(i, j int) bool {
		if uses[i].field != uses[j].field {
			return uses[i].field < uses[j].field
		}
		if uses[i].fn != uses[j].fn {
			return uses[i].fn < uses[j].fn
		}
		return !uses[i].write && uses[j].write
	})
	var b strings.Builder
	b.WriteString("-- GENERATED by harness/extract (T9b) from analysis/config/config.go and go/types use-sites. Do not edit.\nnamespace Argot.Gen.T9b\n\n")
	var fs []string
	for _, f := range optFields {
		fs = append(fs, LeanString(f))
	}
	fmt.Fprintf(&b, "/-- exported fields of `config.Options` -/\ndef optionFields : List String :=\n  [%s]\n\n", strings.Join(fs, ", "))
	b.WriteString("/-- (option field, function that reads it) over the non-test code of analysis/, cmd/, internal/ -/\ndef optionReaders : List (String × String) := [\n")
	first := true
	for _, u := range uses {
		if u.write {
			continue
		}
		if !first {
			b.WriteString(",\n")
		}
		first = false
		fmt.Fprintf(&b, "  (%s, %s)", LeanString(u.field), LeanString(u.fn))
	}
	b.WriteString("]\n\n/-- (option field, function that assigns it) -/\ndef optionWriters : List (String × String) := [\n")
	first = true
	for _, u := range uses {
		if !u.write {
			continue
		}
		if !first {
			b.WriteString(",\n")
		}
		first = false
		fmt.Fprintf(&b, "  (%s, %s)", LeanString(u.field), LeanString(u.fn))
	}
	b.WriteString("]\n\n/-- (option field, accessor function of package config that reads it, caller of the accessor) -/\ndef optionReadersVia : List (String × String × String) := [\n")
	for i, v := range vias {
		if i > 0 {
			b.WriteString(",\n")
		}
		fmt.Fprintf(&b, "  (%s, %s, %s)", LeanString(v.field), LeanString(v.acc), LeanString(v.caller))
	}
	b.WriteString("]\n\n")
	fmt.Fprintf(&b, "def unparsed : Bool := %v\n", len(problems) > 0)
	for _, p := range problems {
		fmt.Fprintf(&b, "-- problem: %s\n", strings.ReplaceAll(p, "\n", " "))
	}
	b.WriteString("\nend Argot.Gen.T9b\n")
	return ctx.WriteLean("T9bOptionReaders.lean", b.String())
}
