// T5: analysis/dataflow/builtins.go
//   isHandledBuiltinCall : which callee names are declared "handled" (no call node is made for them),
//                          under which arity guard, and HOW the callee is identified
//                          (switch on Value.Name()  vs  a type assertion to *ssa.Builtin);
//   doBuiltinCall        : per name, the arity guard around the transfers and the
//                          (source operand -> destination) pairs handed to simpleTransfer.
//
// -> lean/Argot/Gen/T5Builtins.lean, namespace Argot.Gen.T5 (types in Argot/Model/BuiltinTable.lean).
// Used by C08 (`builtin_table_covers`, Props/C08Table.lean) and C01.
// The translator never guesses: any statement form it does not know makes it fail.
package main

import (
	"fmt"
	"go/ast"
	"go/parser"
	"go/printer"
	"go/token"
	"strconv"
	"strings"
)

func init() {
	register("T5", "dataflow/builtins.go (isHandledBuiltinCall, doBuiltinCall) -> Gen/T5Builtins.lean", genT5)
}

func t5text(fset *token.FileSet, n ast.Node) string {
	var b strings.Builder
	printer.Fprint(&b, fset, n)
	return strings.Join(strings.Fields(b.String()), " ")
}

type t5row struct {
	names     []string
	arity     int // -1 = no guard
	transfers [][2]string
}

func t5findFunc(f *ast.File, name string) *ast.FuncDecl {
	for _, d := range f.Decls {
		if fd, ok := d.(*ast.FuncDecl); ok && fd.Recv == nil && fd.Name.Name == name {
			return fd
		}
	}
	return nil
}

// the switch on `<x>.Name()` of a function body
func t5nameSwitch(fset *token.FileSet, fd *ast.FuncDecl) (*ast.SwitchStmt, string) {
	var sw *ast.SwitchStmt
	ast.Inspect(fd.Body, func(n ast.Node) bool {
		if s, ok := n.(*ast.SwitchStmt); ok && sw == nil && s.Tag != nil {
			sw = s
			return false
		}
		return true
	})
	if sw == nil {
		return nil, ""
	}
	return sw, t5text(fset, sw.Tag)
}

func t5caseNames(cc *ast.CaseClause) ([]string, error) {
	var names []string
	for _, e := range cc.List {
		lit, ok := e.(*ast.BasicLit)
		if !ok || lit.Kind != token.STRING {
			return nil, fmt.Errorf("case label is not a string literal")
		}
		s, err := strconv.Unquote(lit.Value)
		if err != nil {
			return nil, err
		}
		names = append(names, s)
	}
	return names, nil
}

func t5isReturnBool(s ast.Stmt, want string) bool {
	r, ok := s.(*ast.ReturnStmt)
	if !ok || len(r.Results) != 1 {
		return false
	}
	id, ok := r.Results[0].(*ast.Ident)
	return ok && id.Name == want
}

// `len(<x>.Args) == N`
func t5arityGuard(fset *token.FileSet, e ast.Expr) (int, bool) {
	b, ok := e.(*ast.BinaryExpr)
	if !ok || b.Op != token.EQL {
		return 0, false
	}
	c, ok := b.X.(*ast.CallExpr)
	if !ok || len(c.Args) != 1 {
		return 0, false
	}
	if id, ok := c.Fun.(*ast.Ident); !ok || id.Name != "len" {
		return 0, false
	}
	if !strings.HasSuffix(t5text(fset, c.Args[0]), ".Args") {
		return 0, false
	}
	lit, ok := b.Y.(*ast.BasicLit)
	if !ok || lit.Kind != token.INT {
		return 0, false
	}
	n, err := strconv.Atoi(lit.Value)
	return n, err == nil
}

// the special default clause: `if <c>.IsInvoke() && <c>.Method.Name() == "Error" && len(<c>.Args) == 0 { ... }`
func t5isErrorSpecial(fset *token.FileSet, s ast.Stmt) (*ast.IfStmt, bool) {
	ifs, ok := s.(*ast.IfStmt)
	if !ok || ifs.Else != nil || ifs.Init != nil {
		return nil, false
	}
	c := t5text(fset, ifs.Cond)
	if strings.Contains(c, "IsInvoke()") && strings.Contains(c, `Method.Name() == "Error"`) && strings.Contains(c, "Args) == 0") &&
		!strings.Contains(c, "||") {
		return ifs, true
	}
	return nil, false
}

func t5stmts(body []ast.Stmt) []ast.Stmt {
	var r []ast.Stmt
	for _, s := range body {
		if _, ok := s.(*ast.EmptyStmt); ok {
			continue
		}
		r = append(r, s)
	}
	return r
}

// operand of simpleTransfer -> Ref
func t5ref(fset *token.FileSet, e ast.Expr, env map[string]string, common string) (string, error) {
	switch x := e.(type) {
	case *ast.Ident:
		if r, ok := env[x.Name]; ok {
			return r, nil
		}
		if x.Name == "callValue" {
			return ".result", nil
		}
	case *ast.IndexExpr:
		if t5text(fset, x.X) == common+".Args" {
			if lit, ok := x.Index.(*ast.BasicLit); ok && lit.Kind == token.INT {
				return "(.arg " + lit.Value + ")", nil
			}
		}
	case *ast.SelectorExpr:
		if t5text(fset, x) == common+".Value" {
			return ".recv", nil
		}
	}
	return "", fmt.Errorf("unknown transfer operand %q", t5text(fset, e))
}

// transfers of a statement list (assignments `x := common.Args[k]`, simpleTransfer calls, range loops over Args)
func t5transfers(fset *token.FileSet, body []ast.Stmt, env map[string]string, common string) ([][2]string, error) {
	var out [][2]string
	for _, s := range t5stmts(body) {
		switch x := s.(type) {
		case *ast.AssignStmt:
			if len(x.Lhs) != 1 || len(x.Rhs) != 1 || x.Tok != token.DEFINE {
				return nil, fmt.Errorf("unknown assignment %q", t5text(fset, s))
			}
			id, ok := x.Lhs[0].(*ast.Ident)
			if !ok {
				return nil, fmt.Errorf("unknown assignment %q", t5text(fset, s))
			}
			r, err := t5ref(fset, x.Rhs[0], env, common)
			if err != nil {
				return nil, err
			}
			env[id.Name] = r
		case *ast.ExprStmt:
			c, ok := x.X.(*ast.CallExpr)
			if !ok {
				return nil, fmt.Errorf("unknown statement %q", t5text(fset, s))
			}
			fn, ok := c.Fun.(*ast.Ident)
			if !ok || fn.Name != "simpleTransfer" || len(c.Args) != 4 {
				return nil, fmt.Errorf("unknown call %q (only simpleTransfer is understood)", t5text(fset, s))
			}
			a, err := t5ref(fset, c.Args[2], env, common)
			if err != nil {
				return nil, err
			}
			b, err := t5ref(fset, c.Args[3], env, common)
			if err != nil {
				return nil, err
			}
			out = append(out, [2]string{a, b})
		case *ast.RangeStmt:
			if t5text(fset, x.X) != common+".Args" || x.Value == nil {
				return nil, fmt.Errorf("unknown loop %q", t5text(fset, s))
			}
			v, ok := x.Value.(*ast.Ident)
			if !ok {
				return nil, fmt.Errorf("unknown loop %q", t5text(fset, s))
			}
			env2 := map[string]string{}
			for k, r := range env {
				env2[k] = r
			}
			env2[v.Name] = ".allArgs"
			ts, err := t5transfers(fset, x.Body.List, env2, common)
			if err != nil {
				return nil, err
			}
			out = append(out, ts...)
		default:
			return nil, fmt.Errorf("unknown statement %q", t5text(fset, s))
		}
	}
	return out, nil
}

func genT5(ctx *Ctx) error {
	fset := token.NewFileSet()
	file, err := parser.ParseFile(fset, ctx.RepoFile("analysis/dataflow/builtins.go"), nil, parser.ParseComments)
	if err != nil {
		return err
	}
	isH, doB := t5findFunc(file, "isHandledBuiltinCall"), t5findFunc(file, "doBuiltinCall")
	if isH == nil || doB == nil {
		return fmt.Errorf("isHandledBuiltinCall / doBuiltinCall not found in builtins.go")
	}
	// identification
	byType := false
	for _, fd := range []*ast.FuncDecl{isH, doB} {
		ast.Inspect(fd.Body, func(n ast.Node) bool {
			if ta, ok := n.(*ast.TypeAssertExpr); ok && ta.Type != nil && t5text(fset, ta.Type) == "*ssa.Builtin" {
				byType = true
			}
			return true
		})
	}
	swH, tagH := t5nameSwitch(fset, isH)
	swD, tagD := t5nameSwitch(fset, doB)
	if swH == nil || swD == nil {
		return fmt.Errorf("name switch not found")
	}
	byName := strings.HasSuffix(tagH, ".Name()") && strings.HasSuffix(tagD, ".Name()")
	if !byName {
		return fmt.Errorf("the switches are not on <value>.Name(): %q / %q", tagH, tagD)
	}
	commonD := strings.TrimSuffix(tagD, ".Value.Name()")

	// handled list
	var handled []t5row
	for _, st := range swH.Body.List {
		cc := st.(*ast.CaseClause)
		body := t5stmts(cc.Body)
		if cc.List == nil { // default
			if len(body) == 2 && t5isReturnBool(body[1], "false") {
				if ifs, ok := t5isErrorSpecial(fset, body[0]); ok && len(ifs.Body.List) == 1 && t5isReturnBool(ifs.Body.List[0], "true") {
					handled = append(handled, t5row{names: []string{"Error"}, arity: -1})
					continue
				}
			}
			if len(body) == 1 && t5isReturnBool(body[0], "false") {
				continue
			}
			return fmt.Errorf("isHandledBuiltinCall: default clause not understood")
		}
		names, err := t5caseNames(cc)
		if err != nil {
			return fmt.Errorf("isHandledBuiltinCall: %v", err)
		}
		switch {
		case len(body) == 1 && t5isReturnBool(body[0], "true"):
			handled = append(handled, t5row{names: names, arity: -1})
		case len(body) == 2 && t5isReturnBool(body[1], "false"):
			ifs, ok := body[0].(*ast.IfStmt)
			if !ok || ifs.Else != nil || len(ifs.Body.List) != 1 || !t5isReturnBool(ifs.Body.List[0], "true") {
				return fmt.Errorf("isHandledBuiltinCall: case %v not understood", names)
			}
			n, ok := t5arityGuard(fset, ifs.Cond)
			if !ok {
				return fmt.Errorf("isHandledBuiltinCall: guard of case %v not understood", names)
			}
			handled = append(handled, t5row{names: names, arity: n})
		default:
			return fmt.Errorf("isHandledBuiltinCall: case %v not understood", names)
		}
	}

	// transfers
	var rows []t5row
	for _, st := range swD.Body.List {
		cc := st.(*ast.CaseClause)
		body := t5stmts(cc.Body)
		if cc.List == nil { // default
			if len(body) == 2 && t5isReturnBool(body[1], "false") {
				if ifs, ok := t5isErrorSpecial(fset, body[0]); ok {
					inner := t5stmts(ifs.Body.List)
					if len(inner) >= 1 && t5isReturnBool(inner[len(inner)-1], "true") {
						ts, err := t5transfers(fset, inner[:len(inner)-1], map[string]string{}, commonD)
						if err != nil {
							return fmt.Errorf("doBuiltinCall default: %v", err)
						}
						rows = append(rows, t5row{names: []string{"Error"}, arity: -1, transfers: ts})
						continue
					}
				}
			}
			if len(body) == 1 && t5isReturnBool(body[0], "false") {
				continue
			}
			return fmt.Errorf("doBuiltinCall: default clause not understood")
		}
		names, err := t5caseNames(cc)
		if err != nil {
			return fmt.Errorf("doBuiltinCall: %v", err)
		}
		n := len(body)
		switch {
		case n >= 1 && t5isReturnBool(body[n-1], "true"):
			ts, err := t5transfers(fset, body[:n-1], map[string]string{}, commonD)
			if err != nil {
				return fmt.Errorf("doBuiltinCall case %v: %v", names, err)
			}
			rows = append(rows, t5row{names: names, arity: -1, transfers: ts})
		case n == 2 && t5isReturnBool(body[1], "false"):
			ifs, ok := body[0].(*ast.IfStmt)
			if !ok || ifs.Else != nil || ifs.Init != nil {
				return fmt.Errorf("doBuiltinCall: case %v not understood", names)
			}
			g, ok := t5arityGuard(fset, ifs.Cond)
			inner := t5stmts(ifs.Body.List)
			if !ok || len(inner) == 0 || !t5isReturnBool(inner[len(inner)-1], "true") {
				return fmt.Errorf("doBuiltinCall: guard of case %v not understood", names)
			}
			ts, err := t5transfers(fset, inner[:len(inner)-1], map[string]string{}, commonD)
			if err != nil {
				return fmt.Errorf("doBuiltinCall case %v: %v", names, err)
			}
			rows = append(rows, t5row{names: names, arity: g, transfers: ts})
		default:
			return fmt.Errorf("doBuiltinCall: case %v not understood", names)
		}
	}

	var b strings.Builder
	b.WriteString("-- GENERATED by harness/extract (T5) from analysis/dataflow/builtins.go — do not edit, never committed.\n")
	b.WriteString("import Argot.Model.BuiltinTable\n\nnamespace Argot.Gen.T5\nopen Argot.BuiltinTable\n\n")
	fmt.Fprintf(&b, "/-- the switches are on `<callee>.Name()` -/\ndef identifiedByName : Bool := %v\n", byName)
	fmt.Fprintf(&b, "/-- some type assertion to `*ssa.Builtin` guards the name switch -/\ndef identifiedByType : Bool := %v\n\n", byType)
	ar := func(n int) string {
		if n < 0 {
			return "none"
		}
		return fmt.Sprintf("(some %d)", n)
	}
	strs := func(xs []string) string {
		var q []string
		for _, x := range xs {
			q = append(q, LeanString(x))
		}
		return "[" + strings.Join(q, ", ") + "]"
	}
	b.WriteString("/-- isHandledBuiltinCall: (names, arity guard) -/\ndef handled : List Handled := [\n")
	for i, h := range handled {
		sep := ","
		if i == len(handled)-1 {
			sep = ""
		}
		fmt.Fprintf(&b, "  ⟨%s, %s⟩%s\n", strs(h.names), ar(h.arity), sep)
	}
	b.WriteString("]\n\n/-- doBuiltinCall: (names, arity guard around the transfers, simpleTransfer (source, destination) pairs) -/\ndef rows : List Row := [\n")
	for i, r := range rows {
		sep := ","
		if i == len(rows)-1 {
			sep = ""
		}
		var ts []string
		for _, t := range r.transfers {
			ts = append(ts, "("+t[0]+", "+t[1]+")")
		}
		fmt.Fprintf(&b, "  ⟨%s, %s, [%s]⟩%s\n", strs(r.names), ar(r.arity), strings.Join(ts, ", "), sep)
	}
	b.WriteString("]\n\nend Argot.Gen.T5\n")
	return ctx.WriteLean("T5Builtins.lean", b.String())
}
