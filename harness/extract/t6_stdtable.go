// T6: analysis/summaries/*.go (stdPackages, every summaryX map, the named Summary variables) +
// the go/types signature of every entry that resolves in the installed standard library
// -> lean/Argot/Gen/StdTable.lean (Argot.Gen.stdTable …).
//
// The table is read with go/ast only (the maps are unexported); nothing is executed. Forms
// understood for a map value: a composite literal with two positional elements (Args, Rets), a
// composite literal with `Args:`/`Rets:` keys, or the name of a package-level `Summary` variable
// whose initialiser is such a literal. Anything else makes the generator fail (never guessed).
package main

import (
	"fmt"
	"go/ast"
	"go/parser"
	"go/token"
	"go/types"
	"os"
	"path/filepath"
	"sort"
	"strconv"
	"strings"

	"golang.org/x/tools/go/packages"
)

func init() {
	register("T6", "analysis/summaries/*.go + go/types signatures -> Gen/StdTable.lean", genT6)
}

type t6Summary struct {
	Args, Rets [][]int
}

type t6Entry struct {
	Table string // Go variable holding the map
	Key   string
	S     t6Summary
	// resolution
	Resolved bool
	Why      string // when not resolved
	NParams  int
	NResults int
	Ptr      []bool
	SigText  string
}

func t6IntMatrix(e ast.Expr) ([][]int, error) {
	cl, ok := e.(*ast.CompositeLit)
	if !ok {
		return nil, fmt.Errorf("expected [][]int literal, got %T", e)
	}
	out := [][]int{}
	for _, row := range cl.Elts {
		rl, ok := row.(*ast.CompositeLit)
		if !ok {
			return nil, fmt.Errorf("expected []int row literal, got %T", row)
		}
		r := []int{}
		for _, x := range rl.Elts {
			neg := false
			if u, ok := x.(*ast.UnaryExpr); ok && u.Op == token.SUB {
				neg = true
				x = u.X
			}
			bl, ok := x.(*ast.BasicLit)
			if !ok || bl.Kind != token.INT {
				return nil, fmt.Errorf("expected integer literal, got %T", x)
			}
			n, err := strconv.ParseInt(bl.Value, 0, 64)
			if err != nil {
				return nil, err
			}
			if neg {
				n = -n
			}
			r = append(r, int(n))
		}
		out = append(out, r)
	}
	return out, nil
}

// t6SummaryLit reads Summary{…} / {…} (type elided inside the map literal).
func t6SummaryLit(cl *ast.CompositeLit) (t6Summary, error) {
	var s t6Summary
	var err error
	if len(cl.Elts) == 0 {
		return s, nil // Summary{}: nil matrices
	}
	if _, keyed := cl.Elts[0].(*ast.KeyValueExpr); keyed {
		for _, el := range cl.Elts {
			kv, ok := el.(*ast.KeyValueExpr)
			if !ok {
				return s, fmt.Errorf("mixed keyed/positional Summary literal")
			}
			name, ok := kv.Key.(*ast.Ident)
			if !ok {
				return s, fmt.Errorf("unexpected key %T in Summary literal", kv.Key)
			}
			switch name.Name {
			case "Args":
				s.Args, err = t6IntMatrix(kv.Value)
			case "Rets":
				s.Rets, err = t6IntMatrix(kv.Value)
			default:
				err = fmt.Errorf("unknown Summary field %s (the struct changed: update the model)", name.Name)
			}
			if err != nil {
				return s, err
			}
		}
		return s, nil
	}
	if len(cl.Elts) != 2 {
		return s, fmt.Errorf("positional Summary literal with %d elements (expected Args, Rets)", len(cl.Elts))
	}
	if s.Args, err = t6IntMatrix(cl.Elts[0]); err != nil {
		return s, err
	}
	s.Rets, err = t6IntMatrix(cl.Elts[1])
	return s, err
}

func t6ParseTable(ctx *Ctx) (pkgs [][2]string, entries []*t6Entry, err error) {
	dir := ctx.RepoFile("analysis/summaries")
	fset := token.NewFileSet()
	names, err := filepath.Glob(filepath.Join(dir, "*.go"))
	if err != nil {
		return nil, nil, err
	}
	sort.Strings(names)
	// the field order of `Summary` fixes the meaning of positional literals
	var files []*ast.File
	for _, n := range names {
		if strings.HasSuffix(n, "_test.go") {
			continue
		}
		f, err := parser.ParseFile(fset, n, nil, parser.SkipObjectResolution)
		if err != nil {
			return nil, nil, err
		}
		files = append(files, f)
	}
	vars := map[string]ast.Expr{} // package-level var name -> initialiser
	var summaryFields []string
	for _, f := range files {
		for _, d := range f.Decls {
			gd, ok := d.(*ast.GenDecl)
			if !ok {
				continue
			}
			for _, sp := range gd.Specs {
				switch x := sp.(type) {
				case *ast.ValueSpec:
					if gd.Tok == token.VAR && len(x.Names) == len(x.Values) {
						for i, nm := range x.Names {
							if _, dup := vars[nm.Name]; dup {
								// build-tagged alternatives (always_summarize*.go) are not part of the table
								continue
							}
							vars[nm.Name] = x.Values[i]
						}
					}
				case *ast.TypeSpec:
					if x.Name.Name == "Summary" {
						st, ok := x.Type.(*ast.StructType)
						if !ok {
							return nil, nil, fmt.Errorf("type Summary is no longer a struct")
						}
						for _, fl := range st.Fields.List {
							for _, nm := range fl.Names {
								summaryFields = append(summaryFields, nm.Name)
							}
						}
					}
				}
			}
		}
	}
	if strings.Join(summaryFields, ",") != "Args,Rets" {
		return nil, nil, fmt.Errorf("type Summary has fields %v, expected [Args Rets]", summaryFields)
	}
	named := func(e ast.Expr) (t6Summary, error) {
		switch x := e.(type) {
		case *ast.CompositeLit:
			return t6SummaryLit(x)
		case *ast.Ident:
			init, ok := vars[x.Name]
			if !ok {
				return t6Summary{}, fmt.Errorf("unknown Summary variable %s", x.Name)
			}
			cl, ok := init.(*ast.CompositeLit)
			if !ok {
				return t6Summary{}, fmt.Errorf("Summary variable %s is not a literal", x.Name)
			}
			return t6SummaryLit(cl)
		}
		return t6Summary{}, fmt.Errorf("unsupported Summary expression %T", e)
	}
	std, ok := vars["stdPackages"].(*ast.CompositeLit)
	if !ok {
		return nil, nil, fmt.Errorf("stdPackages is not a map literal")
	}
	usedTables := map[string]bool{}
	var tableOrder []string
	for _, el := range std.Elts {
		kv, ok := el.(*ast.KeyValueExpr)
		if !ok {
			return nil, nil, fmt.Errorf("stdPackages element is not key: value")
		}
		k, ok1 := kv.Key.(*ast.BasicLit)
		v, ok2 := kv.Value.(*ast.Ident)
		if !ok1 || !ok2 || k.Kind != token.STRING {
			return nil, nil, fmt.Errorf("stdPackages element is not \"pkg\": ident")
		}
		p, _ := strconv.Unquote(k.Value)
		pkgs = append(pkgs, [2]string{p, v.Name})
		if !usedTables[v.Name] {
			usedTables[v.Name] = true
			tableOrder = append(tableOrder, v.Name)
		}
	}
	for _, tv := range tableOrder {
		ml, ok := vars[tv].(*ast.CompositeLit)
		if !ok {
			return nil, nil, fmt.Errorf("%s is not a map literal", tv)
		}
		seen := map[string]bool{}
		for _, el := range ml.Elts {
			kv, ok := el.(*ast.KeyValueExpr)
			if !ok {
				return nil, nil, fmt.Errorf("%s: element is not key: value", tv)
			}
			k, ok := kv.Key.(*ast.BasicLit)
			if !ok || k.Kind != token.STRING {
				return nil, nil, fmt.Errorf("%s: key is not a string literal", tv)
			}
			key, _ := strconv.Unquote(k.Value)
			if seen[key] {
				return nil, nil, fmt.Errorf("%s: duplicate key %s", tv, key)
			}
			seen[key] = true
			s, err := named(kv.Value)
			if err != nil {
				return nil, nil, fmt.Errorf("%s[%q]: %v", tv, key, err)
			}
			entries = append(entries, &t6Entry{Table: tv, Key: key, S: s})
		}
	}
	return pkgs, entries, nil
}

// pointer-like: a value through which a callee can make data visible to its caller.
func t6PointerLike(t types.Type, depth int) bool {
	if depth > 6 {
		return true
	}
	switch u := t.Underlying().(type) {
	case *types.Pointer, *types.Slice, *types.Map, *types.Chan, *types.Signature, *types.Interface:
		return true
	case *types.Basic:
		return u.Kind() == types.UnsafePointer
	case *types.Struct:
		for i := 0; i < u.NumFields(); i++ {
			if t6PointerLike(u.Field(i).Type(), depth+1) {
				return true
			}
		}
	case *types.Array:
		return t6PointerLike(u.Elem(), depth+1)
	case *types.TypeParam:
		return true
	}
	return false
}

func t6Resolve(e *t6Entry, tableOf map[string]string, loaded map[string]*types.Package) {
	fail := func(f string, a ...any) { e.Resolved, e.Why = false, fmt.Sprintf(f, a...) }
	setSig := func(recv types.Type, sig *types.Signature, owner string) {
		if tableOf[owner] != e.Table {
			fail("function belongs to package %q which maps to table %q, not %s", owner, tableOf[owner], e.Table)
			return
		}
		if sig.TypeParams().Len() > 0 || sig.RecvTypeParams().Len() > 0 {
			fail("generic function: calls resolve to instances whose String() carries type arguments")
			return
		}
		e.Resolved = true
		if recv != nil {
			e.NParams++
			e.Ptr = append(e.Ptr, t6PointerLike(recv, 0))
		}
		for i := 0; i < sig.Params().Len(); i++ {
			e.NParams++
			e.Ptr = append(e.Ptr, t6PointerLike(sig.Params().At(i).Type(), 0))
		}
		e.NResults = sig.Results().Len()
		e.SigText = types.TypeString(sig, nil)
	}
	key := e.Key
	if strings.HasPrefix(key, "(") {
		i := strings.LastIndex(key, ").")
		if i < 0 {
			fail("malformed method key")
			return
		}
		recvText, name := key[1:i], key[i+2:]
		ptr := strings.HasPrefix(recvText, "*")
		recvText = strings.TrimPrefix(recvText, "*")
		j := strings.LastIndex(recvText, ".")
		if j < 0 {
			fail("receiver type without package")
			return
		}
		pkgPath, typeName := recvText[:j], recvText[j+1:]
		pkg := loaded[pkgPath]
		if pkg == nil {
			fail("package %q not in the installed standard library", pkgPath)
			return
		}
		tn, ok := pkg.Scope().Lookup(typeName).(*types.TypeName)
		if !ok {
			fail("no type %s in %s", typeName, pkgPath)
			return
		}
		var recv types.Type = tn.Type()
		if types.IsInterface(recv) {
			fail("abstract interface method: no ssa.Function ever carries this name")
			return
		}
		if ptr {
			recv = types.NewPointer(recv)
		}
		sel := types.NewMethodSet(recv).Lookup(pkg, name)
		if sel == nil {
			fail("no method %s in the method set of %s", name, recvText)
			return
		}
		fn := sel.Obj().(*types.Func)
		owner := pkgPath
		if fn.Pkg() != nil {
			owner = fn.Pkg().Path()
		}
		// a declared method lives in its package; a wrapper (pointer receiver of a value method,
		// promoted method) has no package and PackageNameFromFunction uses the method object's package
		setSig(recv, fn.Type().(*types.Signature), owner)
		return
	}
	j := strings.LastIndex(key, ".")
	if j < 0 {
		fail("key without package qualifier")
		return
	}
	pkgPath, name := key[:j], key[j+1:]
	pkg := loaded[pkgPath]
	if pkg == nil {
		fail("package %q not in the installed standard library", pkgPath)
		return
	}
	if name == "init" {
		// ssa synthesises <pkg>.init for every package
		if tableOf[pkgPath] != e.Table {
			fail("package %q maps to table %q, not %s", pkgPath, tableOf[pkgPath], e.Table)
			return
		}
		e.Resolved, e.SigText = true, "func()"
		return
	}
	fn, ok := pkg.Scope().Lookup(name).(*types.Func)
	if !ok {
		fail("no function %s in %s", name, pkgPath)
		return
	}
	setSig(nil, fn.Type().(*types.Signature), pkgPath)
}

func t6LoadStd(dir string, paths []string) (map[string]*types.Package, error) {
	cfg := &packages.Config{
		Mode: packages.NeedName | packages.NeedFiles | packages.NeedTypes | packages.NeedImports | packages.NeedDeps,
		Env:  append(os.Environ(), "GOFLAGS=-mod=mod", "GOPROXY=off", "GOSUMDB=off", "GOTOOLCHAIN=local", "GOWORK=off"),
		Dir:  dir,
	}
	// `go list` tolerates directories without Go files only with -e (which go/packages passes)
	pkgs, err := packages.Load(cfg, paths...)
	if err != nil {
		return nil, err
	}
	out := map[string]*types.Package{}
	packages.Visit(pkgs, nil, func(p *packages.Package) {
		if p.Types != nil && p.Types.Complete() && len(p.GoFiles)+len(p.CompiledGoFiles) > 0 {
			out[p.PkgPath] = p.Types
		}
	})
	return out, nil
}

func leanMatrix(m [][]int) string {
	var rows []string
	for _, r := range m {
		var xs []string
		for _, x := range r {
			if x < 0 {
				xs = append(xs, fmt.Sprintf("(%d)", x))
			} else {
				xs = append(xs, strconv.Itoa(x))
			}
		}
		rows = append(rows, "["+strings.Join(xs, ", ")+"]")
	}
	return "[" + strings.Join(rows, ", ") + "]"
}

func genT6(ctx *Ctx) error {
	pkgs, entries, err := t6ParseTable(ctx)
	if err != nil {
		return err
	}
	tableOf := map[string]string{}
	var paths []string
	for _, p := range pkgs {
		tableOf[p[0]] = p[1]
		paths = append(paths, p[0])
	}
	loaded, err := t6LoadStd(filepath.Join(ctx.Root, "harness"), paths)
	if err != nil {
		return fmt.Errorf("loading the standard library: %v", err)
	}
	if loaded["strings"] == nil || loaded["fmt"] == nil {
		return fmt.Errorf("standard library did not load (strings/fmt missing)")
	}
	for _, e := range entries {
		t6Resolve(e, tableOf, loaded)
	}
	var b strings.Builder
	b.WriteString("/- GENERATED by `harness/extract T6` from analysis/summaries/*.go and the go/types signatures of the\n")
	b.WriteString("   installed standard library. Regenerated on every check run; never edit, never commit. -/\n")
	b.WriteString("import Argot.Model.Summ\n\nnamespace Argot.Gen\nopen Argot.Summ\n\n")
	const chunk = 40
	nChunks := 0
	for i := 0; i < len(entries); i += chunk {
		fmt.Fprintf(&b, "def stdTable%d : List StdEntry := [\n", nChunks)
		end := min(i+chunk, len(entries))
		for k := i; k < end; k++ {
			e := entries[k]
			sig := "none"
			if e.Resolved {
				sig = fmt.Sprintf("some ⟨%d, %d⟩", e.NParams, e.NResults)
			}
			var ps []string
			for _, p := range e.Ptr {
				ps = append(ps, strconv.FormatBool(p))
			}
			sep := ","
			if k == end-1 {
				sep = ""
			}
			fmt.Fprintf(&b, "  { table := %s, key := %s, summ := ⟨%s, %s⟩, sig := %s, ptr := [%s], note := %s }%s\n",
				LeanString(e.Table), LeanString(e.Key), leanMatrix(e.S.Args), leanMatrix(e.S.Rets), sig,
				strings.Join(ps, ", "), LeanString(e.SigText+e.Why), sep)
		}
		b.WriteString("]\n\n")
		nChunks++
	}
	var cs []string
	for i := 0; i < nChunks; i++ {
		cs = append(cs, fmt.Sprintf("stdTable%d", i))
	}
	fmt.Fprintf(&b, "def stdTableChunks : List (List StdEntry) := [%s]\n\n", strings.Join(cs, ", "))
	fmt.Fprintf(&b, "def stdTable : List StdEntry := %s\n\n", strings.Join(append(cs, "[]"), " ++ "))
	b.WriteString("def stdPackages : List (String × String) := [\n")
	for i, p := range pkgs {
		sep := ","
		if i == len(pkgs)-1 {
			sep = ""
		}
		fmt.Fprintf(&b, "  (%s, %s)%s\n", LeanString(p[0]), LeanString(p[1]), sep)
	}
	b.WriteString("]\n\n")
	var missing []string
	for _, p := range paths {
		if loaded[p] == nil {
			missing = append(missing, LeanString(p))
		}
	}
	fmt.Fprintf(&b, "def stdPackagesNotInstalled : List String := [%s]\n\n", strings.Join(missing, ", "))
	fmt.Fprintf(&b, "def stdTableSize : Nat := %d\n\nend Argot.Gen\n", len(entries))
	return ctx.WriteLean("StdTable.lean", b.String())
}
