// c07prog.go: whole programs for C07 (termination / crash-freedom), deliberately OUTSIDE the soundness
// fragment too: recursion of every kind, recursive data types, unbounded defer loops, generics, body-less
// functions, goroutines, select, labels, huge switches, diamond chains, deep call chains, method values,
// embedded interfaces, reflection, unsafe, range-over-func …
//
// A program is `main` = a pipeline x0 := source(); x1 := f1(x0); …; sink(xn) where every f_i is the entry
// point of one *feature* (a parametrised snippet with its own helper declarations), so tainted data flows
// through every feature and all the inter-procedural machinery is exercised.
package gen

import (
	"fmt"
	"math/rand"
	"sort"
	"strings"
)

// C07Prog is one generated program.
type C07Prog struct {
	Files    map[string]string
	Features []string // names (with parameters) of the features used, in pipeline order
	Std      bool     // imports standard-library packages
	GoVer    string
}

type c07feat struct {
	name    string
	std     []string // imports
	goVer   string   // "" or "1.23"
	extra   map[string]string
	gen     func(r *rand.Rand, k int) (decls string, desc string)
	stdOnly bool
}

func rep(s string, k int) string { return strings.ReplaceAll(s, "§", fmt.Sprint(k)) }

var c07feats = []c07feat{
	{name: "directRec", gen: func(r *rand.Rand, k int) (string, string) {
		n := 1 + r.Intn(6)
		return rep(fmt.Sprintf(`
func f§(s string) string { return rec§(s, %d) }
func rec§(s string, n int) string {
	if n <= 0 {
		return s
	}
	return rec§(s+"r", n-1) + rec§(s, n-2)
}
`, n), k), fmt.Sprint(n)
	}},
	{name: "mutualRec", gen: func(r *rand.Rand, k int) (string, string) {
		m := 2 + r.Intn(4)
		var b strings.Builder
		fmt.Fprintf(&b, "\nfunc f§(s string) string { return mr§_0(s, \"b\", \"c\", 7) }\n")
		for i := 0; i < m; i++ {
			nx := (i + 1) % m
			// rotate the arguments (the lasso shape) and call two different members of the cycle
			fmt.Fprintf(&b, "func mr§_%d(a, b, c string, n int) string {\n\tif n <= 0 {\n\t\treturn a\n\t}\n\tif n%%2 == 0 {\n\t\treturn mr§_%d(c, a, b, n-1)\n\t}\n\treturn mr§_%d(b, c, a, n-1) + mr§_0(a, a, a, n-2)\n}\n", i, nx, (i+2)%m)
		}
		return rep(b.String(), k), fmt.Sprint(m)
	}},
	{name: "closureRec", gen: func(r *rand.Rand, k int) (string, string) {
		v := r.Intn(3)
		switch v {
		case 0:
			return rep(`
func f§(s string) string {
	var g func(string, int) string
	g = func(x string, n int) string {
		if n == 0 {
			return x + s
		}
		return g(x+"c", n-1)
	}
	return g(s, 3)
}
`, k), "selfvar"
		case 1:
			return rep(`
type fix§ func(fix§, string, int) string

func f§(s string) string {
	y := func(h fix§, x string, n int) string {
		if n == 0 {
			return x
		}
		return h(h, x+"y", n-1)
	}
	return y(y, s, 4)
}
`, k), "ycomb"
		default:
			return rep(`
func mk§(s string, n int) func() string {
	if n == 0 {
		return func() string { return s }
	}
	inner := mk§(s+"m", n-1)
	return func() string { return inner() + s }
}
func f§(s string) string { return mk§(s, 3)() }
`, k), "mkclosure"
		}
	}},
	{name: "recTypes", gen: func(r *rand.Rand, k int) (string, string) {
		return rep(`
type list§ struct {
	v    string
	next *list§
}
type tree§ struct {
	v    string
	kids []*tree§
	up   *tree§
	m    map[string]*tree§
}
type ra§ struct{ b *rb§ }
type rb§ struct {
	a *ra§
	s string
	f func(*ra§) *rb§
}
type self§ func(self§) self§
type iface§ interface{ Next() iface§; Val() string }
type inode§ struct {
	n iface§
	v string
}

func (i *inode§) Next() iface§ { return i.n }
func (i *inode§) Val() string  { return i.v }

func f§(s string) string {
	var l *list§
	for i := 0; i < 3; i++ {
		l = &list§{v: s, next: l}
	}
	l.next.next.next = l // cyclic
	t := &tree§{v: s, m: map[string]*tree§{}}
	c := &tree§{v: "c", up: t}
	t.kids = append(t.kids, c, t)
	t.m["self"] = t
	a := &ra§{}
	b := &rb§{a: a, s: s, f: func(x *ra§) *rb§ { return x.b }}
	a.b = b
	var id self§
	id = func(x self§) self§ { return x }
	_ = id(id)
	n := &inode§{v: s}
	n.n = n
	out := ""
	for p, i := l, 0; p != nil && i < 5; p, i = p.next, i+1 {
		out += p.v
	}
	var walk func(*tree§, int) string
	walk = func(x *tree§, d int) string {
		if d > 2 {
			return x.v
		}
		r := x.v
		for _, kk := range x.kids {
			r += walk(kk, d+1)
		}
		return r
	}
	return out + walk(t, 0) + a.b.f(a).s + n.Next().Next().Val()
}
`, k), ""
	}},
	{name: "deferLoop", gen: func(r *rand.Rand, k int) (string, string) {
		v := r.Intn(3)
		switch v {
		case 0:
			return rep(`
func f§(s string) (out string) {
	for i := 0; i < len(s); i++ {
		defer func() { out = out + s }()
	}
	for {
		defer func(x string) { out += x }(s)
		if len(out) >= 0 {
			break
		}
	}
	return "d"
}

var unused§ = fmt.Sprint
`, k), "unbounded"
		case 1:
			return rep(`
func f§(s string) (out string) {
	defer func() {
		if r := recover(); r != nil {
			out = s + fmt.Sprint(r)
		}
	}()
	defer d§(&out, s)
	if len(s) > 100 {
		panic(s)
	}
	for i := range 3 {
		if i == 1 {
			defer d§(&out, "x")
			continue
		}
		defer func() { defer d§(&out, s) }()
	}
	return s
}
func d§(p *string, s string) { *p = *p + s }
`, k), "recover"
		default:
			return rep(`
func f§(s string) (out string) {
	i := 0
top:
	defer func() { out += s }()
	i++
	if i < 3 {
		goto top
	}
	switch i {
	case 3:
		defer func() { out += "3" }()
		fallthrough
	case 4:
		defer func() { out += "4" }()
	default:
		return s
	}
	return
}

var unused§ = fmt.Sprint
`, k), "goto"
		}
	}, std: []string{"fmt"}},
	{name: "generics", gen: func(r *rand.Rand, k int) (string, string) {
		return rep(`
type box§[T any] struct{ v T }

func (b box§[T]) get() T       { return b.v }
func (b *box§[T]) set(x T)     { b.v = x }
func wrap§[T any](b box§[T]) box§[box§[T]] { return box§[box§[T]]{b} }

type gtree§[T any] struct {
	l, r *gtree§[T]
	v    T
}

func (t *gtree§[T]) fold(f func(T, T) T, z T) T {
	if t == nil {
		return z
	}
	return f(t.l.fold(f, z), f(t.v, t.r.fold(f, z)))
}

type strish§ interface{ ~string | ~[]byte }
type named§ string

func conv§[T strish§](x T) []byte  { return []byte(x) }
func conv2§[T strish§](x T) string { return string(x) }
func gmap§[T, U any](xs []T, f func(T) U) []U {
	var out []U
	for _, x := range xs {
		out = append(out, f(x))
	}
	return out
}
func grec§[T any](x T, n int) T {
	if n == 0 {
		return x
	}
	return grec§[T](x, n-1)
}
func gpair§[A any, B any](a A, b B) (B, A) { return b, a }

type num§ interface{ ~int | ~float64 }

func sum§[T num§](xs ...T) T {
	var z T
	for _, x := range xs {
		z += x
	}
	return z
}

type stringer§ interface{ Str() string }
type sv§ struct{ s string }

func (s sv§) Str() string { return s.s }
func show§[T stringer§](x T) string { return x.Str() }
func chanOf§[T any](x T) chan T {
	c := make(chan T, 1)
	c <- x
	return c
}

func f§(s string) string {
	b := box§[string]{s}
	b.set(b.get() + "g")
	bb := wrap§(wrap§(b))
	t := &gtree§[string]{v: s, l: &gtree§[string]{v: "l"}}
	folded := t.fold(func(a, b string) string { return a + b }, "")
	by := conv§(named§(s))
	s2 := conv2§(by)
	parts := gmap§([]string{s, s2}, func(x string) box§[string] { return box§[string]{x} })
	x, _ := gpair§(1, grec§(parts[0].get(), 3))
	_ = sum§(1, 2, 3) + int(sum§(1.5))
	get := bb.get().get().get
	return x + folded + show§(sv§{get()}) + <-chanOf§(s)
}
`, k), ""
	}},
	{name: "bodyless", gen: func(r *rand.Rand, k int) (string, string) {
		return rep(`
// implemented in assembly (stub§.s)
func asm§(s string) string

//go:noescape
func asmp§(p *string, n int) int

func f§(s string) string {
	var fn func(string) string = asm§
	if len(s) > 1000 {
		return fn(s)
	}
	_ = asmp§(&s, 1)
	return s + asm§(s)
}
`, k), ""
	}, extra: map[string]string{"stub§.s": "// empty assembly file: asm§ and asmp§ have no Go body\n"}},
	{name: "linkname", std: []string{"_ unsafe"}, gen: func(r *rand.Rand, k int) (string, string) {
		return rep(`
//go:linkname nanotime§ runtime.nanotime
func nanotime§() int64

func f§(s string) string {
	if nanotime§() < 0 {
		return ""
	}
	return s
}
`, k), ""
	}},
	{name: "goroutines", gen: func(r *rand.Rand, k int) (string, string) {
		return rep(`
type msg§ struct {
	s    string
	back chan string
}

func worker§(in <-chan msg§, done chan<- struct{}) {
	for m := range in {
		m.back <- m.s + "w"
	}
	done <- struct{}{}
}

func f§(s string) string {
	in := make(chan msg§)
	done := make(chan struct{}, 1)
	go worker§(in, done)
	back := make(chan string, 1)
	in <- msg§{s, back}
	r := <-back
	close(in)
	<-done
	res := make(chan string)
	quit := make(chan bool)
	var fn func(int)
	fn = func(n int) {
		if n > 0 {
			go fn(n - 1)
			return
		}
		res <- r
	}
	go fn(2)
	go func() { defer close(quit); quit <- true }()
	out := ""
	for i := 0; i < 2; i++ {
		select {
		case x := <-res:
			out += x
		case q, ok := <-quit:
			if ok && q {
				out += "q"
			}
		case in <- msg§{}:
		default:
			out += s
		}
	}
	return out
}
`, k), ""
	}},
	{name: "syncStd", std: []string{"sync"}, stdOnly: true, gen: func(r *rand.Rand, k int) (string, string) {
		return rep(`
func f§(s string) string {
	var wg sync.WaitGroup
	var mu sync.Mutex
	var once sync.Once
	out := ""
	for i := 0; i < 3; i++ {
		wg.Add(1)
		go func(i int) {
			defer wg.Done()
			mu.Lock()
			defer mu.Unlock()
			once.Do(func() { out += s })
			out += s
		}(i)
	}
	wg.Wait()
	var m sync.Map
	m.Store("k", out)
	v, _ := m.Load("k")
	return v.(string)
}
`, k), ""
	}},
	{name: "labels", gen: func(r *rand.Rand, k int) (string, string) {
		return rep(`
func f§(s string) string {
	out := ""
outer:
	for i := 0; i < 3; i++ {
	inner:
		for j := 0; j < 3; j++ {
			switch {
			case j == 1:
				continue inner
			case i == 1:
				continue outer
			case i == 2 && j == 2:
				break outer
			}
			for _, c := range s {
				if c == 'x' {
					break inner
				}
				out += string(c)
			}
		}
	}
	n := 0
loop:
	if n < 3 {
		n++
		out += s
		goto loop
	}
sel:
	for {
		select {
		default:
			break sel
		}
	}
	return out
}
`, k), ""
	}},
	{name: "hugeSwitch", gen: func(r *rand.Rand, k int) (string, string) {
		n := 40 + r.Intn(160)
		var b strings.Builder
		fmt.Fprintf(&b, "\nfunc f§(s string) string {\n\tout := s\n\tswitch len(s) {\n")
		for i := 0; i < n; i++ {
			fmt.Fprintf(&b, "\tcase %d:\n\t\tout = out + \"%d\"\n", i, i)
		}
		fmt.Fprintf(&b, "\tdefault:\n\t\tout = s\n\t}\n\tswitch s {\n")
		for i := 0; i < n/2; i++ {
			fmt.Fprintf(&b, "\tcase \"k%d\":\n\t\treturn out + s\n", i)
		}
		fmt.Fprintf(&b, "\t}\n\tvar x any = out\n\tswitch v := x.(type) {\n\tcase int:\n\t\treturn \"i\"\n\tcase string:\n\t\treturn v\n\tcase []string, []byte:\n\t\treturn \"sl\"\n\tcase interface{ Str() string }:\n\t\treturn v.Str()\n\tcase nil:\n\t\treturn \"nil\"\n\t}\n\treturn out\n}\n")
		return rep(b.String(), k), fmt.Sprint(n)
	}},
	{name: "diamonds", gen: func(r *rand.Rand, k int) (string, string) {
		// kept short: long chains are the F7 shape (lang.HasPathTo is exponential in their number)
		n := 2 + r.Intn(5)
		var b strings.Builder
		fmt.Fprintf(&b, "\nfunc f§(s string) string {\n\tk := len(s)\n")
		for i := 0; i < n; i++ {
			fmt.Fprintf(&b, "\tif k > %d {\n\t\ts = s + \"a\"\n\t} else {\n\t\ts = s + \"b\"\n\t}\n", i)
		}
		fmt.Fprintf(&b, "\treturn s\n}\n")
		return rep(b.String(), k), fmt.Sprint(n)
	}},
	{name: "deepCalls", gen: func(r *rand.Rand, k int) (string, string) {
		n := 10 + r.Intn(60)
		var b strings.Builder
		fmt.Fprintf(&b, "\nfunc f§(s string) string { return dc§_0(s) }\n")
		for i := 0; i < n; i++ {
			fmt.Fprintf(&b, "func dc§_%d(s string) string { return dc§_%d(s + \"%d\") }\n", i, i+1, i%10)
		}
		fmt.Fprintf(&b, "func dc§_%d(s string) string { return s }\n", n)
		return rep(b.String(), k), fmt.Sprint(n)
	}},
	{name: "methodValues", gen: func(r *rand.Rand, k int) (string, string) {
		return rep(`
type mv§ struct{ s string }

func (m mv§) Get() string           { return m.s }
func (m *mv§) Set(s string)         { m.s = s }
func (m *mv§) Chain(s string) *mv§  { m.s += s; return m }

type getter§ interface{ Get() string }

func apply§(f func() string) string { return f() }

func f§(s string) string {
	m := &mv§{}
	set := m.Set
	set(s)
	get := m.Get
	expr := mv§.Get
	pexpr := (*mv§).Set
	pexpr(m, expr(*m)+"e")
	var g getter§ = m
	ig := g.Get
	iexpr := getter§.Get
	fs := []func() string{get, ig, m.Chain("c").Chain(s).Get, func() string { return iexpr(g) }}
	out := ""
	for _, f := range fs {
		out += apply§(f)
	}
	defer m.Set("z")
	go m.Chain("x")
	return out
}
`, k), ""
	}},
	{name: "embedded", gen: func(r *rand.Rand, k int) (string, string) {
		return rep(`
type rd§ interface{ Read() string }
type wr§ interface{ Write(string) }
type rw§ interface {
	rd§
	wr§
}
type rwc§ interface {
	rw§
	Close() rwc§
}
type base§ struct{ buf string }

func (b *base§) Read() string   { return b.buf }
func (b *base§) Write(s string) { b.buf += s }

type mid§ struct {
	*base§
	name string
}
type top§ struct {
	mid§
	rd§ // embedded interface field
}

func (t top§) Close() rwc§ { return t }

func f§(s string) string {
	b := &base§{}
	t := top§{mid§{b, "m"}, b}
	var x rwc§ = t
	x.Write(s)
	var y rw§ = x.Close()
	var z rd§ = y
	if w, ok := z.(wr§); ok {
		w.Write("w")
	}
	if c, ok := z.(rwc§); ok {
		z = c.Close().Close()
	}
	return z.Read() + t.mid§.base§.Read() + t.rd§.Read()
}
`, k), ""
	}},
	{name: "reflectUnsafe", std: []string{"reflect", "unsafe"}, stdOnly: true, gen: func(r *rand.Rand, k int) (string, string) {
		return rep(`
type ru§ struct {
	A string
	b int
}

func f§(s string) string {
	v := reflect.ValueOf(&ru§{A: s}).Elem()
	f := v.FieldByName("A")
	f.SetString(f.String() + "r")
	t := reflect.TypeOf(s)
	p := unsafe.Pointer(&s)
	s2 := *(*string)(p)
	bs := unsafe.Slice(unsafe.StringData(s2), len(s2))
	s3 := unsafe.String(&bs[0], len(bs))
	type hdr struct {
		p unsafe.Pointer
		n int
	}
	h := (*hdr)(unsafe.Pointer(&s3))
	_ = uintptr(h.p) + unsafe.Sizeof(*h) + unsafe.Offsetof(h.n)
	m := reflect.ValueOf(strings§{}).MethodByName("Up")
	out := m.Call([]reflect.Value{reflect.ValueOf(s3)})
	return out[0].String() + t.Name() + v.Interface().(ru§).A
}

type strings§ struct{}

func (strings§) Up(s string) string { return s + "u" }
`, k), ""
	}},
	{name: "dataShapes", gen: func(r *rand.Rand, k int) (string, string) {
		return rep(`
type ds§ struct {
	a   [3]string
	m   map[string][]string
	f   func(...string) (string, error)
	in  struct{ x, y string }
	arr [2][2]struct{ s string }
	c   complex128
}

func multi§(s string) (a string, b int, c []string, err error) {
	a, b, c = s, len(s), []string{s}
	return
}
func variadic§(pre string, xs ...string) (string, error) {
	for _, x := range xs {
		pre += x
	}
	return pre, nil
}

func f§(s string) string {
	d := ds§{m: map[string][]string{}, f: func(xs ...string) (string, error) { return variadic§("", xs...) }}
	d.a[1] = s
	d.m[s] = append(d.m[s], s, d.a[1])
	d.in.x, d.in.y = d.in.y, s
	d.arr[1][0].s = s
	d.c = complex(1, 2)
	e := d // struct copy
	a, n, c, _ := multi§(e.a[1])
	sl := []string{a, c[0], e.in.y}
	p4 := (*[2]string)(sl[:2])
	arr := [2]string(sl[1:])
	sl2 := append(sl[:1:1], p4[1], arr[0])
	copy(sl2, sl)
	out, _ := d.f(sl2...)
	for i := range n {
		out += sl[i%3]
	}
	for _, rn := range s {
		out += string(rn)
	}
	for kk, v := range d.m {
		out += kk + v[0]
	}
	bs := []byte(out)
	rs := []rune(out)
	out = string(bs[:1]) + string(rs[0]) + e.arr[1][0].s
	out = max(out, s, "m") + min(s, out)
	clear(d.m)
	delete(d.m, s)
	ptr := &d.a[1]
	pp := &ptr
	**pp += out
	return d.a[1] + fmt.Sprint(real(d.c), len(sl2), cap(sl2))
}
`, k), ""
	}, std: []string{"fmt"}},
	{name: "closures", gen: func(r *rand.Rand, k int) (string, string) {
		return rep(`
var glob§ func(string) string
var tbl§ = map[string]func(string) string{"id": func(s string) string { return s }}

type holder§ struct{ fn func(string) func(string) string }

func f§(s string) string {
	var fs []func() string
	for i := 0; i < 3; i++ {
		fs = append(fs, func() string { return s + string(rune('a'+i)) })
	}
	acc := ""
	add := func(x string) func(string) func() string {
		return func(y string) func() string {
			return func() string { acc += x + y; return acc }
		}
	}
	glob§ = func(x string) string { return add(x)(s)() }
	h := holder§{fn: func(a string) func(string) string { return func(b string) string { return a + b + glob§(a) } }}
	tbl§["h"] = h.fn(s)
	out := ""
	for _, f := range fs {
		out += f()
	}
	defer func() { acc += out }()
	func() { out += tbl§["h"](out) }()
	cnt := 0
	counter := func() int { cnt++; return cnt }
	_ = counter() + counter()
	return out + tbl§["id"](acc)
}
`, k), ""
	}},
	{name: "rangeFunc", goVer: "1.23", gen: func(r *rand.Rand, k int) (string, string) {
		return rep(`
func seq§(s string) func(yield func(int, string) bool) {
	return func(yield func(int, string) bool) {
		for i := 0; i < 3; i++ {
			if !yield(i, s) {
				return
			}
		}
	}
}
func seq1§(xs []string) func(func(string) bool) {
	return func(yield func(string) bool) {
		for _, x := range xs {
			defer func() {}()
			if !yield(x) {
				break
			}
		}
	}
}

func f§(s string) (out string) {
	for i, x := range seq§(s) {
		if i == 2 {
			break
		}
		defer func() { out += x }()
		for y := range seq1§([]string{x, s}) {
			if y == "" {
				continue
			}
			out += y
			if len(out) > 100 {
				return out
			}
		}
	}
	return out
}
`, k), ""
	}},
	{name: "panicsInit", gen: func(r *rand.Rand, k int) (string, string) {
		return rep(`
var g§ = initg§("g")
var h§ string

func initg§(s string) string { return s + "i" }
func init()                  { h§ = g§ + initg§(h§) }

type err§ struct{ s string }

func (e *err§) Error() string { return e.s }
func (e *err§) Unwrap() error {
	if e.s == "" {
		return nil
	}
	return &err§{e.s[1:]}
}

func mayPanic§(s string) (r string, err error) {
	defer func() {
		if x := recover(); x != nil {
			if e, ok := x.(error); ok {
				err = e
			}
			r = s
		}
	}()
	if len(s) > 2 {
		panic(&err§{s})
	}
	var m map[string]string
	m[s] = s // nil map write
	return m[s], nil
}

func f§(s string) string {
	r, err := mayPanic§(s + g§ + h§)
	for e := err; e != nil; {
		u, ok := e.(interface{ Unwrap() error })
		if !ok {
			break
		}
		r += e.Error()
		e = u.Unwrap()
	}
	return r
}
`, k), ""
	}},
	{name: "ifaceRec", gen: func(r *rand.Rand, k int) (string, string) {
		return rep(`
type visitor§ interface{ Visit(n *vnode§) visitor§ }
type vnode§ struct {
	s    string
	kids []*vnode§
}
type coll§ struct{ acc *string }

func (c coll§) Visit(n *vnode§) visitor§ {
	if n == nil {
		return nil
	}
	*c.acc += n.s
	return c
}

type skip§ struct{ inner visitor§ }

func (s skip§) Visit(n *vnode§) visitor§ { return s.inner.Visit(n) }

func walk§(v visitor§, n *vnode§) {
	if v = v.Visit(n); v == nil {
		return
	}
	for _, kk := range n.kids {
		walk§(v, kk)
	}
	v.Visit(nil)
}

func f§(s string) string {
	acc := ""
	root := &vnode§{s, []*vnode§{{s + "1", nil}, {"2", []*vnode§{{s, nil}}}}}
	walk§(skip§{skip§{coll§{&acc}}}, root)
	return acc
}
`, k), ""
	}},
	{name: "arrayValues", gen: func(r *rand.Rand, k int) (string, string) {
		return rep(`
type pair§ [2]*string
type wrap§ struct {
	p pair§
	q [1]struct{ s *string }
}

func zero§() pair§ { return pair§{} }
func mkp§(s *string) pair§ {
	var a pair§
	a[0] = s
	return a
}

func f§(s string) string {
	a := mkp§(&s)
	b := zero§()
	pa := &a
	*pa = b
	*pa = mkp§(&s)
	var w wrap§
	w.p = *pa
	w.q[0].s = a[1]
	c := [2]pair§{a, w.p}
	m := map[string]pair§{"k": a}
	ch := make(chan pair§, 1)
	ch <- m["k"]
	d := <-ch
	go func(x pair§) { _ = x }(d)
	if c[0] == c[1] && d[0] != nil {
		return *c[1][0] + *d[0]
	}
	for _, e := range c {
		if e[0] != nil {
			return *e[0]
		}
	}
	return s
}
`, k), ""
	}},
	{name: "stdStrings", std: []string{"strings", "fmt", "strconv", "errors"}, stdOnly: true, gen: func(r *rand.Rand, k int) (string, string) {
		return rep(`
func f§(s string) string {
	var sb strings.Builder
	sb.WriteString(s)
	fmt.Fprintf(&sb, "%s-%d", s, len(s))
	parts := strings.Split(sb.String(), "-")
	n, err := strconv.Atoi(parts[len(parts)-1])
	if err != nil {
		return errors.Join(err, errors.New(s)).Error()
	}
	return strings.Repeat(strings.ToUpper(parts[0]), n%3) + strings.Join(parts, s) + fmt.Sprint(parts)
}
`, k), ""
	}},
}

// C07FeatureNames lists the feature names (for coverage accounting).
func C07FeatureNames() []string {
	var ns []string
	for _, f := range c07feats {
		ns = append(ns, f.name)
	}
	sort.Strings(ns)
	return ns
}

// GenC07Program draws nFeat features (allowStd: may import the standard library). forced (optional)
// names a feature that must be part of the program.
func GenC07Program(r *rand.Rand, nFeat int, allowStd bool, forced string) C07Prog {
	var chosen []c07feat
	if forced != "" {
		for _, f := range c07feats {
			if f.name == forced {
				chosen = append(chosen, f)
			}
		}
	}
	for len(chosen) < nFeat {
		f := c07feats[r.Intn(len(c07feats))]
		if !allowStd && len(f.std) > 0 && !(len(f.std) == 1 && f.std[0] == "_ unsafe") {
			continue
		}
		chosen = append(chosen, f)
	}
	r.Shuffle(len(chosen), func(i, j int) { chosen[i], chosen[j] = chosen[j], chosen[i] })
	p := C07Prog{Files: map[string]string{}, GoVer: "1.22"}
	imports := map[string]bool{}
	var body, pipe strings.Builder
	pipe.WriteString("\nfunc main() {\n\tx0 := source()\n")
	for i, f := range chosen {
		k := i + 1
		decls, desc := f.gen(r, k)
		body.WriteString(decls)
		for _, im := range f.std {
			imports[im] = true
			if im != "_ unsafe" {
				p.Std = true
			}
		}
		if f.goVer > p.GoVer {
			p.GoVer = f.goVer
		}
		for name, content := range f.extra {
			p.Files[rep(name, k)] = rep(content, k)
		}
		name := f.name
		if desc != "" {
			name += "(" + desc + ")"
		}
		p.Features = append(p.Features, name)
		fmt.Fprintf(&pipe, "\tx%d := f%d(x%d)\n", k, k, k-1)
		// every second feature is additionally reached through a function value and a goroutine
		if r.Intn(3) == 0 {
			fmt.Fprintf(&pipe, "\tfv%d := f%d\n\tgo fv%d(x%d)\n\tsink(fv%d(x0))\n", k, k, k, k, k)
		}
	}
	fmt.Fprintf(&pipe, "\tsink(x%d)\n}\n", len(chosen))
	var hdr strings.Builder
	hdr.WriteString("package main\n\n")
	if len(imports) > 0 {
		var ims []string
		for im := range imports {
			ims = append(ims, im)
		}
		sort.Strings(ims)
		hdr.WriteString("import (\n")
		for _, im := range ims {
			if strings.HasPrefix(im, "_ ") {
				fmt.Fprintf(&hdr, "\t_ %q\n", im[2:])
			} else {
				fmt.Fprintf(&hdr, "\t%q\n", im)
			}
		}
		hdr.WriteString(")\n\n")
	}
	hdr.WriteString("func source() string { return \"tainted\" }\nfunc sink(s string)   { println(s) }\n")
	p.Files["main.go"] = hdr.String() + body.String() + pipe.String()
	p.Files["go.mod"] = "module c07p\n\ngo " + p.GoVer + "\n"
	return p
}
